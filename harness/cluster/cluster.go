// Package cluster runs real leader and follower controllers of one shard in one process, connected by
// an in-memory replication transport, so that a script can drive elections, restarts, snapshot
// transfers and writes, and observe every replica's database.
package cluster

import (
	"context"
	"errors"
	"fmt"
	"io"
	"os"
	"path/filepath"
	"sync"
	"sync/atomic"
	"time"

	"google.golang.org/grpc/metadata"

	"github.com/oxia-db/oxia/common/concurrent"
	"github.com/oxia-db/oxia/common/constant"
	"github.com/oxia-db/oxia/proto"
	"github.com/oxia-db/oxia/server"
	"github.com/oxia-db/oxia/server/kv"
	"github.com/oxia-db/oxia/server/wal"
)

const Shard int64 = 7

// nodeConfig: the notification batches are garbage collected by wall-clock age on every replica on its
// own; with a long retention no replica trims during a script
var nodeConfig = server.Config{NotificationsRetentionTime: time.Hour}

// ---- in-memory streams ----

type baseStream struct{ ctx context.Context }

func (b baseStream) Context() context.Context   { return b.ctx }
func (baseStream) Header() (metadata.MD, error) { return nil, nil }
func (baseStream) Trailer() metadata.MD         { return nil }
func (baseStream) CloseSend() error             { return nil }
func (baseStream) SendMsg(any) error            { return nil }
func (baseStream) RecvMsg(any) error            { return nil }
func (baseStream) SetHeader(metadata.MD) error  { return nil }
func (baseStream) SendHeader(metadata.MD) error { return nil }
func (baseStream) SetTrailer(metadata.MD)       {}

var errStreamClosed = errors.New("stream closed")

// replicate stream: appends leader -> follower, acks follower -> leader
type replPipe struct {
	ctx     context.Context
	cancel  context.CancelFunc
	appends chan *proto.Append
	acks    chan *proto.Ack
}

type replClient struct {
	baseStream
	p *replPipe
}

func (c *replClient) Send(a *proto.Append) error {
	select {
	case c.p.appends <- a:
		return nil
	case <-c.p.ctx.Done():
		return errStreamClosed
	}
}

func (c *replClient) Recv() (*proto.Ack, error) {
	select {
	case a := <-c.p.acks:
		return a, nil
	case <-c.p.ctx.Done():
		return nil, errStreamClosed
	}
}

func (c *replClient) CloseSend() error { c.p.cancel(); return nil }

type replServer struct {
	baseStream
	p *replPipe
}

func (s *replServer) Send(a *proto.Ack) error {
	select {
	case s.p.acks <- a:
		return nil
	case <-s.p.ctx.Done():
		return errStreamClosed
	}
}

func (s *replServer) Recv() (*proto.Append, error) {
	select {
	case a := <-s.p.appends:
		return a, nil
	case <-s.p.ctx.Done():
		return nil, io.EOF
	}
}

// snapshot stream
type snapPipe struct {
	ctx    context.Context
	cancel context.CancelFunc
	chunks chan *proto.SnapshotChunk
	done   chan struct{} // closed by the client after the last chunk
	resp   chan *proto.SnapshotResponse
}

type snapClient struct {
	baseStream
	p *snapPipe
}

func (c *snapClient) Send(ch *proto.SnapshotChunk) error {
	select {
	case c.p.chunks <- ch:
		return nil
	case <-c.p.ctx.Done():
		return errStreamClosed
	}
}

func (c *snapClient) CloseAndRecv() (*proto.SnapshotResponse, error) {
	close(c.p.done)
	select {
	case r := <-c.p.resp:
		return r, nil
	case <-c.p.ctx.Done():
		return nil, errStreamClosed
	}
}

type snapServer struct {
	baseStream
	p *snapPipe
}

func (s *snapServer) Recv() (*proto.SnapshotChunk, error) {
	select {
	case ch := <-s.p.chunks:
		return ch, nil
	default:
	}
	select {
	case ch := <-s.p.chunks:
		return ch, nil
	case <-s.p.done:
		// drain what was sent before the close
		select {
		case ch := <-s.p.chunks:
			return ch, nil
		default:
			return nil, io.EOF
		}
	case <-s.p.ctx.Done():
		return nil, errStreamClosed
	}
}

func (s *snapServer) SendAndClose(r *proto.SnapshotResponse) error {
	select {
	case s.p.resp <- r:
		return nil
	case <-s.p.ctx.Done():
		return errStreamClosed
	}
}

// ---- nodes ----

type Node struct {
	Name     string
	dir      string
	walf     wal.Factory
	kvf      kv.Factory
	Leader   server.LeaderController
	Follower server.FollowerController
	Down     bool
}

type Cluster struct {
	mu         sync.Mutex
	dir        string
	Nodes      []*Node
	Term       int64
	RF         uint32
	Notif      bool
	LastLeader string
	// DropAppends, when set, makes the transport refuse new replicate streams to that node
	partitioned map[string]bool
	pipes       map[string][]context.CancelFunc // active streams towards a node
}

func New() (*Cluster, error) {
	dir, err := os.MkdirTemp("", "oxv-cluster-")
	if err != nil {
		return nil, err
	}
	return &Cluster{dir: dir, partitioned: map[string]bool{}, pipes: map[string][]context.CancelFunc{}}, nil
}

func (c *Cluster) Close() {
	for _, n := range c.Nodes {
		c.stop(n)
		if n.kvf != nil {
			_ = n.kvf.Close()
		}
		if n.walf != nil {
			_ = n.walf.Close()
		}
	}
	_ = os.RemoveAll(c.dir)
}

func (c *Cluster) stop(n *Node) {
	// leaderController.list hands out its result before closing the iterator
	time.Sleep(2 * time.Millisecond)
	if n.Leader != nil {
		_ = n.Leader.Close()
		n.Leader = nil
	}
	if n.Follower != nil {
		_ = n.Follower.Close()
		n.Follower = nil
	}
}

// AddNode creates the storage of a new node and starts it as a follower (not a member yet).
func (c *Cluster) AddNode() (*Node, error) {
	c.mu.Lock()
	defer c.mu.Unlock()
	n := &Node{Name: fmt.Sprintf("n%d", len(c.Nodes))}
	n.dir = fmt.Sprintf("%s/%s", c.dir, n.Name)
	var err error
	if n.kvf, err = kv.NewPebbleKVFactory(&kv.FactoryOptions{DataDir: n.dir + "/db", InMemory: false, CacheSizeMB: 1}); err != nil {
		return nil, err
	}
	// real WALs with an injected clock and a trimmer that runs when the harness says so (TrimAll); small segments,
	// so that the scripts roll over
	n.walf = NewTrimWalFactory(&wal.FactoryOptions{BaseWalDir: n.dir + "/wal", SegmentSize: 8 * 1024, SyncData: false, Retention: time.Hour})
	if n.Follower, err = server.NewFollowerController(nodeConfig, constant.DefaultNamespace, Shard, n.walf, n.kvf); err != nil {
		return nil, err
	}
	c.Nodes = append(c.Nodes, n)
	return n, nil
}

func (c *Cluster) node(name string) *Node {
	for _, n := range c.Nodes {
		if n.Name == name {
			return n
		}
	}
	return nil
}

// transport: server.ReplicationRpcProvider
type transport struct{ c *Cluster }

func (t transport) Close() error { return nil }

func (t transport) GetReplicateStream(ctx context.Context, follower string, _ string, _ int64, _ int64) (proto.OxiaLogReplication_ReplicateClient, error) {
	n := t.c.node(follower)
	t.c.mu.Lock()
	fc := n.Follower
	blocked := n.Down || t.c.partitioned[follower]
	t.c.mu.Unlock()
	if fc == nil || blocked {
		return nil, errors.New("follower unreachable")
	}
	pctx, cancel := context.WithCancel(ctx)
	t.c.mu.Lock()
	t.c.pipes[follower] = append(t.c.pipes[follower], cancel)
	t.c.mu.Unlock()
	p := &replPipe{ctx: pctx, cancel: cancel, appends: make(chan *proto.Append, 64), acks: make(chan *proto.Ack, 64)}
	go func() {
		// the follower's Replicate returns when the stream ends (or is refused)
		if err := fc.Replicate(&replServer{baseStream{pctx}, p}); err != nil && os.Getenv("OXV_CLUSTER_TRACE") != "" {
			fmt.Fprintf(os.Stderr, "TRACE replicate stream to %s ended: %v\n", follower, err)
		}
		cancel()
	}()
	return &replClient{baseStream{pctx}, p}, nil
}

func (t transport) SendSnapshot(ctx context.Context, follower string, _ string, _ int64, _ int64) (proto.OxiaLogReplication_SendSnapshotClient, error) {
	n := t.c.node(follower)
	t.c.mu.Lock()
	fc := n.Follower
	blocked := n.Down || t.c.partitioned[follower]
	t.c.mu.Unlock()
	if fc == nil || blocked {
		return nil, errors.New("follower unreachable")
	}
	pctx, cancel := context.WithCancel(ctx)
	t.c.mu.Lock()
	t.c.pipes[follower] = append(t.c.pipes[follower], cancel)
	t.c.mu.Unlock()
	p := &snapPipe{ctx: pctx, cancel: cancel, chunks: make(chan *proto.SnapshotChunk, 4), done: make(chan struct{}), resp: make(chan *proto.SnapshotResponse, 1)}
	go func() {
		if err := fc.SendSnapshot(&snapServer{baseStream{pctx}, p}); err != nil {
			cancel()
		}
	}()
	return &snapClient{baseStream{pctx}, p}, nil
}

func (t transport) Truncate(follower string, req *proto.TruncateRequest) (*proto.TruncateResponse, error) {
	n := t.c.node(follower)
	t.c.mu.Lock()
	fc := n.Follower
	t.c.mu.Unlock()
	if fc == nil {
		return nil, errors.New("follower unreachable")
	}
	return fc.Truncate(req)
}

// disconnect drops every stream towards a node and keeps new ones away until reconnect: a controller
// is only ever closed after its connections are gone (closing a follower controller under an active
// replication stream makes the stream goroutines hit the niled WAL: observation D-38)
func (c *Cluster) disconnect(name string) {
	c.mu.Lock()
	c.partitioned[name] = true
	for _, cancel := range c.pipes[name] {
		cancel()
	}
	c.pipes[name] = nil
	c.mu.Unlock()
	time.Sleep(5 * time.Millisecond)
}

func (c *Cluster) reconnect(name string) {
	c.mu.Lock()
	delete(c.partitioned, name)
	c.mu.Unlock()
}

// NewTerm fences one node in the cluster's current term and returns its head.
func (c *Cluster) newTerm(n *Node) (*proto.EntryId, error) {
	req := &proto.NewTermRequest{Namespace: constant.DefaultNamespace, Shard: Shard, Term: c.Term, Options: &proto.NewTermOptions{EnableNotifications: c.Notif}}
	if n.Leader != nil {
		r, err := n.Leader.NewTerm(req)
		if err != nil {
			return nil, err
		}
		return r.HeadEntryId, nil
	}
	r, err := n.Follower.NewTerm(req)
	if err != nil {
		return nil, err
	}
	return r.HeadEntryId, nil
}

// Elect runs an election the way the coordinator does: a new term, every listed node fenced, the chosen
// node made leader with the other fenced nodes as followers.
func (c *Cluster) Elect(leader string, members []string) error {
	c.Term++
	heads := map[string]*proto.EntryId{}
	for _, m := range members {
		n := c.node(m)
		if n.Down {
			continue
		}
		h, err := c.newTerm(n)
		if err != nil {
			return fmt.Errorf("new term on %s: %w", m, err)
		}
		heads[m] = h
	}
	// like the coordinator, install a responder whose head entry is maximal; the requested node if it is one
	better := func(a, b *proto.EntryId) bool { return a.Term > b.Term || (a.Term == b.Term && a.Offset > b.Offset) }
	if _, ok := heads[leader]; !ok {
		return fmt.Errorf("leader candidate %s did not answer", leader)
	}
	for _, m := range members {
		if h, ok := heads[m]; ok && better(h, heads[leader]) {
			leader = m
		}
	}
	c.LastLeader = leader
	// role changes (what the shards director does): a leader that is to follow, a follower that is to lead
	for _, m := range members {
		n := c.node(m)
		if n.Down {
			continue
		}
		var err error
		if m == leader && n.Leader == nil {
			c.disconnect(m)
			c.reconnect(m)
			c.mu.Lock()
			f := n.Follower
			n.Follower = nil
			c.mu.Unlock()
			_ = f.Close()
			if n.Leader, err = server.NewLeaderController(nodeConfig, constant.DefaultNamespace, Shard, transport{c}, n.walf, n.kvf); err != nil {
				return err
			}
		} else if m != leader && n.Follower == nil {
			time.Sleep(2 * time.Millisecond)
			_ = n.Leader.Close()
			n.Leader = nil
			f, err := server.NewFollowerController(nodeConfig, constant.DefaultNamespace, Shard, n.walf, n.kvf)
			if err != nil {
				return err
			}
			c.mu.Lock()
			n.Follower = f
			c.mu.Unlock()
		}
	}
	fm := map[string]*proto.EntryId{}
	for m, h := range heads {
		if m != leader {
			fm[m] = h
		}
	}
	_, err := c.node(leader).Leader.BecomeLeader(context.Background(), &proto.BecomeLeaderRequest{Namespace: constant.DefaultNamespace, Shard: Shard, Term: c.Term,
		ReplicationFactor: c.RF, FollowerMaps: fm})
	if err != nil {
		return err
	}
	for m, h := range fm {
		c.settleSnapshot(leader, m, h)
	}
	return nil
}

// settleSnapshot waits until a follower that reported an empty log has installed the snapshot the leader
// sends it (a restart in the middle of a snapshot transfer is a scenario of its own: finding D-39).
func (c *Cluster) settleSnapshot(leader, follower string, head *proto.EntryId) {
	if head.Offset >= 0 || c.node(leader).CommitOffset() < 0 {
		return
	}
	deadline := time.Now().Add(10 * time.Second)
	for time.Now().Before(deadline) {
		if c.node(follower).CommitOffset() >= 0 {
			return
		}
		time.Sleep(2 * time.Millisecond)
	}
}

// Join fences a node that is not part of the current term's follower set and hands it to the leader.
func (c *Cluster) Join(leader, follower string) error {
	h, err := c.newTerm(c.node(follower))
	if err != nil {
		return err
	}
	_, err = c.node(leader).Leader.AddFollower(&proto.AddFollowerRequest{Namespace: constant.DefaultNamespace, Shard: Shard, Term: c.Term, FollowerName: follower, FollowerHeadEntryId: h})
	if err == nil {
		c.settleSnapshot(leader, follower, h)
	}
	return err
}

// RestartFollower closes the follower controller of a node and opens a new one over the same storage.
func (c *Cluster) RestartFollower(name string) error {
	n := c.node(name)
	if n.Follower == nil {
		return errors.New("not a follower")
	}
	c.disconnect(name)
	defer c.reconnect(name)
	c.mu.Lock()
	f := n.Follower
	n.Follower = nil
	c.mu.Unlock()
	if err := f.Close(); err != nil {
		return err
	}
	nf, err := server.NewFollowerController(nodeConfig, constant.DefaultNamespace, Shard, n.walf, n.kvf)
	if err != nil {
		return err
	}
	c.mu.Lock()
	n.Follower = nf
	c.mu.Unlock()
	return nil
}

// Crash simulates a process crash of a node: the database directory is put back to what is on disk
// right now (Pebble runs without its own WAL, so the unflushed memtable - everything applied since the
// last flush - is lost), the shard's WAL is kept, and the node comes back as a follower.
// It reports whether the node was the leader.
func (c *Cluster) Crash(name string) (bool, error) {
	n := c.node(name)
	dbDir := n.dir + "/db"
	saved := n.dir + "/db.crash"
	if err := stableCopy(dbDir, saved); err != nil {
		return false, err
	}
	wasLeader := n.Leader != nil
	c.disconnect(name)
	defer c.reconnect(name)
	c.mu.Lock()
	f, l := n.Follower, n.Leader
	n.Follower, n.Leader = nil, nil
	c.mu.Unlock()
	time.Sleep(2 * time.Millisecond)
	if f != nil {
		_ = f.Close()
	}
	if l != nil {
		_ = l.Close()
	}
	if err := os.RemoveAll(dbDir); err != nil {
		return wasLeader, err
	}
	if err := os.Rename(saved, dbDir); err != nil {
		return wasLeader, err
	}
	nf, err := server.NewFollowerController(nodeConfig, constant.DefaultNamespace, Shard, n.walf, n.kvf)
	if err != nil {
		return wasLeader, err
	}
	c.mu.Lock()
	n.Follower = nf
	c.mu.Unlock()
	return wasLeader, nil
}

// stableCopy copies a directory that a running Pebble instance may still be changing (flush, compaction):
// the copy is repeated until the directory listing (names, sizes, modification times) is the same before
// and after it, so that the image is one that the file system held at some instant.
func stableCopy(src, dst string) error {
	listing := func() string {
		var b []string
		_ = filepath.Walk(src, func(p string, info os.FileInfo, err error) error {
			if err == nil && !info.IsDir() {
				b = append(b, fmt.Sprintf("%s/%d/%d", p, info.Size(), info.ModTime().UnixNano()))
			}
			return nil
		})
		return fmt.Sprint(b)
	}
	var err error
	for attempt := 0; attempt < 40; attempt++ {
		before := listing()
		_ = os.RemoveAll(dst)
		err = copyDir(src, dst)
		if err == nil && listing() == before {
			return nil
		}
		time.Sleep(5 * time.Millisecond)
	}
	if err == nil {
		err = errors.New("database directory did not come to rest")
	}
	return err
}

func copyDir(src, dst string) error {
	return filepath.Walk(src, func(p string, info os.FileInfo, err error) error {
		if err != nil {
			return err
		}
		rel, _ := filepath.Rel(src, p)
		target := filepath.Join(dst, rel)
		if info.IsDir() {
			return os.MkdirAll(target, 0o755)
		}
		if info.Name() == "LOCK" {
			return os.WriteFile(target, nil, 0o644)
		}
		b, err := os.ReadFile(p)
		if err != nil {
			return err
		}
		return os.WriteFile(target, b, 0o644)
	})
}

func (c *Cluster) LeaderNode() *Node {
	for _, n := range c.Nodes {
		if n.Leader != nil && n.Leader.Status() == proto.ServingStatus_LEADER {
			return n
		}
	}
	return nil
}

// DB returns the database a node currently serves from.
func (n *Node) DB() kv.DB {
	if n.Leader != nil {
		return server.VerifLeaderDB(n.Leader)
	}
	if n.Follower != nil {
		return server.VerifFollowerDB(n.Follower)
	}
	return nil
}

func (n *Node) CommitOffset() int64 {
	if n.Leader != nil {
		st, err := n.Leader.GetStatus(&proto.GetStatusRequest{Shard: Shard})
		if err != nil {
			return -2
		}
		return st.CommitOffset
	}
	if n.Follower != nil {
		return n.Follower.CommitOffset()
	}
	return -2
}

// WaitSynced waits until every listed node has applied everything the leader has committed.
func (c *Cluster) WaitSynced(members []string, head int64, d time.Duration) bool {
	deadline := time.Now().Add(d)
	for time.Now().Before(deadline) {
		ok := true
		for _, m := range members {
			n := c.node(m)
			if n.Down {
				continue
			}
			if n.CommitOffset() != head {
				ok = false
			}
		}
		if ok {
			return true
		}
		time.Sleep(2 * time.Millisecond)
	}
	return false
}

// FailedElection: the leader is cut off from its followers, takes one write that cannot be committed, and
// is then asked to lead the next term without any follower: the election cannot complete (no quorum for the
// entries it holds) and times out. The node stays behind fenced in the new term, with an uncommitted entry at
// the end of its log. Returns the commit offset its database holds afterwards.
func (c *Cluster) FailedElection(leader string, members []string, req *proto.WriteRequest) (int64, error) {
	ln := c.node(leader)
	if ln == nil || ln.Leader == nil {
		return -2, errors.New("not the leader")
	}
	for _, m := range members {
		if m != leader {
			c.disconnect(m)
		}
	}
	reconnect := func() {
		for _, m := range members {
			if m != leader {
				c.reconnect(m)
			}
		}
	}
	// the write is appended to the leader's log and waits for a quorum that cannot come (WriteBlock would wait
	// with it); the fencing below fails it
	var committed atomic.Bool
	ln.Leader.Write(context.Background(), req, concurrent.NewOnce(func(*proto.WriteResponse) { committed.Store(true) }, func(error) {}))
	time.Sleep(80 * time.Millisecond)
	if committed.Load() {
		reconnect()
		return -2, errors.New("the write was committed without followers")
	}
	c.Term++
	if _, err := c.newTerm(ln); err != nil {
		reconnect()
		return -2, fmt.Errorf("new term on %s: %w", leader, err)
	}
	ctx2, cancel2 := context.WithTimeout(context.Background(), 400*time.Millisecond)
	_, berr := ln.Leader.BecomeLeader(ctx2, &proto.BecomeLeaderRequest{Namespace: constant.DefaultNamespace, Shard: Shard, Term: c.Term,
		ReplicationFactor: c.RF, FollowerMaps: map[string]*proto.EntryId{}})
	cancel2()
	reconnect()
	if berr == nil {
		return -2, errors.New("the election succeeded without followers")
	}
	db := ln.DB()
	if db == nil {
		return -2, errors.New("no database")
	}
	return db.ReadCommitOffset()
}

// Demote: the node's leader controller is closed and a follower controller opened over the same storage (what
// the shards director does when a request for a follower arrives)
func (c *Cluster) Demote(name string) error {
	n := c.node(name)
	if n == nil || n.Leader == nil {
		return nil
	}
	c.disconnect(name)
	c.reconnect(name)
	_ = n.Leader.Close()
	n.Leader = nil
	f, err := server.NewFollowerController(nodeConfig, constant.DefaultNamespace, Shard, n.walf, n.kvf)
	if err != nil {
		return err
	}
	c.mu.Lock()
	n.Follower = f
	c.mu.Unlock()
	return nil
}

// TrimAll: "two hours later" the trimmer of every node's WAL runs once: every entry is older than the retention
// time, the commit offset the controller reports bounds what is dropped (whole segments only).
func (c *Cluster) TrimAll() error {
	for _, n := range c.Nodes {
		if f, ok := n.walf.(*TrimWalFactory); ok {
			if _, err := f.TrimLater(2 * time.Hour); err != nil {
				return fmt.Errorf("%s: %w", n.Name, err)
			}
		}
	}
	return nil
}

// WalFirstOffset: the first offset of the WAL the node's controller has opened last
func (c *Cluster) WalFirstOffset(name string) int64 {
	n := c.node(name)
	if f, ok := n.walf.(*TrimWalFactory); ok {
		f.mu.Lock()
		defer f.mu.Unlock()
		if f.last != nil {
			return f.last.FirstOffset()
		}
	}
	return -1
}
