package cluster

// The coordinator's real shard controller (coordinator/controllers.NewShardController) in front of the
// protocol cluster: its RPCs are routed to the nodes' shards directors as the internal RPC server routes
// them, its metadata writes go to an in-memory status resource. Every RPC and every metadata write is
// logged in order; scripted faults drop a request or lose its reply.

import (
	"context"
	"errors"
	"fmt"
	"io"
	"sort"
	"strings"
	"sync"
	"time"

	"github.com/emirpasic/gods/v2/sets/linkedhashset"
	"google.golang.org/grpc/health/grpc_health_v1"
	"google.golang.org/grpc/status"

	"github.com/oxia-db/oxia/common/constant"
	"github.com/oxia-db/oxia/coordinator/controllers"
	"github.com/oxia-db/oxia/coordinator/metadata"
	"github.com/oxia-db/oxia/coordinator/model"
	"github.com/oxia-db/oxia/proto"
)

type Coord struct {
	C  *PCluster
	sc controllers.ShardController

	mu     sync.Mutex
	log    []string
	faults map[string][]string // "<rpc>:<node>" -> modes for the next calls ("drop", "lose")
	md     model.ShardMetadata
}

func srv(i int) model.Server {
	return model.Server{Public: name(i), Internal: name(i)}
}

func NewCoord(c *PCluster) *Coord {
	return &Coord{C: c, faults: map[string][]string{}}
}

func (k *Coord) logf(format string, a ...any) {
	k.mu.Lock()
	k.log = append(k.log, fmt.Sprintf(format, a...))
	k.mu.Unlock()
}

// Log returns the events so far.
func (k *Coord) Log() []string {
	k.mu.Lock()
	defer k.mu.Unlock()
	return append([]string{}, k.log...)
}

// Fault makes the next `count` calls of an RPC to a node fail: "drop" = the request does not arrive,
// "lose" = it is carried out, the reply is lost.
func (k *Coord) Fault(rpc string, node int, mode string, count int) {
	k.mu.Lock()
	key := fmt.Sprintf("%s:%d", rpc, node)
	for i := 0; i < count; i++ {
		k.faults[key] = append(k.faults[key], mode)
	}
	k.mu.Unlock()
}

func (k *Coord) nextFault(rpc string, node int) string {
	k.mu.Lock()
	defer k.mu.Unlock()
	for _, key := range []string{fmt.Sprintf("%s:%d", rpc, node), rpc + ":-1"} {
		if q := k.faults[key]; len(q) > 0 {
			k.faults[key] = q[1:]
			return q[0]
		}
	}
	return ""
}

// Start creates the shard controller for an ensemble of the first rf nodes; it runs its first election
// on its own.
func (k *Coord) Start(rf int) {
	var ens []model.Server
	for i := 0; i < rf; i++ {
		ens = append(ens, srv(i))
	}
	k.md = model.ShardMetadata{Status: model.ShardStatusUnknown, Term: -1, Ensemble: ens}
	nc := &model.NamespaceConfig{Name: constant.DefaultNamespace, InitialShardCount: 1, ReplicationFactor: uint32(rf)}
	k.sc = controllers.NewShardController(constant.DefaultNamespace, Shard, nc, k.md, kconfig{k}, kstatus{k}, klistener{k}, kprov{k})
}

func (k *Coord) Close() {
	if k.sc != nil {
		done := make(chan struct{})
		go func() { _ = k.sc.Close(); close(done) }()
		select {
		case <-done:
		case <-time.After(5 * time.Second):
		}
		k.sc = nil
	}
}

// WaitSteady waits until the controller reports a leader in steady state.
func (k *Coord) WaitSteady(d time.Duration) bool {
	deadline := time.Now().Add(d)
	for time.Now().Before(deadline) {
		if k.sc != nil && k.sc.Status() == model.ShardStatusSteadyState && k.sc.Leader() != nil {
			return true
		}
		time.Sleep(5 * time.Millisecond)
	}
	return false
}

func (k *Coord) Leader() int {
	if k.sc == nil || k.sc.Leader() == nil {
		return -1
	}
	return idxOf(k.sc.Leader().Internal)
}

func (k *Coord) Term() int64 {
	if k.sc == nil {
		return -1
	}
	return k.sc.Term()
}

func (k *Coord) NodeFailed(i int) {
	if k.sc != nil {
		k.sc.NodeBecameUnavailable(srv(i))
	}
}

func (k *Coord) Swap(from, to int) string {
	if k.sc == nil {
		return "err:not-started"
	}
	res := make(chan error, 1)
	go func() { res <- k.sc.SwapNode(srv(from), srv(to)) }()
	select {
	case err := <-res:
		if err != nil {
			return "err:" + strings.ReplaceAll(err.Error(), " ", "_")
		}
		return "ok"
	case <-time.After(10 * time.Second):
		return "timeout"
	}
}

// ---- the resources the controller talks to ----

type kstatus struct{ k *Coord }

func (s kstatus) Load() *model.ClusterStatus {
	s.k.mu.Lock()
	defer s.k.mu.Unlock()
	return &model.ClusterStatus{Namespaces: map[string]model.NamespaceStatus{constant.DefaultNamespace: {
		ReplicationFactor: uint32(len(s.k.md.Ensemble)), Shards: map[int64]model.ShardMetadata{Shard: s.k.md}}}}
}
func (s kstatus) LoadWithVersion() (*model.ClusterStatus, metadata.Version) { return s.Load(), "0" }
func (s kstatus) Swap(*model.ClusterStatus, metadata.Version) bool         { return true }
func (s kstatus) Update(*model.ClusterStatus)                              {}
func (s kstatus) UpdateShardMetadata(_ string, _ int64, md model.ShardMetadata) {
	l := "-"
	if md.Leader != nil {
		l = md.Leader.Internal
	}
	var ens, rem []string
	for _, e := range md.Ensemble {
		ens = append(ens, e.Internal)
	}
	for _, e := range md.RemovedNodes {
		rem = append(rem, e.Internal)
	}
	s.k.mu.Lock()
	s.k.md = md
	s.k.mu.Unlock()
	s.k.logf("MD term=%d status=%s leader=%s ens=%s removed=%s", md.Term, md.Status.String(), l, strings.Join(ens, "+"), strings.Join(rem, "+"))
}
func (s kstatus) DeleteShardMetadata(string, int64) {}

type kconfig struct{ k *Coord }

func (kconfig) Close() error                { return nil }
func (kconfig) Load() *model.ClusterConfig  { return &model.ClusterConfig{} }
func (c kconfig) Nodes() *linkedhashset.Set[string] {
	s := linkedhashset.New[string]()
	for i := range c.k.C.Nodes {
		s.Add(name(i))
	}
	return s
}
func (c kconfig) NodesWithMetadata() (*linkedhashset.Set[string], map[string]model.ServerMetadata) {
	return c.Nodes(), map[string]model.ServerMetadata{}
}
func (kconfig) NamespaceConfig(string) (*model.NamespaceConfig, bool) { return nil, false }
func (c kconfig) Node(id string) (*model.Server, bool) {
	i := idxOf(id)
	if i < 0 || i >= len(c.k.C.Nodes) || name(i) != id {
		return nil, false
	}
	s := srv(i)
	return &s, true
}

type klistener struct{ k *Coord }

func (l klistener) LeaderElected(_ int64, leader model.Server, followers []model.Server) {
	var fs []string
	for _, f := range followers {
		fs = append(fs, f.Internal)
	}
	sort.Strings(fs)
	l.k.logf("ELECTED leader=%s followers=%s", leader.Internal, strings.Join(fs, "+"))
}
func (klistener) ShardDeleted(int64) {}

// ---- the RPC provider ----

type kprov struct{ k *Coord }

var errUnreachable = errors.New("unreachable")

func (p kprov) PushShardAssignments(context.Context, model.Server) (proto.OxiaCoordination_PushShardAssignmentsClient, error) {
	return nil, errors.New("not used")
}
func (p kprov) GetHealthClient(model.Server) (grpc_health_v1.HealthClient, io.Closer, error) {
	return nil, nil, errors.New("not used")
}
func (p kprov) ClearPooledConnections(model.Server) {}

func short(err error) string {
	if err == nil {
		return "ok"
	}
	if s, ok := status.FromError(err); ok && s.Message() != "" {
		return "err(" + strings.ReplaceAll(s.Message(), " ", "_") + ")"
	}
	return "err(" + strings.ReplaceAll(err.Error(), " ", "_") + ")"
}

func (p kprov) NewTerm(_ context.Context, node model.Server, req *proto.NewTermRequest) (*proto.NewTermResponse, error) {
	i := idxOf(node.Internal)
	mode := p.k.nextFault("newterm", i)
	if p.k.C.IsCut(i) || mode == "drop" {
		p.k.logf("NT n%d t=%d -> unreachable", i, req.Term)
		return nil, errUnreachable
	}
	res, err := p.k.C.newTermRaw(i, req)
	if err != nil {
		p.k.logf("NT n%d t=%d -> %s", i, req.Term, short(err))
		return nil, err
	}
	if mode == "lose" {
		p.k.logf("NT n%d t=%d -> head=%d:%d (reply lost)", i, req.Term, res.HeadEntryId.Term, res.HeadEntryId.Offset)
		return nil, errUnreachable
	}
	p.k.logf("NT n%d t=%d -> head=%d:%d", i, req.Term, res.HeadEntryId.Term, res.HeadEntryId.Offset)
	return res, nil
}

func (p kprov) BecomeLeader(ctx context.Context, node model.Server, req *proto.BecomeLeaderRequest) (*proto.BecomeLeaderResponse, error) {
	i := idxOf(node.Internal)
	mode := p.k.nextFault("lead", i)
	var fm []string
	for f, h := range req.FollowerMaps {
		fm = append(fm, fmt.Sprintf("%s@%d:%d", f, h.Term, h.Offset))
	}
	sort.Strings(fm)
	if p.k.C.IsCut(i) || mode == "drop" {
		p.k.logf("BL n%d t=%d fm=%s -> unreachable", i, req.Term, strings.Join(fm, ","))
		return nil, errUnreachable
	}
	if _, ferr := p.k.C.Nodes[i].dirc.GetFollower(Shard); ferr == nil {
		p.k.C.dropStreams(i)
		time.Sleep(5 * time.Millisecond)
	}
	l, err := p.k.C.Nodes[i].dirc.GetOrCreateLeader(req.Namespace, req.Shard)
	if err != nil {
		p.k.logf("BL n%d t=%d fm=%s -> %s", i, req.Term, strings.Join(fm, ","), short(err))
		return nil, err
	}
	cctx, cancel := context.WithTimeout(ctx, 3*time.Second)
	defer cancel()
	res, err := l.BecomeLeader(cctx, req)
	if err != nil {
		p.k.logf("BL n%d t=%d fm=%s -> %s", i, req.Term, strings.Join(fm, ","), short(err))
		return nil, err
	}
	if mode == "lose" {
		p.k.logf("BL n%d t=%d fm=%s -> ok (reply lost)", i, req.Term, strings.Join(fm, ","))
		return nil, errUnreachable
	}
	p.k.logf("BL n%d t=%d fm=%s -> ok", i, req.Term, strings.Join(fm, ","))
	return res, nil
}

func (p kprov) AddFollower(_ context.Context, node model.Server, req *proto.AddFollowerRequest) (*proto.AddFollowerResponse, error) {
	i := idxOf(node.Internal)
	mode := p.k.nextFault("add", i)
	if p.k.C.IsCut(i) || mode == "drop" {
		p.k.logf("AF n%d t=%d f=%s -> unreachable", i, req.Term, req.FollowerName)
		return nil, errUnreachable
	}
	lc, err := p.k.C.Nodes[i].dirc.GetLeader(req.Shard)
	if err != nil {
		p.k.logf("AF n%d t=%d f=%s -> %s", i, req.Term, req.FollowerName, short(err))
		return nil, err
	}
	res, err := lc.AddFollower(req)
	p.k.logf("AF n%d t=%d f=%s@%d:%d -> %s", i, req.Term, req.FollowerName, req.FollowerHeadEntryId.Term, req.FollowerHeadEntryId.Offset, short(err))
	if err != nil {
		return nil, err
	}
	if mode == "lose" {
		return nil, errUnreachable
	}
	return res, nil
}

func (p kprov) GetStatus(_ context.Context, node model.Server, req *proto.GetStatusRequest) (*proto.GetStatusResponse, error) {
	i := idxOf(node.Internal)
	if p.k.C.IsCut(i) {
		return nil, errUnreachable
	}
	if l, err := p.k.C.Nodes[i].dirc.GetLeader(req.Shard); err == nil {
		return l.GetStatus(req)
	}
	if f, err := p.k.C.Nodes[i].dirc.GetFollower(req.Shard); err == nil {
		return f.GetStatus(req)
	}
	return &proto.GetStatusResponse{Term: -1, Status: proto.ServingStatus_NOT_MEMBER, HeadOffset: -1, CommitOffset: -1}, nil
}

func (p kprov) DeleteShard(_ context.Context, node model.Server, req *proto.DeleteShardRequest) (*proto.DeleteShardResponse, error) {
	p.k.logf("DS n%d t=%d", idxOf(node.Internal), req.Term)
	return &proto.DeleteShardResponse{}, nil
}
