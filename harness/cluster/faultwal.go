package cluster

import (
	"errors"
	"sync/atomic"

	"github.com/oxia-db/oxia/proto"
	"github.com/oxia-db/oxia/server/wal"
)

// FaultyWalFactory wraps a WAL factory: the next `n` asynchronous appends (the follower's append path) of the WALs
// it has opened fail with an I/O error, as a full disk at a segment rollover would make them. Everything else
// goes to the real WAL.
type FaultyWalFactory struct {
	wal.Factory
	failAppends atomic.Int32
}

func (f *FaultyWalFactory) FailNextAppends(n int32) { f.failAppends.Store(n) }

func (f *FaultyWalFactory) NewWal(namespace string, shard int64, p wal.CommitOffsetProvider) (wal.Wal, error) {
	w, err := f.Factory.NewWal(namespace, shard, p)
	if err != nil {
		return nil, err
	}
	return &faultyWal{Wal: w, f: f}, nil
}

type faultyWal struct {
	wal.Wal
	f *FaultyWalFactory
}

func (w *faultyWal) AppendAsync(e *proto.LogEntry) error {
	for {
		n := w.f.failAppends.Load()
		if n <= 0 {
			return w.Wal.AppendAsync(e)
		}
		if w.f.failAppends.CompareAndSwap(n, n-1) {
			return errors.New("injected: no space left on device")
		}
	}
}
