package cluster

import (
	"context"
	"errors"
	"fmt"
	"os"
	"sort"
	"strconv"
	"strings"
	"sync"
	"sync/atomic"
	"time"

	"google.golang.org/grpc/status"

	"github.com/oxia-db/oxia/common/concurrent"
	"github.com/oxia-db/oxia/common/constant"
	time2 "github.com/oxia-db/oxia/common/time"
	"github.com/oxia-db/oxia/proto"
	"github.com/oxia-db/oxia/server"
	"github.com/oxia-db/oxia/server/kv"
	"github.com/oxia-db/oxia/server/wal"
)

// PCluster drives the nodes of one shard through their shards directors, i.e. with the routing of the
// internal RPC server (NewTerm / BecomeLeader / AddFollower / Truncate / Replicate), for protocol scripts.
type PCluster struct {
	mu       sync.Mutex
	dir      string
	Nodes    []*PNode
	cut      map[int]bool
	pipes    map[int][]context.CancelFunc
	Snapshot atomic.Bool // a snapshot transfer happened (outside M-Repl)
	snapshots atomic.Int32 // snapshot transfers in flight
}

type PNode struct {
	idx  int
	dir  string
	walf wal.Factory
	kvf  kv.Factory
	dirc server.ShardsDirector
}

func name(i int) string { return fmt.Sprintf("n%d", i) }

func idxOf(n string) int {
	i, _ := strconv.Atoi(strings.TrimPrefix(n, "n"))
	return i
}

func NewP(n int) (*PCluster, error) {
	dir, err := os.MkdirTemp("", "oxv-proto-")
	if err != nil {
		return nil, err
	}
	c := &PCluster{dir: dir, cut: map[int]bool{}, pipes: map[int][]context.CancelFunc{}}
	for i := 0; i < n; i++ {
		pn := &PNode{idx: i, dir: fmt.Sprintf("%s/n%d", dir, i)}
		if pn.kvf, err = kv.NewPebbleKVFactory(&kv.FactoryOptions{DataDir: pn.dir + "/db", CacheSizeMB: 1}); err != nil {
			return nil, err
		}
		pn.walf = &FaultyWalFactory{Factory: wal.NewWalFactory(&wal.FactoryOptions{BaseWalDir: pn.dir + "/wal", SegmentSize: 64 * 1024})}
		pn.dirc = server.NewShardsDirector(nodeConfig, pn.walf, pn.kvf, ptransport{c, i})
		c.Nodes = append(c.Nodes, pn)
	}
	return c, nil
}

func (c *PCluster) Close() {
	c.waitSnapshots()
	for i := range c.Nodes {
		c.dropStreams(i)
	}
	time.Sleep(5 * time.Millisecond)
	for _, n := range c.Nodes {
		_ = n.dirc.Close()
		_ = n.kvf.Close()
		_ = n.walf.Close()
	}
	_ = os.RemoveAll(c.dir)
}

func (c *PCluster) dropStreams(i int) {
	c.mu.Lock()
	for _, cancel := range c.pipes[i] {
		cancel()
	}
	c.pipes[i] = nil
	c.mu.Unlock()
}

func (c *PCluster) isCut(a, b int) bool {
	c.mu.Lock()
	defer c.mu.Unlock()
	return c.cut[a] || c.cut[b]
}

// Cut isolates a node: traffic from and to it is held back until Heal.
func (c *PCluster) Cut(i int) {
	c.mu.Lock()
	c.cut[i] = true
	c.mu.Unlock()
}

func (c *PCluster) IsCut(i int) bool {
	c.mu.Lock()
	defer c.mu.Unlock()
	return c.cut[i]
}

func (c *PCluster) Heal(i int) {
	c.mu.Lock()
	delete(c.cut, i)
	c.mu.Unlock()
}

// streams are registered under the receiving node; those opened by a given sender are tagged
type taggedCancel struct {
	from   int
	cancel context.CancelFunc
}

var fromTags sync.Map // *PCluster -> map[int][]taggedCancel (guarded by c.mu)

func (c *PCluster) register(from, to int, cancel context.CancelFunc) {
	c.mu.Lock()
	c.pipes[to] = append(c.pipes[to], cancel)
	m, _ := fromTags.LoadOrStore(c, map[int][]taggedCancel{})
	mm := m.(map[int][]taggedCancel)
	mm[to] = append(mm[to], taggedCancel{from, cancel})
	c.mu.Unlock()
}

func (c *PCluster) dropStreamsFrom(from, to int) {
	c.mu.Lock()
	if m, ok := fromTags.Load(c); ok {
		for _, t := range m.(map[int][]taggedCancel)[to] {
			if t.from == from {
				t.cancel()
			}
		}
	}
	c.mu.Unlock()
}

// ---- transport with the internal RPC server's routing ----

type ptransport struct {
	c    *PCluster
	from int
}

func (ptransport) Close() error { return nil }

func (t ptransport) GetReplicateStream(ctx context.Context, follower string, ns string, shard int64, term int64) (proto.OxiaLogReplication_ReplicateClient, error) {
	to := idxOf(follower)
	pctx, cancel := context.WithCancel(ctx)
	t.c.register(t.from, to, cancel)
	p := &replPipe{ctx: pctx, cancel: cancel, appends: make(chan *proto.Append, 256), acks: make(chan *proto.Ack, 256)}
	srv := &replServer{baseStream{pctx}, p}
	go func() {
		defer cancel()
		// a partition holds the traffic back (no connection errors, so no retry back-off builds up)
		if !t.c.waitReachable(pctx, t.from, to) {
			return
		}
		f, err := t.c.Nodes[to].dirc.GetOrCreateFollower(ns, shard, term)
		if err != nil {
			return
		}
		_ = f.Replicate(&gatedServer{srv, t.c, t.from, to})
	}()
	return &gatedClient{&replClient{baseStream{pctx}, p}, t.c, t.from, to}, nil
}

// gatedServer / gatedClient deliver a message only while the two nodes can reach each other
type gatedServer struct {
	*replServer
	c        *PCluster
	from, to int
}

func (g *gatedServer) Recv() (*proto.Append, error) {
	a, err := g.replServer.Recv()
	if err != nil {
		return nil, err
	}
	if !g.c.waitReachable(g.p.ctx, g.from, g.to) {
		return nil, errStreamClosed
	}
	return a, nil
}

type gatedClient struct {
	*replClient
	c        *PCluster
	from, to int
}

func (g *gatedClient) Recv() (*proto.Ack, error) {
	a, err := g.replClient.Recv()
	if err != nil {
		return nil, err
	}
	if !g.c.waitReachable(g.p.ctx, g.from, g.to) {
		return nil, errStreamClosed
	}
	return a, nil
}

func (c *PCluster) waitReachable(ctx context.Context, a, b int) bool {
	for c.isCut(a, b) {
		select {
		case <-ctx.Done():
			return false
		case <-time.After(2 * time.Millisecond):
		}
	}
	return ctx.Err() == nil
}

func (t ptransport) SendSnapshot(ctx context.Context, follower string, ns string, shard int64, term int64) (proto.OxiaLogReplication_SendSnapshotClient, error) {
	to := idxOf(follower)
	t.c.Snapshot.Store(true)
	if t.c.isCut(t.from, to) {
		return nil, errors.New("unreachable")
	}
	pctx, cancel := context.WithCancel(ctx)
	t.c.register(t.from, to, cancel)
	p := &snapPipe{ctx: pctx, cancel: cancel, chunks: make(chan *proto.SnapshotChunk, 4), done: make(chan struct{}), resp: make(chan *proto.SnapshotResponse, 1)}
	t.c.snapshots.Add(1)
	go func() {
		defer t.c.snapshots.Add(-1)
		f, err := t.c.Nodes[to].dirc.GetOrCreateFollower(ns, shard, term)
		if err != nil {
			cancel()
			return
		}
		if err := f.SendSnapshot(&snapServer{baseStream{pctx}, p}); err != nil {
			cancel()
		}
	}()
	return &snapClient{baseStream{pctx}, p}, nil
}

func (t ptransport) Truncate(follower string, req *proto.TruncateRequest) (*proto.TruncateResponse, error) {
	to := idxOf(follower)
	if t.c.isCut(t.from, to) {
		return nil, errors.New("unreachable")
	}
	f, err := t.c.Nodes[to].dirc.GetOrCreateFollower(req.Namespace, req.Shard, req.Term)
	if err != nil {
		return nil, err
	}
	return f.Truncate(req)
}

// ---- the coordinator's RPCs, routed as internal_rpc_server.go does ----

func errName(err error) string {
	switch {
	case errors.Is(err, constant.ErrInvalidTerm) || status.Code(err) == constant.CodeInvalidTerm:
		return "err:invalid-term"
	case errors.Is(err, constant.ErrInvalidStatus) || status.Code(err) == constant.CodeInvalidStatus:
		return "err:invalid-status"
	case errors.Is(err, context.DeadlineExceeded) || errors.Is(err, context.Canceled):
		return "timeout"
	case errors.Is(err, server.ErrInvalidHeadOffset):
		return "err:invalid-head"
	case strings.Contains(err.Error(), "offset out of bounds"):
		return "err:out-of-bounds"
	case strings.Contains(err.Error(), "unreachable"):
		return "timeout"
	case strings.Contains(err.Error(), "all followers are already attached"):
		return "err:invalid-status"
	}
	return "err:other:" + strings.ReplaceAll(err.Error(), " ", "_")
}

func (c *PCluster) newTermRaw(i int, req *proto.NewTermRequest) (*proto.NewTermResponse, error) {
	n := c.Nodes[i]
	if f, ferr := n.dirc.GetFollower(Shard); ferr == nil {
		return f.NewTerm(req)
	} else if status.Code(ferr) != constant.CodeNodeIsNotFollower {
		return nil, ferr
	}
	l, lerr := n.dirc.GetOrCreateLeader(constant.DefaultNamespace, Shard)
	if lerr != nil {
		return nil, lerr
	}
	return l.NewTerm(req)
}

func (c *PCluster) NewTerm(i int, term int64) string {
	req := &proto.NewTermRequest{Namespace: constant.DefaultNamespace, Shard: Shard, Term: term, Options: &proto.NewTermOptions{EnableNotifications: true}}
	res, err := c.newTermRaw(i, req)
	if err != nil {
		return errName(err)
	}
	return fmt.Sprintf("head=%d:%d", res.HeadEntryId.Term, res.HeadEntryId.Offset)
}

func (c *PCluster) BecomeLeader(i int, term int64, rf uint32, fm map[string]*proto.EntryId, timeout time.Duration) string {
	// GetOrCreateLeader closes a follower controller: its streams go first (observation D-38: a follower
	// controller closed under an active replication stream makes the stream goroutine hit the niled WAL)
	if _, ferr := c.Nodes[i].dirc.GetFollower(Shard); ferr == nil {
		c.dropStreams(i)
		time.Sleep(5 * time.Millisecond)
	}
	l, err := c.Nodes[i].dirc.GetOrCreateLeader(constant.DefaultNamespace, Shard)
	if err != nil {
		return errName(err)
	}
	ctx, cancel := context.WithTimeout(context.Background(), timeout)
	defer cancel()
	if _, err := l.BecomeLeader(ctx, &proto.BecomeLeaderRequest{Namespace: constant.DefaultNamespace, Shard: Shard, Term: term, ReplicationFactor: rf, FollowerMaps: fm}); err != nil {
		return errName(err)
	}
	return "ok"
}

func (c *PCluster) AddFollower(l int, term int64, f int, head *proto.EntryId) string {
	lc, err := c.Nodes[l].dirc.GetLeader(Shard)
	if err != nil {
		return "err:not-leader"
	}
	if _, err := lc.AddFollower(&proto.AddFollowerRequest{Namespace: constant.DefaultNamespace, Shard: Shard, Term: term, FollowerName: name(f), FollowerHeadEntryId: head}); err != nil {
		return errName(err)
	}
	return "ok"
}

type writeCb struct {
	done chan string
}

func (w writeCb) OnComplete(r *proto.WriteResponse) {
	if r != nil && len(r.Puts) == 1 && r.Puts[0].Status == proto.Status_OK {
		w.done <- "ok"
	} else {
		w.done <- "err:status"
	}
}
func (w writeCb) OnCompleteError(err error) { w.done <- "fail:" + err.Error() }

var _ concurrent.Callback[*proto.WriteResponse] = writeCb{}

// Write sends one put (key w<id>) to node i; "timeout" = no answer in time (the entry may be in the log).
func (c *PCluster) Write(i int, id int, timeout time.Duration) string {
	lc, err := c.Nodes[i].dirc.GetLeader(Shard)
	if err != nil {
		return "err:not-leader"
	}
	shard := Shard
	cb := writeCb{done: make(chan string, 1)}
	lc.Write(context.Background(), &proto.WriteRequest{Shard: &shard, Puts: []*proto.PutRequest{{Key: fmt.Sprintf("w%d", id), Value: []byte(fmt.Sprint(id))}}}, cb)
	select {
	case r := <-cb.done:
		if r == "ok" {
			st, err := lc.GetStatus(&proto.GetStatusRequest{Shard: Shard})
			if err != nil {
				return "ok@?"
			}
			_ = st
			return "ok"
		}
		if strings.Contains(r, "Received message in the wrong state") {
			return "err:not-leader"
		}
		return "timeout" // failed after the append (tracker closed by a new term): outcome unknown to the client
	case <-time.After(timeout):
	}
	// no answer yet: when the leader can reach a majority, a cursor may be sleeping in its reconnection backoff
	c.mu.Lock()
	reach := 0
	for j := range c.Nodes {
		if !c.cut[j] {
			reach++
		}
	}
	leaderCut := c.cut[i]
	c.mu.Unlock()
	if leaderCut || 2*reach <= len(c.Nodes) {
		return "timeout"
	}
	select {
	case r := <-cb.done:
		if r == "ok" {
			return "ok"
		}
		if strings.Contains(r, "Received message in the wrong state") {
			return "err:not-leader"
		}
		return "timeout"
	case <-time.After(4 * time.Second):
		return "timeout"
	}
}

// RaceWriteNewTerm lets a client write pass the leader's status check, holds it before the WAL append,
// sends a NewTerm request meanwhile, and reports the head the node answers and the head of its WAL
// once both are done.
func (c *PCluster) RaceWriteNewTerm(i int, id int, term int64) string {
	walHead := func() string {
		v := c.View(i)
		if len(v.Log) == 0 {
			return "-1:-1"
		}
		last := v.Log[len(v.Log)-1]
		return fmt.Sprintf("%s:%d", last[:strings.Index(last, ":")], len(v.Log)-1)
	}
	lc, err := c.Nodes[i].dirc.GetLeader(Shard)
	if err != nil {
		rep := c.NewTerm(i, term)
		if strings.HasPrefix(rep, "head=") {
			return rep + " wal=" + walHead()
		}
		return rep
	}
	release := make(chan struct{})
	reached := make(chan struct{})
	var once sync.Once
	server.SetVerifYieldHook(lc, func(p string) {
		if p == "leader.write.allocated" {
			once.Do(func() { close(reached); <-release })
		}
	})
	defer server.SetVerifYieldHook(lc, nil)
	shard := Shard
	wdone := make(chan struct{})
	go func() {
		cb := writeCb{done: make(chan string, 1)}
		lc.Write(context.Background(), &proto.WriteRequest{Shard: &shard, Puts: []*proto.PutRequest{{Key: fmt.Sprintf("w%d", id), Value: []byte(fmt.Sprint(id))}}}, cb)
		close(wdone) // the append (or the refusal) is done when Write returns
	}()
	select {
	case <-reached:
	case <-wdone: // refused before the yield point (not leader)
	case <-time.After(2 * time.Second):
	}
	ntDone := make(chan string, 1)
	go func() { ntDone <- c.NewTerm(i, term) }()
	// a second client write arrives while the first one is in the append section and the new-term request
	// waits for it: it must find the node fenced (it queues behind the new-term request)
	w2done := make(chan struct{})
	go func() {
		time.Sleep(40 * time.Millisecond)
		cb2 := writeCb{done: make(chan string, 1)}
		lc.Write(context.Background(), &proto.WriteRequest{Shard: &shard, Puts: []*proto.PutRequest{{Key: fmt.Sprintf("w%d", id+500000), Value: []byte(fmt.Sprint(id + 500000))}}}, cb2)
		close(w2done)
	}()
	var rep string
	select {
	case rep = <-ntDone:
		close(release)
	case <-time.After(150 * time.Millisecond):
		close(release)
		rep = <-ntDone
	}
	<-wdone
	select {
	case <-w2done:
	case <-time.After(2 * time.Second):
	}
	if !strings.HasPrefix(rep, "head=") {
		return rep
	}
	return rep + " wal=" + walHead()
}

// RaceAppendNewTerm: an entry of the leader l reaches the follower f, whose sync goroutine is held before it
// syncs the WAL; a NewTerm request for f is served meanwhile; then the sync goroutine goes on. Reports the
// head the follower answered and the end of its log afterwards ("head=T:O wal=T:O"), "norace" if the follower
// did not take the entry.
func (c *PCluster) RaceAppendNewTerm(l, f int, id int, term int64) string {
	walHead := func() string {
		v := c.View(f)
		if len(v.Log) == 0 {
			return "-1:-1"
		}
		last := v.Log[len(v.Log)-1]
		return fmt.Sprintf("%s:%d", last[:strings.Index(last, ":")], len(v.Log)-1)
	}
	fc, ferr := c.Nodes[f].dirc.GetFollower(Shard)
	lc, lerr := c.Nodes[l].dirc.GetLeader(Shard)
	if ferr != nil || lerr != nil {
		return "norace"
	}
	release := make(chan struct{})
	reached := make(chan struct{})
	var fired atomic.Bool
	server.SetVerifYieldHook(fc, func(p string) {
		if p == "follower.sync.woken" && fired.CompareAndSwap(false, true) {
			close(reached)
			<-release
		}
	})
	defer server.SetVerifYieldHook(fc, nil)
	shard := Shard
	cb := writeCb{done: make(chan string, 1)}
	go lc.Write(context.Background(), &proto.WriteRequest{Shard: &shard, Puts: []*proto.PutRequest{{Key: fmt.Sprintf("w%d", id), Value: []byte(fmt.Sprint(id))}}}, cb)
	took := false
	select {
	case <-reached:
		took = true
	case <-time.After(2 * time.Second):
	}
	rep := c.NewTerm(f, term)
	fired.Store(true) // the hook must not block later
	if took {
		close(release)
	}
	// the sync goroutine finishes its round; the write completes with the other followers or times out
	select {
	case <-cb.done:
	case <-time.After(1500 * time.Millisecond):
	}
	time.Sleep(30 * time.Millisecond)
	if !took {
		return "norace"
	}
	if !strings.HasPrefix(rep, "head=") {
		return rep
	}
	return rep + " wal=" + walHead()
}

// Restart closes the node's controllers (process restart); they are re-created on demand.
// waitSnapshots: a snapshot installation replaces the database directory of the receiving node file by file; a
// stream that is torn down in the middle leaves a directory Pebble refuses to open - and its logger ends the
// process (observation D-39 in DESIGN.md, outside M-Repl). The harness lets transfers finish before it breaks
// streams.
func (c *PCluster) waitSnapshots() {
	deadline := time.Now().Add(10 * time.Second)
	for c.snapshots.Load() > 0 && time.Now().Before(deadline) {
		time.Sleep(2 * time.Millisecond)
	}
}

func (c *PCluster) Restart(i int) error {
	c.waitSnapshots()
	n := c.Nodes[i]
	c.mu.Lock()
	wasCut := c.cut[i]
	c.cut[i] = true
	c.mu.Unlock()
	c.dropStreams(i)
	for j := range c.Nodes {
		c.dropStreamsFrom(i, j)
	}
	time.Sleep(8 * time.Millisecond)
	err := n.dirc.Close()
	n.dirc = server.NewShardsDirector(nodeConfig, n.walf, n.kvf, ptransport{c, i})
	c.mu.Lock()
	if !wasCut {
		delete(c.cut, i)
	}
	c.mu.Unlock()
	return err
}

// Truncate delivers a Truncate request to a node (as the leader's RPC would).
func (c *PCluster) Truncate(f int, term int64, offset int64) string {
	fc, err := c.Nodes[f].dirc.GetOrCreateFollower(constant.DefaultNamespace, Shard, term)
	if err != nil {
		return errName(err)
	}
	r, err := fc.Truncate(&proto.TruncateRequest{Namespace: constant.DefaultNamespace, Shard: Shard, Term: term, HeadEntryId: &proto.EntryId{Term: term, Offset: offset}})
	if err != nil {
		return errName(err)
	}
	return fmt.Sprintf("head=%d", r.HeadEntryId.Offset)
}

// Crash: the node's process dies; its database directory is what is on disk at that moment (Pebble has
// no WAL of its own), the shard's WAL is kept.
func (c *PCluster) Crash(i int) error {
	n := c.Nodes[i]
	saved := n.dir + "/db.crash"
	if err := stableCopy(n.dir+"/db", saved); err != nil {
		return err
	}
	if err := c.Restart(i); err != nil {
		return err
	}
	if err := os.RemoveAll(n.dir + "/db"); err != nil {
		return err
	}
	return os.Rename(saved, n.dir+"/db")
}

// ---- observation ----

// LeaderDBIds lists what the database of the leader controller on node i holds of the scripts' writes
// (keys "w<id>"), in key order. ok is false when the node has no leader controller.
func (c *PCluster) LeaderDBIds(i int) (ids []string, ok bool) {
	l, err := c.Nodes[i].dirc.GetLeader(Shard)
	if err != nil {
		return nil, false
	}
	defer func() {
		if recover() != nil {
			ids, ok = nil, false
		}
	}()
	it, err := kv.VerifKV(server.VerifLeaderDB(l)).RangeScan("w", "x")
	if err != nil {
		return nil, false
	}
	defer it.Close()
	for ; it.Valid(); it.Next() {
		ids = append(ids, strings.TrimPrefix(it.Key(), "w"))
	}
	return ids, true
}

type NodeView struct {
	Ctrl    string // "-", "L", "F"
	Term    int64
	Status  string
	Log     []string // term:id
	Commit  int64
	Cursors map[string]int64
}

func statusName(s proto.ServingStatus) string {
	switch s {
	case proto.ServingStatus_NOT_MEMBER:
		return "notmember"
	case proto.ServingStatus_FENCED:
		return "fenced"
	case proto.ServingStatus_FOLLOWER:
		return "follower"
	case proto.ServingStatus_LEADER:
		return "leader"
	}
	return "?"
}

func readLog(w wal.Wal) []string {
	if w == nil || w.LastOffset() < 0 {
		return nil
	}
	r, err := w.NewReader(w.FirstOffset() - 1)
	if err != nil {
		return []string{"err:" + err.Error()}
	}
	defer r.Close()
	var out []string
	// offsets below the first one the WAL holds (a log that does not start at 0) are shown as holes, so that
	// the position in the list is the offset
	for o := int64(0); o < w.FirstOffset(); o++ {
		out = append(out, "-1:hole")
	}
	for r.HasNext() {
		e, err := r.ReadNext()
		if err != nil {
			out = append(out, "err")
			break
		}
		lev := &proto.LogEntryValue{}
		id := "?"
		if err := lev.UnmarshalVT(e.Value); err == nil && lev.GetRequests() != nil && len(lev.GetRequests().Writes) == 1 && len(lev.GetRequests().Writes[0].Puts) == 1 {
			id = strings.TrimPrefix(lev.GetRequests().Writes[0].Puts[0].Key, "w")
		}
		out = append(out, fmt.Sprintf("%d:%s", e.Term, id))
	}
	return out
}

func (c *PCluster) View(i int) NodeView {
	n := c.Nodes[i]
	if l, err := n.dirc.GetLeader(Shard); err == nil {
		v := NodeView{Ctrl: "L", Term: l.Term(), Status: statusName(l.Status()), Log: readLog(server.VerifLeaderWal(l)), Cursors: server.VerifLeaderCursors(l), Commit: -1}
		if st, err := l.GetStatus(&proto.GetStatusRequest{Shard: Shard}); err == nil {
			v.Commit = st.CommitOffset
		}
		return v
	}
	if f, err := n.dirc.GetFollower(Shard); err == nil {
		return NodeView{Ctrl: "F", Term: f.Term(), Status: statusName(f.Status()), Log: readLog(server.VerifFollowerWal(f)), Commit: f.CommitOffset()}
	}
	// no controller: look at the storage
	v := NodeView{Ctrl: "-", Status: "-", Term: -1}
	if db, err := kv.NewDB(constant.DefaultNamespace, Shard, n.kvf, time.Hour, time2.SystemClock); err == nil {
		t, _, _ := db.ReadTerm()
		v.Term = t
		_ = db.Close()
	}
	if w, err := n.walf.NewWal(constant.DefaultNamespace, Shard, nil); err == nil {
		v.Log = readLog(w)
		_ = w.Close()
	}
	return v
}

func (v NodeView) String(i int) string {
	s := fmt.Sprintf("n%d[%s t=%d %s log=%s", i, v.Ctrl, v.Term, v.Status, strings.Join(v.Log, ","))
	if v.Ctrl == "L" && v.Status == "leader" {
		var cs []string
		var names []string
		for k := range v.Cursors {
			names = append(names, k)
		}
		sort.Strings(names)
		for _, k := range names {
			cs = append(cs, fmt.Sprintf("%d@%d", idxOf(k), v.Cursors[k]))
		}
		s += fmt.Sprintf(" c=%d cur=%s", v.Commit, strings.Join(cs, ","))
	}
	return s + "]"
}

// Settled: every cursor of every leader controller has delivered what it can deliver.
func (c *PCluster) Settled() bool {
	views := make([]NodeView, len(c.Nodes))
	for i := range c.Nodes {
		views[i] = c.View(i)
	}
	for i, v := range views {
		if v.Ctrl != "L" {
			continue
		}
		head := int64(len(v.Log)) - 1
		for fname, ack := range v.Cursors {
			f := idxOf(fname)
			if c.isCut(i, f) {
				continue
			}
			fv := views[f]
			if fv.Ctrl == "-" {
				return false // the stream (re)connects and makes the node create a follower controller
			}
			switch {
			case fv.Ctrl == "L" && fv.Term != v.Term:
				continue // a leader controller of another term is not converted by this stream
			case fv.Term != v.Term:
				continue // the follower refuses the term
			case fv.Ctrl != "-" && fv.Status != "fenced" && fv.Status != "follower":
				continue
			}
			if ack != head || int64(len(fv.Log))-1 < head || fv.Ctrl != "F" {
				return false
			}
		}
		if v.Status == "leader" {
			// the tracker has seen the acknowledgements
			n := 0
			for _, ack := range v.Cursors {
				if ack >= head {
					n++
				}
			}
			_ = n
		}
	}
	return true
}

func (c *PCluster) WaitSettled(d time.Duration) bool {
	deadline := time.Now().Add(d)
	for time.Now().Before(deadline) {
		if c.Settled() {
			time.Sleep(10 * time.Millisecond)
			if c.Settled() {
				return true
			}
		}
		time.Sleep(5 * time.Millisecond)
	}
	return false
}

// FailNextAppend: the next entry the node takes as a follower fails in its WAL (once)
func (c *PCluster) FailNextAppend(i int) {
	if f, ok := c.Nodes[i].walf.(*FaultyWalFactory); ok {
		f.FailNextAppends(1)
	}
}

// StaleLeaderActive: another reachable node still runs a leader controller in a lower term (a deposed leader that
// has come back and has not been fenced yet). Its cursors keep connecting to the followers, which take one
// replication stream at a time: the cursor of the leader in office can be kept out for several backoff rounds,
// so whether a write completes in time is a matter of timing then.
func (c *PCluster) StaleLeaderActive(i int) bool {
	lc, err := c.Nodes[i].dirc.GetLeader(Shard)
	if err != nil {
		return false
	}
	for j, n := range c.Nodes {
		if j == i || c.isCut(j, j) {
			continue
		}
		if o, err := n.dirc.GetLeader(Shard); err == nil && o.Status() == proto.ServingStatus_LEADER && o.Term() < lc.Term() {
			return true
		}
	}
	return false
}

// RaceAppendRedeliver: an entry of the leader `l` has been appended by the follower `f`, whose sync goroutine has
// not yet run, when the stream between them breaks; the leader's cursor reconnects and delivers the entry again.
// Reports whether the leader got an acknowledgement for it while it was not yet among the follower's synced
// entries ("ack-before-sync"), "ok" otherwise, "norace" when the follower did not take the entry.
func (c *PCluster) RaceAppendRedeliver(l, f int, id int) string {
	fc, ferr := c.Nodes[f].dirc.GetFollower(Shard)
	lc, lerr := c.Nodes[l].dirc.GetLeader(Shard)
	if ferr != nil || lerr != nil {
		return "norace"
	}
	before := len(c.View(f).Log)
	release := make(chan struct{})
	reached := make(chan struct{})
	var fired atomic.Bool
	server.SetVerifYieldHook(fc, func(p string) {
		if p == "follower.sync.woken" && fired.CompareAndSwap(false, true) {
			close(reached)
			<-release
		}
	})
	defer server.SetVerifYieldHook(fc, nil)
	shard := Shard
	cb := writeCb{done: make(chan string, 1)}
	go lc.Write(context.Background(), &proto.WriteRequest{Shard: &shard, Puts: []*proto.PutRequest{{Key: fmt.Sprintf("w%d", id), Value: []byte(fmt.Sprint(id))}}}, cb)
	took := false
	select {
	case <-reached:
		took = true
	case <-time.After(2 * time.Second):
	}
	res := "ok"
	if took {
		// the entry is appended, not synced; the stream breaks; the cursor comes back and delivers it again
		c.dropStreams(f)
		deadline := time.Now().Add(1500 * time.Millisecond)
		for time.Now().Before(deadline) {
			acked := int64(-2)
			if cur, ok := server.VerifLeaderCursors(lc)[name(f)]; ok {
				acked = cur
			}
			synced := len(readLog(server.VerifFollowerWal(fc)))
			if acked >= int64(before) && synced <= before {
				res = "ack-before-sync"
				break
			}
			if acked >= int64(before) {
				break
			}
			time.Sleep(5 * time.Millisecond)
		}
	}
	fired.Store(true)
	if took {
		close(release)
	}
	select {
	case <-cb.done:
	case <-time.After(1500 * time.Millisecond):
	}
	time.Sleep(30 * time.Millisecond)
	if !took {
		return "norace"
	}
	return res
}
