package cluster

import (
	"sync"
	"time"

	time2 "github.com/oxia-db/oxia/common/time"
	"github.com/oxia-db/oxia/server/wal"
)

// TrimWalFactory opens real WALs with an injected clock and a trimmer that only runs when the harness says so
// (wal.VerifNewWal / wal.VerifDoTrim): a trimming round "two hours later" is one call.
type TrimWalFactory struct {
	opts  *wal.FactoryOptions
	clock *time2.MockedClock
	mu    sync.Mutex
	last  wal.Wal
}

func NewTrimWalFactory(opts *wal.FactoryOptions) *TrimWalFactory {
	c := &time2.MockedClock{}
	c.Set(time.Now().UnixMilli())
	return &TrimWalFactory{opts: opts, clock: c}
}

func (f *TrimWalFactory) Close() error { return nil }

func (f *TrimWalFactory) NewWal(namespace string, shard int64, p wal.CommitOffsetProvider) (wal.Wal, error) {
	w, err := wal.VerifNewWal(namespace, shard, f.opts, p, f.clock, 24*time.Hour)
	if err != nil {
		return nil, err
	}
	f.mu.Lock()
	f.last = w
	f.mu.Unlock()
	return w, nil
}

// TrimLater runs one trimming round of the WAL opened last, with the clock moved `later` past the present:
// every entry is older than the retention time then; the commit offset bounds what is dropped.
func (f *TrimWalFactory) TrimLater(later time.Duration) (first int64, err error) {
	f.mu.Lock()
	w := f.last
	f.mu.Unlock()
	if w == nil {
		return -1, nil
	}
	f.clock.Set(time.Now().Add(later).UnixMilli())
	err = wal.VerifDoTrim(w)
	return w.FirstOffset(), err
}
