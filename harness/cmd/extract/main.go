// extract: reads /repo's current working tree with go/parser and emits the facts the Lean
// models and theorems are instantiated with (OxiaVerif/Facts.lean + facts.json).
// Recognition rules are deliberately narrow: a rule matches one of the listed shapes and yields a
// value, or yields "unknown" (which fails the corresponding `_on_tree` obligation).
package main

import (
	"bytes"
	"encoding/json"
	"flag"
	"fmt"
	"go/ast"
	"go/parser"
	"go/printer"
	"go/token"
	"os"
	"path/filepath"
	"sort"
	"strings"
)

var repo string
var fset = token.NewFileSet()
var parsed = map[string]*ast.File{}

func parse(rel string) *ast.File {
	if f, ok := parsed[rel]; ok {
		return f
	}
	f, err := parser.ParseFile(fset, filepath.Join(repo, rel), nil, parser.ParseComments)
	if err != nil {
		fmt.Fprintln(os.Stderr, "extract: cannot parse", rel, err)
		parsed[rel] = nil
		return nil
	}
	parsed[rel] = f
	return f
}

func src(n ast.Node) string {
	if n == nil {
		return ""
	}
	var b bytes.Buffer
	_ = printer.Fprint(&b, fset, n)
	return b.String()
}

func squash(s string) string { return strings.Join(strings.Fields(s), " ") }

// funcDecl finds a top-level function or method (recv may be "" or the receiver type name).
func funcDecl(f *ast.File, recv, name string) *ast.FuncDecl {
	if f == nil {
		return nil
	}
	for _, d := range f.Decls {
		fd, ok := d.(*ast.FuncDecl)
		if !ok || fd.Name.Name != name {
			continue
		}
		r := ""
		if fd.Recv != nil && len(fd.Recv.List) > 0 {
			t := fd.Recv.List[0].Type
			if st, ok := t.(*ast.StarExpr); ok {
				t = st.X
			}
			if ix, ok := t.(*ast.IndexExpr); ok { // generic receiver: *T[P]
				t = ix.X
			}
			if id, ok := t.(*ast.Ident); ok {
				r = id.Name
			}
		}
		if r == recv {
			return fd
		}
	}
	return nil
}

// topVarValue returns the initialiser expression of a package-level var/const.
func topVarValue(f *ast.File, name string) ast.Expr {
	if f == nil {
		return nil
	}
	for _, d := range f.Decls {
		gd, ok := d.(*ast.GenDecl)
		if !ok {
			continue
		}
		for _, s := range gd.Specs {
			vs, ok := s.(*ast.ValueSpec)
			if !ok {
				continue
			}
			for i, n := range vs.Names {
				if n.Name == name && i < len(vs.Values) {
					return vs.Values[i]
				}
			}
		}
	}
	return nil
}

func compositeField(e ast.Expr, field string) ast.Expr {
	if u, ok := e.(*ast.UnaryExpr); ok {
		e = u.X
	}
	cl, ok := e.(*ast.CompositeLit)
	if !ok {
		return nil
	}
	for _, el := range cl.Elts {
		kv, ok := el.(*ast.KeyValueExpr)
		if !ok {
			continue
		}
		if id, ok := kv.Key.(*ast.Ident); ok && id.Name == field {
			return kv.Value
		}
	}
	return nil
}

type fact struct {
	Name  string `json:"name"`
	Lean  string `json:"lean"`  // Lean term
	Type  string `json:"type"`  // Lean type
	Where string `json:"where"` // source location the rule looked at
	Seen  string `json:"seen"`  // the source text that was classified
}

var facts []fact

func add(name, typ, lean, where, seen string) {
	facts = append(facts, fact{name, lean, typ, where, squash(seen)})
}

func boolLean(b bool) string {
	if b {
		return "true"
	}
	return "false"
}

// --- comparer wiring (C11) -------------------------------------------------------------

// identityAppend recognises `func(dst, a, _ []byte) []byte { return append(dst, a...) }`
// (any parameter names; the body returns append(<first param>, <second param>...)).
func identityAppend(e ast.Expr) bool {
	fl, ok := e.(*ast.FuncLit)
	if !ok || fl.Body == nil || len(fl.Body.List) != 1 {
		return false
	}
	var params []string
	for _, p := range fl.Type.Params.List {
		for _, n := range p.Names {
			params = append(params, n.Name)
		}
	}
	if len(params) < 2 {
		return false
	}
	rs, ok := fl.Body.List[0].(*ast.ReturnStmt)
	if !ok || len(rs.Results) != 1 {
		return false
	}
	call, ok := rs.Results[0].(*ast.CallExpr)
	if !ok || !call.Ellipsis.IsValid() || len(call.Args) != 2 {
		return false
	}
	if id, ok := call.Fun.(*ast.Ident); !ok || id.Name != "append" {
		return false
	}
	a0, ok0 := call.Args[0].(*ast.Ident)
	a1, ok1 := call.Args[1].(*ast.Ident)
	return ok0 && ok1 && a0.Name == params[0] && a1.Name == params[1]
}

func comparerFacts() {
	f := parse("server/kv/kv_pebble.go")
	lit := topVarValue(f, "OxiaSlashSpanComparer")
	where := "server/kv/kv_pebble.go: OxiaSlashSpanComparer"
	cmp, sep, succ, abbr := "unknown", "unknown", "unknown", "unknown"
	seen := ""
	if lit != nil {
		c, s, u, a := compositeField(lit, "Compare"), compositeField(lit, "Separator"), compositeField(lit, "Successor"), compositeField(lit, "AbbreviatedKey")
		seen = fmt.Sprintf("Compare: %s | Separator: %s | Successor: %s | AbbreviatedKey: %s", src(c), src(s), src(u), src(a))
		switch squash(src(c)) {
		case "compare.CompareWithSlash":
			cmp = "slash"
		case "pebble.DefaultComparer.Compare", "bytes.Compare":
			cmp = "bytewise"
		}
		switch {
		case squash(src(s)) == "pebble.DefaultComparer.Separator":
			sep = "bytewise"
		case identityAppend(s):
			sep = "identity"
		}
		switch {
		case squash(src(u)) == "pebble.DefaultComparer.Successor":
			succ = "bytewise"
		case identityAppend(u):
			succ = "identity"
		}
		switch squash(src(a)) {
		case "compare.AbbreviatedKeyDisableSlash":
			abbr = "disableSlash"
		case "pebble.DefaultComparer.AbbreviatedKey":
			abbr = "bytewise"
		}
	}
	add("comparer", "ComparerCfg", fmt.Sprintf("{ cmp := .%s, sep := .%s, succ := .%s, abbr := .%s }", cmp, sep, succ, abbr), where, seen)
}

func main() {
	flag.StringVar(&repo, "repo", "/repo", "repository root")
	outLean := flag.String("lean", "", "Facts.lean output path")
	outJSON := flag.String("json", "", "facts.json output path")
	flag.Parse()

	comparerFacts()
	moreFacts()

	sort.SliceStable(facts, func(i, j int) bool { return false })
	var b strings.Builder
	b.WriteString("-- GENERATED by /verif/harness/cmd/extract from /repo on every check run. Do not edit.\n")
	b.WriteString("import OxiaVerif.FactTypes\nnamespace Oxia.Facts\n")
	for _, f := range facts {
		fmt.Fprintf(&b, "/-- %s\n    seen: %s -/\n", f.Where, strings.ReplaceAll(f.Seen, "-/", "- /"))
		fmt.Fprintf(&b, "def %s : %s := %s\n", f.Name, f.Type, f.Lean)
	}
	b.WriteString("end Oxia.Facts\n")
	if *outLean != "" {
		old, _ := os.ReadFile(*outLean)
		if string(old) != b.String() { // keep mtime when unchanged so lake does not rebuild
			if err := os.WriteFile(*outLean, []byte(b.String()), 0o644); err != nil {
				fmt.Fprintln(os.Stderr, err)
				os.Exit(1)
			}
		}
	}
	if *outJSON != "" {
		j, _ := json.MarshalIndent(facts, "", " ")
		_ = os.WriteFile(*outJSON, j, 0o644)
	}
	if *outLean == "" && *outJSON == "" {
		fmt.Print(b.String())
	}
}
