package main

import (
	"fmt"
	"go/ast"
	"go/token"
	"strconv"
	"strings"
)

// constEval evaluates a constant integer expression made of literals, package-level constants of
// the same file, conversions like uint32(x), and + - * /.
func constEval(f *ast.File, e ast.Expr, depth int) (int64, bool) {
	if depth > 20 || e == nil {
		return 0, false
	}
	switch x := e.(type) {
	case *ast.BasicLit:
		if x.Kind == token.INT {
			v, err := strconv.ParseInt(x.Value, 0, 64)
			return v, err == nil
		}
	case *ast.ParenExpr:
		return constEval(f, x.X, depth+1)
	case *ast.Ident:
		return constEval(f, topVarValue(f, x.Name), depth+1)
	case *ast.CallExpr:
		if len(x.Args) == 1 {
			return constEval(f, x.Args[0], depth+1)
		}
	case *ast.BinaryExpr:
		a, ok1 := constEval(f, x.X, depth+1)
		b, ok2 := constEval(f, x.Y, depth+1)
		if !ok1 || !ok2 {
			return 0, false
		}
		switch x.Op {
		case token.ADD:
			return a + b, true
		case token.SUB:
			return a - b, true
		case token.MUL:
			return a * b, true
		case token.QUO:
			if b != 0 {
				return a / b, true
			}
		}
	}
	return 0, false
}

func natFact(name string, v int64, ok bool, where, seen string) {
	if !ok || v < 0 {
		// an unknown number is encoded as a value no obligation accepts
		add(name, "Nat", "0", where+" (UNKNOWN)", seen)
		add(name+"Known", "Bool", "false", where, seen)
		return
	}
	add(name, "Nat", fmt.Sprint(v), where, seen)
	add(name+"Known", "Bool", "true", where, seen)
}

// returnsWithStores: every `return <first>, ...` of fn whose first result is the identifier `first`
// is preceded, in its own statement list or an enclosing one, by all the `stores` (source substrings).
func returnsWithStores(fn *ast.FuncDecl, first string, stores []string) (all bool, n int) {
	all = true
	var walk func(list []ast.Stmt, inherited string)
	walk = func(list []ast.Stmt, inherited string) {
		before := inherited
		for _, st := range list {
			if rs, ok := st.(*ast.ReturnStmt); ok && len(rs.Results) > 0 {
				if id, ok := rs.Results[0].(*ast.Ident); ok && id.Name == first {
					n++
					for _, s := range stores {
						if !strings.Contains(before, s) {
							all = false
						}
					}
				}
			}
			// descend with the text seen so far
			ast.Inspect(st, func(nd ast.Node) bool {
				switch b := nd.(type) {
				case *ast.BlockStmt:
					if nd != st {
						walk(b.List, before)
						return false
					}
				case *ast.CaseClause:
					walk(b.Body, before)
					return false
				case *ast.CommClause:
					walk(b.Body, before)
					return false
				case *ast.FuncLit:
					return false
				}
				return true
			})
			if _, isBlockLike := st.(*ast.BlockStmt); !isBlockLike {
				// only straight-line statements of this list count as "before" for later siblings
				switch st.(type) {
				case *ast.ExprStmt, *ast.AssignStmt:
					before += " " + squash(src(st))
				}
			}
		}
	}
	if fn != nil && fn.Body != nil {
		walk(fn.Body.List, "")
	}
	return all && n > 0, n
}

func walFacts() {
	f := parse("server/wal/codec/v2.go")
	v2 := topVarValue(f, "v2")
	var hs ast.Expr
	if v2 != nil {
		if u, ok := v2.(*ast.UnaryExpr); ok {
			if cl, ok := u.X.(*ast.CompositeLit); ok && len(cl.Elts) > 0 {
				hs = compositeField(cl.Elts[0], "HeaderSize")
			}
		}
	}
	v, ok := constEval(f, hs, 0)
	natFact("codecV2HeaderSize", v, ok, "server/wal/codec/v2.go: v2.Metadata.HeaderSize", src(hs))

	w := parse("server/wal/wal_impl.go")
	fn := funcDecl(w, "wal", "TruncateLog")
	all, n := returnsWithStores(fn, "lastSafeOffset",
		[]string{"t.lastAppendedOffset.Store(lastSafeOffset)", "t.lastSyncedOffset.Store(lastSafeOffset)"})
	add("walTruncateUpdatesOffsetsOnAllPaths", "Bool", boolLean(all), "server/wal/wal_impl.go: (*wal).TruncateLog",
		fmt.Sprintf("%d `return lastSafeOffset, …` statements; all dominated by stores to lastAppendedOffset and lastSyncedOffset: %v", n, all))

	// a segment is msync'ed before it is closed at a rollover (the next sync covers the new segment only,
	// and lastSyncedOffset moves over everything appended)
	ro := funcDecl(w, "wal", "rolloverSegment")
	rob := ""
	if ro != nil {
		rob = squash(src(ro.Body))
	}
	iFl := strings.Index(rob, "if t.syncData { if err = t.currentSegment.Flush(); err != nil { return err } }")
	iCl := strings.Index(rob, "t.currentSegment.Close()")
	add("walRolloverFlushesSegment", "Bool", boolLean(iFl >= 0 && iCl > iFl), "server/wal/wal_impl.go: (*wal).rolloverSegment",
		"with SyncData the current segment is flushed before it is closed and replaced")

	// a sync that races with a rollover does not fail: the sync goroutine flushes the segment it chose
	// without the WAL lock; a segment that was rolled over meanwhile has been flushed before it was closed
	rsy := funcDecl(w, "wal", "runSync")
	rsb := ""
	if rsy != nil {
		rsb = squash(src(rsy.Body))
	}
	rwf := parse("server/wal/readwrite_segment.go")
	fl := funcDecl(rwf, "readWriteSegment", "Flush")
	flb := ""
	if fl != nil {
		flb = squash(src(fl.Body))
	}
	add("walSyncToleratesRollover", "Bool", boolLean(
		strings.Contains(rsb, "if err = segment.Flush(); err != nil && t.isRolledOver(segment) {") &&
			strings.Contains(flb, "if ms.closed {") && strings.Contains(flb, "return nil }")),
		"server/wal/wal_impl.go: (*wal).runSync; server/wal/readwrite_segment.go: (*readWriteSegment).Flush",
		"a failed flush of a segment that is no longer the current one is not an error; a closed segment is not flushed again")

	// every appended record is followed by a cleared payload size field: what a recovery had discarded
	// behind the end of the log cannot be walked into again
	ap := funcDecl(rwf, "readWriteSegment", "Append")
	apb := ""
	if ap != nil {
		apb = squash(src(ap.Body))
	}
	cn2 := funcDecl(rwf, "readWriteSegment", "clearNextRecordSize")
	cnb := ""
	if cn2 != nil {
		cnb = squash(src(cn2.Body))
	}
	add("walAppendTerminatesLog", "Bool", boolLean(
		strings.Contains(apb, "ms.currentFileOffset += recordSize") &&
			strings.Index(apb, "ms.clearNextRecordSize()") > strings.Index(apb, "ms.currentFileOffset += recordSize") &&
			strings.Contains(cnb, "ms.txnMappedFile[i] = 0")),
		"server/wal/readwrite_segment.go: (*readWriteSegment).Append, clearNextRecordSize",
		"after the record is written and the file offset advanced, the size field at the new end of the log is zeroed")

	// the file of a read-write segment is given its size not only when it is new but whenever it is shorter than
	// the segment (a crash can leave the file without its size); the mapping never reaches behind the end of the file
	nrw := funcDecl(rwf, "", "newReadWriteSegment")
	nrwb := ""
	if nrw != nil {
		nrwb = squash(src(nrw.Body))
	}
	iSz := strings.Index(nrwb, "if !c.segmentExists || fileInfo.Size() < int64(segmentSize) { if err = initFileWithZeroes(ms.txnFile, segmentSize); err != nil {")
	iMap := strings.Index(nrwb, "mmap.MapRegion(ms.txnFile, int(segmentSize), mmap.RDWR, 0, 0)")
	add("walSegmentFileSizeEnsured", "Bool", boolLean(iSz >= 0 && iMap > iSz && strings.Contains(nrwb, "fileInfo, err := ms.txnFile.Stat()")),
		"server/wal/readwrite_segment.go: newReadWriteSegment", fmt.Sprintf("size check at %d, mapping at %d", iSz, iMap))

	// LastOffset() reports the synced offset
	lo := funcDecl(w, "wal", "LastOffset")
	synced := lo != nil && strings.Contains(squash(src(lo.Body)), "return t.lastSyncedOffset.Load()")
	add("walLastOffsetIsSynced", "Bool", boolLean(synced), "server/wal/wal_impl.go: (*wal).LastOffset", src(lo))
}

// codecFacts classifies the bound checks of ReadHeaderWithValidation in both codecs.
func codecFacts() {
	safe, guarded := true, true
	seen := ""
	for _, v := range []struct{ file, recv string }{{"server/wal/codec/v2.go", "V2"}, {"server/wal/codec/v1.go", "V1"}} {
		f := parse(v.file)
		fn := funcDecl(f, v.recv, "ReadHeaderWithValidation")
		if fn == nil {
			safe, guarded = false, false
			continue
		}
		body := squash(src(fn.Body))
		// overflow-safe: the size check has the shape `actualBufSize < H || payloadSize > actualBufSize-H`
		// and no `payloadSize + ...HeaderSize` sum is compared with the buffer size
		okShape := strings.Contains(body, "actualBufSize < v.HeaderSize || payloadSize > actualBufSize-v.HeaderSize")
		badSum := strings.Contains(body, "payloadSize + v.HeaderSize") || strings.Contains(body, "v.HeaderSize + payloadSize")
		if !okShape || badSum {
			safe = false
		}
		// guarded: a check `actualBufSize < v?PayloadSizeLen` (or HeaderSize) precedes the first ReadInt
		ri := strings.Index(body, "ReadInt(")
		g1 := strings.Index(body, "if actualBufSize < v"+strings.ToLower(v.recv[1:])+"PayloadSizeLen")
		g2 := strings.Index(body, "if actualBufSize < v.HeaderSize {")
		if !(ri >= 0 && ((g1 >= 0 && g1 < ri) || (g2 >= 0 && g2 < ri))) {
			guarded = false
		}
		seen += fmt.Sprintf("%s: okShape=%v sum=%v; ", v.recv, okShape, badSum)
	}
	add("codecSizeCheckOverflowSafe", "Bool", boolLean(safe), "server/wal/codec/v1.go,v2.go: ReadHeaderWithValidation", seen)
	// the index file of a read-only segment: ReadIndex (v2) looks at the length of what it has read before it
	// takes the checksum out of the first four bytes, and what is too short is reported as corrupted (so that
	// the index is rebuilt); newReadOnlySegment refuses an index without entries before it looks up the last one
	ri2 := funcDecl(parse("server/wal/codec/v2.go"), "V2", "ReadIndex")
	rib := ""
	if ri2 != nil {
		rib = squash(src(ri2.Body))
	}
	lg := strings.Index(rib, "if uint32(len(indexBuf)) < v.GetIndexHeaderSize() { return nil, errors.Wrapf(ErrDataCorrupted,")
	rd := strings.Index(rib, "ReadInt(indexBuf, 0)")
	add("readIndexChecksLength", "Bool", boolLean(lg >= 0 && rd > lg), "server/wal/codec/v2.go: (*V2).ReadIndex",
		fmt.Sprintf("length check at %d, first ReadInt at %d", lg, rd))
	nro := funcDecl(parse("server/wal/readonly_segment.go"), "", "newReadOnlySegment")
	nrb := ""
	if nro != nil {
		nrb = squash(src(nro.Body))
	}
	eg := strings.Index(nrb, "if len(ms.idx) < 4 { return nil, errors.Wrapf(codec.ErrDataCorrupted,")
	lo2 := strings.Index(nrb, "ms.lastOffset = ")
	rb := strings.Index(nrb, "ms.c.codec.RecoverIndex(")
	add("readOnlySegmentRefusesEmptyIndex", "Bool", boolLean(eg >= 0 && lo2 > eg && rb >= 0 && rb < eg), "server/wal/readonly_segment.go: newReadOnlySegment",
		fmt.Sprintf("rebuild at %d, empty-index check at %d, last offset computed at %d", rb, eg, lo2))
	add("codecReadIntGuarded", "Bool", boolLean(guarded), "server/wal/codec/v1.go,v2.go: ReadHeaderWithValidation", seen)
	// v1 header size
	f1 := parse("server/wal/codec/v1.go")
	v, ok := constEval(f1, topVarValue(f1, "v1PayloadSizeLen"), 0)
	natFact("codecV1HeaderSize", v, ok, "server/wal/codec/v1.go: v1PayloadSizeLen", "")
}

// dbFacts: facts about server/kv/db.go and server/secondary_indexes.go.
func dbFacts() {
	f := parse("server/secondary_indexes.go")
	fn := funcDecl(f, "", "doSecondaryGet")
	body := ""
	if fn != nil {
		body = squash(src(fn.Body))
	}
	// the loop rejects iterator positions outside "__oxia/idx/<indexName>/"
	stays := strings.Contains(body, "strings.HasPrefix(itKey, indexPrefix)") &&
		strings.Contains(body, "indexPrefix := fmt.Sprintf(secondaryIdxRangePrefixFormat, indexName, \"\")")
	add("secondaryGetChecksIndexName", "Bool", boolLean(stays), "server/secondary_indexes.go: doSecondaryGet",
		fmt.Sprintf("guard `strings.HasPrefix(itKey, indexPrefix)` present: %v", stays))

	// running off the key space means "not found": FLOOR falls back to SeekLT when SeekGE finds nothing,
	// and the function ends with `return "", "", nil`
	endSafe := strings.Contains(body, "!it.SeekGE(searchKey) && req.ComparisonType == proto.KeyComparisonType_FLOOR") &&
		strings.Contains(body, "it.SeekLT(searchKey)") && strings.HasSuffix(strings.TrimSuffix(strings.TrimSpace(body), "}"), "return \"\", \"\", nil ")
	add("secondaryGetEndOfKeySpaceSafe", "Bool", boolLean(endSafe), "server/secondary_indexes.go: doSecondaryGet",
		fmt.Sprintf("SeekGE fallback for FLOOR and final `return \"\", \"\", nil`: %v", endSafe))

	d := parse("server/kv/db.go")
	v, ok := constEval(d, topVarValue(d, "DeleteRangeThreshold"), 0)
	natFact("deleteRangeThreshold", v, ok, "server/kv/db.go: DeleteRangeThreshold", "")
	// order of the three loops in applyWriteRequest
	aw := funcDecl(d, "db", "applyWriteRequest")
	awb := ""
	if aw != nil {
		awb = squash(src(aw.Body))
	}
	i1, i2, i3 := strings.Index(awb, "range b.Puts"), strings.Index(awb, "range b.Deletes"), strings.Index(awb, "range b.DeleteRanges")
	add("applyOrderPutsDeletesRanges", "Bool", boolLean(i1 >= 0 && i1 < i2 && i2 < i3), "server/kv/db.go: applyWriteRequest",
		fmt.Sprintf("positions of the loops over Puts/Deletes/DeleteRanges: %d %d %d", i1, i2, i3))
	// ProcessWrite: exactly one batch.Commit(), preceded by the commit offset, last version id and notifications
	pw := funcDecl(d, "db", "ProcessWrite")
	pwb := ""
	if pw != nil {
		pwb = squash(src(pw.Body))
	}
	c := strings.Index(pwb, "batch.Commit()")
	single := c >= 0 && strings.Count(pwb, "batch.Commit()") == 1 &&
		strings.Index(pwb, "applyWriteRequest(") >= 0 && strings.Index(pwb, "applyWriteRequest(") < c &&
		strings.Index(pwb, "addASCIILong(commitOffsetKey") >= 0 && strings.Index(pwb, "addASCIILong(commitOffsetKey") < c &&
		strings.Index(pwb, "addASCIILong(commitLastVersionIdKey") >= 0 && strings.Index(pwb, "addASCIILong(commitLastVersionIdKey") < c &&
		strings.Index(pwb, "addNotifications(batch") >= 0 && strings.Index(pwb, "addNotifications(batch") < c &&
		strings.Index(pwb, "applyWriteRequest(") < strings.Index(pwb, "addASCIILong(commitLastVersionIdKey")
	add("processWriteSingleBatchCommit", "Bool", boolLean(single), "server/kv/db.go: ProcessWrite",
		"one batch.Commit(); applyWriteRequest, commit offset, last version id and notifications are added to the same batch before it, the version id after the operations were applied")
}

// channelFacts: the shape of overrideChannel.WriteLast.
func channelFacts() {
	f := parse("common/channel/override_channel.go")
	fn := funcDecl(f, "overrideChannel", "WriteLast")
	ok := false
	seen := ""
	if fn != nil {
		// for { select { case o.ch <- value: return; default: select { case <-o.ch: continue; default: continue } } }
		var outer *ast.SelectStmt
		ast.Inspect(fn.Body, func(n ast.Node) bool {
			if s, isSel := n.(*ast.SelectStmt); isSel && outer == nil {
				outer = s
			}
			return outer == nil
		})
		if outer != nil {
			for _, c := range outer.Body.List {
				cc := c.(*ast.CommClause)
				if cc.Comm != nil {
					continue
				}
				// the outer default: must consist of exactly the inner select
				if len(cc.Body) != 1 {
					continue
				}
				inner, isSel := cc.Body[0].(*ast.SelectStmt)
				if !isSel {
					continue
				}
				good := true
				for _, ic := range inner.Body.List {
					icc := ic.(*ast.CommClause)
					b := squash(src(&ast.BlockStmt{List: icc.Body}))
					seen += fmt.Sprintf("[comm=%s body=%s] ", squash(src(icc.Comm)), b)
					if len(icc.Body) != 1 {
						good = false
						continue
					}
					br, isBr := icc.Body[0].(*ast.BranchStmt)
					if !isBr || br.Tok != token.CONTINUE {
						good = false
					}
				}
				ok = good
			}
		}
	}
	add("overrideChannelInnerDefaultContinues", "Bool", boolLean(ok), "common/channel/override_channel.go: (*overrideChannel).WriteLast", seen)
}

// shardFacts: facts about the coordinator's published assignments and cluster updates.
func shardFacts() {
	f := parse("coordinator/coordinator.go")
	fn := funcDecl(f, "coordinator", "computeNewAssignments")
	body := ""
	if fn != nil {
		body = squash(src(fn.Body))
	}
	// every shard whose status is not Deleting is published (with an empty leader if there is none)
	ok := strings.Contains(body, "if a.Status != model.ShardStatusDeleting {") && !strings.Contains(body, "a.Status == model.ShardStatusSteadyState")
	add("assignmentsPublishAllButDeleting", "Bool", boolLean(ok), "coordinator/coordinator.go: computeNewAssignments",
		fmt.Sprintf("filter `a.Status != model.ShardStatusDeleting`: %v", ok))
	u := parse("coordinator/utils/cluster_updates.go")
	ac := funcDecl(u, "", "ApplyClusterChanges")
	acb := ""
	if ac != nil {
		acb = squash(src(ac.Body))
	}
	skips := strings.Contains(acb, "ensembleSupplier(&nc, newStatus); err != nil {") && strings.Contains(acb, "continue }")
	add("applyClusterChangesSkipsFailedShards", "Bool", boolLean(skips), "coordinator/utils/cluster_updates.go: ApplyClusterChanges",
		"a failed ensembleSupplier call is followed by `continue` (the shard is skipped)")
	s := parse("common/sharding/shards.go")
	gs := funcDecl(s, "", "GenerateShards")
	gsb := ""
	if gs != nil {
		gsb = squash(src(gs.Body))
	}
	w32 := strings.Contains(gsb, "bucketSize := (math.MaxUint32 / numShards) + 1") && strings.Contains(gsb, "lowerBound := i * bucketSize") &&
		strings.Contains(gsb, "upperBound := lowerBound + bucketSize - 1") && strings.Contains(gsb, "if i == numShards-1 { upperBound = math.MaxUint32 }")
	add("generateShardsShape32", "Bool", boolLean(w32), "common/sharding/shards.go: GenerateShards",
		"bucketSize = MaxUint32/numShards + 1; lower = i*bucketSize; upper = lower+bucketSize-1, last = MaxUint32 (all in uint32)")
}

// notificationFacts: trimmer range and the leader's initial subscriber position.
func notificationFacts() {
	f := parse("server/kv/notifications_trimmer.go")
	fn := funcDecl(f, "notificationsTrimmer", "trimNotifications")
	body := ""
	if fn != nil {
		body = squash(src(fn.Body))
	}
	ok := strings.Contains(body, "wb.DeleteRange(notificationKey(first), notificationKey(trimOffset+1))") && strings.Count(body, "DeleteRange(") == 1
	add("notificationsTrimUpperBoundIsTrimOffsetPlusOne", "Bool", boolLean(ok), "server/kv/notifications_trimmer.go: trimNotifications",
		"the only DeleteRange is [notificationKey(first), notificationKey(trimOffset+1))")
	l := parse("server/leader_controller.go")
	gn := funcDecl(l, "leaderController", "GetNotifications")
	gb := ""
	if gn != nil {
		gb = squash(src(gn.Body))
	}
	start := strings.Contains(gb, "commitOffset := qat.CommitOffset()") && strings.Contains(gb, "offsetExclusive = commitOffset") &&
		!strings.Contains(gb, "HeadOffset()") && strings.Contains(gb, "lc.db.ReadNextNotifications(ctx, offset+1)")
	add("notificationsStartAtCommitOffset", "Bool", boolLean(start), "server/leader_controller.go: GetNotifications",
		"a subscriber without start offset is positioned at qat.CommitOffset(); the dispatch loop reads from offset+1")
}

// selectorFacts: how the anti-affinity selector combines labels, and the selector chain order.
func selectorFacts() {
	f := parse("coordinator/selectors/single/anti_affinity_selector.go")
	fn := funcDecl(f, "serverAntiAffinitiesSelector", "Select")
	body := ""
	if fn != nil {
		body = squash(src(fn.Body))
	}
	union := strings.Contains(body, "if affinityIdx == 0 { candidates.Add(labelSatisfiedCandidates.Values()...) continue }") &&
		strings.Contains(body, "if affinityIdx > 0 { labelSatisfiedCandidates = labelSatisfiedCandidates.Intersection(candidates) }") &&
		strings.Contains(body, "candidates = labelSatisfiedCandidates")
	add("antiAffinityFirstRuleUnion", "Bool", boolLean(union), "coordinator/selectors/single/anti_affinity_selector.go: Select",
		"labels of rule 0 are added (union), labels of later rules intersected with the running candidate set")
	shape := union && strings.Contains(body, "labelSatisfiedCandidates.Intersection(candidates)") && !strings.Contains(body, "Intersection(ssContext.Candidates)")
	add("antiAffinityLaterRulesIntersectRunningSet", "Bool", boolLean(shape), "coordinator/selectors/single/anti_affinity_selector.go: Select",
		"later rules intersect with the running set `candidates` (not with the context's full candidate set)")
	s := parse("coordinator/selectors/single/selector.go")
	ns := funcDecl(s, "", "NewSelector")
	chain := ns != nil && strings.Contains(squash(src(ns.Body)), "&serverAntiAffinitiesSelector{}, &lowerestLoadSelector{}, &finalSelector{}")
	add("selectorChainOrder", "Bool", boolLean(chain), "coordinator/selectors/single/selector.go: NewSelector", "anti-affinity, lowest load, final")
	sel := funcDecl(s, "server", "Select")
	selb := ""
	if sel != nil {
		selb = squash(src(sel.Body))
	}
	refuses := !strings.Contains(selb, "panic(") && strings.Contains(selb, "if serverId == \"\" { return \"\", selectors.ErrUnsatisfiedEnsembleReplicas }")
	add("selectorRefusesWhenNoCandidate", "Bool", boolLean(refuses), "coordinator/selectors/single/selector.go: (*server).Select",
		"when no selector of the chain picks a server the chain returns ErrUnsatisfiedEnsembleReplicas (no panic)")
	c := parse("coordinator/controllers/shard_controller.go")
	rl := funcDecl(c, "", "replaceInList")
	rlb := ""
	if rl != nil {
		rlb = squash(src(rl.Body))
	}
	byID := strings.Contains(rlb, "item.GetIdentifier() != oldServer.GetIdentifier()") && strings.Contains(rlb, "res = append(res, newServer)")
	add("replaceInListComparesIdentifiers", "Bool", boolLean(byID), "coordinator/controllers/shard_controller.go: replaceInList", rlb)
	b := parse("coordinator/balancer/scheduler.go")
	sw := funcDecl(b, "nodeBasedBalancer", "swapShard")
	swb := ""
	if sw != nil {
		swb = squash(src(sw.Body))
	}
	// the members that stay are collected first, then taken out of the candidates, then the selector runs
	iFill := strings.Index(swb, "if candidateID == fromNodeID { continue } selected.Add(candidateID)")
	iSet := strings.Index(swb, "sContext.SetSelected(selected)")
	iSel := strings.Index(swb, "r.selector.Select(sContext)")
	swapOk := iFill >= 0 && iSet > iFill && iSel > iSet &&
		strings.Contains(swb, "if targetNodeID == fromNodeID { return false, nil }")
	// a proposed swap is recorded in every copy of the shard, so that a second swap of the same shard in the same
	// round is computed against the ensemble the shard will have
	lrf := parse("coordinator/model/load_ratio.go")
	rep := funcDecl(lrf, "Ratio", "ReplaceInShardEnsembles")
	repb := ""
	if rep != nil {
		repb = squash(src(rep.Body))
	}
	iMove := strings.Index(swb, "loadRatios.MoveShardToNode(candidateShard, fromNodeID, targetNodeID)")
	iRep := strings.Index(swb, "loadRatios.ReplaceInShardEnsembles(candidateShard.Namespace, candidateShard.ShardID, fromNodeID, *targetNode)")
	add("balancerRecordsSwapInShardEnsembles", "Bool", boolLean(iMove >= 0 && iRep > iMove &&
		strings.Contains(repb, "if shard.Namespace != namespace || shard.ShardID != shardID { continue }") &&
		strings.Contains(repb, "if server.GetIdentifier() != fromNode { ensemble = append(ensemble, server) }") &&
		strings.Contains(repb, "shard.Ensemble = append(ensemble, toNode)")),
		"coordinator/balancer/scheduler.go: swapShard; coordinator/model/load_ratio.go: ReplaceInShardEnsembles", "the swap is applied to the ensemble of every node's copy of the shard")
	add("swapShardSelectsAgainstRestOfEnsemble", "Bool", boolLean(swapOk), "coordinator/balancer/scheduler.go: swapShard",
		"selected = ensemble minus the node being left; SetSelected; the single-server selector picks the target; target == from is refused")
}

// clientFacts: batcher loop and multi-shard get.
func clientFacts() {
	f := parse("oxia/batch/batcher.go")
	fn := funcDecl(f, "batcherImpl", "Run")
	body := ""
	if fn != nil {
		body = squash(src(fn.Body))
	}
	rearm := strings.Contains(body, "if !canAdd { completeBatch() newBatch() }") &&
		strings.Contains(body, "newBatch := func() { batch = b.batchFactory() if b.linger > 0 { timer = time.NewTimer(b.linger) timeout = timer.C } }")
	add("batcherRearmsTimerAfterSplit", "Bool", boolLean(rearm), "oxia/batch/batcher.go: (*batcherImpl).Run",
		"after a size split the new batch is created by newBatch(), which arms the linger timer")
	rb := parse("oxia/internal/batch/read_batch.go")
	dr := funcDecl(rb, "readBatch", "doRequest")
	db := ""
	if dr != nil {
		db = squash(src(dr.Body))
	}
	fresh := strings.Contains(db, "response := &proto.ReadResponse{} for {") && !strings.Contains(db, "b.response")
	add("readBatchFreshResponsePerAttempt", "Bool", boolLean(fresh), "oxia/internal/batch/read_batch.go: (*readBatch).doRequest",
		"every attempt accumulates the stream into a response object created inside doRequest")
	wb := parse("oxia/internal/batch/write_batch.go")
	wh := funcDecl(wb, "writeBatch", "handle")
	whb := ""
	if wh != nil {
		whb = squash(src(wh.Body))
	}
	pos := strings.Contains(whb, "for i, put := range b.puts { put.Callback(response.Puts[i], nil) }") &&
		strings.Contains(whb, "for i, _delete := range b.deletes { _delete.Callback(response.Deletes[i], nil) }") &&
		strings.Contains(whb, "for i, deleteRange := range b.deleteRanges { deleteRange.Callback(response.DeleteRanges[i], nil) }")
	add("writeBatchHandlePositional", "Bool", boolLean(pos), "oxia/internal/batch/write_batch.go: (*writeBatch).handle",
		"the i-th call of each list gets the i-th response of the matching list")
	a := parse("oxia/async_client_impl.go")
	mg := funcDecl(a, "clientImpl", "doMultiShardGet")
	mb := ""
	if mg != nil {
		mb = squash(src(mg.Body))
	}
	ret := strings.Contains(mb, "if err != nil { ch <- toGetResult(nil, key, err) close(ch) counter = 0 return }")
	add("multiShardGetReturnsAfterError", "Bool", boolLean(ret), "oxia/async_client_impl.go: doMultiShardGet",
		"the error branch of the per-shard callback ends with return")
}

// pipelineFacts: leader write path, quorum tracker, WAL sync.
func pipelineFacts() {
	lc := parse("server/leader_controller.go")
	w := funcDecl(lc, "leaderController", "write")
	wb := ""
	if w != nil {
		wb = squash(src(w.Body))
	}
	iLock := strings.Index(wb, "lc.appendLock.Lock() defer lc.appendLock.Unlock()")
	iNext := strings.Index(wb, "lc.quorumAckTracker.NextOffset()")
	iApp := strings.Index(wb, "walLog.AppendAndSync(")
	add("writeHoldsAppendLockAcrossAllocAndAppend", "Bool", boolLean(iLock >= 0 && iLock < iNext && iNext < iApp && strings.Count(wb, "appendLock.Unlock()") == 1),
		"server/leader_controller.go: (*leaderController).write",
		"the offset allocation (NextOffset) and the WAL append (AppendAndSync) happen under lc.appendLock, released by defer")
	iStat := strings.Index(wb, "checkStatusIsLeader(lc.status)")
	add("writeChecksLeaderStatusBeforeAlloc", "Bool", boolLean(iStat >= 0 && iStat < iNext), "server/leader_controller.go: (*leaderController).write",
		"the status check precedes the offset allocation")
	q := parse("server/quorum_ack_tracker.go")
	ack := funcDecl(q, "cursorAcker", "ack")
	ab := ""
	if ack != nil {
		ab = squash(src(ack.Body))
	}
	nw := funcDecl(q, "", "NewQuorumAckTracker")
	nb := ""
	if nw != nil {
		nb = squash(src(nw.Body))
	}
	nt := funcDecl(q, "quorumAckTracker", "notifyCommitOffsetAdvanced")
	ntb := ""
	if nt != nil {
		ntb = squash(src(nt.Body))
	}
	okAck := strings.Contains(ab, "e.Set(c.cursorIdx) if uint32(e.Count()) == q.requiredAcks { delete(q.tracker, offset)") &&
		strings.Contains(ab, "q.notifyCommitOffsetAdvanced(offset) }") &&
		strings.Contains(nb, "requiredAcks: replicationFactor / 2,") &&
		strings.HasPrefix(ntb, "{ q.commitOffset.Store(commitOffset) for _, r := range q.waitingRequests { if r.minOffset > commitOffset { return }")
	add("trackerCommitsAtRequiredAcks", "Bool", boolLean(okAck), "server/quorum_ack_tracker.go: ack, NewQuorumAckTracker, notifyCommitOffsetAdvanced",
		"an entry is committed when exactly RF/2 distinct cursors have acknowledged it; the commit offset is stored before the waiting requests are completed")
	// the completions (on the leader: the application of the committed entry to the database and the answer
	// to the client) run while the tracker's mutex is held, one commit after the other: this is what keeps
	// the application in offset order when several cursors acknowledge concurrently
	ackPub := funcDecl(q, "cursorAcker", "Ack")
	apb := ""
	if ackPub != nil {
		apb = squash(src(ackPub.Body))
	}
	add("trackerCompletesWaitersUnderLock", "Bool", boolLean(
		apb == "{ c.quorumTracker.Lock() defer c.quorumTracker.Unlock() c.ack(offset) }" &&
			strings.Contains(ntb, "q.waitingRequests = q.waitingRequests[1:] r.callback.OnComplete(nil) }")),
		"server/quorum_ack_tracker.go: (*cursorAcker).Ack, notifyCommitOffsetAdvanced",
		"Ack holds the tracker mutex for the whole call (deferred unlock) and notifyCommitOffsetAdvanced invokes the callbacks itself")
	wl := parse("server/wal/wal_impl.go")
	cn := funcDecl(wl, "wal", "checkNextOffset")
	cb := ""
	if cn != nil {
		cb = squash(src(cn.Body))
	}
	add("walRejectsNonContiguousOffsets", "Bool", boolLean(strings.Contains(cb, "expectedOffset := lastAppendedOffset + 1 if lastAppendedOffset != InvalidOffset && nextOffset != expectedOffset { return errors.Wrapf(ErrInvalidNextOffset")),
		"server/wal/wal_impl.go: (*wal).checkNextOffset", "an append whose offset is not lastAppended+1 is rejected")
	rs := funcDecl(wl, "wal", "runSync")
	rb := ""
	if rs != nil {
		rb = squash(src(rs.Body))
	}
	iDrain := strings.Index(rb, "callbacks = t.drainSyncRequestsChannel(callbacks)")
	iSnap := strings.Index(rb, "lastAppendedOffset := t.lastAppendedOffset.Load()")
	iStore := strings.Index(rb, "t.lastSyncedOffset.Store(lastAppendedOffset)")
	iCb := strings.Index(rb, "for _, callback := range callbacks { callback(err) }")
	add("walSyncCallbacksOnlyForFlushedEntries", "Bool", boolLean(iDrain >= 0 && iDrain < iSnap && iSnap < iStore && iStore < iCb),
		"server/wal/wal_impl.go: (*wal).runSync",
		"the sync requests are collected before the snapshot of the last appended offset is taken, the flush covers that offset, and the callbacks run after lastSyncedOffset is stored")
}

// sessionFacts: shadow maintenance, cleanup, re-arming.
func sessionFacts() {
	sm := parse("server/session_manager.go")
	op := funcDecl(sm, "sessionManagerUpdateOperationCallbackS", "OnPutWithinSession")
	ob := ""
	if op != nil {
		ob = squash(src(op.Body))
	}
	iDel := strings.Index(ob, "deleteShadow(batch, request.Key, existingEntry)")
	iPut := strings.Index(ob, "batch.Put(ShadowKey(SessionId(*request.SessionId), request.Key), []byte{})")
	iGet := strings.Index(ob, "batch.Get(SessionKey(SessionId(*request.SessionId)))")
	okOrder := iGet >= 0 && iDel > iGet && iPut > iDel && strings.Contains(ob, "return proto.Status_SESSION_DOES_NOT_EXIST, nil")
	// shadow keys are written with url.PathEscape and read back with url.PathUnescape (its inverse; QueryUnescape,
	// for one, would turn '+' into a space and make the session end delete another key)
	sesf := parse("server/session.go")
	smf := parse("server/session_manager.go")
	sdel := funcDecl(sesf, "session", "delete")
	sdb := ""
	if sdel != nil {
		sdb = squash(src(sdel.Body))
	}
	shk := funcDecl(smf, "", "ShadowKey")
	shb := ""
	if shk != nil {
		shb = squash(src(shk.Body))
	}
	add("sessionShadowKeyEscapeRoundTrips", "Bool", boolLean(strings.Contains(sdb, "url.PathUnescape(key[len(sessionKey)+1:])") &&
		!strings.Contains(sdb, "QueryUnescape") && strings.Contains(shb, "url.PathEscape(key)")),
		"server/session.go: (*session).delete; server/session_manager.go: ShadowKey", "PathEscape when the shadow key is written, PathUnescape when it is read back")

	add("sessionShadowPutBeforeDelete", "Bool", boolLean(!okOrder), "server/session_manager.go: OnPutWithinSession",
		"false = the session record is looked up first, then the previous owner's shadow is deleted, then the new shadow is written")
	ini := funcDecl(sm, "sessionManager", "Initialize")
	ib := ""
	if ini != nil {
		ib = squash(src(ini.Body))
	}
	rs := funcDecl(sm, "sessionManager", "readSessions")
	rb := ""
	if rs != nil {
		rb = squash(src(rs.Body))
	}
	add("sessionInitializeRearmsAllSessions", "Bool", boolLean(strings.Contains(ib, "sessions, err := sm.readSessions()") &&
		strings.Contains(ib, "for sessionId, sessionMetadata := range sessions { startSession(sessionId, sessionMetadata, sm) }") &&
		strings.Contains(rb, "StartInclusive: sessionKeyPrefix + \"/\", EndExclusive: sessionKeyPrefix + \"//\",")),
		"server/session_manager.go: Initialize, readSessions", "every session record of the database gets a fresh timer on the new leader")
	dr := funcDecl(sm, "sessionManagerUpdateOperationCallbackS", "OnDeleteRange")
	_ = dr
	db := parse("server/kv/db.go")
	adr := funcDecl(db, "db", "applyDeleteRange")
	ab := ""
	if adr != nil {
		ab = squash(src(adr.Body))
	}
	// the scan loop calls the callback for every key and has no early exit other than errors
	loopOK := strings.Contains(ab, "OnDeleteWithEntry(batch, key, se)") && !strings.Contains(ab, "break")
	add("sessionCallbackOnEveryRangeDeletedKey", "Bool", boolLean(loopOK), "server/kv/db.go: applyDeleteRange",
		"the delete callback (shadow and index removal) runs for every record of the range, below and above the tombstone threshold")
	se := parse("server/session.go")
	wh := funcDecl(se, "session", "waitForHeartbeats")
	wb := ""
	if wh != nil {
		wb = squash(src(wh.Body))
	}
	dl := funcDecl(se, "session", "delete")
	dlb := ""
	if dl != nil {
		dlb = squash(src(dl.Body))
	}
	okExp := strings.Contains(wb, "case <-timeoutTimer.C:") && strings.Contains(wb, "s.close() if err := s.delete(); err != nil") &&
		strings.Contains(wb, "timeoutTimer.Reset(s.timeout)") && strings.Contains(wb, "timeoutTimer := time.NewTimer(s.timeout)") &&
		strings.Contains(dlb, "DeleteRanges: []*proto.DeleteRangeRequest{ { StartInclusive: sessionKey + \"/\", EndExclusive: sessionKey + \"//\", }, }") &&
		strings.Contains(dlb, "deletes = append(deletes, &proto.DeleteRequest{ Key: sessionKey, })")
	add("sessionExpiryRunsCleanup", "Bool", boolLean(okExp), "server/session.go: waitForHeartbeats, delete",
		"a timer of the session timeout, reset by every heartbeat; when it fires the session is closed and its cleanup write is issued (listed keys, the session record, the shadow range)")
}

// routeFacts: every route that applies log entries to the database (C06, C07).
func routeFacts() {
	db := parse("server/kv/db.go")
	pw := funcDecl(db, "db", "ProcessWrite")
	pb := ""
	if pw != nil {
		pb = squash(src(pw.Body))
	}
	iApply := strings.Index(pb, "d.applyWriteRequest(b, batch, commitOffset, timestamp, updateOperationCallback)")
	iCo := strings.Index(pb, "d.addASCIILong(commitOffsetKey, commitOffset, batch, timestamp)")
	iLv := strings.Index(pb, "d.addASCIILong(commitLastVersionIdKey, d.versionIdTracker.Load(), batch, timestamp)")
	iCommit := strings.Index(pb, "batch.Commit()")
	add("versionIdPersistedAfterApply", "Bool", boolLean(iApply >= 0 && iApply < iCo && iCo < iLv && iLv < iCommit && strings.Count(pb, "batch.Commit()") == 1),
		"server/kv/db.go: (*db).ProcessWrite",
		"the commit offset and the version counter (read after the request has been applied) go into the same batch as the effects, committed once")
	lc := parse("server/leader_controller.go")
	w := funcDecl(lc, "leaderController", "write")
	wb := ""
	if w != nil {
		wb = squash(src(w.Body))
	}
	add("leaderLiveUsesWrapperCallbackAndEntryArgs", "Bool", boolLean(strings.Contains(wb, "lc.db.ProcessWrite(request, newOffset, timestamp, WrapperUpdateOperationCallback)") &&
		strings.Contains(wb, "Offset: newOffset,") && strings.Contains(wb, "Timestamp: timestamp,") &&
		strings.Contains(wb, "Requests: &proto.WriteRequests{Writes: []*proto.WriteRequest{request}}")),
		"server/leader_controller.go: (*leaderController).write",
		"the live path applies the request with the offset and timestamp it logged, through the wrapper callback")
	rp := funcDecl(lc, "leaderController", "applyAllEntriesIntoDBLoop")
	rb := ""
	if rp != nil {
		rb = squash(src(rp.Body))
	}
	ra := funcDecl(lc, "leaderController", "applyAllEntriesIntoDB")
	rab := ""
	if ra != nil {
		rab = squash(src(ra.Body))
	}
	add("leaderReplayUsesWrapperCallbackAndEntryArgs", "Bool", boolLean(strings.Contains(rb, "for _, writeRequest := range logEntryValue.GetRequests().Writes { if _, err = lc.db.ProcessWrite(writeRequest, entry.Offset, entry.Timestamp, WrapperUpdateOperationCallback); err != nil { return err } }") &&
		strings.Contains(rb, "logEntryValue := &proto.LogEntryValue{} if err = logEntryValue.UnmarshalVT(entry.Value); err != nil { return err }")),
		"server/leader_controller.go: applyAllEntriesIntoDBLoop", "the replay of a new leader applies every request of every entry with the entry's offset and timestamp, through the wrapper callback")
	add("leaderReplayStartsAfterDbCommitOffset", "Bool", boolLean(strings.Contains(rab, "dbCommitOffset, err := lc.db.ReadCommitOffset()") &&
		strings.Contains(rab, "r, err := lc.wal.NewReader(dbCommitOffset)")),
		"server/leader_controller.go: applyAllEntriesIntoDB", "the replay reads the WAL from the commit offset stored in the database (exclusive)")
	fc := parse("server/follower_controller.go")
	pc := funcDecl(fc, "followerController", "processCommitRequest")
	pcb := ""
	if pc != nil {
		pcb = squash(src(pc.Body))
	}
	add("followerApplyUsesWrapperCallbackAndEntryArgs", "Bool", boolLean(strings.Contains(pcb, "for _, br := range logEntryValue.GetRequests().Writes { _, err := fc.db.ProcessWrite(br, entry.Offset, entry.Timestamp, WrapperUpdateOperationCallback)")),
		"server/follower_controller.go: processCommitRequest", "the follower applies every request of an entry with the entry's offset and timestamp, through the wrapper callback")
	pl := funcDecl(fc, "followerController", "processCommittedEntriesLoop")
	plb := ""
	if pl != nil {
		plb = squash(src(pl.Body))
	}
	add("followerApplyResetsPooledEntry", "Bool", boolLean(strings.Contains(plb, "logEntryValue.ResetVT() if err := logEntryValue.UnmarshalVT(entry.Value); err != nil") &&
		strings.Contains(plb, "if entry.Offset > maxInclusive {") &&
		strings.Contains(plb, "fc.commitOffset.Store(entry.Offset)")),
		"server/follower_controller.go: processCommittedEntriesLoop", "the pooled entry value is reset before every decode; entries beyond the advertised commit offset are not applied")
	pe := funcDecl(fc, "followerController", "processCommittedEntries")
	peb := ""
	if pe != nil {
		peb = squash(src(pe.Body))
	}
	add("followerApplyStartsAfterCommitOffset", "Bool", boolLean(strings.Contains(peb, "fc.wal.NewReader(fc.commitOffset.Load())")),
		"server/follower_controller.go: processCommittedEntries", "an apply round reads the WAL from the follower's commit offset (exclusive)")
	nf := funcDecl(fc, "", "NewFollowerController")
	nfb := ""
	if nf != nil {
		nfb = squash(src(nf.Body))
	}
	iRt := strings.Index(nfb, "fc.term, fc.termOptions, err = fc.db.ReadTerm()")
	iEn := strings.Index(nfb, "fc.db.EnableNotifications(fc.termOptions.NotificationsEnabled)")
	iCo2 := strings.Index(nfb, "commitOffset, err := fc.db.ReadCommitOffset()")
	add("followerRestartRestoresNotificationsFlag", "Bool", boolLean(iRt >= 0 && iEn > iRt && iCo2 > 0 && strings.Contains(nfb, "fc.commitOffset.Store(commitOffset)")),
		"server/follower_controller.go: NewFollowerController", "a restarted follower restores the notifications setting of its term and its commit offset from the database")
	lnt := funcDecl(lc, "leaderController", "NewTerm")
	fnt := funcDecl(fc, "followerController", "NewTerm")
	okNt := lnt != nil && fnt != nil && strings.Contains(squash(src(lnt.Body)), "lc.db.EnableNotifications(lc.termOptions.NotificationsEnabled)") &&
		strings.Contains(squash(src(fnt.Body)), "fc.db.EnableNotifications(fc.termOptions.NotificationsEnabled)")
	add("newTermSetsNotificationsFlag", "Bool", boolLean(okNt), "server/*_controller.go: NewTerm", "a new term sets the notifications flag from the term options on leader and follower controllers")
	hs := funcDecl(fc, "followerController", "handleSnapshot")
	hsb := ""
	if hs != nil {
		hsb = squash(src(hs.Body))
	}
	iLc := strings.Index(hsb, "loader.Complete()")
	iNd := strings.Index(hsb, "newDb, err := kv.NewDB(")
	iEn2 := strings.Index(hsb, "newDb.EnableNotifications(fc.termOptions.NotificationsEnabled)")
	iSet := strings.Index(hsb, "fc.db = newDb fc.commitOffset.Store(commitOffset) fc.lastAppendedOffset = commitOffset")
	kp := parse("server/kv/kv_pebble.go")
	kps := ""
	if kp != nil {
		for _, d := range kp.Decls {
			kps += squash(src(d)) + " "
		}
	}
	add("pebbleRunsWithoutItsOwnWal", "Bool", boolLean(strings.Contains(kps, "DisableWAL: true,") && strings.Contains(kps, "batch.Commit(pebble.NoSync)") || strings.Contains(kps, "DisableWAL: true,")),
		"server/kv/kv_pebble.go: pebble.Options", "Pebble's own write-ahead log is disabled: what was not flushed is lost by a crash and is re-applied from the shard's WAL")
	wr := parse("server/wal/wal_reader.go")
	hn := funcDecl(wr, "forwardReader", "HasNext")
	hnb := ""
	if hn != nil {
		hnb = squash(src(hn.Body))
	}
	wi := parse("server/wal/wal_impl.go")
	lo := funcDecl(wi, "wal", "LastOffset")
	lob := ""
	if lo != nil {
		lob = squash(src(lo.Body))
	}
	add("walReaderServesOnlySyncedEntries", "Bool", boolLean(strings.Contains(hnb, "return r.nextOffset <= r.wal.LastOffset()") && strings.Contains(lob, "return t.lastSyncedOffset.Load()")),
		"server/wal/wal_reader.go: (*forwardReader).HasNext", "a reader (follower apply, leader replay, cursors) never hands out an entry beyond the last synced offset")
	add("snapshotInstallReopensDatabase", "Bool", boolLean(iLc >= 0 && iNd > iLc && iEn2 > iNd && iSet > iEn2 && strings.Contains(hsb, "err := fc.wal.Clear()")),
		"server/follower_controller.go: handleSnapshot", "after a snapshot the database is re-opened from the received files, gets the term's notifications setting, and commit offset and head are taken from it; the WAL is cleared")
}

// protocolFacts: fencing, routing, election (C03-C05).
func protocolFacts() {
	sd := parse("server/shards_director.go")
	gf := funcDecl(sd, "shardsDirector", "GetOrCreateFollower")
	gb := ""
	if gf != nil {
		gb = squash(src(gf.Body))
	}
	add("lateRequestCannotConvertLeader", "Bool", boolLean(strings.Contains(gb, "} else if leader, ok := s.leaders[shardId]; ok { if term >= 0 && term != leader.Term() { return nil, constant.ErrInvalidTerm }")),
		"server/shards_director.go: GetOrCreateFollower", "a Replicate / Truncate request only replaces a leader controller by a follower controller when it carries the leader's current term")
	lc := parse("server/leader_controller.go")
	tf := funcDecl(lc, "leaderController", "truncateFollowerIfNeeded")
	tb := ""
	if tf != nil {
		tb = squash(src(tf.Body))
	}
	add("truncateComparesWithFollowerTermEntry", "Bool", boolLean(
		strings.Contains(tb, "if followerHeadEntryId.Term == lc.leaderElectionHeadEntryId.Term && followerHeadEntryId.Offset <= lc.leaderElectionHeadEntryId.Offset {") &&
			strings.Contains(tb, "if followerHeadEntryId.Term > lc.leaderElectionHeadEntryId.Term { return nil, constant.ErrInvalidStatus }") &&
			strings.Contains(tb, "lastEntryInFollowerTerm, err := getHighestEntryOfTerm(lc.wal, followerHeadEntryId.Term)") &&
			strings.Contains(tb, "if followerHeadEntryId.Term == lastEntryInFollowerTerm.Term && followerHeadEntryId.Offset <= lastEntryInFollowerTerm.Offset {") &&
			strings.Contains(tb, "HeadEntryId: lastEntryInFollowerTerm, })") && strings.Contains(tb, "return tr.HeadEntryId, nil")),
		"server/leader_controller.go: truncateFollowerIfNeeded",
		"no truncation iff the follower's head is on the election head's term at or below it, or on an older term at or below the leader's last entry of that term; otherwise truncate to that entry and continue from the follower's answer")
	af := funcDecl(lc, "leaderController", "addFollower")
	ab := ""
	if af != nil {
		ab = squash(src(af.Body))
	}
	add("cursorStartsAtTruncatedHead", "Bool", boolLean(strings.Contains(ab, "followerHeadEntryId, err := lc.truncateFollowerIfNeeded(follower, followerHeadEntryId)") &&
		strings.Contains(ab, "lc.quorumAckTracker, lc.wal, lc.db, followerHeadEntryId.Offset)")),
		"server/leader_controller.go: addFollower", "the cursor (and its acker) starts at the head the follower has after the truncation")
	fc := parse("server/follower_controller.go")
	tr := funcDecl(fc, "followerController", "Truncate")
	trb := ""
	if tr != nil {
		trb = squash(src(tr.Body))
	}
	add("followerTruncateOnlyWhenFenced", "Bool", boolLean(strings.Contains(trb, "if fc.status != proto.ServingStatus_FENCED { return nil, constant.ErrInvalidStatus } if req.Term != fc.term { return nil, constant.ErrInvalidTerm }")),
		"server/follower_controller.go: Truncate", "a truncation is accepted only in status FENCED and only for the follower's own term")
	ap := funcDecl(fc, "followerController", "append")
	apb := ""
	if ap != nil {
		apb = squash(src(ap.Body))
	}
	iLock := strings.Index(apb, "fc.Lock() defer fc.Unlock()")
	iTerm := strings.Index(apb, "if req.Term != fc.term { return constant.ErrInvalidTerm }")
	iStat := strings.Index(apb, "fc.status = proto.ServingStatus_FOLLOWER")
	iDup := strings.Index(apb, "if req.Entry.Offset <= fc.lastAppendedOffset {")
	iApp := strings.Index(apb, "fc.wal.AppendAsync(req.GetEntry())")
	add("followerAppendChecksTermAlways", "Bool", boolLean(iLock >= 0 && iTerm > iLock && iStat > iTerm && iDup > iStat && iApp > iDup &&
		strings.Contains(apb, "fc.Lock() defer fc.Unlock() if req.Term != fc.term { return constant.ErrInvalidTerm }")),
		"server/follower_controller.go: append", "under the controller lock: term check first (in every status), then duplicate suppression by offset, then the WAL append")
	rs := funcDecl(fc, "followerController", "readSnapshotStream")
	rsb := ""
	if rs != nil {
		rsb = squash(src(rs.Body))
	}
	add("snapshotChunkTermMustEqual", "Bool", boolLean(strings.Contains(rsb, "snapChunk.Term != fc.term")),
		"server/follower_controller.go: readSnapshotStream", "a snapshot chunk of another term is refused")
	fnt := funcDecl(fc, "followerController", "NewTerm")
	lnt := funcDecl(lc, "leaderController", "NewTerm")
	fb, lb := "", ""
	if fnt != nil {
		fb = squash(src(fnt.Body))
	}
	if lnt != nil {
		lb = squash(src(lnt.Body))
	}
	add("newTermRejectsLowerAndPersistsFirst", "Bool", boolLean(
		strings.Contains(fb, "if req.Term < fc.term {") && strings.Index(fb, "fc.db.UpdateTerm(req.Term, fc.termOptions)") < strings.Index(fb, "fc.term = req.Term") && strings.Index(fb, "fc.db.UpdateTerm(") > 0 &&
			strings.Contains(lb, "if req.Term < lc.term { return nil, constant.ErrInvalidTerm } else if req.Term == lc.term && lc.status != proto.ServingStatus_FENCED {") &&
			strings.Index(lb, "lc.db.UpdateTerm(req.Term, lc.termOptions)") < strings.Index(lb, "lc.term = req.Term") && strings.Index(lb, "lc.db.UpdateTerm(") > 0 &&
			strings.Index(lb, "lc.status = proto.ServingStatus_FENCED") < strings.Index(lb, "getLastEntryIdInWal(lc.wal)") &&
			strings.Index(fb, "fc.status = proto.ServingStatus_FENCED") < strings.Index(fb, "getLastEntryIdInWal(fc.wal)")),
		"server/*_controller.go: NewTerm", "a lower term is refused; the term is written to the database before it is adopted in memory; the node is fenced before its head is read")
	add("newTermWaitsForInFlightAppends", "Bool", boolLean(strings.HasPrefix(lb, "{ lc.appendLock.Lock() defer lc.appendLock.Unlock() lc.Lock() defer lc.Unlock()")),
		"server/leader_controller.go: NewTerm", "NewTerm takes the append lock before the controller lock: a write that passed the status check has appended before the head is read")
	db := parse("server/kv/db.go")
	ut := funcDecl(db, "db", "UpdateTerm")
	utb := ""
	if ut != nil {
		utb = squash(src(ut.Body))
	}
	add("updateTermFlushes", "Bool", boolLean(strings.Contains(utb, "batch.Commit()") && strings.Index(utb, "d.kv.Flush()") > strings.Index(utb, "batch.Commit()")),
		"server/kv/db.go: UpdateTerm", "the term is committed and the store is flushed (Pebble has no WAL of its own) before UpdateTerm returns")
	sc := parse("coordinator/controllers/shard_controller.go")
	nq := funcDecl(sc, "shardController", "newTermQuorum")
	nqb := ""
	if nq != nil {
		nqb = squash(src(nq.Body))
	}
	add("newTermQuorumMajorityOverEnsembleAndRemoved", "Bool", boolLean(
		strings.Contains(nqb, "fencingQuorum := mergeLists(s.shardMetadata.Ensemble, s.shardMetadata.RemovedNodes) fencingQuorumSize := len(fencingQuorum) majority := fencingQuorumSize/2 + 1") &&
			strings.Contains(nqb, "for successResponses < majority && totalResponses < fencingQuorumSize {") &&
			strings.Contains(nqb, "if listContains(s.shardMetadata.Ensemble, r.Server) { res[r.Server] = r.EntryId }") &&
			strings.Contains(nqb, "if successResponses < majority { return nil, errors.Wrap(err, \"failed to newTerm shard\") }")),
		"coordinator/controllers/shard_controller.go: newTermQuorum",
		"new-term requests go to the ensemble and to the nodes being removed; a majority of all of them must answer; only members of the ensemble become candidates")
	el := funcDecl(sc, "shardController", "electLeader")
	elb := ""
	if el != nil {
		elb = squash(src(el.Body))
	}
	// the increment has to be a statement of the function body itself (unconditional), not one nested in an
	// `if` or a loop: a retried election must not reuse the term of an attempt that has already sent requests
	incTop := false
	if el != nil {
		for _, st := range el.Body.List {
			if squash(src(st)) == "s.shardMetadata.Term++" {
				incTop = true
			}
		}
	}
	iInc := strings.Index(elb, "s.shardMetadata.Term++")
	if !incTop {
		iInc = -1
	}
	iStore := strings.Index(elb, "s.statusResource.UpdateShardMetadata(s.namespace, s.shard, s.shardMetadata)")
	iNt := strings.Index(elb, "s.newTermQuorum()")
	iSel := strings.Index(elb, "selectNewLeader(fr)")
	iBl := strings.Index(elb, "s.becomeLeader(newLeader, followers)")
	add("coordinatorPersistsTermBeforeNewTerm", "Bool", boolLean(iInc >= 0 && iInc < iStore && iStore < iNt && iNt < iSel && iSel < iBl),
		"coordinator/controllers/shard_controller.go: electLeader",
		"the term is incremented unconditionally (every attempt gets a fresh term) and written to the metadata store before any NewTerm request is sent; the leader is selected from the answers; BecomeLeader follows")
	sl := funcDecl(sc, "", "selectNewLeader")
	slb := ""
	if sl != nil {
		slb = squash(src(sl.Body))
	}
	add("selectNewLeaderTakesMaxTermThenOffset", "Bool", boolLean(
		strings.Contains(slb, "if headEntryId.Term > currentMaxTerm { currentMaxTerm = headEntryId.Term currentMax = headEntryId.Offset candidates = []model.Server{addr} } else if headEntryId.Term == currentMaxTerm { if headEntryId.Offset > currentMax { currentMax = headEntryId.Offset candidates = []model.Server{addr} } else if headEntryId.Offset == currentMax { candidates = append(candidates, addr) } }") &&
			strings.Contains(slb, "leader = candidates[rand.Intn(len(candidates))]") && strings.Contains(slb, "if a != leader { followers[a] = e }")),
		"coordinator/controllers/shard_controller.go: selectNewLeader", "candidates are the responders with the highest head term and, among those, the highest head offset (checked by differential runs through VerifSelectNewLeader)")
	bl := funcDecl(lc, "leaderController", "BecomeLeader")
	blb := ""
	if bl != nil {
		blb = squash(src(bl.Body))
	}
	add("becomeLeaderOnlyFromFencedSameTerm", "Bool", boolLean(strings.Contains(blb, "if lc.status != proto.ServingStatus_FENCED { return nil, constant.ErrInvalidStatus } if req.Term != lc.term { return nil, constant.ErrInvalidTerm }") &&
		strings.Index(blb, "lc.quorumAckTracker.WaitForCommitOffset(ctx, lc.leaderElectionHeadEntryId.Offset)") < strings.Index(blb, "lc.applyAllEntriesIntoDB()") &&
		strings.Index(blb, "lc.applyAllEntriesIntoDB()") < strings.Index(blb, "lc.status = proto.ServingStatus_LEADER") && strings.Index(blb, "WaitForCommitOffset(") > 0),
		"server/leader_controller.go: BecomeLeader", "only a node fenced in that very term becomes leader; it serves only after its whole log is quorum-committed and applied")
	// the follower counts an entry as appended only after its WAL has taken it (a failed append must not turn the
	// re-delivered entry into a duplicate that is acknowledged without being stored)
	fcf := parse("server/follower_controller.go")
	fap := funcDecl(fcf, "followerController", "append")
	fab := ""
	if fap != nil {
		fab = squash(src(fap.Body))
	}
	iApp2 := strings.Index(fab, "if err := fc.wal.AppendAsync(req.GetEntry()); err != nil { return err }")
	iCnt := strings.Index(fab, "fc.lastAppendedOffset = req.Entry.Offset")
	// a re-delivered entry (offset at or below the last appended one) is acknowledged at once only when it is
	// among the synced entries; otherwise the sync goroutine is woken and acknowledges it after the sync
	add("followerAcksDuplicateOnlyWhenSynced", "Bool", boolLean(strings.Contains(fab,
		"if req.Entry.Offset <= fc.lastAppendedOffset { if req.Entry.Offset > fc.wal.LastOffset() { fc.unsyncedDuplicates = append(fc.unsyncedDuplicates, req.Entry.Offset) fc.syncCond.Signal() return nil }")),
		"server/follower_controller.go: (*followerController).append", "duplicate branch: not yet synced -> left to the sync goroutine, which acknowledges it after the sync")
	add("followerCountsEntryAfterWalAppend", "Bool", boolLean(iApp2 >= 0 && iCnt > iApp2 && strings.Count(fab, "fc.lastAppendedOffset = ") == 1),
		"server/follower_controller.go: (*followerController).append", fmt.Sprintf("WAL append at %d, lastAppendedOffset set at %d", iApp2, iCnt))
}

// moreFacts collects the facts of the other properties (added per property).
// newTermSyncFacts: both NewTerm handlers make everything appended visible (wal.Sync) before they read the
// head entry they report
func newTermSyncFacts() {
	for _, x := range []struct{ file, recv, name, wal string }{
		{"server/follower_controller.go", "followerController", "followerNewTermSyncsWalBeforeHead", "fc.wal"},
		{"server/leader_controller.go", "leaderController", "leaderNewTermSyncsWalBeforeHead", "lc.wal"},
	} {
		f := parse(x.file)
		fn := funcDecl(f, x.recv, "NewTerm")
		b := ""
		if fn != nil {
			b = squash(src(fn.Body))
		}
		iSync := strings.Index(b, x.wal+".Sync(")
		iHead := strings.Index(b, "getLastEntryIdInWal("+x.wal+")")
		// the sync is a statement of the function body itself (not under a condition), and so is the read of the head
		topSync, topHead := -1, -1
		if fn != nil {
			for k, st := range fn.Body.List {
				t := squash(src(st))
				if topSync < 0 && strings.HasPrefix(t, "if err := "+x.wal+".Sync(") {
					topSync = k
				}
				if topHead < 0 && strings.Contains(t, "getLastEntryIdInWal("+x.wal+")") {
					topHead = k
				}
			}
		}
		add(x.name, "Bool", boolLean(iSync >= 0 && iHead > iSync && topSync >= 0 && topHead > topSync), x.file+": (*"+x.recv+").NewTerm",
			"the WAL is synced (entries appended asynchronously become visible) before the head entry is read and reported")
	}
}

// streamFacts: the client's write stream wrapper matches responses to requests by position; a request whose
// caller has given up keeps its place in the queue
func streamFacts() {
	f := parse("oxia/internal/write_stream.go")
	sd := funcDecl(f, "streamWrapper", "Send")
	hr := funcDecl(f, "streamWrapper", "handleResponses")
	sb, hb := "", ""
	if sd != nil {
		sb = squash(src(sd.Body))
	}
	if hr != nil {
		hb = squash(src(hr.Body))
	}
	ok := strings.Contains(sb, "sw.pendingRequests = append(sw.pendingRequests, f)") &&
		strings.HasSuffix(sb, "sw.Unlock() return f.Wait(ctx) }") &&
		strings.Count(sb, "sw.pendingRequests") == 2 &&
		strings.Contains(hb, "f, sw.pendingRequests = sw.pendingRequests[0], sw.pendingRequests[1:] sw.Unlock() f.Complete(response)")
	add("writeStreamKeepsTimedOutRequests", "Bool", boolLean(ok), "oxia/internal/write_stream.go: (*streamWrapper).Send, handleResponses",
		"Send appends the request's future and returns the result of waiting for it, without touching the queue again; every response completes the head of the queue")
}

// rangeScanFacts: the per-shard range scan closes its result channel on every path
func rangeScanFacts() {
	f := parse("oxia/async_client_impl.go")
	fn := funcDecl(f, "clientImpl", "rangeScanFromShard")
	b := ""
	if fn != nil {
		b = squash(src(fn.Body))
	}
	iClose := strings.Index(b, "defer close(ch)")
	iExec := strings.Index(b, "c.executor.ExecuteRangeScan(")
	// the multi-shard list closes its result channel only after every shard goroutine has returned: the wait
	// does not end with the caller's context
	lf := funcDecl(f, "clientImpl", "List")
	lb := ""
	if lf != nil {
		lb = squash(src(lf.Body))
	}
	add("listClosesChannelAfterAllShards", "Bool", boolLean(strings.Contains(lb, "go func() { _ = wg.Wait(context.Background()) close(ch) }()") &&
		!strings.Contains(lb, "wg.Wait(ctx)") && strings.Contains(lb, "defer wg.Done() c.listFromShard(")),
		"oxia/async_client_impl.go: (*clientImpl).List", "the goroutine that closes the channel waits for all shards with a context that is never cancelled")
	add("rangeScanClosesChannelOnAllPaths", "Bool", boolLean(iClose >= 0 && iExec > iClose), "oxia/async_client_impl.go: (*clientImpl).rangeScanFromShard",
		"the close of the result channel is deferred before the request is made")
}

// indexRegexFacts: the regular expression that parses a stored index key accepts an empty secondary key
func indexRegexFacts() {
	f := parse("server/secondary_indexes.go")
	v := topVarValue(f, "regex")
	txt := ""
	if v != nil {
		txt = squash(src(v))
	} else {
		// a constant, not a variable: look at the declaration text
		for _, d := range f.Decls {
			if g, ok := d.(*ast.GenDecl); ok {
				t := squash(src(g))
				if strings.HasPrefix(t, "const regex =") {
					txt = t
				}
			}
		}
	}
	add("secondaryIndexRegexAllowsEmptyKey", "Bool", boolLean(strings.Contains(txt, `"/[^/]+/([^" + secondaryIdxSeparator + "]*)" + secondaryIdxSeparator + "(.+)$"`)),
		"server/secondary_indexes.go: regex", txt)
}

// notifClientFacts: the client's notifications manager resumes from the position its first batch established
func notifClientFacts() {
	f := parse("oxia/notifications.go")
	fn := funcDecl(f, "shardNotificationsManager", "getNotifications")
	b := ""
	if fn != nil {
		b = squash(src(fn.Body))
	}
	add("notificationsClientResumesFromEstablishedPosition", "Bool", boolLean(
		strings.Contains(b, "if snm.initialized || snm.lastOffsetReceived >= 0 { startOffsetExclusive = &snm.lastOffsetReceived }")),
		"oxia/notifications.go: (*shardNotificationsManager).getNotifications",
		"the start offset is sent on every request after the first batch was received, also when it is -1")
}

// sequenceFacts: subscribers of a sequence are told a generated key only when the sequence put has produced one
func sequenceFacts() {
	f := parse("server/kv/db.go")
	fn := funcDecl(f, "db", "applyPut")
	b := ""
	if fn != nil {
		b = squash(src(fn.Body))
	}
	iPut := strings.Index(b, "batch.Put(putReq.Key, ser)")
	iUpd := strings.Index(b, "d.sequenceWaiterTracker.SequenceUpdated(")
	gs := funcDecl(f, "db", "GetSequenceUpdates")
	gb := ""
	if gs != nil {
		gb = squash(src(gs.Body))
	}
	add("sequenceSubscriptionInitialValueDoesNotOverride", "Bool", boolLean(
		strings.Contains(gb, "select { case sw.och.Ch() <- it.Key(): default: }") && !strings.Contains(gb, "WriteLast(")),
		"server/kv/db.go: (*db).GetSequenceUpdates", "the key read from the committed state is offered to the channel without replacing a value that is already there")
	add("sequenceUpdateOnlyOnSuccess", "Bool", boolLean(
		iPut >= 0 && iUpd > iPut && strings.Count(b, "SequenceUpdated(") == 1 &&
			strings.Contains(b, "if newKey != \"\" { d.sequenceWaiterTracker.SequenceUpdated(sequencePrefixKey, newKey) }")),
		"server/kv/db.go: (*db).applyPut", "the only call of SequenceUpdated comes after the record was put into the batch, for a generated key")
}

func moreFacts() {
	sequenceFacts()
	notifClientFacts()
	indexRegexFacts()
	newTermSyncFacts()
	streamFacts()
	rangeScanFacts()
	walFacts()
	codecFacts()
	dbFacts()
	channelFacts()
	shardFacts()
	notificationFacts()
	selectorFacts()
	clientFacts()
	pipelineFacts()
	sessionFacts()
	routeFacts()
	protocolFacts()
}
