package main

// moreFacts collects the facts of the other properties (added per property).
func moreFacts() {
}
