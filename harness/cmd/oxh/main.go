// oxh: correspondence harness between the real oxia code (built from /repo with -tags verif)
// and the Lean model driver.
package main

import (
	"bufio"
	"encoding/json"
	"flag"
	"fmt"
	"os"
	"path/filepath"
	"runtime"
	"sort"
	"strings"

	"oxverif/harness/core"
	"oxverif/harness/props"
)

func loadCorpus(dir string) []core.Case {
	var cs []core.Case
	files, _ := filepath.Glob(filepath.Join(dir, "*.ops"))
	sort.Strings(files)
	for _, f := range files {
		ops, err := readOps(f)
		if err == nil && len(ops) > 0 {
			cs = append(cs, core.Case{Name: "corpus/" + filepath.Base(f), Ops: ops})
		}
	}
	return cs
}

func readOps(path string) ([]string, error) {
	fh, err := os.Open(path)
	if err != nil {
		return nil, err
	}
	defer fh.Close()
	var ops []string
	sc := bufio.NewScanner(fh)
	sc.Buffer(make([]byte, 1<<20), 1<<28)
	for sc.Scan() {
		l := strings.TrimSpace(sc.Text())
		if l == "" || strings.HasPrefix(l, "#") {
			continue
		}
		ops = append(ops, l)
	}
	return ops, sc.Err()
}

func main() {
	if len(os.Args) < 3 {
		fmt.Fprintln(os.Stderr, "usage: oxh check|replay|facts <property> [flags]")
		os.Exit(2)
	}
	cmd, prop := os.Args[1], os.Args[2]
	fs := flag.NewFlagSet(cmd, flag.ExitOnError)
	driver := fs.String("driver", "", "path of the Lean model driver")
	seed := fs.Int64("seed", 1, "seed")
	tier := fs.String("tier", "quick", "quick|thorough")
	corpus := fs.String("corpus", "", "corpus directory")
	out := fs.String("out", "", "result file")
	opsFile := fs.String("ops", "", "ops file (replay) or replay json")
	workers := fs.Int("workers", runtime.NumCPU(), "parallel workers")
	_ = fs.Parse(os.Args[3:])

	t, ok := props.Targets[prop]
	if !ok {
		fmt.Fprintln(os.Stderr, "unknown property", prop)
		os.Exit(2)
	}
	switch cmd {
	case "check":
		var cs []core.Case
		if *corpus != "" {
			cs = loadCorpus(*corpus)
		}
		res, err := core.Check(prop, t, *driver, *seed, *tier, cs, *workers)
		if err != nil {
			fmt.Fprintln(os.Stderr, "harness error:", err)
			os.Exit(3)
		}
		if x, ok := t.(interface{ Extra() map[string]any }); ok {
			for k, v := range x.Extra() {
				res.Extra[k] = v
			}
		}
		if *out != "" {
			if err := core.WriteJSON(*out, res); err != nil {
				fmt.Fprintln(os.Stderr, err)
				os.Exit(3)
			}
		}
		fmt.Printf("cases=%d ops=%d nontrivial=%d disagreements=%d wall=%.1fs\n", res.Cases, res.Ops, res.Nontrivial, len(res.Disagreements), res.WallS)
		if len(res.Disagreements) > 0 {
			os.Exit(1)
		}
	case "replay":
		var ops []string
		if strings.HasSuffix(*opsFile, ".json") {
			b, err := os.ReadFile(*opsFile)
			if err != nil {
				fmt.Fprintln(os.Stderr, err)
				os.Exit(3)
			}
			var r struct {
				Ops []string `json:"ops"`
			}
			if err := json.Unmarshal(b, &r); err != nil {
				fmt.Fprintln(os.Stderr, err)
				os.Exit(3)
			}
			ops = r.Ops
		} else {
			var err error
			ops, err = readOps(*opsFile)
			if err != nil {
				fmt.Fprintln(os.Stderr, err)
				os.Exit(3)
			}
		}
		d, err := core.StartDriver(*driver)
		if err != nil {
			fmt.Fprintln(os.Stderr, err)
			os.Exit(3)
		}
		defer d.Close()
		impl := core.ExecTimeout(t, ops)
		model, err := d.Run(ops)
		if err != nil {
			fmt.Fprintln(os.Stderr, err)
			os.Exit(3)
		}
		bad := false
		for i, o := range ops {
			mark := " "
			if core.Differ(impl[i], model[i]) {
				mark = "≠"
				bad = true
			}
			short := func(s string) string {
				if len(s) > 200 {
					return s[:200] + "…"
				}
				return s
			}
			fmt.Printf("%s %-4d %s\n      impl : %s\n      model: %s\n", mark, i, short(o), short(impl[i]), short(model[i]))
		}
		if msg := t.Oracle(ops, impl, model); msg != "" {
			fmt.Println("PROPERTY-ORACLE:", msg)
			bad = true
		}
		if bad {
			fmt.Println("replay: FAILS")
			os.Exit(1)
		}
		fmt.Println("replay: passes")
	case "one":
		// one operation in a process of its own (core.Isolated): a panic in a goroutine of the library under
		// test ends this process, not the harness
		outs := make([]string, 1)
		t.Exec([]string{*opsFile}, outs)
		fmt.Println("ONE-RESULT " + outs[0])
	default:
		fmt.Fprintln(os.Stderr, "unknown command", cmd)
		os.Exit(2)
	}
}
