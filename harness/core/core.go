// Package core is the correspondence-check framework: it runs generated operation
// sequences ("cases") on the real oxia code and on the Lean model driver through a
// line protocol, diffs the two output streams, shrinks disagreements and writes a result file.
package core

import (
	"bufio"
	"encoding/hex"
	"encoding/json"
	"fmt"
	"io"
	"math/rand"
	"os"
	"os/exec"
	"runtime/debug"
	"sort"
	"strings"
	"sync"
	"time"
)

// Case is one independent operation sequence; the model and the implementation both start
// from their initial state.
type Case struct {
	Name string   `json:"name"`
	Ops  []string `json:"ops"`
}

// Target is the per-property part of the harness.
// ModelStatser is implemented by targets whose model answers carry statistics of their own (counted into
// the evidence under extra.model_stats).
type ModelStatser interface {
	ModelStats(ops []string, model []string, acc map[string]int)
}

type Target interface {
	// Generate produces the cases of one run. All randomness comes from rng.
	Generate(rng *rand.Rand, tier string) []Case
	// Exec runs the ops on the real code, from a fresh state, and stores exactly one canonical
	// output line per op into outs (pre-allocated, len(ops)), in order, as it goes. It must not
	// panic (recover inside). If it hangs, the framework reports "hang" for the first op
	// without output.
	Exec(ops []string, outs []string)
	// Oracle checks the property itself on the implementation's outputs, independently of the
	// model; it returns "" when the property holds on this case and a description otherwise.
	Oracle(ops []string, impl []string, model []string) string
	// Nontrivial classifies a case (for the evidence statistics).
	Nontrivial(ops []string, outs []string) bool
}

// Driver is a running Lean model driver (one OS process).
type Driver struct {
	cmd *exec.Cmd
	in  *bufio.Writer
	out *bufio.Reader
	raw io.WriteCloser
}

func StartDriver(path string) (*Driver, error) {
	cmd := exec.Command(path)
	cmd.Stderr = os.Stderr
	w, err := cmd.StdinPipe()
	if err != nil {
		return nil, err
	}
	r, err := cmd.StdoutPipe()
	if err != nil {
		return nil, err
	}
	if err := cmd.Start(); err != nil {
		return nil, err
	}
	return &Driver{cmd: cmd, in: bufio.NewWriterSize(w, 1<<20), out: bufio.NewReaderSize(r, 1<<20), raw: w}, nil
}

func (d *Driver) Close() {
	_ = d.raw.Close()
	_ = d.cmd.Wait()
}

// Run resets the model and runs the ops; one output line per op.
func (d *Driver) Run(ops []string) ([]string, error) {
	fmt.Fprintln(d.in, "reset")
	for _, o := range ops {
		if strings.ContainsAny(o, "\n\r") {
			return nil, fmt.Errorf("op contains newline: %q", o)
		}
		fmt.Fprintln(d.in, o)
	}
	fmt.Fprintln(d.in, "sync")
	if err := d.in.Flush(); err != nil {
		return nil, err
	}
	outs := make([]string, 0, len(ops))
	first := true
	for {
		line, err := d.out.ReadString('\n')
		if err != nil {
			return nil, fmt.Errorf("driver died: %w", err)
		}
		line = strings.TrimRight(line, "\n")
		if first {
			first = false // answer to "reset"
			continue
		}
		if line == "sync" {
			break
		}
		outs = append(outs, line)
	}
	if len(outs) != len(ops) {
		return nil, fmt.Errorf("driver returned %d lines for %d ops", len(outs), len(ops))
	}
	return outs, nil
}

// Disagreement is a (shrunk) case on which model and implementation differ, or on which the
// property oracle fails on the implementation.
type Disagreement struct {
	Kind     string   `json:"kind"` // "property" (oracle failed on impl) | "correspondence"
	Case     string   `json:"case"`
	Ops      []string `json:"ops"`
	Impl     []string `json:"impl"`
	Model    []string `json:"model"`
	FirstBad int      `json:"first_bad"`
	Oracle   string   `json:"oracle,omitempty"`
}

type Result struct {
	Property      string         `json:"property"`
	Tier          string         `json:"tier"`
	Seed          int64          `json:"seed"`
	Cases         int            `json:"cases"`
	Ops           int            `json:"ops"`
	Nontrivial    int            `json:"distinct_nontrivial"`
	OpHistogram   map[string]int `json:"op_histogram"`
	OutHistogram  map[string]int `json:"out_histogram"`
	Samples       []Case         `json:"samples"`
	Disagreements []Disagreement `json:"disagreements"`
	Extra         map[string]any `json:"extra,omitempty"`
	WallS         float64        `json:"wall_s"`
}

// Differ tells whether an implementation answer and a model answer disagree (answers that start with "~"
// are not comparable, a suffix after " ~" is an annotation for the oracle).
func Differ(impl, model string) bool {
	if strings.HasPrefix(impl, "~") {
		return false
	}
	if j := strings.Index(impl, " ~"); j >= 0 {
		impl = impl[:j]
	}
	return impl != model
}

func firstDiff(a, b []string) int {
	for i := range a {
		if strings.HasPrefix(a[i], "~") {
			continue // the implementation's output is not comparable (e.g. unreliable wall-clock timing)
		}
		x := a[i]
		if j := strings.Index(x, " ~"); j >= 0 {
			x = x[:j] // an annotation for the oracle, not part of the answer
		}
		if i >= len(b) || x != b[i] {
			return i
		}
	}
	if len(b) > len(a) {
		return len(a)
	}
	return -1
}

func classOf(msg string, ops []string, fd int) string {
	strip := func(s string) string {
		var b strings.Builder
		for _, r := range s {
			if r < '0' || r > '9' {
				b.WriteRune(r)
			}
		}
		t := b.String()
		if len(t) > 70 {
			t = t[:70]
		}
		return t
	}
	if msg != "" {
		return strip(msg)
	}
	if fd >= 0 && fd < len(ops) {
		f := strings.Fields(ops[fd])
		if len(f) > 0 {
			return f[0]
		}
	}
	return "?"
}

func outClass(s string) string {
	// coarse class of an output line for the histogram
	f := strings.Fields(s)
	if len(f) == 0 {
		return "<empty>"
	}
	h := f[0]
	if len(h) > 12 {
		h = h[:12] + "…"
	}
	return h
}

// ExecTimeout runs t.Exec with a deadline; an implementation that blocks (deadlock) yields
// "hang" at the op that did not return and "skipped" after it.
func ExecTimeout(t Target, ops []string) []string {
	d := 30 * time.Second
	if x, ok := t.(interface{ Timeout() time.Duration }); ok {
		d = x.Timeout()
	}
	outs := make([]string, len(ops))
	done := make(chan struct{})
	go func() {
		defer close(done)
		t.Exec(ops, outs)
	}()
	select {
	case <-done:
		return outs
	case <-time.After(d):
		res := make([]string, len(ops))
		hung := false
		for i := range outs {
			switch {
			case hung:
				res[i] = "skipped"
			case outs[i] == "":
				res[i] = "hang"
				hung = true
			default:
				res[i] = outs[i]
			}
		}
		return res
	}
}

// fails reports whether the candidate op list still shows a problem, and which.
func fails(t Target, d *Driver, ops []string) (bool, string, []string, []string, int, string) {
	impl := ExecTimeout(t, ops)
	model, err := d.Run(ops)
	if err != nil {
		return true, "correspondence", impl, []string{"driver-error: " + err.Error()}, 0, ""
	}
	if msg := t.Oracle(ops, impl, model); msg != "" {
		fd := firstDiff(impl, model)
		return true, "property", impl, model, fd, msg
	}
	if fd := firstDiff(impl, model); fd >= 0 {
		return true, "correspondence", impl, model, fd, ""
	}
	return false, "", impl, model, -1, ""
}

// shrink is plain delta debugging on the op list (ops after the first bad line are dropped first).
func shrink(t Target, d *Driver, ops []string, kind string, budget time.Duration) []string {
	deadline := time.Now().Add(budget)
	cur := ops
	still := func(c []string) bool {
		f, k, _, _, _, _ := fails(t, d, c)
		return f && k == kind
	}
	// cut the tail
	if f, _, _, _, fd, _ := fails(t, d, cur); f && fd >= 0 && fd+1 < len(cur) {
		if still(cur[:fd+1]) {
			cur = cur[:fd+1]
		}
	}
	n := 2
	for len(cur) >= 2 && time.Now().Before(deadline) {
		chunk := (len(cur) + n - 1) / n
		reduced := false
		for i := 0; i < len(cur) && time.Now().Before(deadline); i += chunk {
			end := i + chunk
			if end > len(cur) {
				end = len(cur)
			}
			cand := append(append([]string{}, cur[:i]...), cur[end:]...)
			if len(cand) > 0 && still(cand) {
				cur = cand
				if n > 2 {
					n--
				}
				reduced = true
				break
			}
		}
		if !reduced {
			if chunk == 1 {
				break
			}
			n *= 2
			if n > len(cur) {
				n = len(cur)
			}
		}
	}
	return cur
}

// Check runs generation, execution, comparison and shrinking, using `workers` parallel
// implementation/driver pairs. Corpus cases (minimised past disagreements) run first.
func Check(prop string, t Target, driverPath string, seed int64, tier string, corpus []Case, workers int) (*Result, error) {
	start := time.Now()
	rng := rand.New(rand.NewSource(seed))
	cases := append(append([]Case{}, corpus...), t.Generate(rng, tier)...)
	res := &Result{Property: prop, Tier: tier, Seed: seed, Cases: len(cases),
		OpHistogram: map[string]int{}, OutHistogram: map[string]int{}, Extra: map[string]any{}}
	if workers < 1 {
		workers = 1
	}
	type item struct {
		idx int
		c   Case
	}
	modelStats := map[string]int{}
	ch := make(chan item)
	var mu sync.Mutex
	var wg sync.WaitGroup
	seen := map[string]bool{}
	classCount := map[string]int{}
	var firstErr error
	for w := 0; w < workers; w++ {
		wg.Add(1)
		go func() {
			defer wg.Done()
			d, err := StartDriver(driverPath)
			if err != nil {
				mu.Lock()
				firstErr = err
				mu.Unlock()
				for range ch {
				}
				return
			}
			defer d.Close()
			for it := range ch {
				bad, kind, impl, model, fd, msg := fails(t, d, it.c.Ops)
				nt := t.Nontrivial(it.c.Ops, impl)
				mu.Lock()
				if ms, ok := t.(ModelStatser); ok {
					ms.ModelStats(it.c.Ops, model, modelStats)
				}
				res.Ops += len(it.c.Ops)
				for i, o := range it.c.Ops {
					f := strings.Fields(o)
					if len(f) > 0 {
						res.OpHistogram[f[0]]++
					}
					if i < len(impl) {
						res.OutHistogram[outClass(impl[i])]++
					}
				}
				key := strings.Join(it.c.Ops, "\n")
				if nt && !seen[key] {
					seen[key] = true
					res.Nontrivial++
				}
				if len(res.Samples) < 3 && nt && len(it.c.Ops) <= 40 {
					res.Samples = append(res.Samples, it.c)
				}
				// keep a few disagreements per class (oracle message without numbers / first differing
				// op), so that many instances of one finding do not crowd out a different one
				cls := kind + ":" + classOf(msg, it.c.Ops, fd)
				classCount[cls]++
				tooMany := classCount[cls] > 3 || len(res.Disagreements) >= 40
				mu.Unlock()
				if bad && !tooMany {
					ops := shrink(t, d, it.c.Ops, kind, 60*time.Second)
					_, kind2, impl2, model2, fd2, msg2 := fails(t, d, ops)
					if kind2 == "" { // flaky: keep the unshrunk one
						ops, kind2, impl2, model2, fd2, msg2 = it.c.Ops, kind, impl, model, fd, msg
					}
					mu.Lock()
					res.Disagreements = append(res.Disagreements, Disagreement{Kind: kind2, Case: it.c.Name,
						Ops: ops, Impl: impl2, Model: model2, FirstBad: fd2, Oracle: msg2})
					mu.Unlock()
				}
			}
		}()
	}
	for i, c := range cases {
		ch <- item{i, c}
	}
	close(ch)
	wg.Wait()
	if firstErr != nil {
		return nil, firstErr
	}
	if len(modelStats) > 0 {
		res.Extra["model_stats"] = modelStats
	}
	if len(res.Samples) == 0 && len(cases) > 0 {
		c := cases[len(cases)-1]
		if len(c.Ops) > 40 {
			c.Ops = c.Ops[:40]
		}
		res.Samples = append(res.Samples, c)
	}
	sort.Slice(res.Disagreements, func(i, j int) bool {
		a, b := res.Disagreements[i], res.Disagreements[j]
		if a.Kind != b.Kind {
			return a.Kind == "property"
		}
		return len(a.Ops) < len(b.Ops)
	})
	res.WallS = time.Since(start).Seconds()
	return res, nil
}

func WriteJSON(path string, v any) error {
	b, err := json.MarshalIndent(v, "", " ")
	if err != nil {
		return err
	}
	return os.WriteFile(path, b, 0o644)
}

// Hex encodes a byte string for the line protocol ("-" is the empty string).
func Hex(b []byte) string {
	if len(b) == 0 {
		return "-"
	}
	return hex.EncodeToString(b)
}

func UnHex(s string) []byte {
	if s == "-" {
		return []byte{}
	}
	b, err := hex.DecodeString(s)
	if err != nil {
		panic("bad hex " + s)
	}
	return b
}

// Safe runs f and maps a panic to the canonical output "panic".
func Safe(f func() string) (out string) {
	defer func() {
		if r := recover(); r != nil {
			out = "panic"
			if os.Getenv("OXV_PANIC_TRACE") != "" {
				fmt.Fprintf(os.Stderr, "PANIC: %v\n%s\n", r, debug.Stack())
			}
		}
	}()
	return f()
}

// Isolated runs one operation of a property in a process of its own (`oxh one <prop> --ops <op>`): a panic in a
// goroutine started by the code under test cannot be recovered, it would end the harness. The answer is the
// operation's output, "panic: <message>" when the process died of a panic, "hang" when it did not end in time.
func Isolated(prop, op string, timeout time.Duration) string {
	exe, err := os.Executable()
	if err != nil {
		return "~isolated: " + err.Error()
	}
	cmd := exec.Command(exe, "one", prop, "--ops", op)
	cmd.Env = append(os.Environ(), "OXV_ISOLATED=1")
	var out, errb strings.Builder
	cmd.Stdout = &out
	cmd.Stderr = &errb
	if err := cmd.Start(); err != nil {
		return "~isolated: " + err.Error()
	}
	done := make(chan error, 1)
	go func() { done <- cmd.Wait() }()
	select {
	case <-done:
	case <-time.After(timeout):
		_ = cmd.Process.Kill()
		<-done
		return "hang"
	}
	for _, l := range strings.Split(out.String(), "\n") {
		if strings.HasPrefix(l, "ONE-RESULT ") {
			return strings.TrimPrefix(l, "ONE-RESULT ")
		}
	}
	for _, l := range strings.Split(errb.String()+"\n"+out.String(), "\n") {
		if strings.HasPrefix(l, "panic: ") || strings.HasPrefix(l, "fatal error: ") {
			return strings.TrimSpace(l)
		}
	}
	return "~isolated: no result"
}
