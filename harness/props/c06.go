package props

import (
	"context"
	"fmt"
	"math/rand"
	"regexp"
	"strconv"
	"strings"
	"time"

	"github.com/oxia-db/oxia/proto"
	"github.com/oxia-db/oxia/server/kv"

	"oxverif/harness/cluster"
	"oxverif/harness/core"
)

// C06: replicas of one shard (real leader and follower controllers over an in-memory transport) that
// reach the same committed prefix by different routes — live on the leader, follower apply, follower
// restart, role change with replay, snapshot install — against M-Db, which applies the log in one go.
type C06 struct{}

func (C06) Timeout() time.Duration { return 90 * time.Second }

func (C06) Generate(rng *rand.Rand, tier string) []core.Case {
	n := 60
	if tier == "thorough" {
		n = 1500
	}
	var cases []core.Case
	for i := 0; i < n; i++ {
		g := &dbGen{rng: rng, ts: 1000}
		mode := []string{"mix", "idx", "mix", "seq", "notif"}[rng.Intn(5)]
		prog := g.program(mode, 10+rng.Intn(30))
		// a quarter of the scripts also crash nodes (the database falls back to its last flush): a node elected
		// afterwards replays several entries, and has to end where the others are
		cases = append(cases, core.Case{Name: fmt.Sprintf("repl-%s-%d", mode, i), Ops: clusterProgramOpt(rng, prog, i%4 == 3)})
	}
	return cases
}

var reSessionKeyHex = regexp.MustCompile("^" + core.Hex([]byte("__oxia/session/")) + "(3[0-9]|6[1-6]){16}$")

var sessionMetadataHex = func() string {
	b, _ := (&proto.SessionMetadata{TimeoutMs: 290000, Identity: "c"}).MarshalVT()
	return core.Hex(b)
}()

var reSeqTok = regexp.MustCompile(`^P:[0-9a-f]*:[0-9a-f]*:[^:]*:[^:]*:[^:]*:([^:]*):([^:]*):`)

// safeWrite drops requests that M-Db (and the real database) answer with an infrastructure error
// (sequence puts without partition key or with a zero first delta: known finding D-5 of C13); such an
// entry stops every replica and has nothing to do with the routes.
func safeWrite(op string) bool {
	for _, t := range strings.Fields(op) {
		if m := reSeqTok.FindStringSubmatch(t); m != nil && m[2] != "_" {
			if m[1] == "_" || strings.HasPrefix(m[2], "0") {
				return false
			}
		}
	}
	return true
}

func clusterProgram(rng *rand.Rand, prog []string) []string {
	return clusterProgramOpt(rng, prog, false)
}

func clusterProgramOpt(rng *rand.Rand, prog []string, crashes bool) []string {
	notif := "1"
	if strings.Contains(prog[0], "notif=0") || rng.Intn(4) == 0 {
		notif = "0"
	}
	ops := []string{"c.init rf=3 notif=" + notif}
	off := int64(0)
	ts := uint64(1000)
	joined := false
	// restarts, crashes and elections name a node; who leads at that point is up to the harness (it
	// elects the best responder, restarts only followers in place)
	anyNode := func() string {
		if joined && rng.Intn(3) == 0 {
			return "n2"
		}
		return []string{"n0", "n1"}[rng.Intn(2)]
	}
	checkpoint := func() {
		// the leader's state, then a marker entry (it carries the commit offset of that state to the
		// followers), then every follower's state at that same prefix
		ts += 3
		ops = append(ops, fmt.Sprintf("c.checkpoint ts=%d", ts))
		off++
	}
	writes := 0
	for _, o := range prog {
		if !strings.HasPrefix(o, "db.write ") || !safeWrite(o) {
			continue
		}
		f := strings.Fields(o)
		ts += uint64(1 + rng.Intn(5))
		for i, t := range f {
			// a session record must hold valid metadata: a new leader arms a timer for every session it finds
			if p := strings.Split(t, ":"); len(p) == 9 && p[0] == "P" && reSessionKeyHex.MatchString(p[1]) {
				p[2] = sessionMetadataHex
				f[i] = strings.Join(p, ":")
			}
		}
		ops = append(ops, fmt.Sprintf("db.write off=%d ts=%d %s", off, ts, strings.Join(f[3:], " ")))
		off++
		writes++
		switch r := rng.Intn(16); {
		case r == 0:
			ops = append(ops, "c.restart "+anyNode())
		case r == 1:
			// with a checkpoint first, the new leader replays only the marker entry; without, the request
			// just written (committed, but not yet applied by the follower)
			if rng.Intn(2) == 0 {
				checkpoint()
			}
			ops = append(ops, "c.elect "+anyNode())
		case r == 2 && !joined && writes > 2:
			ops = append(ops, "c.join")
			joined = true
		case r == 3:
			checkpoint()
		case r == 6 && joined:
			ops = append(ops, fmt.Sprintf("c.failelect n=%d", writes))
		case (r == 4 || r == 5) && crashes:
			// a crash: the database falls back to its last flush, the node replays from there
			ops = append(ops, "c.crash "+anyNode())
		}
	}
	if !joined {
		ops = append(ops, "c.join")
	}
	// two more entries so that every route has something to apply after its special step
	for j := 0; j < 2; j++ {
		ts += 2
		ops = append(ops, fmt.Sprintf("db.write off=%d ts=%d P:%s:%s:_:_:_:_:_:_", off, ts, core.Hex([]byte(fmt.Sprintf("tail%d", j))), core.Hex([]byte("v"))))
		off++
	}
	checkpoint()
	return ops
}

type c06Exec struct {
	c        *cluster.Cluster
	members  []string
	tsMap    map[uint64]uint64 // real timestamp -> the model's timestamp of the same entry
	lastDump string
	lastOff  int64 // offset of the last entry written before the last leader dump
	written  int64 // offset of the last entry written (-1 = none)
	poisoned bool
}

var (
	reEntryTs = regexp.MustCompile(`E\(([0-9a-f]*|-),(-?\d+),(\d+),(\d+),(\d+),`)
	reNotifTs = regexp.MustCompile(`N\((-?\d+),(\d+),`)
	reVerTs   = regexp.MustCompile(`ct=(\d+),mt=(\d+)`)
)

func (e *c06Exec) isMember(name string) bool {
	for _, m := range e.members {
		if m == name {
			return true
		}
	}
	return false
}

func (e *c06Exec) canon(s string) string {
	m := func(t string) string {
		v, _ := strconv.ParseUint(t, 10, 64)
		if x, ok := e.tsMap[v]; ok {
			return fmt.Sprint(x)
		}
		return "?" + t
	}
	s = reEntryTs.ReplaceAllStringFunc(s, func(x string) string {
		p := reEntryTs.FindStringSubmatch(x)
		return fmt.Sprintf("E(%s,%s,%s,%s,%s,", p[1], p[2], p[3], m(p[4]), m(p[5]))
	})
	s = reNotifTs.ReplaceAllStringFunc(s, func(x string) string {
		p := reNotifTs.FindStringSubmatch(x)
		return fmt.Sprintf("N(%s,%s,", p[1], m(p[2]))
	})
	s = reVerTs.ReplaceAllStringFunc(s, func(x string) string {
		p := reVerTs.FindStringSubmatch(x)
		return fmt.Sprintf("ct=%s,mt=%s", m(p[1]), m(p[2]))
	})
	return s
}

// dumpNode: the whole key space of a replica's database, without the term bookkeeping keys
func (e *c06Exec) dumpNode(n *cluster.Node) string {
	db := n.DB()
	if db == nil {
		return "no-db"
	}
	d := (&dbExec{db: db}).dump()
	var keep []string
	for _, part := range strings.Fields(d) {
		if strings.HasPrefix(part, core.Hex([]byte("__oxia/term"))) {
			continue
		}
		keep = append(keep, part)
	}
	if len(keep) > 0 && strings.HasPrefix(keep[0], "n=") {
		keep[0] = fmt.Sprintf("n=%d", len(keep)-1)
	}
	return e.canon(strings.Join(keep, " "))
}

func (e *c06Exec) op(op string) string {
	f := strings.Fields(op)
	kvs := c20kv(f)
	if e.poisoned && f[0] != "c.init" {
		return "~poisoned"
	}
	switch f[0] {
	case "c.init":
		var err error
		if e.c, err = cluster.New(); err != nil {
			return "err:" + err.Error()
		}
		e.c.RF = 3
		e.c.Notif = kvs["notif"] == "1"
		for i := 0; i < 2; i++ {
			if _, err := e.c.AddNode(); err != nil {
				return "err:" + err.Error()
			}
		}
		e.members = []string{"n0", "n1"}
		e.tsMap = map[uint64]uint64{}
		e.written = -1
		if err := e.c.Elect("n0", e.members); err != nil {
			return "err:elect:" + strings.ReplaceAll(err.Error(), " ", "_")
		}
		return "ok"
	case "db.write":
		ld := e.c.LeaderNode()
		if ld == nil {
			return "err:no-leader"
		}
		req, _, ts := parseWriteOp(f)
		off := e.written + 1 // offsets are implicit: one entry per write, in order
		shard := cluster.Shard
		req.Shard = &shard
		ctx, cancel := context.WithTimeout(context.Background(), 20*time.Second)
		defer cancel()
		resp, err := ld.Leader.WriteBlock(ctx, req)
		if err != nil {
			// an entry that cannot be applied stops every replica: outside this property
			e.poisoned = true
			return "~" + dbInfra(err)
		}
		// the timestamp the leader gave this entry
		g, gerr := ld.DB().Get(&proto.GetRequest{Key: "__oxia/commit-offset", IncludeValue: true})
		if gerr != nil || g.Version == nil || string(g.Value) != fmt.Sprint(off) {
			e.poisoned = true
			return fmt.Sprintf("err:commit-offset-after-write=%v/%v(expected %d)", g, gerr, off)
		}
		e.tsMap[g.Version.ModifiedTimestamp] = ts
		e.written = off
		time.Sleep(2 * time.Millisecond) // distinct millisecond timestamps per entry
		ps := make([]string, len(resp.Puts))
		for i, p := range resp.Puts {
			if p.Status == proto.Status_OK {
				ps[i] = fmt.Sprintf("ok(%s,k=%s)", showVersion(p.Version), showOptS(p.Key))
			} else {
				ps[i] = showStatus(p.Status)
			}
		}
		ds := make([]string, len(resp.Deletes))
		for i, d := range resp.Deletes {
			ds[i] = showStatus(d.Status)
		}
		rs := make([]string, len(resp.DeleteRanges))
		for i, r := range resp.DeleteRanges {
			rs[i] = showStatus(r.Status)
		}
		return e.canon(fmt.Sprintf("P[%s] D[%s] R[%s]", strings.Join(ps, " "), strings.Join(ds, " "), strings.Join(rs, " ")))
	case "c.checkpoint":
		ld := e.c.LeaderNode()
		if ld == nil {
			return "err:no-leader"
		}
		e.lastDump = e.dumpNode(ld)
		e.lastOff = e.written
		// the marker entry: a delete of a key that never exists
		if r := e.op(fmt.Sprintf("db.write ts=%s D:%s:_", kvs["ts"], core.Hex([]byte("zz-marker")))); !strings.HasPrefix(r, "P[] D[notfound]") {
			return "err:marker:" + r
		}
		var fs []string
		for _, m := range e.members {
			if m != ld.Name {
				fs = append(fs, m)
			}
		}
		after := e.dumpNode(ld) // the leader's state including the marker entry
		for _, m := range fs {
			var n *cluster.Node
			for _, x := range e.c.Nodes {
				if x.Name == m {
					n = x
				}
			}
			// a follower has applied the dumped prefix, and possibly the marker as well
			deadline := time.Now().Add(15 * time.Second)
			for {
				c1 := n.CommitOffset()
				if c1 >= e.lastOff {
					d := e.dumpNode(n)
					if c2 := n.CommitOffset(); c2 != c1 {
						continue // it applied an entry while being dumped
					}
					want := e.lastDump
					if c1 == e.lastOff+1 {
						want = after
					}
					if c1 > e.lastOff+1 {
						return fmt.Sprintf("err:follower %s at commit offset %d beyond the head %d", m, c1, e.lastOff+1)
					}
					if d != want {
						return fmt.Sprintf("DIVERGED at offset %d: %s %s", c1, m, diffDumps(want, d))
					}
					break
				}
				if time.Now().After(deadline) {
					return fmt.Sprintf("NOT-SYNCED expected>=%d %s@%d", e.lastOff, m, c1)
				}
				time.Sleep(2 * time.Millisecond)
			}
		}
		return e.lastDump
	case "c.restart":
		if !e.isMember(f[1]) {
			return "ok"
		}
		if ld := e.c.LeaderNode(); ld != nil && ld.Name == f[1] {
			return "ok" // only followers are restarted in place
		}
		if err := e.c.RestartFollower(f[1]); err != nil {
			return "err:" + strings.ReplaceAll(err.Error(), " ", "_")
		}
		return "ok"
	case "c.elect":
		if !e.isMember(f[1]) {
			return "ok"
		}
		if err := e.c.Elect(f[1], e.members); err != nil {
			msg := "err:elect:" + strings.ReplaceAll(err.Error(), " ", "_")
			if strings.Contains(msg, "failed_to_applies_wal_entries_to_db") {
				return msg
			}
			// an election that fails for another reason belongs to C04/C05; the rest of the script has
			// no leader and is not comparable
			e.poisoned = true
			return "~" + msg
		}
		return "ok"
	case "c.trimcrash":
		// "two hours later" the WAL trimmers run (bounded by the commit offset the controllers report), then the
		// node crashes: its database falls back to its last flush. What lies between the commit offset in that
		// database and the first entry its log still holds cannot be replayed.
		if !e.isMember(f[1]) {
			return "ok"
		}
		if ld := e.c.LeaderNode(); ld != nil && ld.Name == f[1] {
			return "ok" // followers only: the scenario is about the replay of a restarted node
		}
		if err := e.c.TrimAll(); err != nil {
			e.poisoned = true
			return "~err:trim:" + strings.ReplaceAll(err.Error(), " ", "_")
		}
		if _, err := e.c.Crash(f[1]); err != nil {
			e.poisoned = true
			return "~err:crash:" + strings.ReplaceAll(err.Error(), " ", "_")
		}
		var n *cluster.Node
		for _, x := range e.c.Nodes {
			if x.Name == f[1] {
				n = x
			}
		}
		dbc, err := n.DB().ReadCommitOffset()
		if err != nil {
			e.poisoned = true
			return "~err:commit-offset:" + strings.ReplaceAll(err.Error(), " ", "_")
		}
		if first := e.c.WalFirstOffset(f[1]); first > dbc+1 {
			e.poisoned = true
			return fmt.Sprintf("REPLAY-GAP node=%s db-commit-offset=%d wal-first-offset=%d", f[1], dbc, first)
		}
		return "ok"
	case "c.failelect":
		// the leader, cut off, takes a write it cannot commit and fails to get elected for the next term; another
		// node is elected by the others and the old leader comes back as a follower (its uncommitted entry is
		// cut off). Its database must not have run ahead of what was committed.
		if len(e.members) < 3 {
			return "ok"
		}
		ld := e.c.LeaderNode()
		if ld == nil {
			return "err:no-leader"
		}
		shard := cluster.Shard
		key := "uncommitted-" + kvs["n"]
		dbc, err := e.c.FailedElection(ld.Name, e.members, &proto.WriteRequest{Shard: &shard, Puts: []*proto.PutRequest{{Key: key, Value: []byte("never-committed")}}})
		if err != nil {
			e.poisoned = true
			return "~err:failelect:" + strings.ReplaceAll(err.Error(), " ", "_")
		}
		if dbc > e.written {
			e.poisoned = true
			return fmt.Sprintf("APPLIED-UNCOMMITTED node=%s db-commit-offset=%d committed=%d", ld.Name, dbc, e.written)
		}
		var others []string
		for _, m := range e.members {
			if m != ld.Name {
				others = append(others, m)
			}
		}
		if err := e.c.Elect(others[0], others); err != nil {
			e.poisoned = true
			return "~err:elect:" + strings.ReplaceAll(err.Error(), " ", "_")
		}
		if err := e.c.Demote(ld.Name); err != nil {
			e.poisoned = true
			return "~err:demote:" + strings.ReplaceAll(err.Error(), " ", "_")
		}
		if err := e.c.Join(e.c.LeaderNode().Name, ld.Name); err != nil {
			e.poisoned = true
			return "~err:rejoin:" + strings.ReplaceAll(err.Error(), " ", "_")
		}
		return "ok"
	case "c.crash":
		if !e.isMember(f[1]) {
			return "ok" // the node has not joined yet
		}
		wasLeader, err := e.c.Crash(f[1])
		if err != nil {
			e.poisoned = true
			return "~err:crash:" + strings.ReplaceAll(err.Error(), " ", "_")
		}
		if wasLeader {
			// the shard needs a new leader: the coordinator elects the best responder, another node if possible
			cand := f[1]
			for _, m := range e.members {
				if m != f[1] {
					cand = m
				}
			}
			if err := e.c.Elect(cand, e.members); err != nil {
				msg := "err:elect:" + strings.ReplaceAll(err.Error(), " ", "_")
				if strings.Contains(msg, "failed_to_applies_wal_entries_to_db") {
					return msg
				}
				e.poisoned = true
				return "~" + msg
			}
		}
		return "ok"
	case "c.join":
		n, err := e.c.AddNode()
		if err != nil {
			return "err:" + err.Error()
		}
		ld := e.c.LeaderNode()
		if ld == nil {
			return "err:no-leader"
		}
		if err := e.c.Join(ld.Name, n.Name); err != nil {
			return "err:join:" + strings.ReplaceAll(err.Error(), " ", "_")
		}
		e.members = append(e.members, n.Name)
		return "ok"
	}
	return "bad-op"
}

// diffDumps names the entries in which a replica differs from the leader.
func diffDumps(leader, replica string) string {
	a, b := map[string]string{}, map[string]string{}
	for _, p := range strings.Fields(leader) {
		if i := strings.Index(p, "="); i > 0 && p[:i] != "n" {
			a[p[:i]] = p[i+1:]
		}
	}
	for _, p := range strings.Fields(replica) {
		if i := strings.Index(p, "="); i > 0 && p[:i] != "n" {
			b[p[:i]] = p[i+1:]
		}
	}
	var out []string
	for k, v := range a {
		if w, ok := b[k]; !ok {
			out = append(out, fmt.Sprintf("missing(%q=%s)", core.UnHex(k), v))
		} else if w != v {
			out = append(out, fmt.Sprintf("differs(%q: leader %s, replica %s)", core.UnHex(k), v, w))
		}
	}
	for k, v := range b {
		if _, ok := a[k]; !ok {
			out = append(out, fmt.Sprintf("extra(%q=%s)", core.UnHex(k), v))
		}
	}
	if len(out) > 6 {
		out = append(out[:6], fmt.Sprintf("...(%d more)", len(out)-6))
	}
	return strings.Join(out, " ")
}

func (C06) Exec(ops []string, outs []string) {
	e := &c06Exec{}
	defer func() {
		if e.c != nil {
			e.c.Close()
		}
	}()
	for i, o := range ops {
		o := o
		if e.c == nil && !strings.HasPrefix(o, "c.init") {
			outs[i] = "bad-op"
			continue
		}
		outs[i] = core.Safe(func() string { return e.op(o) })
	}
}

func (C06) Oracle(ops, impl, model []string) string {
	for i, o := range ops {
		if i >= len(impl) {
			break
		}
		out := impl[i]
		switch {
		case out == "hang" || out == "panic":
			return fmt.Sprintf("op %d (%s): %s", i, o, out)
		case strings.HasPrefix(out, "REPLAY-GAP"):
			return fmt.Sprintf("op %d: after the crash the entries between the commit offset in the node's database and the first entry its trimmed log still holds are neither in the database nor in the log: %s (the trimmer is bounded by the commit offset in memory, not by what the database has flushed)", i, out)
		case strings.HasPrefix(out, "APPLIED-UNCOMMITTED"):
			return fmt.Sprintf("op %d: a node that failed to get elected has applied entries of its log that no quorum had acknowledged: %s", i, out)
		case strings.HasPrefix(out, "DIVERGED"):
			return fmt.Sprintf("op %d: replicas that applied the same committed prefix differ: %s", i, out)
		case strings.HasPrefix(out, "NOT-SYNCED"):
			return fmt.Sprintf("op %d: a replica does not reach the committed prefix: %s", i, out)
		case strings.HasPrefix(out, "err:") && strings.Contains(out, "failed_to_applies_wal_entries_to_db"):
			return fmt.Sprintf("op %d (%s): the replay of committed entries by a new leader fails, although the entries were applied live and by the followers: %s", i, strings.Fields(o)[0], out)
		}
	}
	return ""
}

func (C06) Nontrivial(ops []string, outs []string) bool {
	for i, o := range ops {
		if i < len(outs) && strings.HasPrefix(o, "c.checkpoint") && strings.HasPrefix(outs[i], "n=") {
			return true
		}
	}
	return false
}

var _ = kv.ErrKeyNotFound

// C07: the same cluster scripts with crashes: a node's database falls back to its last flush (Pebble runs
// without its own WAL) while the shard's WAL is kept; the node replays from the commit offset it finds in
// the database. Checked like C06: every replica equals the leader - and M-Db - at the same commit offset.
type C07 struct{ C06 }

func (C07) Generate(rng *rand.Rand, tier string) []core.Case {
	n := 60
	if tier == "thorough" {
		n = 1500
	}
	var cases []core.Case
	for i := 0; i < n; i++ {
		g := &dbGen{rng: rng, ts: 1000}
		mode := []string{"mix", "idx", "mix", "seq", "notif"}[rng.Intn(5)]
		prog := g.program(mode, 10+rng.Intn(30))
		cases = append(cases, core.Case{Name: fmt.Sprintf("crash-%s-%d", mode, i), Ops: clusterProgramOpt(rng, prog, true)})
	}
	// the WAL is trimmed (entries older than the retention time, up to the commit offset) and a follower crashes:
	// values large enough for the 8 KB segments of the harness to roll over several times
	nt := 2
	if tier == "thorough" {
		nt = 20
	}
	for i := 0; i < nt; i++ {
		ops := []string{"c.init rf=3 notif=1"}
		off, ts := 0, 1000
		write := func() {
			ts += 2
			val := strings.Repeat(fmt.Sprintf("%02x", 65+rng.Intn(26)), 300+rng.Intn(500))
			ops = append(ops, fmt.Sprintf("db.write off=%d ts=%d P:%s:%s:_:_:_:_:_:_", off, ts, core.Hex([]byte(fmt.Sprintf("big%d", off%7))), val))
			off++
		}
		for j := 0; j < 25+rng.Intn(20); j++ {
			write()
		}
		ops = append(ops, "c.join")
		ts += 3
		ops = append(ops, fmt.Sprintf("c.checkpoint ts=%d", ts))
		off++
		ops = append(ops, "c.trimcrash "+[]string{"n1", "n2"}[i%2]) // n2 has joined through a snapshot: its database was flushed then
		write()
		write()
		ts += 3
		ops = append(ops, fmt.Sprintf("c.checkpoint ts=%d", ts))
		cases = append(cases, core.Case{Name: fmt.Sprintf("trim-crash-%d", i), Ops: ops})
	}
	return cases
}

func (c C07) Oracle(ops, impl, model []string) string {
	msg := c.C06.Oracle(ops, impl, model)
	if msg == "" {
		return ""
	}
	crashed := false
	for _, o := range ops {
		if strings.HasPrefix(o, "c.crash") {
			crashed = true
		}
	}
	if crashed {
		return msg + " [the script contains a crash: the replica's database is not the in-order, exactly-once application of its log up to its commit offset]"
	}
	return msg
}
