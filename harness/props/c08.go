package props

import (
	"context"
	"fmt"
	"math/rand"
	"os"
	"sort"
	"strconv"
	"strings"
	"sync"
	"sync/atomic"
	"time"

	"github.com/oxia-db/oxia/common/concurrent"
	"github.com/oxia-db/oxia/common/constant"
	"github.com/oxia-db/oxia/common/entity"
	"github.com/oxia-db/oxia/proto"
	"github.com/oxia-db/oxia/server"
	"github.com/oxia-db/oxia/server/kv"
	"github.com/oxia-db/oxia/server/wal"

	"oxverif/harness/core"
)

// C08: the real quorum-ack tracker against M-Ack (scripted event sequences), and the real leader
// controller under concurrent writers (the pipeline).
type C08 struct{}

func (C08) Timeout() time.Duration { return 120 * time.Second }

func (C08) Generate(rng *rand.Rand, tier string) []core.Case {
	n := 1500
	if tier == "thorough" {
		n = 60000
	}
	var cases []core.Case
	for i := 0; i < n; i++ {
		valid := rng.Intn(5) != 0 // a fifth of the cases leaves the protocol (out-of-order / early acks)
		cases = append(cases, core.Case{Name: fmt.Sprintf("tracker-%d-valid=%v", i, valid), Ops: genTrackerCase(rng, valid)})
	}
	conc := 6
	if tier == "thorough" {
		conc = 40
	}
	for i := 0; i < conc; i++ {
		cases = append(cases, core.Case{Name: fmt.Sprintf("pipeline-%d", i), Ops: []string{
			fmt.Sprintf("lc.concurrent writers=%d each=%d sync=%d", 2+rng.Intn(15), 20+rng.Intn(150), rng.Intn(2))}})
	}
	// a segment rollover scheduled between the sync goroutine's choice of the segment and its msync
	for i := 0; i < 3; i++ {
		cases = append(cases, core.Case{Name: fmt.Sprintf("pipeline-syncrace-%d", i), Ops: []string{
			fmt.Sprintf("lc.concurrent writers=1 each=%d sync=1 seg=%d extra=%d", 1+rng.Intn(3), 512+64*rng.Intn(4), 8+rng.Intn(8))}})
	}
	return cases
}

func genTrackerCase(rng *rand.Rand, valid bool) []string {
	rf := 1 + rng.Intn(6)
	if rng.Intn(10) == 0 {
		rf = 7 + rng.Intn(11)
	}
	commit := int64(-1 + rng.Intn(4))
	head := commit + int64(rng.Intn(4))
	ops := []string{fmt.Sprintf("q.new %d %d %d", rf, head, commit)}
	var acked []int64 // per cursor
	nextWait := 0
	waitOff := head
	steps := 5 + rng.Intn(40)
	for s := 0; s < steps; s++ {
		switch r := rng.Intn(10); {
		case r < 2:
			head++
			ops = append(ops, fmt.Sprintf("q.head %d", head))
			if rng.Intn(3) > 0 {
				// the sync callback registers the wait right after advancing the head
				ops = append(ops, fmt.Sprintf("q.wait %d %d", head, nextWait))
				nextWait++
				waitOff = head
			}
		case r == 2:
			a := commit + int64(rng.Intn(int(head-commit)+2)) - 1
			if a < -1 {
				a = -1
			}
			if !valid && rng.Intn(3) == 0 {
				a = head + 1 + int64(rng.Intn(2))
			}
			ops = append(ops, fmt.Sprintf("q.cursor %d", a))
			if len(acked)+1 < rf && a <= head {
				acked = append(acked, a)
			}
		case r == 3 && !valid:
			// leaves the protocol: a gap, an entry beyond the head, an unknown cursor, a stale head
			switch rng.Intn(4) {
			case 0:
				ops = append(ops, fmt.Sprintf("q.ack %d %d", rng.Intn(3), head+1+int64(rng.Intn(2))))
			case 1:
				ops = append(ops, fmt.Sprintf("q.ack %d %d", rng.Intn(len(acked)+2), int64(rng.Intn(int(head)+3))-1))
			case 2:
				head += 2
				ops = append(ops, fmt.Sprintf("q.head %d", head))
			default:
				ops = append(ops, fmt.Sprintf("q.wait %d %d", int64(rng.Intn(int(head)+4))-1, nextWait))
				nextWait++
			}
		case r == 4:
			ops = append(ops, "q.next")
		default:
			if len(acked) == 0 {
				continue
			}
			i := rng.Intn(len(acked))
			o := acked[i] + 1
			if rng.Intn(4) == 0 && acked[i] >= 0 {
				o = int64(rng.Intn(int(acked[i]) + 1)) // a duplicate / re-delivery
			}
			if o > head {
				continue
			}
			ops = append(ops, fmt.Sprintf("q.ack %d %d", i, o))
			if o > acked[i] {
				acked[i] = o
			}
		}
	}
	_ = waitOff
	return ops
}

type stubRPC struct{}

func (stubRPC) Close() error { return nil }
func (stubRPC) GetReplicateStream(context.Context, string, string, int64, int64) (proto.OxiaLogReplication_ReplicateClient, error) {
	return nil, fmt.Errorf("no followers")
}
func (stubRPC) SendSnapshot(context.Context, string, string, int64, int64) (proto.OxiaLogReplication_SendSnapshotClient, error) {
	return nil, fmt.Errorf("no followers")
}
func (stubRPC) Truncate(string, *proto.TruncateRequest) (*proto.TruncateResponse, error) {
	return nil, fmt.Errorf("no followers")
}

// raceMu: a case that schedules a segment rollover into the sync goroutine's window uses the process-wide
// segment hook of the WAL package and runs alone
var raceMu sync.RWMutex

type c08WriteCb struct {
	key string
	out chan<- c08Res
}

type c08Res struct {
	key     string
	version int64
	err     error
}

func (c c08WriteCb) OnComplete(r *proto.WriteResponse) {
	if r == nil || len(r.Puts) != 1 || r.Puts[0].Version == nil {
		c.out <- c08Res{key: c.key, err: fmt.Errorf("bad response")}
		return
	}
	c.out <- c08Res{key: c.key, version: r.Puts[0].Version.VersionId}
}
func (c c08WriteCb) OnCompleteError(err error) { c.out <- c08Res{key: c.key, err: err} }

func c08Concurrent(kvs map[string]string) string {
	writers, _ := strconv.Atoi(kvs["writers"])
	each, _ := strconv.Atoi(kvs["each"])
	extra, _ := strconv.Atoi(kvs["extra"])
	seg, _ := strconv.Atoi(kvs["seg"])
	if seg == 0 {
		seg = 128 * 1024
	}
	if extra > 0 {
		raceMu.Lock()
		defer raceMu.Unlock()
	} else {
		raceMu.RLock()
		defer raceMu.RUnlock()
	}
	dir, err := os.MkdirTemp("", "oxv-c08-")
	if err != nil {
		return "err:" + err.Error()
	}
	defer os.RemoveAll(dir)
	var shard int64 = 1
	kvFactory, err := kv.NewPebbleKVFactory(&kv.FactoryOptions{InMemory: true, DataDir: dir + "/db"})
	if err != nil {
		return "err:" + err.Error()
	}
	defer kvFactory.Close()
	walFactory := wal.NewWalFactory(&wal.FactoryOptions{BaseWalDir: dir + "/wal", SyncData: kvs["sync"] == "1", SegmentSize: int32(seg)})
	defer walFactory.Close()
	lc, err := server.NewLeaderController(server.Config{}, constant.DefaultNamespace, shard, stubRPC{}, walFactory, kvFactory)
	if err != nil {
		return "err:" + err.Error()
	}
	defer lc.Close()
	if _, err := lc.NewTerm(&proto.NewTermRequest{Shard: shard, Term: 1}); err != nil {
		return "err:" + err.Error()
	}
	if _, err := lc.BecomeLeader(context.Background(), &proto.BecomeLeaderRequest{Shard: shard, Term: 1, ReplicationFactor: 1}); err != nil {
		return "err:" + err.Error()
	}
	type res = c08Res
	results := make(chan res, writers*each+extra)
	var extraWg sync.WaitGroup
	if extra > 0 {
		// the first time the sync goroutine is about to flush a segment, other writers get in: their appends
		// roll the segment over before the msync happens
		var once atomic.Bool
		extraWg.Add(1)
		wal.SetVerifSegmentHook(func(kind string, _ int64, _ int64, _ uint32) {
			if kind == "before-flush" && once.CompareAndSwap(false, true) {
				defer extraWg.Done()
				for j := 0; j < extra; j++ {
					key := fmt.Sprintf("x-%d", j)
					lc.Write(context.Background(), &proto.WriteRequest{Shard: &shard, Puts: []*proto.PutRequest{{Key: key, Value: []byte(key)}}},
						c08WriteCb{key: key, out: results})
				}
			}
		})
		defer wal.SetVerifSegmentHook(nil)
	}
	var wg sync.WaitGroup
	for w := 0; w < writers; w++ {
		wg.Add(1)
		go func(w int) {
			defer wg.Done()
			for i := 0; i < each; i++ {
				key := fmt.Sprintf("w%d-%d", w, i)
				r, err := lc.WriteBlock(context.Background(), &proto.WriteRequest{Shard: &shard, Puts: []*proto.PutRequest{{Key: key, Value: []byte(key)}}})
				if err != nil {
					results <- res{key: key, err: err}
					continue
				}
				results <- res{key: key, version: r.Puts[0].Version.VersionId}
			}
		}(w)
	}
	wg.Wait()
	if extra > 0 {
		extraWg.Wait()
		// the extra writes complete asynchronously
		deadline := time.Now().Add(10 * time.Second)
		for len(results) < writers*each+extra && time.Now().Before(deadline) {
			time.Sleep(2 * time.Millisecond)
		}
	}
	close(results)
	ok, failed := 0, 0
	var versions []int64
	byKey := map[string]int64{}
	firstErr := ""
	for r := range results {
		if r.err != nil {
			failed++
			if firstErr == "" {
				firstErr = r.err.Error()
			}
			continue
		}
		ok++
		versions = append(versions, r.version)
		byKey[r.key] = r.version
	}
	out := fmt.Sprintf("ok=%d failed=%d", ok, failed)
	if failed > 0 {
		return out + " first-error=" + strings.ReplaceAll(firstErr, " ", "_")
	}
	// every response is the response to the caller's own request: the version id it reports is the one
	// stored for its key; version ids (assigned in application order) are distinct and contiguous
	sort.Slice(versions, func(a, b int) bool { return versions[a] < versions[b] })
	for i, v := range versions {
		if v != int64(i) {
			return out + fmt.Sprintf(" version-ids-not-contiguous(at %d: %d)", i, v)
		}
	}
	for key, v := range byKey {
		ch := make(chan *entity.TWithError[*proto.GetResponse], 2)
		lc.Read(context.Background(), &proto.ReadRequest{Shard: &shard, Gets: []*proto.GetRequest{{Key: key, IncludeValue: true}}},
			concurrent.ReadFromStreamCallback(ch))
		ge := <-ch
		if ge == nil || ge.Err != nil || ge.T == nil || ge.T.Version == nil || ge.T.Version.VersionId != v || string(ge.T.Value) != key {
			return out + " response-of-another-request:" + key
		}
	}
	if st, err := lc.GetStatus(&proto.GetStatusRequest{Shard: shard}); err != nil || st.CommitOffset != int64(writers*each+extra-1) || st.HeadOffset != int64(writers*each+extra-1) {
		return out + fmt.Sprintf(" status=%v err=%v", st, err)
	}
	return out
}

type c08cb struct {
	id   int
	done *[]int
	mu   *sync.Mutex
}

func (c c08cb) OnComplete(any) { c.mu.Lock(); *c.done = append(*c.done, c.id); c.mu.Unlock() }
func (c c08cb) OnCompleteError(err error) {
	c.mu.Lock()
	*c.done = append(*c.done, -1-c.id)
	c.mu.Unlock()
}

func (C08) Exec(ops []string, outs []string) {
	var q server.QuorumAckTracker
	var cursors []server.CursorAcker
	var done []int
	var mu sync.Mutex
	for i, o := range ops {
		o := o
		outs[i] = core.Safe(func() string {
			f := strings.Fields(o)
			if f[0] == "lc.concurrent" {
				return c08Concurrent(c20kv(f))
			}
			if f[0] != "q.new" && q == nil {
				return "bad-op"
			}
			before := len(done)
			show := func() string {
				mu.Lock()
				defer mu.Unlock()
				var ids []string
				for _, d := range done[before:] {
					ids = append(ids, fmt.Sprint(d))
				}
				return fmt.Sprintf("commit=%d head=%d done=%s", q.CommitOffset(), q.HeadOffset(), strings.Join(ids, ","))
			}
			atoi := func(s string) int64 { v, _ := strconv.ParseInt(s, 10, 64); return v }
			switch f[0] {
			case "q.new":
				q = server.NewQuorumAckTracker(uint32(atoi(f[1])), atoi(f[2]), atoi(f[3]))
				cursors = nil
				done = nil
				before = 0
				return show()
			case "q.head":
				q.AdvanceHeadOffset(atoi(f[1]))
				return show()
			case "q.cursor":
				c, err := q.NewCursorAcker(atoi(f[1]))
				if err != nil {
					if err == server.ErrTooManyCursors {
						return "err:too-many-cursors"
					}
					return "err:invalid-head-offset"
				}
				cursors = append(cursors, c)
				return fmt.Sprintf("cursor=%d ", len(cursors)-1) + show()
			case "q.ack":
				i := int(atoi(f[1]))
				if i >= len(cursors) {
					return show() // an unknown cursor cannot acknowledge
				}
				cursors[i].Ack(atoi(f[2]))
				return show()
			case "q.wait":
				q.WaitForCommitOffsetAsync(context.Background(), atoi(f[1]), c08cb{id: int(atoi(f[2])), done: &done, mu: &mu})
				return show()
			case "q.next":
				return fmt.Sprintf("next=%d", q.NextOffset())
			}
			return "bad-op"
		})
	}
}

// Oracle: the property recomputed from the history alone, for histories that stay inside the protocol
// (in-order acknowledgements of entries the leader has, head advancing by one).
func (C08) Oracle(ops, impl, model []string) string {
	var rf, head, commit, c0 int64
	var acked []int64
	valid := true
	waits := map[int]int64{}
	completed := map[int]bool{}
	lastDone := int64(-1 << 62)
	lastWait := int64(-1 << 62)
	advanced := false
	for i, o := range ops {
		if i >= len(impl) {
			break
		}
		out := impl[i]
		f := strings.Fields(o)
		atoi := func(s string) int64 { v, _ := strconv.ParseInt(s, 10, 64); return v }
		if out == "hang" || out == "panic" {
			return fmt.Sprintf("op %d (%s): %s", i, o, out)
		}
		switch f[0] {
		case "lc.concurrent":
			if !strings.HasSuffix(out, "failed=0") {
				return fmt.Sprintf("op %d: concurrent writers with a healthy quorum: %s", i, out)
			}
			continue
		case "q.new":
			rf, head, commit = atoi(f[1]), atoi(f[2]), atoi(f[3])
			c0 = commit
			acked = nil
			valid = commit <= head
			waits = map[int]int64{}
			completed = map[int]bool{}
			advanced = false
			lastWait = -1 << 62
			lastDone = -1 << 62
		case "q.head":
			h := atoi(f[1])
			if h > head+1 {
				valid = false
			}
			if h > head {
				head = h
				advanced = true
			}
		case "q.cursor":
			a := atoi(f[1])
			if strings.HasPrefix(out, "cursor=") {
				acked = append(acked, a)
			}
		case "q.ack":
			idx, off := int(atoi(f[1])), atoi(f[2])
			if idx >= len(acked) || off > acked[idx]+1 || off > head {
				valid = false
			} else if off > acked[idx] {
				acked[idx] = off
			}
		case "q.wait":
			// the leader registers the wait for an offset right after advancing the head to it
			if atoi(f[1]) > head || atoi(f[1]) < lastWait {
				valid = false
			}
			lastWait = atoi(f[1])
			waits[int(atoi(f[2]))] = atoi(f[1])
		case "q.next":
			continue
		}
		if !valid || strings.HasPrefix(out, "err:") {
			continue
		}
		// parse the implementation's output
		var gotCommit, gotHead int64
		var doneS string
		t := out
		if strings.HasPrefix(t, "cursor=") {
			t = t[strings.Index(t, " ")+1:]
		}
		if _, err := fmt.Sscanf(t, "commit=%d head=%d done=%s", &gotCommit, &gotHead, &doneS); err != nil && !strings.HasSuffix(t, "done=") {
			continue
		}
		// expected commit offset: the highest offset <= head whose prefix is acknowledged by rf/2 cursors
		req := rf / 2
		want := commit
		if req == 0 {
			// RF=1: every entry is committed as soon as it is stored (the tracker publishes that with
			// the next head advance; right after its creation it still shows the recovered commit offset)
			if advanced {
				want = head
			}
		} else {
			for off := commit + 1; off <= head; off++ {
				n := int64(0)
				for _, a := range acked {
					if a >= off {
						n++
					}
				}
				if n >= req {
					want = off
				} else {
					break
				}
			}
		}
		if gotCommit < commit {
			return fmt.Sprintf("op %d (%s): the commit offset moved backwards: %d -> %d", i, o, commit, gotCommit)
		}
		if gotCommit > gotHead && gotCommit > c0 {
			return fmt.Sprintf("op %d (%s): the commit offset %d passed the head %d", i, o, gotCommit, gotHead)
		}
		if gotCommit != want {
			return fmt.Sprintf("op %d (%s): commit offset %d, but the highest offset stored on the leader and acknowledged by %d followers is %d", i, o, gotCommit, req, want)
		}
		commit = gotCommit
		if doneS != "" {
			for _, d := range strings.Split(doneS, ",") {
				id, _ := strconv.Atoi(d)
				if id < 0 {
					return fmt.Sprintf("op %d (%s): a waiting write failed spuriously", i, o)
				}
				if completed[id] {
					return fmt.Sprintf("op %d (%s): write %d completed twice", i, o, id)
				}
				completed[id] = true
				if req > 0 && waits[id] > commit {
					return fmt.Sprintf("op %d (%s): write %d (offset %d) completed before its offset was committed (%d)", i, o, id, waits[id], commit)
				}
				if waits[id] < lastDone {
					return fmt.Sprintf("op %d (%s): writes completed out of offset order", i, o)
				}
				lastDone = waits[id]
			}
		}
		// every registered wait at or below the commit offset has completed
		for id, off := range waits {
			if (off <= commit || req == 0) && !completed[id] {
				return fmt.Sprintf("op %d (%s): write %d (offset %d) is committed (%d) but was not completed", i, o, id, off, commit)
			}
		}
	}
	return ""
}

func (C08) Nontrivial(ops []string, outs []string) bool {
	for i, o := range outs {
		if i > 0 && strings.Contains(o, "done=") && !strings.HasSuffix(o, "done=") {
			return true
		}
		if strings.HasPrefix(ops[i], "lc.") {
			return true
		}
	}
	return false
}
