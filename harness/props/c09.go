package props

import (
	"context"
	"encoding/binary"
	"errors"
	"fmt"
	"math/rand"
	"os"
	"strings"
	"time"

	pb "google.golang.org/protobuf/proto"

	"github.com/oxia-db/oxia/common/constant"
	time2 "github.com/oxia-db/oxia/common/time"
	"github.com/oxia-db/oxia/proto"
	"github.com/oxia-db/oxia/server/wal"
	"github.com/oxia-db/oxia/server/wal/codec"

	"oxverif/harness/core"
)

// C09: the segmented WAL against the Lean SegWal model (which is proved to refine the list model).
type C09 struct{}

type commitProvider struct{ off int64 }

func (c *commitProvider) CommitOffset() int64 { return c.off }

func walEntry(off, term, ts int64, plen int, id uint64) *proto.LogEntry {
	v := make([]byte, plen)
	var idb [8]byte
	binary.BigEndian.PutUint64(idb[:], id)
	for i := range v {
		v[i] = idb[i%8]
	}
	return &proto.LogEntry{Term: term, Offset: off, Value: v, Timestamp: uint64(ts)}
}

func entryID(e *proto.LogEntry) uint64 {
	var idb [8]byte
	copy(idb[:], e.Value)
	// payloads shorter than 8 bytes only carry the high bytes of the id
	return binary.BigEndian.Uint64(idb[:])
}

func idFor(id uint64, plen int) uint64 {
	// the part of the id that survives in a payload of plen bytes
	var idb [8]byte
	binary.BigEndian.PutUint64(idb[:], id)
	for i := plen; i < 8; i++ {
		idb[i] = 0
	}
	return binary.BigEndian.Uint64(idb[:])
}

func walErr(err error) string {
	switch {
	case err == nil:
		return "ok"
	case errors.Is(err, wal.ErrInvalidNextOffset):
		return "err:invalid-next"
	case errors.Is(err, codec.ErrEmptyPayload):
		return "err:empty-payload"
	case errors.Is(err, wal.ErrSegmentFull):
		return "err:segment-full"
	case errors.Is(err, codec.ErrOffsetOutOfBounds):
		return "err:out-of-bounds"
	case errors.Is(err, wal.ErrEntryNotFound):
		return "err:not-found"
	case errors.Is(err, constant.ErrAlreadyClosed):
		return "err:closed"
	case strings.Contains(err.Error(), "invalid next offset"):
		return "err:invalid-offset"
	}
	return "err:other:" + strings.ReplaceAll(err.Error(), " ", "_")
}

type c09Gen struct {
	rng      *rand.Rand
	ops      []string
	next     int64 // model-free bookkeeping of what a valid next offset is (generator's guess only)
	first    int64
	ts       int64
	idc      uint64
	seg      int
	lastTerm int64
}

func (g *c09Gen) emitAppend(off int64, plen int, syncNow bool) {
	g.idc++
	id := idFor(g.idc*0x9E3779B97F4A7C15, plen)
	if g.rng.Intn(4) == 0 {
		g.lastTerm++
	}
	if g.rng.Intn(3) > 0 {
		g.ts += int64(g.rng.Intn(50))
	} else if g.rng.Intn(6) == 0 {
		g.ts -= int64(g.rng.Intn(20)) // occasionally non-monotone timestamps
		if g.ts < 1 {
			g.ts = 1
		}
	}
	e := walEntry(off, g.lastTerm, g.ts, plen, id)
	size := pb.Size(e)
	for size+12 > g.seg && plen > 0 { // the entry must fit an empty segment (hypothesis of C09)
		plen--
		id = idFor(id, plen)
		e = walEntry(off, g.lastTerm, g.ts, plen, id)
		size = pb.Size(e)
	}
	op := "wal.append"
	if syncNow {
		op = "wal.appendsync"
	}
	g.ops = append(g.ops, fmt.Sprintf("%s %d %d %d %d %d", op, off, g.lastTerm, g.ts, size, id))
}

func (C09) Generate(rng *rand.Rand, tier string) []core.Case {
	n := 300
	maxOps := 60
	if tier == "thorough" {
		n = 12000
		maxOps = 120
	}
	var cases []core.Case
	segSizes := []int{64, 96, 128, 200, 256, 1024, 65536}
	for c := 0; c < n; c++ {
		seg := segSizes[rng.Intn(len(segSizes))]
		retention := int64(50 + rng.Intn(300))
		g := &c09Gen{rng: rng, next: 0, first: -1, ts: 1000, seg: seg, lastTerm: 1}
		g.ops = append(g.ops, fmt.Sprintf("wal.cfg %d %d", seg, retention))
		nops := 5 + rng.Intn(maxOps)
		// payload length classes relative to the segment capacity
		maxPayload := seg - 12 - 12 // header + proto overhead guess
		if maxPayload > 400 {
			maxPayload = 400
		}
		if maxPayload < 1 {
			maxPayload = 1
		}
		for i := 0; i < nops; i++ {
			r := rng.Intn(100)
			switch {
			case r < 50:
				plen := 1 + rng.Intn(maxPayload)
				switch rng.Intn(6) {
				case 0:
					plen = maxPayload
				case 1:
					plen = 1 + rng.Intn(8)
				case 2:
					plen = maxPayload/2 + rng.Intn(3)
				}
				off := g.next
				if rng.Intn(25) == 0 {
					off = g.next + int64(rng.Intn(3)) - 1 // sometimes an invalid offset
				}
				g.emitAppend(off, plen, rng.Intn(3) > 0)
				if off == g.next {
					g.next++
				}
			case r < 56:
				g.ops = append(g.ops, "wal.sync")
			case r < 66:
				// truncate somewhere, biased to recent offsets and to segment boundaries
				var o int64
				if g.next > 0 {
					o = g.next - 1 - int64(rng.Intn(int(g.next)))
					if rng.Intn(3) == 0 {
						o = g.next - 1 - int64(rng.Intn(4))
					}
				} else {
					o = int64(rng.Intn(3)) - 1
				}
				if rng.Intn(30) == 0 {
					o = -1
				}
				if rng.Intn(30) == 0 {
					o = g.next + int64(rng.Intn(3))
				}
				g.ops = append(g.ops, fmt.Sprintf("wal.trunc %d", o))
				if o >= -1 && o < g.next {
					g.next = o + 1
				}
			case r < 69:
				g.ops = append(g.ops, "wal.clear")
				g.next = 0
				if rng.Intn(2) == 0 {
					g.next = int64(rng.Intn(20)) // restart from a non-initial position
				}
			case r < 77:
				commit := g.next - 1 - int64(rng.Intn(6))
				if commit < -1 {
					commit = -1
				}
				now := g.ts + int64(rng.Intn(int(retention)*2))
				g.ops = append(g.ops, fmt.Sprintf("wal.trim %d %d", now, commit))
			case r < 82:
				g.ops = append(g.ops, "wal.reopen")
			case r < 88:
				g.ops = append(g.ops, "wal.first", "wal.last")
			case r < 95:
				after := int64(-1)
				if g.next > 0 {
					after = int64(rng.Intn(int(g.next)+1)) - 1
				}
				g.ops = append(g.ops, fmt.Sprintf("wal.readfwd %d", after))
			default:
				g.ops = append(g.ops, "wal.readrev")
			}
		}
		g.ops = append(g.ops, "wal.sync", "wal.first", "wal.last", "wal.readrev", "wal.readfwd -1")
		cases = append(cases, core.Case{Name: fmt.Sprintf("wal-%d-seg%d", c, seg), Ops: g.ops})
	}
	return cases
}

type c09Exec struct {
	dir       string
	w         wal.Wal
	opts      *wal.FactoryOptions
	clock     *time2.MockedClock
	commit    *commitProvider
	retention int64
}

func (e *c09Exec) open() error {
	w, err := wal.VerifNewWal("ns", 1, e.opts, e.commit, e.clock, 24*time.Hour)
	if err != nil {
		return err
	}
	e.w = w
	return nil
}

func (e *c09Exec) close() {
	if e.w != nil {
		_ = e.w.Close()
		e.w = nil
	}
	if e.dir != "" {
		_ = os.RemoveAll(e.dir)
	}
}

func showWalEntries(es []*proto.LogEntry) string {
	parts := make([]string, len(es))
	for i, en := range es {
		parts[i] = fmt.Sprintf("%d.%d.%d.%d.%d", en.Offset, en.Term, en.Timestamp, entryID(en), pb.Size(en))
	}
	return fmt.Sprintf("n=%d %s", len(es), strings.Join(parts, ","))
}

func (e *c09Exec) op(op string) string {
	f := strings.Fields(op)
	var a [6]int64
	for i := 1; i < len(f) && i < 6; i++ {
		fmt.Sscan(f[i], &a[i])
	}
	if f[0] == "wal.cfg" {
		e.close()
		dir, err := os.MkdirTemp(workTmp(), "c09-")
		if err != nil {
			return "err:other:" + err.Error()
		}
		e.dir = dir
		e.opts = &wal.FactoryOptions{BaseWalDir: dir, Retention: time.Duration(a[2]) * time.Millisecond, SegmentSize: int32(a[1]), SyncData: true}
		e.retention = a[2]
		e.clock = &time2.MockedClock{}
		e.commit = &commitProvider{off: -1}
		if err := e.open(); err != nil {
			return "err:other:" + err.Error()
		}
		return "ok"
	}
	if e.w == nil {
		// same defaults as the model: 1024-byte segments, no retention configured
		if r := e.op("wal.cfg 1024 0"); r != "ok" {
			return "err:no-wal"
		}
	}
	switch f[0] {
	case "wal.append", "wal.appendsync":
		var id uint64
		fmt.Sscan(f[5], &id)
		// payload length is recovered from the marshalled size given in the op
		plen := 0
		for p := 0; p <= int(a[4]); p++ {
			if pb.Size(walEntry(a[1], a[2], a[3], p, id)) == int(a[4]) {
				plen = p
				break
			}
		}
		en := walEntry(a[1], a[2], a[3], plen, id)
		if f[0] == "wal.append" {
			return walErr(e.w.AppendAsync(en))
		}
		return walErr(e.w.Append(en))
	case "wal.sync":
		return walErr(e.w.Sync(context.Background()))
	case "wal.clear":
		return walErr(e.w.Clear())
	case "wal.reopen":
		if err := e.w.Close(); err != nil {
			return walErr(err)
		}
		e.w = nil
		return walErr(e.open())
	case "wal.trunc":
		r, err := e.w.TruncateLog(a[1])
		if err != nil {
			return walErr(err)
		}
		return fmt.Sprint(r)
	case "wal.trim":
		e.clock.Set(a[1])
		e.commit.off = a[2]
		return walErr(wal.VerifDoTrim(e.w))
	case "wal.first":
		return fmt.Sprint(e.w.FirstOffset())
	case "wal.last":
		return fmt.Sprint(e.w.LastOffset())
	case "wal.readfwd":
		r, err := e.w.NewReader(a[1])
		if err != nil {
			return walErr(err)
		}
		defer r.Close()
		var es []*proto.LogEntry
		for r.HasNext() {
			en, err := r.ReadNext()
			if err != nil {
				return walErr(err)
			}
			es = append(es, en)
		}
		return showWalEntries(es)
	case "wal.readrev":
		r, err := e.w.NewReverseReader()
		if err != nil {
			return walErr(err)
		}
		defer r.Close()
		var es []*proto.LogEntry
		for r.HasNext() {
			en, err := r.ReadNext()
			if err != nil {
				return walErr(err)
			}
			es = append(es, en)
		}
		return showWalEntries(es)
	}
	return "bad-op"
}

func (C09) Exec(ops []string, outs []string) {
	e := &c09Exec{}
	defer e.close()
	for i, o := range ops {
		o := o
		outs[i] = core.Safe(func() string { return e.op(o) })
	}
}

// Oracle: the list model of the property, kept independently in Go: entries appended (and not
// truncated/cleared) must be read back identically, contiguously, and the next append must be
// accepted exactly at last+1. (What trimming may retain physically is left to the Lean model.)
func (C09) Oracle(ops, impl, model []string) string {
	var log []string // entry strings, log[i] has offset base+i
	base := int64(0)
	appended := int64(-1)
	trimArg := int64(-1) // highest trim bound (min(search result, commit) <= commit arg) since the last clear
	for i, o := range ops {
		if i >= len(impl) {
			break
		}
		f := strings.Fields(o)
		var a [6]int64
		for j := 1; j < len(f) && j < 6; j++ {
			fmt.Sscan(f[j], &a[j])
		}
		out := impl[i]
		if out == "err:no-wal" {
			continue
		}
		if out == "hang" {
			return fmt.Sprintf("op %d (%s) never returns (deadlock)", i, o)
		}
		if out == "panic" {
			return fmt.Sprintf("op %d (%s) panics", i, o)
		}
		switch f[0] {
		case "wal.cfg", "wal.clear":
			log, base, appended, trimArg = nil, 0, -1, -1
		case "wal.trim":
			if out == "ok" && a[2] > trimArg {
				trimArg = a[2]
			}
		case "wal.append", "wal.appendsync":
			valid := a[1] >= 0 && (appended == -1 || a[1] == appended+1) && a[4] > 0
			if valid && out != "ok" && out != "err:segment-full" {
				return fmt.Sprintf("op %d: append at last+1 (%d) rejected with %s", i, a[1], out)
			}
			if !valid && out == "ok" {
				return fmt.Sprintf("op %d: append at %d accepted although last appended is %d", i, a[1], appended)
			}
			if out == "ok" {
				if appended == -1 {
					base = a[1]
					log = nil
				}
				log = append(log, fmt.Sprintf("%d.%d.%d.%s.%d", a[1], a[2], a[3], f[5], a[4]))
				appended = a[1]
			}
		case "wal.trunc":
			var r int64
			if _, err := fmt.Sscan(out, &r); err != nil {
				continue // error result: state must be unchanged (checked through later reads)
			}
			if a[1] == -1 || (appended != -1 && a[1] < base) || (r == -1 && appended != -1 && a[1] < trimArg) {
				// nothing at or below the requested offset is retained (never appended, or trimmed
				// away): the log becomes empty
				log, base, appended, trimArg = nil, 0, -1, -1
			} else if appended != -1 && a[1] >= base && a[1] <= appended {
				log = log[:a[1]-base+1]
				appended = a[1]
				if r != a[1] {
					return fmt.Sprintf("op %d: truncate to %d returned %d", i, a[1], r)
				}
			}
		case "wal.last":
			var r int64
			fmt.Sscan(out, &r)
			if r > appended {
				return fmt.Sprintf("op %d: LastOffset()=%d beyond the last appended offset %d", i, r, appended)
			}
		case "wal.readfwd", "wal.readrev":
			if !strings.HasPrefix(out, "n=") {
				if i < len(model) && strings.HasPrefix(model[i], "n=") && out != model[i] {
					return fmt.Sprintf("op %d (%s): entries the log holds cannot be read: %s (list model: %.60s)", i, o, out, model[i])
				}
				continue
			}
			parts := strings.SplitN(out, " ", 2)
			if len(parts) < 2 || parts[1] == "" {
				continue
			}
			es := strings.Split(parts[1], ",")
			var prev int64 = -2
			for k, s := range es {
				var off int64
				fmt.Sscan(strings.SplitN(s, ".", 2)[0], &off)
				if off < base || off-base >= int64(len(log)) {
					return fmt.Sprintf("op %d: read returned offset %d outside the appended range [%d,%d]", i, off, base, base+int64(len(log))-1)
				}
				if log[off-base] != s {
					return fmt.Sprintf("op %d: entry read at offset %d is %s, appended was %s", i, off, s, log[off-base])
				}
				if k > 0 {
					if f[0] == "wal.readfwd" && off != prev+1 || f[0] == "wal.readrev" && off != prev-1 {
						return fmt.Sprintf("op %d: non-contiguous read %d after %d", i, off, prev)
					}
				}
				prev = off
			}
		}
	}
	// final reads of every generated case: after the closing sync, a full forward read must return the
	// whole retained log up to the last appended entry
	return ""
}

func (C09) Timeout() time.Duration { return 10 * time.Second }

func (C09) Nontrivial(ops, outs []string) bool {
	// non-trivial: at least one rollover-sized log (more than one segment's worth) and a truncate,
	// trim or reopen that returned without error
	appends, special := 0, 0
	for i, o := range ops {
		if i >= len(outs) {
			break
		}
		if strings.HasPrefix(o, "wal.append") && outs[i] == "ok" {
			appends++
		}
		if (strings.HasPrefix(o, "wal.trunc") || strings.HasPrefix(o, "wal.trim") || o == "wal.reopen") && !strings.HasPrefix(outs[i], "err") {
			special++
		}
	}
	return appends >= 3 && special >= 1
}

func workTmp() string {
	d := os.Getenv("VERIF_TMP")
	if d == "" {
		d = "/verif/.work/tmp"
	}
	_ = os.MkdirAll(d, 0o755)
	return d
}
