package props

import (
	"context"
	"errors"
	"fmt"
	"math/rand"
	"os"
	"path/filepath"
	"strings"
	"sync"
	"time"

	"github.com/oxia-db/oxia/proto"

	time2 "github.com/oxia-db/oxia/common/time"
	"github.com/oxia-db/oxia/server/wal"
	"github.com/oxia-db/oxia/server/wal/codec"

	"oxverif/harness/core"
)

// C10: WAL recovery on raw bytes. The real codecs (v1, v2) and the real WAL reopen path are run on
// generated segment images (valid records, then torn writes / zero runs / random bytes / crafted
// length fields) and compared with the Lean codec model.
type C10 struct{}

func codecFor(ver string) codec.Codec {
	// SupportedCodecs = [latest (v2), v1]
	if ver == "1" {
		return codec.SupportedCodecs[1]
	}
	return codec.SupportedCodecs[0]
}

func codecErr(err error) string {
	switch {
	case errors.Is(err, codec.ErrOffsetOutOfBounds):
		return "err:oob"
	case errors.Is(err, codec.ErrEmptyPayload):
		return "err:empty"
	case errors.Is(err, codec.ErrDataCorrupted):
		return "err:corrupt"
	}
	return "err:other:" + strings.ReplaceAll(err.Error(), " ", "_")
}

type c10Image struct {
	ver      string
	img      []byte
	payloads [][]byte
	offsets  []int // file offset of each record
	end      int   // end of the last record
}

func buildImage(rng *rand.Rand, ver string, segSize int) *c10Image {
	c := codecFor(ver)
	im := &c10Image{ver: ver, img: make([]byte, segSize)}
	hs := int(c.GetHeaderSize())
	off := 0
	var crc uint32
	n := rng.Intn(7)
	for i := 0; i < n; i++ {
		plen := 1 + rng.Intn(40)
		if rng.Intn(5) == 0 {
			plen = segSize - off - hs - rng.Intn(4) // fill the segment up to 0..3 bytes from the end
		}
		if plen < 1 || off+hs+plen > segSize {
			break
		}
		p := make([]byte, plen)
		rng.Read(p)
		if rng.Intn(4) == 0 {
			for j := range p {
				p[j] = 0
			}
			p[0] = 1
		}
		var sz uint32
		sz, crc = c.WriteRecord(im.img, uint32(off), crc, p)
		im.payloads = append(im.payloads, p)
		im.offsets = append(im.offsets, off)
		off += int(sz)
	}
	im.end = off
	return im
}

func putU32(b []byte, off int, v uint32) {
	if off+4 <= len(b) {
		b[off], b[off+1], b[off+2], b[off+3] = byte(v>>24), byte(v>>16), byte(v>>8), byte(v)
	}
}

// mutate damages the image from byte `from` on (or anywhere if from < 0); returns the lowest touched byte.
func mutateImage(rng *rand.Rand, img []byte, from int, recOffsets []int) int {
	if from < 0 {
		from = 0
	}
	if from >= len(img) {
		return len(img)
	}
	lo := from + rng.Intn(len(img)-from)
	switch rng.Intn(7) {
	case 0: // zero run
		n := 1 + rng.Intn(32)
		for i := lo; i < lo+n && i < len(img); i++ {
			img[i] = 0
		}
	case 1: // random bytes
		n := 1 + rng.Intn(32)
		for i := lo; i < lo+n && i < len(img); i++ {
			img[i] = byte(rng.Intn(256))
		}
	case 2: // single bit flip
		img[lo] ^= 1 << uint(rng.Intn(8))
	case 3, 4: // crafted length field at a record boundary at/after `from`
		cands := []int{}
		for _, o := range recOffsets {
			if o >= from {
				cands = append(cands, o)
			}
		}
		cands = append(cands, from)
		lo = cands[rng.Intn(len(cands))]
		rem := uint32(len(img) - lo)
		vals := []uint32{0, 1, rem, rem - 4, rem - 11, rem - 12, rem - 13, rem + 1, 0xFFFFFFF4, 0xFFFFFFF3, 0xFFFFFFFC, 0xFFFFFFFF, 0xFFFFFFF8, rng.Uint32()}
		putU32(img, lo, vals[rng.Intn(len(vals))])
	case 5: // torn page: everything from lo on is lost (zero) except a later garbage island
		for i := lo; i < len(img); i++ {
			img[i] = 0
		}
		if lo+20 < len(img) {
			k := lo + 8 + rng.Intn(len(img)-lo-8)
			for i := k; i < k+12 && i < len(img); i++ {
				img[i] = byte(1 + rng.Intn(255))
			}
		}
	case 6: // truncate the buffer view: handled by the caller through a shorter image
		img[lo] = byte(rng.Intn(256))
	}
	return lo
}

func (C10) Generate(rng *rand.Rand, tier string) []core.Case {
	n := 1500
	if tier == "thorough" {
		n = 120000
	}
	var cases []core.Case
	var ops []string
	for i := 0; i < n; i++ {
		ver := "2"
		if rng.Intn(4) == 0 {
			ver = "1"
		}
		seg := []int{64, 96, 128, 200, 256}[rng.Intn(5)]
		im := buildImage(rng, ver, seg)
		orig := append([]byte{}, im.img...)
		nrec := len(im.payloads)
		synced := 0
		if nrec > 0 {
			synced = rng.Intn(nrec + 1)
		}
		syncedEnd := 0
		if synced > 0 {
			syncedEnd = im.offsets[synced-1] + int(codecFor(ver).GetHeaderSize()) + len(im.payloads[synced-1])
		}
		// commit offset: -1 (nil provider), or an entry index <= synced
		uncommittedFrom := -1
		if rng.Intn(5) > 0 {
			uncommittedFrom = rng.Intn(synced + 1)
		}
		img := append([]byte{}, orig...)
		touched := len(img)
		kind := rng.Intn(10)
		switch {
		case kind < 2: // clean image
		case kind < 7: // crash: only the unsynced tail is damaged
			for k := 0; k <= rng.Intn(3); k++ {
				if t := mutateImage(rng, img, syncedEnd, im.offsets); t < touched {
					touched = t
				}
			}
		default: // corruption anywhere
			for k := 0; k <= rng.Intn(2); k++ {
				if t := mutateImage(rng, img, -1, im.offsets); t < touched {
					touched = t
				}
			}
		}
		view := img
		if rng.Intn(12) == 0 && len(img) > 8 {
			// odd buffer lengths - but never shorter than the records written: a segment file has a fixed
			// size, a buffer that ends inside a record is not an image any crash or corruption of bytes
			// produces (the property quantifies over byte values, not over file truncation)
			allEnd := 0
			if nrec > 0 {
				allEnd = im.offsets[nrec-1] + int(codecFor(ver).GetHeaderSize()) + len(im.payloads[nrec-1])
			}
			if cut := 1 + rng.Intn(8); len(img)-cut >= allEnd {
				view = img[:len(img)-cut]
			}
		}
		meta := fmt.Sprintf("orig=%s nrec=%d synced=%d touched=%d", core.Hex(orig), nrec, synced, touched)
		ops = append(ops, fmt.Sprintf("cx.recover %s %s 0 %d %s", ver, core.Hex(view), uncommittedFrom, meta))
		if rng.Intn(3) == 0 && nrec > 0 {
			o := im.offsets[rng.Intn(nrec)]
			if rng.Intn(6) == 0 {
				o = rng.Intn(len(view) + 4)
			}
			ops = append(ops, fmt.Sprintf("cx.read %s %s %d", ver, core.Hex(view), o))
		}
		if ver == "2" && len(view) == seg && rng.Intn(3) == 0 {
			ops = append(ops, fmt.Sprintf("cw.reopen %s %d %s", core.Hex(view), uncommittedFrom, meta))
		}
		if rng.Intn(20) == 0 {
			p := make([]byte, 1+rng.Intn(20))
			rng.Read(p)
			ops = append(ops, fmt.Sprintf("cx.encode %s %d %s", ver, rng.Uint32(), core.Hex(p)))
		}
		if len(ops) >= 30 {
			cases = append(cases, core.Case{Name: fmt.Sprintf("codec-%d", i), Ops: ops})
			ops = nil
		}
	}
	if len(ops) > 0 {
		cases = append(cases, core.Case{Name: "codec-last", Ops: ops})
	}
	// the file of the current segment is shorter than the segment
	cases = append(cases, core.Case{Name: "wal-short-file", Ops: []string{"cw.shortfile len=0 seg=128 recs=0", "cw.shortfile len=57 seg=8192 recs=3 app=320", "cw.shortfile len=128 seg=128 recs=3", "cw.shortfile len=40 seg=128 recs=3 app=2"}})
	// index files of read-only segments
	nro := 400
	if tier == "thorough" {
		nro = 30000
	}
	cases = append(cases, genOpenRO(rng, nro)...)
	// a crash that damages one uncommitted entry and leaves the later ones intact; then an append and a restart
	ns := 6
	if tier == "thorough" {
		ns = 150
	}
	var sops []string
	for i := 0; i < ns; i++ {
		n := 4 + rng.Intn(8)
		tear := 1 + rng.Intn(n-2)
		commit := tear - 1 - rng.Intn(2)
		if commit < 0 {
			commit = 0
		}
		mode := []string{"flip", "zero"}[rng.Intn(2)]
		sops = append(sops, fmt.Sprintf("cw.stale n=%d tear=%d commit=%d mode=%s same=%d", n, tear, commit, mode, rng.Intn(3)/2+rng.Intn(2)%1))
		if len(sops) == 6 {
			cases = append(cases, core.Case{Name: fmt.Sprintf("wal-stale-%d", i), Ops: sops})
			sops = nil
		}
	}
	cases = append(cases, core.Case{Name: "wal-stale-directed", Ops: append(sops, "cw.stale n=9 tear=6 commit=5 mode=flip same=1", "cw.stale n=9 tear=6 commit=5 mode=zero same=1", "cw.stale n=9 tear=6 commit=5 mode=flip same=0")})
	// a syncing WAL across segment boundaries: what is reported as synced has been msync'ed
	np := 12
	if tier == "thorough" {
		np = 400
	}
	for i := 0; i < np; i++ {
		seg := []int{160, 200, 256, 400, 1024}[rng.Intn(5)]
		var po []string
		for j := 2 + rng.Intn(14); j > 0; j-- {
			if rng.Intn(4) == 0 {
				po = append(po, "s")
			} else {
				po = append(po, fmt.Sprintf("a%d", 1+rng.Intn(seg/4)))
			}
		}
		if rng.Intn(3) > 0 {
			po = append(po, "s")
		}
		cases = append(cases, core.Case{Name: fmt.Sprintf("wal-power-%d", i), Ops: []string{fmt.Sprintf("cw.power seg=%d ops=%s", seg, strings.Join(po, ","))}})
	}
	return cases
}

var powerMu sync.RWMutex

func c10op(op string) string {
	f := strings.Fields(op)
	switch f[0] {
	case "cx.recover":
		c := codecFor(f[1])
		buf := core.UnHex(f[2])
		var start, uf int64
		fmt.Sscan(f[3], &start)
		fmt.Sscan(f[4], &uf)
		var commit *int64
		if uf >= 0 {
			v := uf - 1
			commit = &v
		}
		idx, lastCrc, newOff, lastEntry, err := c.RecoverIndex(buf, uint32(start), 0, commit)
		if err != nil {
			return codecErr(err)
		}
		offs := make([]string, 0, len(idx)/4)
		for i := 0; i+4 <= len(idx); i += 4 {
			offs = append(offs, fmt.Sprint(codec.ReadInt(idx, uint32(i))))
		}
		return fmt.Sprintf("ok idx=%s crc=%d off=%d n=%d", strings.Join(offs, ","), lastCrc, newOff, lastEntry+1)
	case "cx.openro":
		return openROExec(f)
	case "cw.shortfile":
		return shortFileExec(op, f)
	case "cx.read":
		c := codecFor(f[1])
		buf := core.UnHex(f[2])
		var start int64
		fmt.Sscan(f[3], &start)
		p, err := c.ReadRecordWithValidation(buf, uint32(start))
		if err != nil {
			return codecErr(err)
		}
		return "ok " + core.Hex(p)
	case "cx.encode":
		c := codecFor(f[1])
		var prev uint32
		fmt.Sscan(f[2], &prev)
		p := core.UnHex(f[3])
		buf := make([]byte, len(p)+int(c.GetHeaderSize()))
		sz, crc := c.WriteRecord(buf, 0, prev, p)
		return fmt.Sprintf("%s %d", core.Hex(buf[:sz]), crc)
	case "cw.power":
		// cw.power seg=<bytes> ops=a20,a8,s,...: a syncing WAL; aN = AppendAsync of an entry with N payload
		// bytes, s = Sync. Afterwards: the offset the WAL reports as synced, and the highest offset up to which
		// every entry lies in a part of its segment file that an msync has covered since it was written
		// (what survives a power failure). The observation hook is process-wide: one such op at a time.
		powerMu.Lock()
		defer powerMu.Unlock()
		kv := c20kv(f)
		var seg int
		fmt.Sscan(kv["seg"], &seg)
		type segInfo struct {
			flushed uint32
			ends    map[int64]uint32
		}
		var mu sync.Mutex
		segs := map[int64]*segInfo{}
		get := func(b int64) *segInfo {
			if segs[b] == nil {
				segs[b] = &segInfo{ends: map[int64]uint32{}}
			}
			return segs[b]
		}
		wal.SetVerifSegmentHook(func(kind string, base, off int64, fo uint32) {
			mu.Lock()
			defer mu.Unlock()
			si := get(base)
			switch kind {
			case "append":
				si.ends[off] = fo
			case "flush":
				if fo > si.flushed {
					si.flushed = fo
				}
			}
		})
		defer wal.SetVerifSegmentHook(nil)
		dir, err := os.MkdirTemp(workTmp(), "c10p-")
		if err != nil {
			return "err:other:" + err.Error()
		}
		defer os.RemoveAll(dir)
		w, err := wal.VerifNewWal("ns", 1, &wal.FactoryOptions{BaseWalDir: dir, Retention: time.Hour, SegmentSize: int32(seg), SyncData: true},
			nil, &time2.MockedClock{}, 24*time.Hour)
		if err != nil {
			return "err:other:" + strings.ReplaceAll(err.Error(), " ", "_")
		}
		defer w.Close()
		next := int64(0)
		for _, o := range strings.Split(kv["ops"], ",") {
			switch {
			case o == "s":
				if err := w.Sync(context.Background()); err != nil {
					return "err:sync:" + strings.ReplaceAll(err.Error(), " ", "_")
				}
			case strings.HasPrefix(o, "a"):
				var n int
				fmt.Sscan(o[1:], &n)
				if err := w.AppendAsync(&proto.LogEntry{Term: 1, Offset: next, Value: make([]byte, n)}); err != nil {
					return "err:append:" + strings.ReplaceAll(err.Error(), " ", "_")
				}
				next++
			}
		}
		synced := w.LastOffset()
		mu.Lock()
		durable := int64(-1)
		for o := int64(0); o < next; o++ {
			ok := false
			for _, si := range segs {
				if e, has := si.ends[o]; has && e <= si.flushed {
					ok = true
				}
			}
			if !ok {
				break
			}
			durable = o
		}
		mu.Unlock()
		// more may be durable than reported (a rollover flushes what it leaves): only "at least" is comparable
		if durable >= synced {
			return fmt.Sprintf("synced=%d durable=ok", synced)
		}
		return fmt.Sprintf("synced=%d durable=%d", synced, durable)
	case "cw.stale":
		// cw.stale n=9 tear=6 commit=5 mode=flip|zero same=1: n entries of equal size are appended and synced;
		// a crash damages entry `tear` (a flipped payload byte, or the whole record zeroed) and leaves the later
		// ones intact; the WAL is reopened (commit offset `commit`), one new entry is appended where the log
		// now ends (same size as the old one or 3 bytes longer), and the WAL is reopened again
		powerMu.RLock()
		defer powerMu.RUnlock()
		kv := c20kv(f)
		var n, tear, commit int
		fmt.Sscan(kv["n"], &n)
		fmt.Sscan(kv["tear"], &tear)
		fmt.Sscan(kv["commit"], &commit)
		dir, err := os.MkdirTemp(workTmp(), "c10s-")
		if err != nil {
			return "err:other:" + err.Error()
		}
		defer os.RemoveAll(dir)
		opts := &wal.FactoryOptions{BaseWalDir: dir, Retention: time.Hour, SegmentSize: 8192, SyncData: true}
		prov := &commitProvider{off: int64(commit)}
		open := func() (wal.Wal, error) {
			return wal.VerifNewWal("ns", 1, opts, prov, &time2.MockedClock{}, 24*time.Hour)
		}
		w, err := open()
		if err != nil {
			return "err:other:" + strings.ReplaceAll(err.Error(), " ", "_")
		}
		for i := 0; i < n; i++ {
			if err := w.AppendAsync(&proto.LogEntry{Term: 1, Offset: int64(i), Value: []byte(fmt.Sprintf("old-%04d", i))}); err != nil {
				w.Close()
				return "err:append"
			}
		}
		_ = w.Sync(context.Background())
		_ = w.Close()
		files, _ := filepath.Glob(filepath.Join(dir, "ns", "shard-1", "*.txnx"))
		if len(files) != 1 {
			return "err:files"
		}
		b, err := os.ReadFile(files[0])
		if err != nil {
			return "err:read"
		}
		find := func(s string) int { return strings.Index(string(b), s) }
		p0, p1 := find("old-0000"), find("old-0001")
		pt := find(fmt.Sprintf("old-%04d", tear))
		if p0 < 0 || p1 < 0 || pt < 0 {
			return "err:layout"
		}
		rec := p1 - p0
		if kv["mode"] == "zero" {
			start := pt - (p0 % rec) // the record starts where its header starts
			hdr := p0                // header + protobuf prefix bytes before the value in record 0
			start = pt - hdr
			for i := start; i < start+rec && i < len(b); i++ {
				b[i] = 0
			}
		} else {
			b[pt] ^= 0xff
		}
		if err := os.WriteFile(files[0], b, 0o644); err != nil {
			return "err:write"
		}
		_ = os.Remove(strings.TrimSuffix(files[0], ".txnx") + ".idxx")
		w, err = open()
		if err != nil {
			if errors.Is(err, codec.ErrDataCorrupted) {
				return "err:corrupt"
			}
			return "err:other:" + strings.ReplaceAll(err.Error(), " ", "_")
		}
		first := w.LastOffset()
		val := fmt.Sprintf("new-%04d", first+1)
		if kv["same"] != "1" {
			val += "xyz"
		}
		if err := w.AppendAsync(&proto.LogEntry{Term: 2, Offset: first + 1, Value: []byte(val)}); err != nil {
			w.Close()
			return fmt.Sprintf("first=%d err:append", first)
		}
		_ = w.Sync(context.Background())
		_ = w.Close()
		w, err = open()
		if err != nil {
			return fmt.Sprintf("first=%d err:reopen", first)
		}
		defer w.Close()
		return fmt.Sprintf("first=%d second=%d", first, w.LastOffset())
	case "cw.reopen":
		powerMu.RLock()
		defer powerMu.RUnlock()
		// the image becomes segment file 0.txnx of a WAL directory; open the real WAL on it
		img := core.UnHex(f[1])
		var uf int64
		fmt.Sscan(f[2], &uf)
		dir, err := os.MkdirTemp(workTmp(), "c10-")
		if err != nil {
			return "err:other:" + err.Error()
		}
		defer os.RemoveAll(dir)
		wdir := filepath.Join(dir, "ns", "shard-1")
		_ = os.MkdirAll(wdir, 0o755)
		// the segment file is one byte longer than the mapped region (initFileWithZeroes)
		if err := os.WriteFile(filepath.Join(wdir, "0.txnx"), append(append([]byte{}, img...), 0), 0o644); err != nil {
			return "err:other:" + err.Error()
		}
		var prov wal.CommitOffsetProvider
		if uf >= 0 {
			prov = &commitProvider{off: uf - 1}
		}
		w, err := wal.VerifNewWal("ns", 1, &wal.FactoryOptions{BaseWalDir: dir, Retention: time.Hour, SegmentSize: int32(len(img)), SyncData: false},
			prov, &time2.MockedClock{}, 24*time.Hour)
		if err != nil {
			switch {
			case errors.Is(err, codec.ErrOffsetOutOfBounds):
				return "err:oob"
			case errors.Is(err, codec.ErrDataCorrupted):
				return "err:corrupt"
			}
			return "err:other:" + strings.ReplaceAll(err.Error(), " ", "_")
		}
		defer w.Close()
		return fmt.Sprintf("ok last=%d", w.LastOffset())
	}
	return "bad-op"
}

func (C10) Exec(ops []string, outs []string) {
	for i, o := range ops {
		o := o
		outs[i] = core.Safe(func() string { return c10op(o) })
	}
}

func metaOf(f []string) (orig []byte, nrec, synced, touched int) {
	for _, t := range f {
		switch {
		case strings.HasPrefix(t, "orig="):
			orig = core.UnHex(t[5:])
		case strings.HasPrefix(t, "nrec="):
			fmt.Sscan(t[5:], &nrec)
		case strings.HasPrefix(t, "synced="):
			fmt.Sscan(t[7:], &synced)
		case strings.HasPrefix(t, "touched="):
			fmt.Sscan(t[8:], &touched)
		}
	}
	return
}

// Oracle: the property itself on the real code's outputs: never panics; a clean prefix; synced
// records survive a crash that only damages the unsynced tail; nothing fabricated (v2).
func (C10) Oracle(ops, impl, model []string) string {
	for i, o := range ops {
		if i >= len(impl) {
			break
		}
		out := impl[i]
		if out == "panic" {
			return fmt.Sprintf("op %d panics: %.80s", i, o)
		}
		if out == "hang" {
			return fmt.Sprintf("op %d hangs", i)
		}
		f := strings.Fields(o)
		if f[0] == "cw.shortfile" {
			if strings.HasPrefix(out, "fatal error") || strings.HasPrefix(out, "panic") {
				return fmt.Sprintf("op %d: a WAL whose current segment file holds %s of its %s bytes (a crash before the file got its size) brings the process down when it is opened or appended to: %s", i, metaTok(f, "len="), metaTok(f, "seg="), out)
			}
			continue
		}
		if f[0] == "cx.openro" {
			if m := openROOracle(o, out); m != "" {
				return fmt.Sprintf("op %d: %s", i, m)
			}
			continue
		}
		if f[0] == "cw.stale" {
			var a, b int64
			if _, err := fmt.Sscanf(out, "first=%d second=%d", &a, &b); err == nil && b != a+1 {
				return fmt.Sprintf("op %d: after the crash the log ended at %d; one entry was appended; after a restart the log ends at %d: entries that the recovery had discarded are returned as valid again", i, a, b)
			}
			continue
		}
		if f[0] == "cw.power" {
			var sy, du int
			if _, err := fmt.Sscanf(out, "synced=%d durable=%d", &sy, &du); err == nil && du < sy && !strings.HasSuffix(out, "durable=ok") {
				return fmt.Sprintf("op %d: the WAL reports offset %d as synced, but entry %d lies in a part of its segment file that no msync has covered since it was written: a power failure loses entries reported as synced", i, sy, du+1)
			}
			continue
		}
		if f[0] != "cx.recover" || !strings.HasPrefix(out, "ok ") {
			if f[0] == "cx.recover" && f[1] == "2" {
				// an error is only legitimate if a committed record was damaged (with no commit
				// offset known, every record counts as committed)
				orig, nrec, _, touched := metaOf(f)
				var uf int
				fmt.Sscan(f[4], &uf)
				blen := len(core.UnHex(f[2]))
				touched = firstDiff(core.UnHex(f[2]), orig)
				if touched == blen && blen >= len(orig) {
					touched = len(orig) + 1
				}
				t := touched
				if blen < t {
					t = blen
				}
				if uf < 0 {
					if touched >= blen && blen >= recordEnd(orig, "2", nrec) {
						return fmt.Sprintf("op %d: recovery of an undamaged image fails with %s", i, out)
					}
				} else {
					k := uf
					if k > nrec {
						k = nrec
					}
					if t >= recordEnd(orig, "2", k) {
						return fmt.Sprintf("op %d: only uncommitted bytes were damaged (from byte %d, committed records end at %d) but recovery fails with %s", i, t, recordEnd(orig, "2", k), out)
					}
				}
			}
			continue
		}
		ver := f[1]
		buf := core.UnHex(f[2])
		orig, nrec, synced, touched := metaOf(f)
		var n int
		var idxs string
		for _, t := range strings.Fields(out) {
			if strings.HasPrefix(t, "n=") {
				fmt.Sscan(t[2:], &n)
			}
			if strings.HasPrefix(t, "idx=") {
				idxs = t[4:]
			}
		}
		syncedEnd := recordEnd(orig, ver, synced)
		touched = firstDiff(buf, orig)
		if ver == "2" {
			var uf int
			fmt.Sscan(f[4], &uf)
			kc := nrec
			if uf >= 0 && uf < nrec {
				kc = uf
			}
			if ce := recordEnd(orig, ver, kc); touched < ce {
				// which record holds the first damaged byte, and does its size field now read as zero?
				offs := recordOffsets(orig, ver, nrec)
				j := 0
				for k, o := range offs {
					if o <= touched {
						j = k
					}
				}
				if n == j && offs[j]+4 <= len(buf) && buf[offs[j]] == 0 && buf[offs[j]+1] == 0 && buf[offs[j]+2] == 0 && buf[offs[j]+3] == 0 {
					return fmt.Sprintf("op %d: zeroed size field of committed record %d is taken for the end of the log: recovery reports success with %d records instead of an error", i, j, n)
				}
				return fmt.Sprintf("op %d: a committed record was damaged (first damaged byte %d, committed records end at %d) but recovery reports success with %d records instead of an error", i, touched, ce, n)
			}
		}
		if touched >= syncedEnd && len(buf) >= syncedEnd && n < synced {
			return fmt.Sprintf("op %d: only the unsynced tail was damaged (from byte %d, synced prefix ends at %d) but only %d of %d synced records were recovered", i, touched, syncedEnd, n, synced)
		}
		if ver == "2" && idxs != "" {
			// every recovered record must be bit-identical to an original record at that position
			c := codecFor(ver)
			origOffs := recordOffsets(orig, ver, nrec)
			for k, s := range strings.Split(idxs, ",") {
				var off int
				fmt.Sscan(s, &off)
				got, err := c.ReadRecordWithValidation(buf, uint32(off))
				if err != nil {
					return fmt.Sprintf("op %d: recovered record %d at %d is not readable: %v", i, k, off, err)
				}
				if k >= len(origOffs) || origOffs[k] != off {
					return fmt.Sprintf("op %d: recovered record %d at file offset %d was never written there (fabricated entry)", i, k, off)
				}
				want, err := c.ReadRecordWithValidation(orig, uint32(off))
				if err != nil || string(want) != string(got) {
					return fmt.Sprintf("op %d: recovered record %d differs from what was appended", i, k)
				}
			}
		}
	}
	return ""
}

// firstDiff is the first byte where the (possibly shorter) buffer differs from the original image.
func firstDiff(buf, orig []byte) int {
	for i := range buf {
		if i >= len(orig) || buf[i] != orig[i] {
			return i
		}
	}
	return len(buf)
}

func recordOffsets(orig []byte, ver string, nrec int) []int {
	c := codecFor(ver)
	var offs []int
	off := 0
	for k := 0; k < nrec; k++ {
		offs = append(offs, off)
		sz, err := c.GetRecordSize(orig, uint32(off))
		if err != nil {
			break
		}
		off += int(sz)
	}
	return offs
}

func recordEnd(orig []byte, ver string, n int) int {
	c := codecFor(ver)
	off := 0
	for k := 0; k < n; k++ {
		sz, err := c.GetRecordSize(orig, uint32(off))
		if err != nil {
			break
		}
		off += int(sz)
	}
	return off
}

func (C10) Nontrivial(ops, outs []string) bool {
	// a case is non-trivial if some image with at least one record was damaged and recovery returned
	// a non-empty clean prefix, and some other returned an error
	okPrefix, errs := false, false
	for i, o := range ops {
		if i >= len(outs) || !strings.HasPrefix(o, "cx.recover") {
			continue
		}
		if strings.HasPrefix(outs[i], "ok ") && !strings.Contains(outs[i], "n=0") {
			okPrefix = true
		}
		if strings.HasPrefix(outs[i], "err") {
			errs = true
		}
	}
	return okPrefix && errs
}
