package props

import (
	"fmt"
	"math/rand"
	"os"
	"path/filepath"
	"strings"
	"time"

	time2 "github.com/oxia-db/oxia/common/time"
	"github.com/oxia-db/oxia/proto"
	"github.com/oxia-db/oxia/server/util/crc"
	"github.com/oxia-db/oxia/server/wal"
	"github.com/oxia-db/oxia/server/wal/codec"

	"oxverif/harness/core"
)

// Index files of read-only segments (newReadOnlySegment): `cx.openro <ver> <index file> <txn file> [meta]`
// writes the two files of segment 0 into a WAL directory as they are given and opens the segment with the
// real code; the answer lists what the segment then serves: number of entries, last crc, every payload.
//
// Oracle (the property on the real code's output): never a panic; for the v2 format, whose index file carries
// a checksum, an index file damaged in any way over an intact txn file changes nothing of what is served.

func hexOrDot(b []byte) string {
	if len(b) == 0 {
		return "."
	}
	return core.Hex(b)
}

func unHexOrDot(s string) []byte {
	if s == "." {
		return nil
	}
	return core.UnHex(s)
}

// indexFileFor: the bytes WriteIndex stores for the records of an image
func indexFileFor(ver string, im *c10Image) []byte {
	idx := make([]byte, 0, 4*len(im.offsets))
	for _, o := range im.offsets {
		idx = append(idx, byte(o>>24), byte(o>>16), byte(o>>8), byte(o))
	}
	if ver == "1" {
		return idx
	}
	c := crc.Checksum(0).Update(idx).Value()
	return append([]byte{byte(c >> 24), byte(c >> 16), byte(c >> 8), byte(c)}, idx...)
}

func mutateIndexFile(rng *rand.Rand, f []byte) ([]byte, string) {
	f = append([]byte{}, f...)
	switch k := rng.Intn(12); {
	case k == 0:
		return f, "intact"
	case k == 1:
		return nil, "empty"
	case k == 2:
		return f[:rng.Intn(len(f)+1)], "truncated"
	case k == 3:
		return f[:rng.Intn(5)%(len(f)+1)], "truncated-short"
	case k == 4:
		for i := range f {
			f[i] = 0
		}
		return f, "zeroed"
	case k == 5:
		return make([]byte, rng.Intn(9)), "zeroes"
	case k == 6:
		g := make([]byte, 1+rng.Intn(6))
		rng.Read(g)
		return append(f, g...), "extended"
	case k == 7 && len(f) > 0:
		lo := rng.Intn(len(f))
		for i := lo; i < lo+1+rng.Intn(8) && i < len(f); i++ {
			f[i] = byte(rng.Intn(256))
		}
		return f, "random-bytes"
	case k == 8 && len(f) >= 4:
		// a crafted file offset in one of the entries
		e := rng.Intn(len(f) / 4)
		vals := []uint32{0, 1, 0xFFFFFFFF, 0xFFFFFFFC, 0x7FFFFFFF, uint32(rng.Intn(300)), rng.Uint32()}
		putU32(f, 4*e, vals[rng.Intn(len(vals))])
		return f, "crafted-entry"
	default:
		if len(f) == 0 {
			return f, "intact"
		}
		f[rng.Intn(len(f))] ^= 1 << uint(rng.Intn(8))
		return f, "bit-flip"
	}
}

func genOpenRO(rng *rand.Rand, n int) []core.Case {
	var cases []core.Case
	var ops []string
	for i := 0; i < n; i++ {
		ver := "2"
		if rng.Intn(4) == 0 {
			ver = "1"
		}
		seg := []int{64, 96, 128, 200}[rng.Intn(4)]
		var im *c10Image
		for im = buildImage(rng, ver, seg); len(im.payloads) == 0; im = buildImage(rng, ver, seg) {
		}
		idxFile, how := mutateIndexFile(rng, indexFileFor(ver, im))
		txn := append(append([]byte{}, im.img...), 0) // initFileWithZeroes: one byte more than the mapped region
		txnHow := "intact"
		if rng.Intn(5) == 0 {
			mutateImage(rng, txn[:len(txn)-1], -1, im.offsets)
			txnHow = "damaged"
		}
		var ps []string
		for _, p := range im.payloads {
			ps = append(ps, core.Hex(p))
		}
		ops = append(ops, fmt.Sprintf("cx.openro %s %s %s idx=%s txn=%s want=%s", ver, hexOrDot(idxFile), core.Hex(txn), how, txnHow, strings.Join(ps, ",")))
		if len(ops) >= 25 {
			cases = append(cases, core.Case{Name: fmt.Sprintf("openro-%d", i), Ops: ops})
			ops = nil
		}
	}
	if len(ops) > 0 {
		cases = append(cases, core.Case{Name: "openro-last", Ops: ops})
	}
	return cases
}

func openROExec(f []string) string {
	ver := f[1]
	idxFile := unHexOrDot(f[2])
	txn := unHexOrDot(f[3])
	c := codecFor(ver)
	dir, err := os.MkdirTemp(workTmp(), "c10ro-")
	if err != nil {
		return "err:other:" + err.Error()
	}
	defer os.RemoveAll(dir)
	if err := os.WriteFile(filepath.Join(dir, "0"+c.GetTxnExtension()), txn, 0o644); err != nil {
		return "err:other:" + err.Error()
	}
	if err := os.WriteFile(filepath.Join(dir, "0"+c.GetIdxExtension()), idxFile, 0o644); err != nil {
		return "err:other:" + err.Error()
	}
	s, err := wal.VerifOpenReadOnlySegment(dir, 0)
	if err != nil {
		return codecErr(err)
	}
	defer s.Close()
	n := s.LastOffset() + 1
	var ps []string
	for o := int64(0); o < n; o++ {
		p, err := s.Read(o)
		if err != nil {
			ps = append(ps, codecErr(err))
		} else {
			ps = append(ps, core.Hex(p))
		}
	}
	return fmt.Sprintf("ok n=%d crc=%d p=%s", n, s.LastCrc(), strings.Join(ps, ","))
}

// openROOracle: "" or what is wrong with the answer of one cx.openro
func openROOracle(op, out string) string {
	f := strings.Fields(op)
	if out == "panic" || strings.HasPrefix(out, "panic") {
		return fmt.Sprintf("opening a read-only segment panics (index file %s, txn file %s)", metaTok(f, "idx="), metaTok(f, "txn="))
	}
	if f[1] != "2" || metaTok(f, "txn=") != "intact" {
		return ""
	}
	// v2, intact txn file: whatever the index file holds, the segment serves what was appended
	want := "p=" + metaTok(f, "want=")
	if !strings.HasPrefix(out, "ok ") || !strings.HasSuffix(out, " "+want) {
		return fmt.Sprintf("a v2 segment with an intact txn file and an index file that is %s serves %q, appended was %s", metaTok(f, "idx="), out, want)
	}
	return ""
}

func metaTok(f []string, pfx string) string {
	for _, t := range f {
		if strings.HasPrefix(t, pfx) {
			return t[len(pfx):]
		}
	}
	return ""
}

// cw.shortfile len=<L> seg=<S> recs=<n> : the file of the current segment is shorter than the segment size (a crash
// between the creation of the file and the write that gives it its size, or while the file system had not yet
// persisted the size); the first L bytes hold n records. The WAL is opened on it, in a process of its own:
// touching a mapping behind the end of the file is a SIGBUS, which no recover() catches.
func shortFileExec(op string, f []string) string {
	if os.Getenv("OXV_ISOLATED") == "" {
		return core.Isolated("C10", op, 30*time.Second)
	}
	var l, seg, n int
	fmt.Sscan(metaTok(f, "len="), &l)
	fmt.Sscan(metaTok(f, "seg="), &seg)
	fmt.Sscan(metaTok(f, "recs="), &n)
	c := codecFor("2")
	img := make([]byte, seg)
	off := uint32(0)
	var crc uint32
	for i := 0; i < n; i++ {
		p := []byte(fmt.Sprintf("payload-%d", i))
		if int(off)+int(c.GetHeaderSize())+len(p) > l {
			break
		}
		var sz uint32
		sz, crc = c.WriteRecord(img, off, crc, p)
		off += sz
	}
	dir, err := os.MkdirTemp(workTmp(), "c10sf-")
	if err != nil {
		return "err:other:" + err.Error()
	}
	defer os.RemoveAll(dir)
	wdir := filepath.Join(dir, "ns", "shard-1")
	_ = os.MkdirAll(wdir, 0o755)
	if err := os.WriteFile(filepath.Join(wdir, "0.txnx"), img[:l], 0o644); err != nil {
		return "err:other:" + err.Error()
	}
	w, err := wal.VerifNewWal("ns", 1, &wal.FactoryOptions{BaseWalDir: dir, Retention: time.Hour, SegmentSize: int32(seg), SyncData: false},
		nil, &time2.MockedClock{}, 24*time.Hour)
	if err != nil {
		return codecErr(err)
	}
	defer w.Close()
	last := w.LastOffset()
	var app int
	fmt.Sscan(metaTok(f, "app="), &app)
	for i := 0; i < app; i++ {
		last++
		if err := w.Append(&proto.LogEntry{Term: 1, Offset: last, Value: []byte("appended-entry-of-some-length")}); err != nil {
			return fmt.Sprintf("ok last=%d append:%s", last-1, codecErr(err))
		}
	}
	return fmt.Sprintf("ok last=%d", w.LastOffset())
}

var _ = codec.ErrDataCorrupted
