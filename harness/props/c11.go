package props

import (
	"bytes"
	"errors"
	"fmt"
	"hash/fnv"
	"math/rand"
	"strings"

	"github.com/oxia-db/oxia/common/compare"
	"github.com/oxia-db/oxia/server/kv"

	"oxverif/harness/core"
)

// C11: key order laws (pure functions wired into the Pebble comparer) and the engine's view of it.
type C11 struct{}

var c11Alphabet = []byte{'-', '.', '/', '0', 'a', 0x00, 0x01, 0xff}

func genKey(rng *rand.Rand, alphabet []byte, maxLen int) []byte {
	n := rng.Intn(maxLen + 1)
	k := make([]byte, n)
	for i := range k {
		k[i] = alphabet[rng.Intn(len(alphabet))]
	}
	return k
}

// mutate returns a key close to k (shared prefix, one byte changed / +1 / appended / cut).
func mutateKey(rng *rand.Rand, k []byte, alphabet []byte) []byte {
	r := append([]byte{}, k...)
	switch rng.Intn(5) {
	case 0:
		if len(r) > 0 {
			i := rng.Intn(len(r))
			r[i] = alphabet[rng.Intn(len(alphabet))]
		}
	case 1:
		if len(r) > 0 {
			i := rng.Intn(len(r))
			r[i]++
		}
	case 2:
		r = append(r, alphabet[rng.Intn(len(alphabet))])
	case 3:
		if len(r) > 0 {
			r = r[:rng.Intn(len(r))]
		}
	case 4:
		if len(r) > 0 {
			i := rng.Intn(len(r))
			r = append(r[:i], append([]byte{alphabet[rng.Intn(len(alphabet))]}, r[i:]...)...)
		}
	}
	return r
}

func allKeys(alphabet []byte, maxLen int) [][]byte {
	res := [][]byte{{}}
	prev := [][]byte{{}}
	for l := 1; l <= maxLen; l++ {
		var cur [][]byte
		for _, p := range prev {
			for _, c := range alphabet {
				cur = append(cur, append(append([]byte{}, p...), c))
			}
		}
		res = append(res, cur...)
		prev = cur
	}
	return res
}

func (C11) Generate(rng *rand.Rand, tier string) []core.Case {
	var cases []core.Case
	// (i) pure functions. Exhaustive pairs over short keys, then random longer pairs/triples.
	exLen, randomPairs, datasets, dsKeys := 2, 20000, 4, 3000
	if tier == "thorough" {
		exLen, randomPairs, datasets, dsKeys = 3, 1500000, 40, 30000
	}
	keys := allKeys(c11Alphabet, exLen)
	var ops []string
	flush := func(name string) {
		if len(ops) > 0 {
			cases = append(cases, core.Case{Name: name, Ops: ops})
			ops = nil
		}
	}
	for _, a := range keys {
		ops = append(ops, "key.abbrev "+core.Hex(a), "key.succ "+core.Hex(a))
		for _, b := range keys {
			ops = append(ops, "key.cmp "+core.Hex(a)+" "+core.Hex(b), "key.sep "+core.Hex(a)+" "+core.Hex(b))
		}
		if len(ops) > 4000 {
			flush("pure-exhaustive")
		}
	}
	flush("pure-exhaustive")
	for i := 0; i < randomPairs; i++ {
		a := genKey(rng, c11Alphabet, 10)
		var b []byte
		if rng.Intn(2) == 0 {
			b = mutateKey(rng, a, c11Alphabet)
		} else {
			b = genKey(rng, c11Alphabet, 10)
		}
		c := mutateKey(rng, b, c11Alphabet)
		ops = append(ops,
			"key.cmp "+core.Hex(a)+" "+core.Hex(b), "key.cmp "+core.Hex(b)+" "+core.Hex(c), "key.cmp "+core.Hex(a)+" "+core.Hex(c),
			"key.sep "+core.Hex(a)+" "+core.Hex(b), "key.succ "+core.Hex(a), "key.abbrev "+core.Hex(a), "key.abbrev "+core.Hex(b))
		if len(ops) > 4000 {
			flush("pure-random")
		}
	}
	flush("pure-random")

	// (ii) engine: data sets large enough to span many 64 KiB blocks, flush/compaction points,
	// every stored key by exact get, comparison gets and scans around block boundaries.
	for d := 0; d < datasets; d++ {
		n := dsKeys/4 + rng.Intn(dsKeys)
		ops = append(ops, fmt.Sprintf("kv.vlen %d", 100+rng.Intn(400)))
		style := rng.Intn(4)
		var all [][]byte
		batch := []string{}
		for i := 0; i < n; i++ {
			var k []byte
			switch style {
			case 0: // neighbours differing around '/' - 1, '/', '/' + 1
				k = []byte(fmt.Sprintf("k%04d%c%c", i/3, ".0/"[i%3], "x/a"[rng.Intn(3)]))
			case 1: // hierarchical keys of mixed depth
				depth := 1 + rng.Intn(4)
				parts := make([]string, depth)
				for j := range parts {
					parts[j] = fmt.Sprintf("%c%d", "ab-."[rng.Intn(4)], rng.Intn(30))
				}
				k = []byte("/" + strings.Join(parts, "/"))
			case 2: // random over the adversarial alphabet
				k = genKey(rng, c11Alphabet, 8)
				if len(k) == 0 {
					k = []byte{'a'}
				}
			default: // flat keys with a common prefix and '.', '/', '0' right after it
				k = []byte(fmt.Sprintf("p%03d%c%d", rng.Intn(n/4+1), "./0-"[rng.Intn(4)], rng.Intn(10)))
			}
			all = append(all, k)
			batch = append(batch, core.Hex(k))
			if len(batch) == 500 || i == n-1 {
				ops = append(ops, "kv.mput "+strings.Join(batch, " "))
				batch = batch[:0]
				if rng.Intn(3) == 0 {
					ops = append(ops, "kv.flush")
				}
			}
		}
		ops = append(ops, "kv.flush")
		if rng.Intn(2) == 0 {
			ops = append(ops, "kv.compact")
		}
		ops = append(ops, "kv.getall", "kv.list - -")
		for q := 0; q < 150; q++ {
			k := all[rng.Intn(len(all))]
			if rng.Intn(3) == 0 {
				k = mutateKey(rng, k, c11Alphabet)
			}
			if q%50 == 7 {
				k = nil // the empty key: nothing is lower, everything is higher
			}
			cmpT := []string{"eq", "floor", "ceil", "lower", "higher"}[rng.Intn(5)]
			if q%50 == 7 {
				cmpT = []string{"floor", "lower", "ceil", "higher"}[(q/50+rng.Intn(4))%4]
			}
			ops = append(ops, "kv.get "+cmpT+" "+core.Hex(k))
			if q%10 == 0 {
				k2 := all[rng.Intn(len(all))]
				ops = append(ops, "kv.list "+core.Hex(k)+" "+core.Hex(k2), "kv.listrev "+core.Hex(k)+" "+core.Hex(k2))
			}
			if q%25 == 0 {
				ops = append(ops, "kv.del "+core.Hex(all[rng.Intn(len(all))]))
			}
		}
		ops = append(ops, "kv.flush", "kv.getall", "kv.listrev - -")
		flush("engine")
	}
	return cases
}

func sign(i int) int {
	if i < 0 {
		return -1
	} else if i > 0 {
		return 1
	}
	return 0
}

type c11Exec struct {
	factory kv.Factory
	store   kv.KV
	vlen    int
}

func (e *c11Exec) close() {
	if e.store != nil {
		_ = e.store.Close()
		e.store = nil
	}
	if e.factory != nil {
		_ = e.factory.Close()
		e.factory = nil
	}
}

func (e *c11Exec) kv() kv.KV {
	if e.store == nil {
		f, err := kv.NewPebbleKVFactory(&kv.FactoryOptions{InMemory: true, CacheSizeMB: 8, DataDir: "c11"})
		if err != nil {
			panic(err)
		}
		e.factory = f
		s, err := f.NewKV("ns", 0)
		if err != nil {
			panic(err)
		}
		e.store = s
	}
	return e.store
}

func valueFor(k []byte, vlen int) []byte {
	v := make([]byte, vlen)
	h := fnv.New32a()
	_, _ = h.Write(k)
	x := h.Sum32()
	for i := range v {
		v[i] = byte(x >> (8 * (i % 4)))
	}
	return v
}

func showKeys(ks []string) string {
	if len(ks) <= 64 {
		hs := make([]string, len(ks))
		for i, k := range ks {
			hs[i] = core.Hex([]byte(k))
		}
		return fmt.Sprintf("n=%d %s", len(ks), strings.Join(hs, ","))
	}
	h := uint32(2166136261)
	for _, k := range ks {
		for _, b := range []byte(k + ",") {
			h = (h ^ uint32(b)) * 16777619
		}
	}
	return fmt.Sprintf("n=%d first=%s last=%s h=%d", len(ks), core.Hex([]byte(ks[0])), core.Hex([]byte(ks[len(ks)-1])), h)
}

func (e *c11Exec) op(op string) string {
	f := strings.Fields(op)
	cmp := kv.OxiaSlashSpanComparer
	switch f[0] {
	case "key.cmp":
		return fmt.Sprint(sign(compare.CompareWithSlash(core.UnHex(f[1]), core.UnHex(f[2]))))
	case "key.cmpwired":
		return fmt.Sprint(sign(cmp.Compare(core.UnHex(f[1]), core.UnHex(f[2]))))
	case "key.abbrev":
		return fmt.Sprint(cmp.AbbreviatedKey(core.UnHex(f[1])))
	case "key.sep":
		return core.Hex(cmp.Separator(nil, core.UnHex(f[1]), core.UnHex(f[2])))
	case "key.succ":
		return core.Hex(cmp.Successor(nil, core.UnHex(f[1])))
	case "kv.vlen":
		fmt.Sscan(f[1], &e.vlen)
		return "ok"
	case "kv.mput", "kv.put":
		b := e.kv().NewWriteBatch()
		for _, h := range f[1:] {
			k := core.UnHex(h)
			if err := b.Put(string(k), valueFor(k, e.vlen)); err != nil {
				return "err:" + err.Error()
			}
		}
		if err := b.Commit(); err != nil {
			return "err:" + err.Error()
		}
		_ = b.Close()
		return "ok"
	case "kv.del":
		b := e.kv().NewWriteBatch()
		_ = b.Delete(string(core.UnHex(f[1])))
		if err := b.Commit(); err != nil {
			return "err:" + err.Error()
		}
		_ = b.Close()
		return "ok"
	case "kv.flush":
		if err := e.kv().Flush(); err != nil {
			return "err:" + err.Error()
		}
		return "ok"
	case "kv.compact":
		if err := kv.VerifCompact(e.kv()); err != nil {
			return "err:" + err.Error()
		}
		return "ok"
	case "kv.get":
		ct := map[string]kv.ComparisonType{"eq": kv.ComparisonEqual, "floor": kv.ComparisonFloor, "ceil": kv.ComparisonCeiling,
			"lower": kv.ComparisonLower, "higher": kv.ComparisonHigher}[f[1]]
		k, v, closer, err := e.kv().Get(string(core.UnHex(f[2])), ct)
		if errors.Is(err, kv.ErrKeyNotFound) {
			return "none"
		}
		if err != nil {
			return "err:" + err.Error()
		}
		defer closer.Close()
		if !bytes.Equal(v, valueFor([]byte(k), e.vlen)) {
			return "badvalue:" + core.Hex([]byte(k))
		}
		return core.Hex([]byte(k))
	case "kv.list":
		it, err := e.kv().KeyRangeScan(string(core.UnHex(f[1])), string(core.UnHex(f[2])))
		if err != nil {
			return "err:" + err.Error()
		}
		defer it.Close()
		var ks []string
		for ; it.Valid(); it.Next() {
			ks = append(ks, it.Key())
		}
		return showKeys(ks)
	case "kv.listrev":
		it, err := e.kv().KeyRangeScanReverse(string(core.UnHex(f[1])), string(core.UnHex(f[2])))
		if err != nil {
			return "err:" + err.Error()
		}
		defer it.Close()
		var ks []string
		for ; it.Valid(); it.Prev() {
			ks = append(ks, it.Key())
		}
		return showKeys(ks)
	case "kv.getall":
		it, err := e.kv().KeyIterator()
		if err != nil {
			return "err:" + err.Error()
		}
		var ks []string
		for it.SeekGE(""); it.Valid(); it.Next() {
			ks = append(ks, it.Key())
		}
		_ = it.Close()
		missing, first := 0, "-"
		for _, k := range ks {
			_, _, closer, err := e.kv().Get(k, kv.ComparisonEqual)
			if err != nil {
				if missing == 0 {
					first = core.Hex([]byte(k))
				}
				missing++
				continue
			}
			_ = closer.Close()
		}
		return fmt.Sprintf("missing=%d first=%s", missing, first)
	}
	return "bad-op"
}

func (C11) Exec(ops []string, outs []string) {
	e := &c11Exec{vlen: 300}
	defer e.close()
	for i, o := range ops {
		o := o
		outs[i] = core.Safe(func() string { return e.op(o) })
	}
}

// Oracle: the order laws and the comparer contract checked directly on the real functions, and
// "every stored key is found by an exact get"; for engine reads the model *is* the sorted
// reference, so a difference there is a property violation as well.
func (C11) Oracle(ops, impl, model []string) string {
	c := kv.OxiaSlashSpanComparer
	cmp := c.Compare
	var prev [][2][]byte
	for i, o := range ops {
		f := strings.Fields(o)
		switch f[0] {
		case "key.cmp":
			a, b := core.UnHex(f[1]), core.UnHex(f[2])
			ab, ba := sign(cmp(a, b)), sign(cmp(b, a))
			if ab != -ba {
				return fmt.Sprintf("antisymmetry fails on %x %x: %d %d", a, b, ab, ba)
			}
			if (ab == 0) != bytes.Equal(a, b) {
				return fmt.Sprintf("compare=0 does not coincide with equality on %x %x", a, b)
			}
			for _, p := range prev { // transitivity over the recent pairs
				if bytes.Equal(p[1], a) && cmp(p[0], p[1]) < 0 && ab < 0 && cmp(p[0], b) >= 0 {
					return fmt.Sprintf("transitivity fails on %x %x %x", p[0], a, b)
				}
			}
			prev = append(prev, [2][]byte{a, b})
			if len(prev) > 4 {
				prev = prev[1:]
			}
		case "key.sep":
			a, b := core.UnHex(f[1]), core.UnHex(f[2])
			if cmp(a, b) < 0 {
				s := c.Separator(nil, a, b)
				if len(s) <= len(a) && cmp(a, s) < 0 && cmp(s, b) >= 0 {
					return fmt.Sprintf("separator contract fails: a=%x b=%x sep=%x is accepted by pebble but is not < b", a, b, s)
				}
			}
		case "key.succ":
			a := core.UnHex(f[1])
			// pebble only uses a successor s with len(s) <= len(a) && a < s, which already is the
			// contract (a <= s); nothing further to check on the implementation
			_ = a
		case "key.abbrev":
			if i > 0 {
				g := strings.Fields(ops[i-1])
				if g[0] == "key.abbrev" {
					a, b := core.UnHex(g[1]), core.UnHex(f[1])
					if c.AbbreviatedKey(a) < c.AbbreviatedKey(b) && cmp(a, b) >= 0 {
						return fmt.Sprintf("abbreviated-key contract fails on %x %x", a, b)
					}
				}
			}
		case "kv.getall":
			if i < len(impl) && impl[i] != "missing=0 first=-" {
				return "stored keys not found by exact get: " + impl[i]
			}
		case "kv.get", "kv.list", "kv.listrev":
			if i < len(impl) && i < len(model) && impl[i] != model[i] {
				return fmt.Sprintf("engine read differs from the sorted reference at op %d (%s): impl=%s reference=%s", i, o, impl[i], model[i])
			}
		}
	}
	return ""
}

func (C11) Nontrivial(ops, outs []string) bool {
	// a case is non-trivial if it has an engine data set, or a comparison that is decided
	// by the slash rule rather than bytewise
	for i, o := range ops {
		if strings.HasPrefix(o, "kv.getall") {
			return true
		}
		if strings.HasPrefix(o, "key.cmp") {
			f := strings.Fields(o)
			a, b := core.UnHex(f[1]), core.UnHex(f[2])
			if i < len(outs) && fmt.Sprint(sign(bytes.Compare(a, b))) != outs[i] {
				return true
			}
		}
	}
	return false
}
