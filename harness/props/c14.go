package props

import (
	"context"
	"fmt"
	"math/rand"
	"net/url"
	"os"
	"regexp"
	"sort"
	"strconv"
	"strings"
	"sync/atomic"
	"time"

	"github.com/oxia-db/oxia/common/compare"
	"github.com/oxia-db/oxia/common/constant"
	"github.com/oxia-db/oxia/proto"
	"github.com/oxia-db/oxia/server"
	"github.com/oxia-db/oxia/server/kv"
	"github.com/oxia-db/oxia/server/wal"

	"oxverif/harness/core"
)

// C14: sessions and ephemeral records on a real (standalone) leader controller against M-Session.
type C14 struct{}

const c14Unit = 120 * time.Millisecond // one model time unit

func (C14) Timeout() time.Duration { return 45 * time.Second }

var c14Keys = []string{"a", "b", "a/b", "a/c", "b/a", "k", "a/b/c", "z", "a%2F", "sp ace", "é", "a/", "__x", "a+b", "a b", "x%2By", "q?r=s&t", "a;b=c"}

func (C14) Generate(rng *rand.Rand, tier string) []core.Case {
	n := 260
	if tier == "thorough" {
		n = 5000
	}
	var cases []core.Case
	// a range delete above the tombstone threshold (100 keys) over ephemeral records, then a take-over
	// and the end of the session
	for v := 0; v < 2; v++ {
		ops := []string{"s.create 1000"}
		nk := 101 + rng.Intn(30)
		for j := 0; j < nk; j++ {
			ops = append(ops, fmt.Sprintf("s.put %s 0", core.Hex([]byte(fmt.Sprintf("big/%03d", j)))))
		}
		ops = append(ops, "s.dump", fmt.Sprintf("s.delrange %s %s", core.Hex([]byte("big/")), core.Hex([]byte("big/~"))), "s.dump")
		for j := 0; j < 4; j++ {
			ops = append(ops, fmt.Sprintf("s.put %s _", core.Hex([]byte(fmt.Sprintf("big/%03d", rng.Intn(nk))))))
		}
		if v == 0 {
			ops = append(ops, "s.close 0", "s.dump")
		} else {
			ops = append(ops, "s.leaderchange", "s.dump", "s.close 0", "s.dump")
		}
		cases = append(cases, core.Case{Name: fmt.Sprintf("sess-large-range-%d", v), Ops: ops})
	}
	// sessions with different timeouts across a leader change: each one is re-armed with its own timeout
	for v := 0; v < 2; v++ {
		t1, t2 := 9, 3
		if v == 1 {
			t1, t2 = 3, 9
		}
		k1, k2 := core.Hex([]byte("lc/a")), core.Hex([]byte("lc/b"))
		ops := []string{fmt.Sprintf("s.create %d", t1), fmt.Sprintf("s.create %d", t2), fmt.Sprintf("s.put %s 0", k1), fmt.Sprintf("s.put %s 1", k2), "s.dump",
			"s.leaderchange", "s.dump", "s.advance 4", "s.dump", "s.keepalive 0", "s.keepalive 1", "s.advance 2", "s.dump"}
		cases = append(cases, core.Case{Name: fmt.Sprintf("sess-timeouts-across-leader-change-%d", v), Ops: ops})
	}
	for i := 0; i < n; i++ {
		timed := rng.Intn(8) == 0
		race := !timed && rng.Intn(6) == 0
		cases = append(cases, core.Case{Name: fmt.Sprintf("sess-%d-timed=%v-race=%v", i, timed, race), Ops: genSessCase(rng, timed, race)})
	}
	return cases
}

func genSessCase(rng *rand.Rand, timed, race bool) []string {
	var ops []string
	hk := func() string { return core.Hex([]byte(c14Keys[rng.Intn(len(c14Keys))])) }
	var sids []int
	offset := 0 // next log offset = id of the next session
	pickSid := func() string {
		if len(sids) == 0 || rng.Intn(6) == 0 {
			if rng.Intn(2) == 0 {
				return "_"
			}
			return fmt.Sprint(rng.Intn(offset + 2)) // probably not a session
		}
		return fmt.Sprint(sids[rng.Intn(len(sids))])
	}
	steps := 6 + rng.Intn(30)
	advances := 0
	owned := map[int][]string{} // session -> hex keys it (probably) owns
	for s := 0; s < steps; s++ {
		switch r := rng.Intn(20); {
		case r < 3:
			// timeouts are odd, advances even (in model units): a deadline never coincides with "now"
			t := 1000
			if timed {
				t = 3 + 2*rng.Intn(3)
			}
			ops = append(ops, fmt.Sprintf("s.create %d", t))
			sids = append(sids, offset)
			offset++
		case r < 10:
			k, ps := hk(), pickSid()
			ops = append(ops, fmt.Sprintf("s.put %s %s", k, ps))
			if id, err := strconv.Atoi(ps); err == nil {
				owned[id] = append(owned[id], k)
			}
			offset++
		case r < 12:
			ops = append(ops, fmt.Sprintf("s.del %s", hk()))
			offset++
		case r == 12:
			a, b := c14Keys[rng.Intn(len(c14Keys))], c14Keys[rng.Intn(len(c14Keys))]
			if compare.CompareWithSlash([]byte(a), []byte(b)) > 0 {
				a, b = b, a
			}
			if strings.Contains(a, "/") != strings.Contains(b, "/") {
				// a range from a key without '/' to a key with '/' encloses the internal "__oxia/" keys in
				// the slash order (known finding D-15 of C13); client ranges here stay on one side
				continue
			}
			ops = append(ops, fmt.Sprintf("s.delrange %s %s", core.Hex([]byte(a)), core.Hex([]byte(b+"~"))))
			offset++
		case r == 13 && len(sids) > 0:
			sid := sids[rng.Intn(len(sids))]
			if race && rng.Intn(2) == 0 {
				k := hk()
				if len(owned[sid]) > 0 && rng.Intn(3) > 0 {
					k = owned[sid][rng.Intn(len(owned[sid]))] // another client takes over a key of the closing session
				}
				ops = append(ops, fmt.Sprintf("s.closerace %d %s %s", sid, k, pickSid()))
				offset += 2
			} else {
				ops = append(ops, fmt.Sprintf("s.close %d", sid))
				offset++
			}
		case r == 14 && len(sids) > 0:
			ks := pickSid()
			if ks == "_" {
				ks = "0"
			}
			ops = append(ops, fmt.Sprintf("s.keepalive %s", ks))
		case r == 15:
			ops = append(ops, "s.leaderchange")
		case r == 16 && timed && advances < 3:
			ops = append(ops, fmt.Sprintf("s.advance %d", 2+2*rng.Intn(2)))
			advances++
			// expired sessions issue their cleanup writes; the generator does not track which ones:
			// ids of later sessions are read back from the outputs, never assumed
			ops = append(ops, "s.dump")
		default:
			ops = append(ops, "s.dump")
		}
	}
	ops = append(ops, "s.dump")
	return ops
}

type c14Exec struct {
	dir      string
	lc       server.LeaderController
	kvf      kv.Factory
	walf     wal.Factory
	term     int64
	start    time.Time
	now      int // model time units
	shard    int64
	unrel    bool
	lastSids map[string]int64 // generator's idea of a session id ↦ (unused)
}

func (e *c14Exec) close() {
	if e.lc != nil {
		server.SetVerifYieldHook(e.lc, nil)
		// leaderController.list completes its callback before it closes the iterator: give the last
		// listing goroutine the time to do that before the database goes away
		time.Sleep(3 * time.Millisecond)
		_ = e.lc.Close()
	}
	if e.kvf != nil {
		_ = e.kvf.Close()
	}
	if e.walf != nil {
		_ = e.walf.Close()
	}
	if e.dir != "" {
		_ = os.RemoveAll(e.dir)
	}
}

func (e *c14Exec) init() error {
	var err error
	if e.dir, err = os.MkdirTemp("", "oxv-c14-"); err != nil {
		return err
	}
	e.shard = 1
	if e.kvf, err = kv.NewPebbleKVFactory(&kv.FactoryOptions{InMemory: true, DataDir: e.dir + "/db"}); err != nil {
		return err
	}
	e.walf = wal.NewWalFactory(&wal.FactoryOptions{BaseWalDir: e.dir + "/wal", SegmentSize: 128 * 1024})
	if e.lc, err = server.NewLeaderController(server.Config{}, constant.DefaultNamespace, e.shard, stubRPC{}, e.walf, e.kvf); err != nil {
		return err
	}
	e.term = 0
	e.start = time.Now()
	return e.lead()
}

func (e *c14Exec) lead() error {
	e.term++
	if _, err := e.lc.NewTerm(&proto.NewTermRequest{Shard: e.shard, Term: e.term}); err != nil {
		return err
	}
	_, err := e.lc.BecomeLeader(context.Background(), &proto.BecomeLeaderRequest{Shard: e.shard, Term: e.term, ReplicationFactor: 1})
	return err
}

func (e *c14Exec) put(key string, sid *int64) string {
	r, err := e.lc.WriteBlock(context.Background(), &proto.WriteRequest{Shard: &e.shard, Puts: []*proto.PutRequest{{Key: key, Value: []byte("v"), SessionId: sid}}})
	if err != nil {
		return "err:" + strings.ReplaceAll(err.Error(), " ", "_")
	}
	switch r.Puts[0].Status {
	case proto.Status_OK:
		return "ok"
	case proto.Status_SESSION_DOES_NOT_EXIST:
		return "session-does-not-exist"
	}
	return "status:" + r.Puts[0].Status.String()
}

var c14SessionKey = regexp.MustCompile(`^__oxia/session/([0-9a-f]{16})$`)
var c14ShadowKey = regexp.MustCompile(`^__oxia/session/([0-9a-f]{16})/(.*)$`)

func (e *c14Exec) dump() string {
	it, err := kv.VerifKV(server.VerifLeaderDB(e.lc)).RangeScan("", "")
	if err != nil {
		return "err:" + err.Error()
	}
	defer it.Close()
	var recs, shadows []string
	var sessions []int64
	type sh struct {
		id  int64
		key string
	}
	var shs []sh
	for ; it.Valid(); it.Next() {
		k := it.Key()
		if m := c14SessionKey.FindStringSubmatch(k); m != nil {
			id, _ := strconv.ParseInt(m[1], 16, 64)
			sessions = append(sessions, id)
			continue
		}
		if m := c14ShadowKey.FindStringSubmatch(k); m != nil {
			id, _ := strconv.ParseInt(m[1], 16, 64)
			uk, err := url.PathUnescape(m[2])
			if err != nil {
				uk = "?" + m[2]
			}
			shs = append(shs, sh{id, core.Hex([]byte(uk))})
			continue
		}
		if strings.HasPrefix(k, "__oxia/") {
			continue
		}
		v, err := it.Value()
		if err != nil {
			return "err:" + err.Error()
		}
		se := &proto.StorageEntry{}
		if err := se.UnmarshalVT(v); err != nil {
			return "err:" + err.Error()
		}
		o := "_"
		if se.SessionId != nil {
			o = fmt.Sprint(*se.SessionId)
		}
		recs = append(recs, core.Hex([]byte(k))+":"+o)
	}
	sort.Strings(recs)
	sort.Slice(sessions, func(a, b int) bool { return sessions[a] < sessions[b] })
	sort.Slice(shs, func(a, b int) bool {
		return shs[a].id < shs[b].id || (shs[a].id == shs[b].id && shs[a].key <= shs[b].key)
	})
	for _, s := range shs {
		shadows = append(shadows, fmt.Sprintf("%d:%s", s.id, s.key))
	}
	timers := server.VerifLiveSessions(e.lc)
	sort.Slice(timers, func(a, b int) bool { return timers[a] < timers[b] })
	j := func(l []int64) string {
		s := make([]string, len(l))
		for i, x := range l {
			s[i] = fmt.Sprint(x)
		}
		return strings.Join(s, ",")
	}
	return "recs=" + strings.Join(recs, ",") + " sessions=" + j(sessions) + " shadows=" + strings.Join(shadows, ",") + " timers=" + j(timers)
}

// checkClock marks the case as not comparable when the real clock has run ahead of the model's.
func (e *c14Exec) checkClock() {
	if time.Since(e.start) > time.Duration(e.now)*c14Unit+c14Unit/2 {
		e.unrel = true
	}
}

func (e *c14Exec) op(op string) string {
	f := strings.Fields(op)
	sidOf := func(s string) *int64 {
		if s == "_" {
			return nil
		}
		v, _ := strconv.ParseInt(s, 10, 64)
		return &v
	}
	e.checkClock()
	switch f[0] {
	case "s.put":
		return e.put(string(core.UnHex(f[1])), sidOf(f[2]))
	case "s.del":
		r, err := e.lc.WriteBlock(context.Background(), &proto.WriteRequest{Shard: &e.shard, Deletes: []*proto.DeleteRequest{{Key: string(core.UnHex(f[1]))}}})
		if err != nil {
			return "err:" + strings.ReplaceAll(err.Error(), " ", "_")
		}
		if r.Deletes[0].Status == proto.Status_KEY_NOT_FOUND {
			return "key-not-found"
		}
		return "ok"
	case "s.delrange":
		_, err := e.lc.WriteBlock(context.Background(), &proto.WriteRequest{Shard: &e.shard, DeleteRanges: []*proto.DeleteRangeRequest{{
			StartInclusive: string(core.UnHex(f[1])), EndExclusive: string(core.UnHex(f[2]))}}})
		if err != nil {
			return "err:" + strings.ReplaceAll(err.Error(), " ", "_")
		}
		return "ok"
	case "s.create":
		t, _ := strconv.Atoi(f[1])
		r, err := server.VerifCreateSession(e.lc, &proto.CreateSessionRequest{Shard: e.shard, SessionTimeoutMs: uint32(time.Duration(t) * c14Unit / time.Millisecond), ClientIdentity: "c"}, time.Millisecond)
		if err != nil {
			return "err:" + strings.ReplaceAll(err.Error(), " ", "_")
		}
		return fmt.Sprintf("sid=%d", r.SessionId)
	case "s.keepalive":
		if err := e.lc.KeepAlive(*sidOf(f[1])); err != nil {
			return "not-found"
		}
		return "ok"
	case "s.close":
		if _, err := e.lc.CloseSession(&proto.CloseSessionRequest{Shard: e.shard, SessionId: *sidOf(f[1])}); err != nil {
			if strings.Contains(err.Error(), "session not found") {
				return "not-found"
			}
			return "err:" + strings.ReplaceAll(err.Error(), " ", "_")
		}
		return "ok"
	case "s.closerace":
		// the other client's put lands between the listing of the session's keys and the cleanup write
		var done atomic.Bool
		putRes := "not-run"
		server.SetVerifYieldHook(e.lc, func(point string) {
			if point == "session.delete.listed" && done.CompareAndSwap(false, true) {
				putRes = e.put(string(core.UnHex(f[2])), sidOf(f[3]))
			}
		})
		_, err := e.lc.CloseSession(&proto.CloseSessionRequest{Shard: e.shard, SessionId: *sidOf(f[1])})
		server.SetVerifYieldHook(e.lc, nil)
		if err != nil {
			if strings.Contains(err.Error(), "session not found") {
				return "not-found"
			}
			return "err:" + strings.ReplaceAll(err.Error(), " ", "_")
		}
		return "ok put=" + putRes
	case "s.advance":
		dt, _ := strconv.Atoi(f[1])
		e.now += dt
		target := e.start.Add(time.Duration(e.now) * c14Unit)
		time.Sleep(time.Until(target))
		time.Sleep(15 * time.Millisecond) // let the expiry goroutines finish their cleanup writes
		return "ok"
	case "s.leaderchange":
		if err := e.lead(); err != nil {
			return "err:" + strings.ReplaceAll(err.Error(), " ", "_")
		}
		return "ok"
	case "s.dump":
		return e.dump()
	}
	return "bad-op"
}

func (C14) Exec(ops []string, outs []string) {
	e := &c14Exec{}
	defer e.close()
	if err := e.init(); err != nil {
		for i := range outs {
			outs[i] = "err:init:" + err.Error()
		}
		return
	}
	timed := false
	for _, o := range ops {
		if strings.HasPrefix(o, "s.advance") {
			timed = true
		}
	}
	for i, o := range ops {
		o := o
		r := core.Safe(func() string { return e.op(o) })
		if timed && e.unrel {
			r = "~" + r
		}
		outs[i] = r
	}
}

// ---- oracle: a reference bookkeeping of who owns what, driven by the implementation's own answers ----

type c14Ref struct {
	owner    map[string]string // hex key -> owner ("_" = plain)
	sessions map[string]bool
	armed    map[string]int // session -> time of the last (re)arming
	timeout  map[string]int
	now      int
}

func parseC14Dump(d string) (recs map[string]string, sessions map[string]bool, shadows map[string]bool, timers map[string]bool, ok bool) {
	recs, sessions, shadows, timers = map[string]string{}, map[string]bool{}, map[string]bool{}, map[string]bool{}
	for _, part := range strings.Fields(d) {
		i := strings.Index(part, "=")
		if i < 0 {
			return nil, nil, nil, nil, false
		}
		name, val := part[:i], part[i+1:]
		if val == "" {
			continue
		}
		for _, x := range strings.Split(val, ",") {
			switch name {
			case "recs":
				j := strings.LastIndex(x, ":")
				recs[x[:j]] = x[j+1:]
			case "sessions":
				sessions[x] = true
			case "shadows":
				shadows[x] = true
			case "timers":
				timers[x] = true
			}
		}
	}
	return recs, sessions, shadows, timers, true
}

func (C14) Oracle(ops, impl, model []string) string {
	ref := &c14Ref{owner: map[string]string{}, sessions: map[string]bool{}, armed: map[string]int{}, timeout: map[string]int{}}
	name := func(hk string) string { return string(core.UnHex(hk)) }
	raced := map[string]string{} // key written in the window of a closing session -> that session
	why := func(k string) string {
		if sid, ok := raced[k]; ok {
			return fmt.Sprintf(" [the key was written between the listing of session %s's keys and its cleanup write]", sid)
		}
		return ""
	}
	endSession := func(sid string) {
		for k, o := range ref.owner {
			if o == sid {
				delete(ref.owner, k)
			}
		}
		delete(ref.sessions, sid)
		delete(ref.armed, sid)
	}
	for i, o := range ops {
		if i >= len(impl) {
			break
		}
		out := impl[i]
		unrel := strings.HasPrefix(out, "~")
		out = strings.TrimPrefix(out, "~")
		f := strings.Fields(o)
		if out == "hang" || out == "panic" || strings.HasPrefix(out, "err:") {
			return fmt.Sprintf("op %d (%s): %s", i, o, out)
		}
		switch f[0] {
		case "s.put":
			delete(raced, f[1])
			if f[2] != "_" && !ref.sessions[f[2]] {
				if out != "session-does-not-exist" {
					return fmt.Sprintf("op %d (%s): a write naming the dead session %s was accepted (%s)", i, o, f[2], out)
				}
			} else if out != "ok" {
				return fmt.Sprintf("op %d (%s): a write within the live session %s was refused (%s)", i, o, f[2], out)
			} else {
				ref.owner[f[1]] = f[2]
			}
		case "s.del":
			if out == "ok" {
				delete(ref.owner, f[1])
			}
		case "s.delrange":
			lo, hi := core.UnHex(f[1]), core.UnHex(f[2])
			for k := range ref.owner {
				kb := core.UnHex(k)
				if compare.CompareWithSlash(lo, kb) <= 0 && compare.CompareWithSlash(kb, hi) < 0 {
					delete(ref.owner, k)
				}
			}
		case "s.create":
			sid := strings.TrimPrefix(out, "sid=")
			ref.sessions[sid] = true
			ref.armed[sid] = ref.now
			ref.timeout[sid], _ = strconv.Atoi(f[1])
		case "s.keepalive":
			if out == "ok" {
				ref.armed[f[1]] = ref.now
			}
		case "s.close":
			if out == "ok" {
				endSession(f[1])
			}
		case "s.closerace":
			if strings.HasPrefix(out, "ok") {
				// whichever of the two takes effect first, the put's record is not the ended session's
				// at the moment it ends - unless the put was made by that very session and refused
				endSession(f[1])
				if strings.HasSuffix(out, "put=ok") {
					raced[f[2]] = f[1]
					if f[3] == f[1] {
						// a put by the ending session itself: removed with the session, or refused
						delete(ref.owner, f[2])
					} else {
						ref.owner[f[2]] = f[3]
					}
				}
			}
		case "s.advance":
			dt, _ := strconv.Atoi(f[1])
			ref.now += dt
		case "s.leaderchange":
			for sid := range ref.sessions {
				ref.armed[sid] = ref.now
			}
		case "s.dump":
			recs, sessions, shadows, timers, ok := parseC14Dump(out)
			if !ok {
				return fmt.Sprintf("op %d: unparsable dump %q", i, out)
			}
			// sessions that ran out of time (only they) are gone, with their records
			for sid := range ref.sessions {
				deadline := ref.armed[sid] + ref.timeout[sid]
				switch {
				case !sessions[sid] && unrel:
					endSession(sid)
				case !sessions[sid] && ref.now < deadline:
					return fmt.Sprintf("op %d: session %s ended by the clock at time %d although it was (re)armed at %d with a timeout of %d", i, sid, ref.now, ref.armed[sid], ref.timeout[sid])
				case !sessions[sid]:
					endSession(sid)
				case sessions[sid] && ref.now > deadline && !unrel:
					return fmt.Sprintf("op %d: session %s is still there at time %d, a full timeout (%d) after its last heartbeat at %d", i, sid, ref.now, ref.timeout[sid], ref.armed[sid])
				}
			}
			for sid := range sessions {
				if !ref.sessions[sid] {
					return fmt.Sprintf("op %d: session %s is in the database but was closed or never created", i, sid)
				}
				if !timers[sid] && !unrel {
					return fmt.Sprintf("op %d: session %s is in the database but the leader runs no timer for it", i, sid)
				}
			}
			// the records are exactly the expected ones, with the expected owners
			for k, ow := range ref.owner {
				got, there := recs[k]
				if !there {
					return fmt.Sprintf("op %d: record %q (owner %s) has been removed although it was not deleted and its session did not end%s", i, name(k), ow, why(k))
				}
				if got != ow {
					return fmt.Sprintf("op %d: record %q is owned by %s, expected %s (ownership follows the last writer)", i, name(k), got, ow)
				}
			}
			for k, ow := range recs {
				if _, there := ref.owner[k]; !there {
					return fmt.Sprintf("op %d: record %q (owner %s) is still there although it was deleted or its session ended%s", i, name(k), ow, why(k))
				}
			}
			// shadows = ephemeral records
			for k, ow := range recs {
				if ow != "_" && !shadows[ow+":"+k] {
					return fmt.Sprintf("op %d: ephemeral record %q of session %s has no shadow key (it would survive its session)", i, name(k), ow)
				}
			}
			for sh := range shadows {
				j := strings.Index(sh, ":")
				if recs[sh[j+1:]] != sh[:j] {
					return fmt.Sprintf("op %d: shadow key %s points to a record the session does not own", i, sh)
				}
			}
		}
	}
	return ""
}

func (C14) Nontrivial(ops []string, outs []string) bool {
	for i, o := range ops {
		if i < len(outs) && (strings.HasPrefix(o, "s.close") || strings.HasPrefix(o, "s.advance")) && strings.HasPrefix(strings.TrimPrefix(outs[i], "~"), "ok") {
			return true
		}
	}
	return false
}
