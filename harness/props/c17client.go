package props

import (
	"context"
	"errors"
	"fmt"
	"io"
	"strings"
	"sync"
	"time"

	"google.golang.org/grpc/metadata"

	"github.com/oxia-db/oxia/oxia"
	"github.com/oxia-db/oxia/proto"
)

// The client's notifications manager (oxia/notifications.go) over a one-shard notification server of the
// harness that answers like leaderController.GetNotifications: without a start offset it first sends an
// empty batch at the current commit offset and continues after it, with a start offset it continues after
// that offset. Streams can be broken; the client reconnects with the last offset it saw.

type notifServer struct {
	mu      sync.Mutex
	batches []*proto.NotificationBatch // offset = index
	gen     int                        // incremented when the streams are broken
	opens   []string                   // what every GetNotifications request asked for
}

func (s *notifServer) commit() {
	s.mu.Lock()
	off := int64(len(s.batches))
	key := fmt.Sprintf("k%d", off)
	vid := off
	s.batches = append(s.batches, &proto.NotificationBatch{Shard: 0, Offset: off, Timestamp: uint64(1000 + off),
		Notifications: map[string]*proto.Notification{key: {Type: proto.NotificationType_KEY_CREATED, VersionId: &vid}}})
	s.mu.Unlock()
}

func (s *notifServer) breakStreams() {
	s.mu.Lock()
	s.gen++
	s.mu.Unlock()
}

type notifStream struct {
	s     *notifServer
	ctx   context.Context
	gen   int
	next  int64
	dummy *proto.NotificationBatch
}

func (s *notifServer) open(ctx context.Context, req *proto.NotificationsRequest) (proto.OxiaClient_GetNotificationsClient, error) {
	s.mu.Lock()
	defer s.mu.Unlock()
	st := &notifStream{s: s, ctx: ctx, gen: s.gen}
	if req.StartOffsetExclusive != nil {
		s.opens = append(s.opens, fmt.Sprintf("after=%d", *req.StartOffsetExclusive))
		st.next = *req.StartOffsetExclusive + 1
	} else {
		commit := int64(len(s.batches)) - 1
		s.opens = append(s.opens, "new")
		st.dummy = &proto.NotificationBatch{Shard: 0, Offset: commit}
		st.next = commit + 1
	}
	return st, nil
}

func (st *notifStream) Recv() (*proto.NotificationBatch, error) {
	if st.dummy != nil {
		d := st.dummy
		st.dummy = nil
		return d, nil
	}
	for {
		st.s.mu.Lock()
		if st.s.gen != st.gen {
			st.s.mu.Unlock()
			return nil, errors.New("stream broken")
		}
		if st.next < int64(len(st.s.batches)) {
			b := st.s.batches[st.next]
			st.next++
			st.s.mu.Unlock()
			return b, nil
		}
		st.s.mu.Unlock()
		select {
		case <-st.ctx.Done():
			return nil, io.EOF
		case <-time.After(3 * time.Millisecond):
		}
	}
}
func (st *notifStream) Header() (metadata.MD, error) { return nil, nil }
func (st *notifStream) Trailer() metadata.MD         { return nil }
func (st *notifStream) CloseSend() error             { return nil }
func (st *notifStream) Context() context.Context     { return st.ctx }
func (st *notifStream) SendMsg(any) error            { return errors.New("not used") }
func (st *notifStream) RecvMsg(any) error            { return errors.New("not used") }

// nc.run script=w,w,sub,b,w,w,r,w : w = a write is committed, sub = the client subscribes, b = the stream
// breaks (the client reconnects about one second later), r = wait for the reconnection. Output: the keys the
// client was notified of, in order.
func c17Client(kv map[string]string) string {
	srv := &notifServer{}
	ctx, cancel := context.WithCancel(context.Background())
	defer cancel()
	var n oxia.Notifications
	var got []string
	var mu sync.Mutex
	collect := func() {
		for x := range n.Ch() {
			mu.Lock()
			got = append(got, x.Key)
			mu.Unlock()
		}
	}
	for _, tok := range strings.Split(kv["script"], ",") {
		switch tok {
		case "w":
			srv.commit()
			time.Sleep(5 * time.Millisecond)
		case "sub":
			var err error
			n, err = oxia.VerifNewNotifications(ctx, srv.open, []int64{0}, 3*time.Second)
			if err != nil {
				return "err:" + strings.ReplaceAll(err.Error(), " ", "_")
			}
			go collect()
		case "b":
			srv.breakStreams()
			time.Sleep(20 * time.Millisecond)
		case "r":
			// the client's back-off starts at one second
			srv.mu.Lock()
			want := len(srv.opens) + 1
			srv.mu.Unlock()
			deadline := time.Now().Add(4 * time.Second)
			for time.Now().Before(deadline) {
				srv.mu.Lock()
				ok := len(srv.opens) >= want
				srv.mu.Unlock()
				if ok {
					break
				}
				time.Sleep(10 * time.Millisecond)
			}
			time.Sleep(30 * time.Millisecond)
		}
	}
	time.Sleep(60 * time.Millisecond)
	if n != nil {
		_ = n.Close()
	}
	mu.Lock()
	defer mu.Unlock()
	srv.mu.Lock()
	defer srv.mu.Unlock()
	return "got=" + strings.Join(got, ",") + " ~opens=" + strings.Join(srv.opens, ";")
}

// expected keys: every write committed after the subscription
func c17ClientExpected(script string) []string {
	var keys []string
	sub := false
	off := 0
	for _, tok := range strings.Split(script, ",") {
		switch tok {
		case "w":
			if sub {
				keys = append(keys, fmt.Sprintf("k%d", off))
			}
			off++
		case "sub":
			sub = true
		}
	}
	return keys
}
