package props

import (
	"errors"
	"fmt"
	"hash/fnv"
	"math/rand"
	"sort"
	"strconv"
	"strings"

	"github.com/oxia-db/oxia/common/sharding"
	"github.com/oxia-db/oxia/coordinator/model"
	"github.com/oxia-db/oxia/coordinator/utils"
	"github.com/oxia-db/oxia/oxia"

	"oxverif/harness/core"
)

// C18: GenerateShards, ApplyClusterChanges and the client's routing table against M-Shard.
type C18 struct{}

func showShardList(l []string) string {
	if len(l) <= 16 {
		return fmt.Sprintf("n=%d %s", len(l), strings.Join(l, ","))
	}
	h := fnv.New32a()
	_, _ = h.Write([]byte(strings.Join(l, ",")))
	return fmt.Sprintf("n=%d first=%s last=%s h=%d", len(l), l[0], l[len(l)-1], h.Sum32())
}

func (C18) Generate(rng *rand.Rand, tier string) []core.Case {
	var cases []core.Case
	// (i) GenerateShards: every count up to a bound, sampled larger ones
	maxN, samples := 1024, 10
	if tier == "thorough" {
		maxN, samples = 4096, 400
	}
	var ops []string
	for n := 1; n <= maxN; n++ {
		ops = append(ops, fmt.Sprintf("sh.gen %d %d", rng.Intn(1000), n))
		if len(ops) >= 256 {
			cases = append(cases, core.Case{Name: "generate", Ops: ops})
			ops = nil
		}
	}
	for i := 0; i < samples; i++ {
		n := []int{4097, 65535, 65536, 65537, 65538, 70000, 100000, 131072, 200000}[rng.Intn(9)]
		if rng.Intn(2) == 0 {
			n = 4097 + rng.Intn(70000)
		}
		ops = append(ops, fmt.Sprintf("sh.gen %d %d", rng.Intn(1000), n))
	}
	cases = append(cases, core.Case{Name: "generate-large", Ops: ops})
	// (ii) configuration change sequences
	nseq := 150
	if tier == "thorough" {
		nseq = 6000
	}
	for c := 0; c < nseq; c++ {
		ops = []string{"cs.reset"}
		live := map[int]string{}
		failing := rng.Intn(4) == 0
		for step := 0; step < 2+rng.Intn(8); step++ {
			// add / remove namespaces
			switch rng.Intn(3) {
			case 0, 1:
				nm := rng.Intn(6)
				if _, ok := live[nm]; !ok {
					live[nm] = fmt.Sprintf("ns=%d:%d:%d", nm, 1+rng.Intn(5), 1+rng.Intn(3))
				}
			default:
				for k := range live {
					delete(live, k)
					break
				}
			}
			servers := 1 + rng.Intn(4)
			fail := "0:0"
			if failing {
				fail = fmt.Sprintf("%d:%d", 2+rng.Intn(3), rng.Intn(2))
			}
			var toks []string
			var names []int
			for k := range live {
				names = append(names, k)
			}
			sort.Ints(names)
			rng.Shuffle(len(names), func(i, j int) { names[i], names[j] = names[j], names[i] })
			for _, k := range names {
				toks = append(toks, live[k])
			}
			if failing && rng.Intn(2) == 0 {
				// the supplier fails for some shards of a namespace and not for others
				fail = fmt.Sprintf("0:0 failk=%d", 1+rng.Intn(15))
			}
			ops = append(ops, fmt.Sprintf("cs.apply servers=%d fail=%s %s", servers, fail, strings.Join(toks, " ")))
			for _, k := range names {
				if rng.Intn(2) == 0 {
					ops = append(ops, fmt.Sprintf("cs.published %d", k))
				}
			}
		}
		cases = append(cases, core.Case{Name: fmt.Sprintf("config-%d", c), Ops: ops})
	}
	// (iii) client tables: streams of assignment messages (partitions with new / same ids, merges, splits)
	ncl := 150
	if tier == "thorough" {
		ncl = 6000
	}
	for c := 0; c < ncl; c++ {
		ops = []string{"cl.reset"}
		nextID := int64(rng.Intn(5))
		var cur []sharding.Shard
		for step := 0; step < 1+rng.Intn(5); step++ {
			n := uint32(1 + rng.Intn(7))
			keep := rng.Intn(3) == 0 && len(cur) > 0
			if !keep {
				cur = sharding.GenerateShards(nextID, n)
				nextID += int64(n)
				// shard ids are never reused with a different range (C18_status_invariant): later
				// generations always get fresh ids, possibly with gaps
				if rng.Intn(4) == 0 {
					nextID += int64(rng.Intn(3))
				}
			}
			toks := make([]string, len(cur))
			perm := rng.Perm(len(cur))
			for i, p := range perm {
				toks[i] = fmt.Sprintf("%d:%d:%d", cur[p].Id, cur[p].Min, cur[p].Max)
			}
			ops = append(ops, "cl.update "+strings.Join(toks, " "))
			for q := 0; q < 6; q++ {
				h := rng.Uint32()
				if q < 2 && len(cur) > 0 {
					s := cur[rng.Intn(len(cur))]
					h = []uint32{s.Min, s.Max}[q]
				}
				ops = append(ops, fmt.Sprintf("cl.get %d", h))
			}
		}
		cases = append(cases, core.Case{Name: fmt.Sprintf("client-%d", c), Ops: ops})
	}
	return cases
}

type c18Exec struct {
	status *model.ClusterStatus
	table  *oxia.VerifShardTable
	hashes map[string]uint32
}

func statusKind(s model.ShardStatus) string {
	switch s {
	case model.ShardStatusUnknown:
		return "U"
	case model.ShardStatusSteadyState:
		return "S"
	case model.ShardStatusElection:
		return "E"
	case model.ShardStatusDeleting:
		return "D"
	}
	return "?"
}

func (e *c18Exec) showCluster() string {
	var names []int
	byName := map[int]model.NamespaceStatus{}
	for n, ns := range e.status.Namespaces {
		k, _ := strconv.Atoi(n)
		names = append(names, k)
		byName[k] = ns
	}
	sort.Ints(names)
	parts := []string{}
	for _, k := range names {
		ns := byName[k]
		var ids []int64
		for id := range ns.Shards {
			ids = append(ids, id)
		}
		sort.Slice(ids, func(i, j int) bool { return ids[i] < ids[j] })
		ss := make([]string, len(ids))
		for i, id := range ids {
			m := ns.Shards[id]
			ss[i] = fmt.Sprintf("%d:%d:%d:%s:%d", id, m.Int32HashRange.Min, m.Int32HashRange.Max, statusKind(m.Status), len(m.Ensemble))
		}
		parts = append(parts, fmt.Sprintf("ns%d[%s]", k, strings.Join(ss, ",")))
	}
	return fmt.Sprintf("gen=%d idx=%d %s", e.status.ShardIdGenerator, e.status.ServerIdx, strings.Join(parts, " "))
}

func (e *c18Exec) op(op string) string {
	f := strings.Fields(op)
	switch f[0] {
	case "sh.gen":
		base, _ := strconv.ParseInt(f[1], 10, 64)
		n, _ := strconv.ParseUint(f[2], 10, 32)
		shards := sharding.GenerateShards(base, uint32(n))
		l := make([]string, len(shards))
		for i, s := range shards {
			l[i] = fmt.Sprintf("%d:%d:%d", s.Id, s.Min, s.Max)
		}
		return showShardList(l)
	case "cs.reset":
		e.status = model.NewClusterStatus()
		return "ok"
	case "cs.apply":
		if e.status == nil {
			e.status = model.NewClusterStatus()
		}
		cfg := &model.ClusterConfig{}
		servers, mod, rem := 3, 0, 0
		failk := 0
		for _, t := range f[1:] {
			switch {
			case strings.HasPrefix(t, "failk="):
				failk, _ = strconv.Atoi(t[6:])
			case strings.HasPrefix(t, "servers="):
				servers, _ = strconv.Atoi(t[8:])
			case strings.HasPrefix(t, "fail="):
				p := strings.Split(t[5:], ":")
				mod, _ = strconv.Atoi(p[0])
				rem, _ = strconv.Atoi(p[1])
			case strings.HasPrefix(t, "ns="):
				p := strings.Split(t[3:], ":")
				c, _ := strconv.Atoi(p[1])
				rf, _ := strconv.Atoi(p[2])
				cfg.Namespaces = append(cfg.Namespaces, model.NamespaceConfig{Name: p[0], InitialShardCount: uint32(c), ReplicationFactor: uint32(rf)})
			}
		}
		for i := 0; i < servers; i++ {
			cfg.Servers = append(cfg.Servers, model.Server{Public: fmt.Sprintf("s%d", i), Internal: fmt.Sprintf("s%d", i)})
		}
		// failk: the supplier fails for the k-th shard (0, 1, ...) of a namespace when bit k is set - the real
		// supplier looks at the cluster as it is at that moment, it need not fail for all shards or none
		lastNs, k := "", -1
		supplier := func(nc *model.NamespaceConfig, st *model.ClusterStatus) ([]model.Server, error) {
			if nc.Name != lastNs {
				lastNs, k = nc.Name, -1
			}
			k++
			if mod != 0 && int(st.ServerIdx)%mod == rem {
				return nil, errors.New("no ensemble")
			}
			if k < 16 && failk&(1<<uint(k)) != 0 {
				return nil, errors.New("no ensemble for this shard")
			}
			if int(nc.ReplicationFactor) > servers {
				return nil, errors.New("not enough servers")
			}
			return cfg.Servers[:nc.ReplicationFactor], nil
		}
		newStatus, _, _ := utils.ApplyClusterChanges(cfg, e.status, supplier)
		e.status = newStatus
		return e.showCluster()
	case "cs.published":
		// what computeNewAssignments publishes (its filter is tied by a regenerated fact; the harness
		// applies the documented rule to the real status)
		if e.status == nil {
			return "none"
		}
		ns, ok := e.status.Namespaces[f[1]]
		if !ok {
			return "none"
		}
		var ids []int64
		for id, m := range ns.Shards {
			if m.Status != model.ShardStatusDeleting {
				ids = append(ids, id)
			}
		}
		sort.Slice(ids, func(i, j int) bool { return ids[i] < ids[j] })
		l := make([]string, len(ids))
		for i, id := range ids {
			m := ns.Shards[id]
			l[i] = fmt.Sprintf("%d:%d:%d", id, m.Int32HashRange.Min, m.Int32HashRange.Max)
		}
		return showShardList(l)
	case "cl.reset":
		e.hashes = map[string]uint32{}
		e.table = oxia.NewVerifShardTable(func(k string) uint32 { return e.hashes[k] })
		return "ok"
	case "cl.update":
		if e.table == nil {
			e.hashes = map[string]uint32{}
			e.table = oxia.NewVerifShardTable(func(k string) uint32 { return e.hashes[k] })
		}
		var ups []oxia.VerifShard
		for _, t := range f[1:] {
			p := strings.Split(t, ":")
			id, _ := strconv.ParseInt(p[0], 10, 64)
			a, _ := strconv.ParseUint(p[1], 10, 32)
			b, _ := strconv.ParseUint(p[2], 10, 32)
			ups = append(ups, oxia.VerifShard{Id: id, Min: uint32(a), Max: uint32(b)})
		}
		e.table.Update(ups)
		cur := e.table.Shards()
		sort.Slice(cur, func(i, j int) bool { return cur[i].Id < cur[j].Id })
		l := make([]string, len(cur))
		for i, s := range cur {
			l[i] = fmt.Sprintf("%d:%d:%d", s.Id, s.Min, s.Max)
		}
		return showShardList(l)
	case "cl.get":
		if e.table == nil {
			return "panic"
		}
		h, _ := strconv.ParseUint(f[1], 10, 32)
		e.hashes["k"] = uint32(h)
		// the Go map iteration order decides among overlapping shards: ask repeatedly and report the set
		seen := map[int64]bool{}
		for i := 0; i < 12; i++ {
			seen[e.table.Get("k")] = true
		}
		var ids []int64
		for id := range seen {
			ids = append(ids, id)
		}
		sort.Slice(ids, func(i, j int) bool { return ids[i] < ids[j] })
		ss := make([]string, len(ids))
		for i, id := range ids {
			ss[i] = fmt.Sprint(id)
		}
		return strings.Join(ss, "|")
	}
	return "bad-op"
}

func (C18) Exec(ops []string, outs []string) {
	e := &c18Exec{}
	for i, o := range ops {
		o := o
		outs[i] = core.Safe(func() string { return e.op(o) })
	}
}

func parseShardTok(t string) (id int64, a, b uint64) {
	p := strings.Split(t, ":")
	id, _ = strconv.ParseInt(p[0], 10, 64)
	a, _ = strconv.ParseUint(p[1], 10, 64)
	b, _ = strconv.ParseUint(p[2], 10, 64)
	return
}

// isPartition checks a full (unsummarised) shard list
func isPartition(toks []string) string {
	type r struct{ a, b uint64 }
	var rs []r
	for _, t := range toks {
		_, a, b := parseShardTok(t)
		rs = append(rs, r{a, b})
	}
	sort.Slice(rs, func(i, j int) bool { return rs[i].a < rs[j].a })
	next := uint64(0)
	for _, x := range rs {
		if x.a != next {
			return fmt.Sprintf("gap or overlap at %d (expected %d)", x.a, next)
		}
		if x.b < x.a {
			return fmt.Sprintf("empty range %d..%d", x.a, x.b)
		}
		next = x.b + 1
	}
	if next != 1<<32 {
		return fmt.Sprintf("covers only up to %d", next)
	}
	return ""
}

// Oracle: partition property recomputed in Go on the real outputs; ids never reused; every hash code
// routed to exactly one shard after an update with a partition.
func (C18) Oracle(ops, impl, model []string) string {
	seenIDs := map[int64]bool{}
	idOwner := map[int64]string{}
	failing := false
	updated := false
	for i, o := range ops {
		if i >= len(impl) {
			break
		}
		out := impl[i]
		f := strings.Fields(o)
		if out == "hang" {
			return fmt.Sprintf("op %d hangs", i)
		}
		switch f[0] {
		case "sh.gen":
			n, _ := strconv.Atoi(f[2])
			if out == "panic" {
				return fmt.Sprintf("GenerateShards panics for %d shards", n)
			}
			// re-run the real function to check the whole list (the output line is a summary)
			base, _ := strconv.ParseInt(f[1], 10, 64)
			shards := sharding.GenerateShards(base, uint32(n))
			toks := make([]string, len(shards))
			for k, s := range shards {
				toks[k] = fmt.Sprintf("%d:%d:%d", s.Id, s.Min, s.Max)
				if s.Id != base+int64(k) {
					return fmt.Sprintf("GenerateShards(%d, %d): shard %d has id %d", base, n, k, s.Id)
				}
			}
			if msg := isPartition(toks); msg != "" {
				if n > 65536 {
					return fmt.Sprintf("GenerateShards with %d shards (more than 65536) is not a partition: %s", n, msg)
				}
				return fmt.Sprintf("GenerateShards with %d shards is not a partition: %s", n, msg)
			}
		case "cs.reset":
			seenIDs = map[int64]bool{}
			failing = false
			idOwner = map[int64]string{}
		case "cs.apply":
			failing = failing || !strings.Contains(o, "fail=0:0") || strings.Contains(o, "failk=")
			// shard ids are unique across the namespaces, below the generator, and never handed out twice
			var gen int64 = -1
			for _, t := range strings.Fields(out) {
				if strings.HasPrefix(t, "gen=") {
					gen, _ = strconv.ParseInt(t[4:], 10, 64)
					continue
				}
				b := strings.Index(t, "[")
				if !strings.HasPrefix(t, "ns") || b < 0 || !strings.HasSuffix(t, "]") {
					continue
				}
				name := t[:b]
				for _, sh := range strings.Split(t[b+1:len(t)-1], ",") {
					if sh == "" {
						continue
					}
					id, err := strconv.ParseInt(strings.SplitN(sh, ":", 2)[0], 10, 64)
					if err != nil {
						continue
					}
					if owner, ok := idOwner[id]; ok && owner != name {
						return fmt.Sprintf("op %d: shard id %d, handed out to %s before, now belongs to %s: shard ids are not unique", i, id, owner, name)
					}
					idOwner[id] = name
					if gen >= 0 && id >= gen {
						return fmt.Sprintf("op %d: shard id %d of %s is not below the id generator (%d): the next namespace will get it again", i, id, name, gen)
					}
				}
			}
		case "cs.published":
			if out == "none" || !strings.HasPrefix(out, "n=") {
				continue
			}
			parts := strings.SplitN(out, " ", 2)
			if parts[0] == "n=0" {
				continue // namespace being deleted
			}
			if strings.Contains(out, "first=") {
				continue
			}
			toks := strings.Split(parts[1], ",")
			if msg := isPartition(toks); msg != "" {
				if failing {
					return fmt.Sprintf("op %d: namespace %s publishes shards that do not partition the hash space after an ensemble selection failed: %s", i, f[1], msg)
				}
				return fmt.Sprintf("op %d: namespace %s publishes shards that do not partition the hash space: %s", i, f[1], msg)
			}
			for _, t := range toks {
				id, _, _ := parseShardTok(t)
				seenIDs[id] = true
			}
		case "cl.get":
			if out == "panic" && updated {
				return fmt.Sprintf("op %d: hash code %s is routed to no shard", i, f[1])
			}
			if strings.Contains(out, "|") {
				return fmt.Sprintf("op %d: hash code %s is routed to several shards (%s)", i, f[1], out)
			}
		case "cl.reset":
			updated = false
		case "cl.update":
			updated = true
			// after an update with a partition the table must be exactly that partition
			if !strings.HasPrefix(out, "n=") || strings.Contains(out, "first=") {
				continue
			}
			want := append([]string{}, f[1:]...)
			sort.Slice(want, func(a, b int) bool {
				x, _, _ := parseShardTok(want[a])
				y, _, _ := parseShardTok(want[b])
				return x < y
			})
			got := strings.SplitN(out, " ", 2)
			if len(got) == 2 && got[1] != strings.Join(want, ",") {
				return fmt.Sprintf("op %d: after the update the client table is %s, the published partition is %s", i, got[1], strings.Join(want, ","))
			}
		}
	}
	return ""
}

func (C18) Nontrivial(ops, outs []string) bool {
	// non-trivial: a namespace removal or a client update that evicts shards, or GenerateShards with > 1 shard
	for _, o := range ops {
		if strings.HasPrefix(o, "sh.gen") && !strings.HasSuffix(o, " 1") {
			return true
		}
	}
	for i := range outs {
		if strings.Contains(outs[i], ":D:") {
			return true
		}
	}
	n := 0
	for _, o := range ops {
		if strings.HasPrefix(o, "cl.update") {
			n++
		}
	}
	return n >= 2
}
