package props

import (
	"errors"
	"fmt"
	"math/rand"
	"sort"
	"strconv"
	"strings"

	"github.com/emirpasic/gods/v2/lists/arraylist"
	"github.com/emirpasic/gods/v2/sets/linkedhashset"

	"github.com/oxia-db/oxia/coordinator/controllers"
	"github.com/oxia-db/oxia/coordinator/model"
	"github.com/oxia-db/oxia/coordinator/policies"
	"github.com/oxia-db/oxia/coordinator/selectors"
	"github.com/oxia-db/oxia/coordinator/selectors/ensemble"
	"github.com/oxia-db/oxia/coordinator/selectors/single"

	"oxverif/harness/core"
)

// C19: ensemble selection and node swap against M-Select. The load-ratio order (`prio`) is chosen by
// the generator, so the lowest-load tie-break is an arbitrary but reproducible choice function.
type C19 struct{}

func (C19) Generate(rng *rand.Rand, tier string) []core.Case {
	n := 2500
	if tier == "thorough" {
		n = 200000
	}
	var cases []core.Case
	var ops []string
	for i := 0; i < n; i++ {
		ns := 1 + rng.Intn(8)
		servers := make([]string, ns)
		for s := range servers {
			servers[s] = fmt.Sprint(s)
		}
		nl := rng.Intn(4) // labels 0..nl-1
		var labels []string
		for s := 0; s < ns; s++ {
			if nl > 0 && rng.Intn(10) == 0 {
				continue // a server without metadata
			}
			for l := 0; l < nl; l++ {
				if rng.Intn(8) == 0 {
					continue // label missing on this server
				}
				labels = append(labels, fmt.Sprintf("%d.%d.%d", s, l, rng.Intn(1+rng.Intn(3))))
			}
		}
		var rules []string
		nr := 0
		if nl > 0 {
			nr = rng.Intn(4)
		}
		for r := 0; r < nr; r++ {
			k := 1 + rng.Intn(2)
			var ls []string
			for _, p := range rng.Perm(nl)[:minInt(k, nl)] {
				ls = append(ls, fmt.Sprint(p))
			}
			mode := "S"
			if rng.Intn(12) == 0 {
				mode = "R"
			}
			rules = append(rules, strings.Join(ls, "+")+":"+mode)
		}
		prio := rng.Perm(ns)
		ps := make([]string, ns)
		for j, p := range prio {
			ps[j] = fmt.Sprint(p)
		}
		base := fmt.Sprintf("servers=%s labels=%s rules=%s prio=%s", strings.Join(servers, ","), orUnderscore(strings.Join(labels, ",")),
			orUnderscore(strings.Join(rules, ";")), strings.Join(ps, ","))
		rf := 1 + rng.Intn(5)
		ops = append(ops, fmt.Sprintf("sel.ens %s rf=%d", base, rf))
		// a swap out of an existing placement
		k := minInt(1+rng.Intn(4), ns)
		ens := rng.Perm(ns)[:k]
		es := make([]string, k)
		for j, e := range ens {
			es[j] = fmt.Sprint(e)
		}
		ops = append(ops, fmt.Sprintf("sel.swap %s ens=%s from=%d", base, strings.Join(es, ","), ens[rng.Intn(k)]))
		ops = append(ops, fmt.Sprintf("sel.replace list=%s old=%d new=%d", strings.Join(es, ","), ens[rng.Intn(k)], rng.Intn(ns+1)))
		if len(ops) >= 150 {
			cases = append(cases, core.Case{Name: fmt.Sprintf("select-%d", i), Ops: ops})
			ops = nil
		}
	}
	if len(ops) > 0 {
		cases = append(cases, core.Case{Name: "select-last", Ops: ops})
	}
	nr := 30
	if tier == "thorough" {
		nr = 600
	}
	cases = append(cases, genRounds(rng, nr)...)
	return cases
}

func minInt(a, b int) int {
	if a < b {
		return a
	}
	return b
}

func orUnderscore(s string) string {
	if s == "" {
		return "_"
	}
	return s
}

type c19Ctx struct {
	servers  []string
	metadata map[string]model.ServerMetadata
	pol      *policies.Policies
	prio     []string
}

func parseC19(f []string) (*c19Ctx, map[string]string) {
	kv := map[string]string{}
	for _, t := range f[1:] {
		if i := strings.Index(t, "="); i > 0 {
			kv[t[:i]] = t[i+1:]
		}
	}
	c := &c19Ctx{metadata: map[string]model.ServerMetadata{}}
	if kv["servers"] != "_" && kv["servers"] != "" {
		c.servers = strings.Split(kv["servers"], ",")
	}
	if kv["labels"] != "_" && kv["labels"] != "" {
		for _, x := range strings.Split(kv["labels"], ",") {
			p := strings.Split(x, ".")
			md, ok := c.metadata[p[0]]
			if !ok {
				md = model.ServerMetadata{Labels: map[string]string{}}
			}
			if _, dup := md.Labels[p[1]]; !dup { // first occurrence wins, as in the model's lookup
				md.Labels[p[1]] = p[2]
			}
			c.metadata[p[0]] = md
		}
	}
	if kv["rules"] != "_" && kv["rules"] != "" {
		c.pol = &policies.Policies{}
		for _, r := range strings.Split(kv["rules"], ";") {
			p := strings.Split(r, ":")
			mode := policies.Strict
			if p[1] != "S" {
				mode = policies.Relaxed
			}
			c.pol.AntiAffinities = append(c.pol.AntiAffinities, policies.AntiAffinity{Labels: strings.Split(p[0], "+"), Mode: mode})
		}
	}
	if kv["prio"] != "_" && kv["prio"] != "" {
		c.prio = strings.Split(kv["prio"], ",")
	}
	return c, kv
}

func (c *c19Ctx) ratio() *model.Ratio {
	l := arraylist.New[*model.NodeLoadRatio]()
	for _, p := range c.prio {
		l.Add(&model.NodeLoadRatio{NodeID: p})
	}
	return model.NewRatio(0, 0, 0, l)
}

func selectErr(err error) string {
	switch {
	case errors.Is(err, selectors.ErrUnsatisfiedAntiAffinity):
		return "err:unsatisfied-anti-affinity"
	case errors.Is(err, selectors.ErrUnsupportedAntiAffinityMode):
		return "err:unsupported-mode"
	case errors.Is(err, selectors.ErrUnsatisfiedEnsembleReplicas):
		return "err:unsatisfied-replicas"
	}
	return "err:other:" + strings.ReplaceAll(err.Error(), " ", "_")
}

func c19op(op string) string {
	f := strings.Fields(op)
	if f[0] == "sel.round" {
		return c19Round(c20kv(f))
	}
	c, kv := parseC19(f)
	switch f[0] {
	case "sel.ens":
		rf, _ := strconv.Atoi(kv["rf"])
		ctx := &ensemble.Context{
			Candidates:         linkedhashset.New(c.servers...),
			CandidatesMetadata: c.metadata,
			Policies:           c.pol,
			Status:             model.NewClusterStatus(),
			Replicas:           rf,
			LoadRatioSupplier:  func() *model.Ratio { return c.ratio() },
		}
		res, err := ensemble.NewSelector().Select(ctx)
		if err != nil {
			return selectErr(err)
		}
		return "ok " + strings.Join(res, ",")
	case "sel.swap":
		// what nodeBasedBalancer.swapShard does with the selector (tied to the source by the fact
		// swapShardSelectsAgainstRestOfEnsemble)
		ens := strings.Split(kv["ens"], ",")
		from := kv["from"]
		sctx := &single.Context{
			Candidates:         linkedhashset.New(c.servers...),
			CandidatesMetadata: c.metadata,
			Policies:           c.pol,
			Status:             model.NewClusterStatus(),
			LoadRatioSupplier:  func() *model.Ratio { return c.ratio() },
		}
		selected := linkedhashset.New[string]()
		for _, e := range ens {
			if e != from {
				selected.Add(e)
			}
		}
		sctx.SetSelected(selected)
		target, err := single.NewSelector().Select(sctx)
		if err != nil {
			return selectErr(err)
		}
		return "ok " + target
	case "sel.replace":
		var list []model.Server
		if kv["list"] != "_" {
			for _, e := range strings.Split(kv["list"], ",") {
				list = append(list, model.Server{Public: e, Internal: e})
			}
		}
		res := controllers.VerifReplaceInList(list, model.Server{Public: kv["old"], Internal: kv["old"]}, model.Server{Public: kv["new"], Internal: kv["new"]})
		ss := make([]string, len(res))
		for i, s := range res {
			ss[i] = s.Internal
		}
		return strings.Join(ss, ",")
	}
	return "bad-op"
}

func (C19) Exec(ops []string, outs []string) {
	for i, o := range ops {
		o := o
		outs[i] = core.Safe(func() string { return c19op(o) })
	}
}

// Oracle: the property recomputed in Go on the real outputs: RF distinct servers of the cluster; for
// every strict rule and every label of it no two members share a value; a swap target is not in the
// ensemble; a selection is refused (error), never a panic.
func (C19) Oracle(ops, impl, model []string) string {
	for i, o := range ops {
		if i >= len(impl) {
			break
		}
		out := impl[i]
		f := strings.Fields(o)
		if f[0] == "sel.round" {
			if out == "hang" || out == "panic" {
				return fmt.Sprintf("op %d: the rebalancing round %ss (%s)", i, out, o)
			}
			if m := c19RoundOracle(c20kv(f), out); m != "" {
				return fmt.Sprintf("op %d: %s", i, m)
			}
			continue
		}
		c, kv := parseC19(f)
		if out == "hang" {
			return fmt.Sprintf("op %d hangs", i)
		}
		if out == "panic" {
			return fmt.Sprintf("op %d: the selector panics instead of refusing (%.120s)", i, o)
		}
		values := func(s, label string) (string, bool) {
			md, ok := c.metadata[s]
			if !ok {
				return "", false
			}
			v, ok := md.Labels[label]
			return v, ok
		}
		checkAA := func(members []string) string {
			if c.pol == nil {
				return ""
			}
			for ri, r := range c.pol.AntiAffinities {
				if r.Mode != policies.Strict {
					continue
				}
				for _, l := range r.Labels {
					seen := map[string]string{}
					for _, m := range members {
						v, ok := values(m, l)
						if !ok {
							continue
						}
						if other, dup := seen[v]; dup {
							multi := ""
							if ri == 0 && len(r.Labels) > 1 {
								multi = " (multi-label first rule)"
							}
							return fmt.Sprintf("servers %s and %s share value %q of label %s of strict rule %d%s", other, m, v, l, ri, multi)
						}
						seen[v] = m
					}
				}
			}
			return ""
		}
		switch f[0] {
		case "sel.ens":
			if !strings.HasPrefix(out, "ok ") {
				continue
			}
			rf, _ := strconv.Atoi(kv["rf"])
			members := strings.Split(out[3:], ",")
			if len(members) != rf {
				return fmt.Sprintf("op %d: ensemble %v has %d members, replication factor is %d", i, members, len(members), rf)
			}
			seen := map[string]bool{}
			for _, m := range members {
				if seen[m] {
					return fmt.Sprintf("op %d: ensemble %v repeats server %s", i, members, m)
				}
				seen[m] = true
				found := false
				for _, s := range c.servers {
					if s == m {
						found = true
					}
				}
				if !found {
					return fmt.Sprintf("op %d: ensemble member %s is not a server of the cluster", i, m)
				}
			}
			if msg := checkAA(members); msg != "" {
				return fmt.Sprintf("op %d: ensemble %v violates anti-affinity: %s", i, members, msg)
			}
		case "sel.swap":
			if !strings.HasPrefix(out, "ok ") {
				continue
			}
			target := out[3:]
			ens := strings.Split(kv["ens"], ",")
			var rest []string
			for _, e := range ens {
				if e != kv["from"] {
					rest = append(rest, e)
					if e == target {
						return fmt.Sprintf("op %d: swap proposes %s, which is already in the ensemble %v", i, target, ens)
					}
				}
			}
			if target != kv["from"] {
				// the rest of the ensemble may already violate a rule (existing placement); only a violation
				// that involves the new member counts
				before := checkAA(rest)
				after := checkAA(append(rest, target))
				if before == "" && after != "" {
					return fmt.Sprintf("op %d: swapping %s -> %s in %v violates anti-affinity: %s", i, kv["from"], target, ens, after)
				}
			}
		case "sel.replace":
			list := []string{}
			if kv["list"] != "_" {
				list = strings.Split(kv["list"], ",")
			}
			got := []string{}
			if out != "" {
				got = strings.Split(out, ",")
			}
			inList, newIn := false, false
			for _, e := range list {
				if e == kv["old"] {
					inList = true
				}
				if e == kv["new"] {
					newIn = true
				}
			}
			if inList && !newIn && len(got) != len(list) {
				return fmt.Sprintf("op %d: replacing %s by %s in %v gives %v", i, kv["old"], kv["new"], list, got)
			}
			sort.Strings(got)
			for j := 1; j < len(got); j++ {
				if got[j] == got[j-1] && inList && !newIn {
					return fmt.Sprintf("op %d: replaced ensemble %v repeats a server", i, got)
				}
			}
		}
	}
	return ""
}

func (C19) Nontrivial(ops, outs []string) bool {
	// non-trivial: at least one ensemble accepted under anti-affinity rules and one refused
	okRule, refused := false, false
	for i, o := range ops {
		if i >= len(outs) || !strings.HasPrefix(o, "sel.ens") {
			continue
		}
		if strings.HasPrefix(outs[i], "ok ") && !strings.Contains(o, "rules=_") {
			okRule = true
		}
		if strings.HasPrefix(outs[i], "err:") {
			refused = true
		}
	}
	return okRule && refused
}
