package props

import (
	"fmt"
	"math/rand"
	"strconv"
	"strings"
	"time"

	"github.com/oxia-db/oxia/coordinator/balancer"
	"github.com/oxia-db/oxia/coordinator/model"

	"oxverif/harness/core"
)

// sel.round servers=<n> rf=<r> shards=<e>;<e>;... : one rebalancing round of the real scheduler
// (balancer.VerifRebalanceRound: rebalanceEnsemble over a configuration and a status given as values). The
// cluster has the servers 0..n-1; an ensemble is a '.'-separated list of server numbers, numbers >= n are servers
// that have been removed from the cluster. The swaps the round proposes are applied the way the shard controller
// applies them (replaceInList); the answer lists the ensembles afterwards. Which server the scheduler picks is a
// matter of load and tie-breaks: the answer is not compared with a model ("~"), the oracle checks the property:
// every ensemble keeps RF distinct servers.

func roundServer(i int) model.Server {
	return model.Server{Public: fmt.Sprintf("s%d:6648", i), Internal: fmt.Sprintf("s%d:6649", i)}
}

func c19Round(kv map[string]string) string {
	n, _ := strconv.Atoi(kv["servers"])
	rf, _ := strconv.Atoi(kv["rf"])
	cfg := model.ClusterConfig{
		Namespaces:     []model.NamespaceConfig{{Name: "default", InitialShardCount: 1, ReplicationFactor: uint32(rf)}},
		ServerMetadata: map[string]model.ServerMetadata{},
	}
	for i := 0; i < n; i++ {
		cfg.Servers = append(cfg.Servers, roundServer(i))
	}
	ensembles := map[int64][]model.Server{}
	shards := map[int64]model.ShardMetadata{}
	var ids []int64
	for k, e := range strings.Split(kv["shards"], ";") {
		var esm []model.Server
		for _, t := range strings.Split(e, ".") {
			i, _ := strconv.Atoi(t)
			esm = append(esm, roundServer(i))
		}
		ensembles[int64(k)] = esm
		shards[int64(k)] = model.ShardMetadata{Status: model.ShardStatusSteadyState, Ensemble: append([]model.Server{}, esm...)}
		ids = append(ids, int64(k))
	}
	status := &model.ClusterStatus{Namespaces: map[string]model.NamespaceStatus{"default": {ReplicationFactor: uint32(rf), Shards: shards}}}
	swaps, finished := balancer.VerifRebalanceRound(cfg, status, 10*time.Second)
	if !finished {
		return "hang"
	}
	for _, sw := range swaps {
		var res []model.Server
		for _, m := range ensembles[sw.Shard] {
			if m.GetIdentifier() != sw.From.GetIdentifier() {
				res = append(res, m)
			}
		}
		ensembles[sw.Shard] = append(res, sw.To)
	}
	var parts []string
	for _, id := range ids {
		var ms []string
		for _, m := range ensembles[id] {
			ms = append(ms, strings.TrimSuffix(strings.TrimPrefix(m.Internal, "s"), ":6649"))
		}
		parts = append(parts, strings.Join(ms, "."))
	}
	return fmt.Sprintf("~round swaps=%d ens=%s", len(swaps), strings.Join(parts, ";"))
}

// c19RoundOracle: "" or what is wrong with the ensembles after the round
func c19RoundOracle(kv map[string]string, out string) string {
	rf, _ := strconv.Atoi(kv["rf"])
	i := strings.Index(out, "ens=")
	if i < 0 {
		return ""
	}
	for k, e := range strings.Split(out[i+4:], ";") {
		ms := strings.Split(e, ".")
		seen := map[string]bool{}
		for _, m := range ms {
			if seen[m] {
				return fmt.Sprintf("after one rebalancing round (servers 0..%s in the cluster, ensembles %s before) the ensemble of shard %d is [%s]: server %s is in it twice, the shard has %d distinct servers instead of %d", kv["servers"], kv["shards"], k, e, m, len(seen), rf)
			}
			seen[m] = true
		}
		if len(ms) != rf {
			return fmt.Sprintf("after one rebalancing round the ensemble of shard %d has %d members instead of %d: [%s]", k, len(ms), rf, e)
		}
	}
	return ""
}

func genRounds(rng *rand.Rand, n int) []core.Case {
	var ops []string
	for i := 0; i < n; i++ {
		servers := 3 + rng.Intn(4)
		rf := 2 + rng.Intn(2)
		removed := rng.Intn(3) // servers servers..servers+removed-1 have been removed from the cluster
		var shards []string
		for s := 0; s < 2+rng.Intn(4); s++ {
			perm := rng.Perm(servers + removed)
			var e []string
			for _, p := range perm[:rf] {
				e = append(e, strconv.Itoa(p))
			}
			shards = append(shards, strings.Join(e, "."))
		}
		ops = append(ops, fmt.Sprintf("sel.round servers=%d rf=%d shards=%s", servers, rf, strings.Join(shards, ";")))
	}
	// two removed servers hold the same shard (observation D-61)
	ops = append(ops, "sel.round servers=5 rf=3 shards=5.6.0;0.2.4;0.2.4;0.2.4")
	return []core.Case{{Name: "balancer-rounds", Ops: ops}}
}
