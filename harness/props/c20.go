package props

import (
	"context"
	"errors"
	"fmt"
	"io"
	"math/rand"
	"sort"
	"strconv"
	"strings"
	"sync"
	"time"

	"google.golang.org/grpc"
	"google.golang.org/grpc/codes"
	"google.golang.org/grpc/status"

	"github.com/oxia-db/oxia/common/compare"
	"github.com/oxia-db/oxia/oxia"
	"github.com/oxia-db/oxia/oxia/batch"
	"github.com/oxia-db/oxia/proto"

	"oxverif/harness/core"
)

// C20: the client's batcher loop, write/read batches, multi-shard comparison get and the k-way merge of
// the multi-shard range scan, against M-Batch. Every op is a self-contained script run on the real
// batchers with a fake executor that tags each answer with the request it answers.
type C20 struct{}

const (
	c20Linger = 150 * time.Millisecond
	c20Idle   = 450 * time.Millisecond
	c20Burst  = 50 * time.Millisecond // a burst of Adds must be much shorter than the linger time
)

func (C20) Timeout() time.Duration { return 120 * time.Second }

func (C20) Generate(rng *rand.Rand, tier string) []core.Case {
	n := 400
	if tier == "thorough" {
		n = 6000
	}
	var cases []core.Case
	var ops []string
	flush := func(i int) {
		if len(ops) > 0 {
			cases = append(cases, core.Case{Name: fmt.Sprintf("batch-%d", i), Ops: ops})
			ops = nil
		}
	}
	for i := 0; i < n; i++ {
		switch rng.Intn(10) {
		case 0, 1, 2:
			ops = append(ops, genBatcherOp(rng))
		case 3:
			// one write batch, mixed kinds, scripted executor
			k := 1 + rng.Intn(8)
			kinds := make([]string, k)
			for j := range kinds {
				kinds[j] = []string{"P", "P", "D", "R"}[rng.Intn(4)]
			}
			ops = append(ops, fmt.Sprintf("wb.run kinds=%s script=%s", strings.Join(kinds, ","), genScript(rng, false, k)))
		case 4:
			k := 1 + rng.Intn(8)
			ops = append(ops, fmt.Sprintf("rb.run n=%d script=%s", k, genScript(rng, true, k)))
		case 5, 6, 7:
			ops = append(ops, genMultiGet(rng))
		default:
			ops = append(ops, genMerge(rng))
		}
		if len(ops) >= 12 {
			flush(i)
		}
	}
	flush(n)
	// the write stream wrapper: sends, callers that give up, responses, a broken stream
	cases = append(cases, core.Case{Name: "stream-late-response", Ops: []string{"ws.run script=t1,s2,r,r", "ws.run script=s1,t2,s3,r,r,r", "ws.run script=t1,t2,s3,r,r,r,s4,r"}})
	// range scans over one shard (partition key) or several, with failing requests and broken streams
	var rops []string
	nr := 8
	if tier == "thorough" {
		nr = 200
	}
	for i := 0; i < nr; i++ {
		k := 1 + rng.Intn(3)
		single := rng.Intn(2)
		if single == 1 {
			k = 1
		}
		var sh []string
		for j := 0; j < k; j++ {
			switch rng.Intn(4) {
			case 0:
				sh = append(sh, "e")
			case 1:
				sh = append(sh, fmt.Sprintf("k%d1+k%d2+x", j, j))
			default:
				sh = append(sh, fmt.Sprintf("k%d1+k%d2+k%d3", j, j, j))
			}
		}
		rops = append(rops, fmt.Sprintf("rs.run single=%d shards=%s", single, strings.Join(sh, ";")))
	}
	// multi-shard list: the union of the per-shard streams, one error per failing shard
	var lops []string
	for i := 0; i < nr; i++ {
		k := 1 + rng.Intn(4)
		single := 0
		if rng.Intn(4) == 0 {
			single = 1
		}
		var sh []string
		for j := 0; j < k; j++ {
			if rng.Intn(6) == 0 {
				sh = append(sh, "e")
				continue
			}
			var items []string
			nk := 0
			for b := rng.Intn(4); b > 0; b-- {
				var ks []string
				for q := 1 + rng.Intn(3); q > 0; q-- {
					nk++
					ks = append(ks, fmt.Sprintf("k%d%d", j, nk))
				}
				items = append(items, strings.Join(ks, "."))
			}
			if rng.Intn(5) == 0 {
				items = append(items, "x")
				if rng.Intn(2) == 0 {
					items = append(items, fmt.Sprintf("late%d", j))
				}
			}
			if len(items) == 0 {
				sh = append(sh, "_")
			} else {
				sh = append(sh, strings.Join(items, "+"))
			}
		}
		lops = append(lops, fmt.Sprintf("ls.run single=%d shards=%s", single, strings.Join(sh, ";")))
	}
	cases = append(cases, core.Case{Name: "list-cancel", Ops: []string{"ls.cancel shards=2", "ls.cancel shards=4"}})
	cases = append(cases, core.Case{Name: "list-fan-out", Ops: append([]string{"ls.run single=0 shards=k1.k2+k3;e;k4+x+k5;_"}, lops...)})
	cases = append(cases, core.Case{Name: "range-scan-errors", Ops: append([]string{"rs.run single=1 shards=e", "rs.run single=0 shards=k1+k2;e"}, rops...)})
	nw := 12
	if tier == "thorough" {
		nw = 300
	}
	var wops []string
	for i := 0; i < nw; i++ {
		wops = append(wops, genStreamOp(rng.Intn))
		if len(wops) == 4 {
			cases = append(cases, core.Case{Name: fmt.Sprintf("stream-%d", i), Ops: wops})
			wops = nil
		}
	}
	if len(wops) > 0 {
		cases = append(cases, core.Case{Name: "stream-last", Ops: wops})
	}
	return cases
}

func genBatcherOp(rng *rand.Rand) string {
	linger := rng.Intn(3) // 0 = immediate; >0 = timer based
	if linger > 1 {
		linger = 1
	}
	mode := "w"
	maxBytes := 40 + rng.Intn(200)
	if rng.Intn(3) == 0 {
		mode = "r"
		maxBytes = 0
	}
	maxReq := 1 + rng.Intn(6)
	if rng.Intn(4) == 0 {
		maxReq = 1000
	}
	nev := 1 + rng.Intn(12)
	var evs []string
	id := 0
	timers := 0
	for j := 0; j < nev; j++ {
		switch r := rng.Intn(12); {
		case r == 0 && linger > 0 && timers < 2:
			evs = append(evs, "t")
			timers++
		case r == 1 && j > nev/2:
			evs = append(evs, "x")
		default:
			size := 8 + rng.Intn(60)
			if rng.Intn(15) == 0 {
				size = 200 + rng.Intn(100) // may exceed the batch limit on its own
			}
			evs = append(evs, fmt.Sprintf("c%d:%d", id, size))
			id++
		}
	}
	return fmt.Sprintf("b.run mode=%s linger=%d maxreq=%d maxbytes=%d ev=%s", mode, linger, maxReq, maxBytes, strings.Join(evs, ","))
}

func genScript(rng *rand.Rand, read bool, n int) string {
	var s []string
	for rng.Intn(4) == 0 && len(s) < 2 {
		if read {
			s = append(s, fmt.Sprintf("r%d", rng.Intn(n+1)))
		} else {
			s = append(s, "r")
		}
	}
	switch r := rng.Intn(30); {
	case r == 0:
		if read {
			s = append(s, fmt.Sprintf("f%d", rng.Intn(n+1)))
		} else {
			s = append(s, "f")
		}
	default:
		s = append(s, "o")
	}
	return strings.Join(s, ",")
}

var c20Keys = []string{"a", "b", "a/b", "a/c", "b/a", "aa", "a/b/c", "/", "c", "ab", "a/", "b/b", "z", "a/a/a", "0"}

func genMultiGet(rng *rand.Rand) string {
	n := 1 + rng.Intn(5)
	cmp := []string{"eq", "floor", "ceil", "lower", "higher"}[rng.Intn(5)]
	ans := make([]string, n)
	for i := range ans {
		switch r := rng.Intn(10); {
		case r < 5:
			ans[i] = "f:" + core.Hex([]byte(c20Keys[rng.Intn(len(c20Keys))]))
		case r < 8:
			ans[i] = "n"
		default:
			ans[i] = "e"
		}
	}
	order := rng.Perm(n)
	os := make([]string, n)
	for i, o := range order {
		os[i] = fmt.Sprint(o)
	}
	return fmt.Sprintf("mg.run cmp=%s ans=%s order=%s", cmp, strings.Join(ans, ","), strings.Join(os, ","))
}

func genMerge(rng *rand.Rand) string {
	k := 1 + rng.Intn(5)
	lists := make([][]string, k)
	for _, key := range c20Keys {
		if rng.Intn(3) == 0 {
			continue
		}
		j := rng.Intn(k)
		lists[j] = append(lists[j], key)
		if rng.Intn(12) == 0 { // the same key on a second shard
			j2 := rng.Intn(k)
			if j2 != j {
				lists[j2] = append(lists[j2], key)
			}
		}
	}
	var parts []string
	for _, l := range lists {
		sort.Slice(l, func(a, b int) bool { return compare.CompareWithSlash([]byte(l[a]), []byte(l[b])) < 0 })
		hs := make([]string, len(l))
		for i, x := range l {
			hs[i] = core.Hex([]byte(x))
		}
		parts = append(parts, strings.Join(hs, ","))
	}
	return "km.run lists=" + strings.Join(parts, ";")
}

// ---- fake executor ----

type c20Exec struct {
	sync.Mutex
	batches  [][]int // ids of the calls of every executed request, in request order
	wscript  []string
	rscript  []string
	attempts int
}

func idOfKey(k string) int {
	// keys are "k<id>" padded with '.'
	k = strings.TrimRight(k, ".")
	n, err := strconv.Atoi(strings.TrimPrefix(k, "k"))
	if err != nil {
		return -1
	}
	return n
}

func keyOfID(id, size int) string {
	k := fmt.Sprintf("k%d", id)
	for len(k) < size {
		k += "."
	}
	return k
}

func (e *c20Exec) next(script *[]string) string {
	if len(*script) == 0 {
		return "o"
	}
	s := (*script)[0]
	if len(*script) > 1 {
		*script = (*script)[1:]
	} else if strings.HasPrefix(s, "r") {
		// the script ran out while still failing: keep failing until the request times out
	} else {
		*script = nil
	}
	return s
}

func (e *c20Exec) ExecuteWrite(_ context.Context, req *proto.WriteRequest) (*proto.WriteResponse, error) {
	e.Lock()
	defer e.Unlock()
	e.attempts++
	switch s := e.next(&e.wscript); {
	case s == "r":
		return nil, status.Error(codes.Unavailable, "unavailable")
	case s == "f":
		return nil, status.Error(codes.Internal, "internal")
	}
	var ids []int
	res := &proto.WriteResponse{}
	for _, p := range req.Puts {
		id := idOfKey(p.Key)
		ids = append(ids, id)
		res.Puts = append(res.Puts, &proto.PutResponse{Status: proto.Status_OK, Version: &proto.Version{VersionId: int64(id)}})
	}
	for _, d := range req.Deletes {
		id := idOfKey(d.Key)
		ids = append(ids, id)
		res.Deletes = append(res.Deletes, &proto.DeleteResponse{Status: proto.Status(id % 3)})
	}
	for _, d := range req.DeleteRanges {
		id := idOfKey(d.StartInclusive)
		ids = append(ids, id)
		res.DeleteRanges = append(res.DeleteRanges, &proto.DeleteRangeResponse{Status: proto.Status(id % 3)})
	}
	e.batches = append(e.batches, ids)
	return res, nil
}

type c20ReadStream struct {
	grpc.ClientStream
	msgs []*proto.ReadResponse
	err  error
}

func (s *c20ReadStream) Recv() (*proto.ReadResponse, error) {
	if len(s.msgs) > 0 {
		m := s.msgs[0]
		s.msgs = s.msgs[1:]
		return m, nil
	}
	if s.err != nil {
		return nil, s.err
	}
	return nil, io.EOF
}

func (e *c20Exec) ExecuteRead(_ context.Context, req *proto.ReadRequest) (proto.OxiaClient_ReadClient, error) {
	e.Lock()
	defer e.Unlock()
	e.attempts++
	s := e.next(&e.rscript)
	all := make([]*proto.GetResponse, len(req.Gets))
	var ids []int
	for i, g := range req.Gets {
		k := g.Key
		ids = append(ids, idOfKey(k))
		all[i] = &proto.GetResponse{Status: proto.Status_OK, Key: &k, Version: &proto.Version{VersionId: int64(idOfKey(k))}}
	}
	chunks := func(l []*proto.GetResponse) []*proto.ReadResponse {
		// the server may split the answer over several stream messages
		var res []*proto.ReadResponse
		for len(l) > 0 {
			c := 1 + len(l)/2
			res = append(res, &proto.ReadResponse{Gets: l[:c]})
			l = l[c:]
		}
		return res
	}
	if s == "o" {
		e.batches = append(e.batches, ids)
		return &c20ReadStream{msgs: chunks(all)}, nil
	}
	k, _ := strconv.Atoi(s[1:])
	if k > len(all) {
		k = len(all)
	}
	code := codes.Unavailable
	if s[0] == 'f' {
		code = codes.Internal
	}
	return &c20ReadStream{msgs: chunks(all[:k]), err: status.Error(code, "stream broke")}, nil
}

func (e *c20Exec) ExecuteList(context.Context, *proto.ListRequest) (proto.OxiaClient_ListClient, error) {
	return nil, errors.New("unused")
}

func (e *c20Exec) ExecuteRangeScan(context.Context, *proto.RangeScanRequest) (proto.OxiaClient_RangeScanClient, error) {
	return nil, errors.New("unused")
}

// ---- result recording ----

type c20Results struct {
	sync.Mutex
	got map[int][]string
}

func (r *c20Results) record(id int, tag int64, err error) {
	r.Lock()
	defer r.Unlock()
	var s string
	switch {
	case err == nil:
		s = fmt.Sprint(tag)
	case errors.Is(err, batch.ErrShuttingDown):
		s = "x"
	case status.Code(err) == codes.Internal:
		s = "fatal"
	case errors.Is(err, context.DeadlineExceeded) || status.Code(err) == codes.Unavailable || status.Code(err) == codes.DeadlineExceeded:
		s = "timeout"
	default:
		s = "err:" + strings.ReplaceAll(err.Error(), " ", "_")
	}
	r.got[id] = append(r.got[id], s)
}

func (r *c20Results) of(id int) string {
	r.Lock()
	defer r.Unlock()
	g := r.got[id]
	switch len(g) {
	case 0:
		return "NONE"
	case 1:
		return g[0]
	}
	return "DUP(" + strings.Join(g, "/") + ")"
}

func c20kv(f []string) map[string]string {
	kv := map[string]string{}
	for _, t := range f[1:] {
		if i := strings.Index(t, "="); i > 0 {
			kv[t[:i]] = t[i+1:]
		}
	}
	return kv
}

func c20Batcher(kv map[string]string) string {
	linger := time.Duration(0)
	if kv["linger"] != "0" {
		linger = c20Linger
	}
	maxReq, _ := strconv.Atoi(kv["maxreq"])
	maxBytes, _ := strconv.Atoi(kv["maxbytes"])
	read := kv["mode"] == "r"
	for attempt := 0; ; attempt++ {
		ex := &c20Exec{}
		res := &c20Results{got: map[int][]string{}}
		b := oxia.NewVerifBatchers(ex, linger, maxReq, maxBytes, 5*time.Second)
		closed := false
		var ids []int
		unreliable := false
		burstStart := time.Now()
		for _, ev := range strings.Split(kv["ev"], ",") {
			switch {
			case ev == "t":
				time.Sleep(c20Idle)
				burstStart = time.Now()
			case ev == "x":
				if !closed {
					// let the run loop take what was added before the close
					time.Sleep(20 * time.Millisecond)
					b.Close()
					closed = true
					time.Sleep(20 * time.Millisecond)
				}
			case strings.HasPrefix(ev, "c"):
				p := strings.Split(ev[1:], ":")
				id, _ := strconv.Atoi(p[0])
				size, _ := strconv.Atoi(p[1])
				ids = append(ids, id)
				key := keyOfID(id, size)
				if read {
					b.Get(key, func(r *proto.GetResponse, err error) {
						tag := int64(-1)
						if r != nil {
							tag = r.GetVersion().GetVersionId()
						}
						res.record(id, tag, err)
					})
				} else {
					b.Put(key, nil, func(r *proto.PutResponse, err error) {
						tag := int64(-1)
						if r != nil {
							tag = r.GetVersion().GetVersionId()
						}
						res.record(id, tag, err)
					})
				}
			}
			if linger > 0 && time.Since(burstStart) > c20Burst+40*time.Millisecond {
				unreliable = true
			}
		}
		if !closed {
			time.Sleep(20 * time.Millisecond)
			b.Close()
		}
		// wait for every callback (bounded)
		deadline := time.Now().Add(3 * time.Second)
		for time.Now().Before(deadline) {
			done := true
			for _, id := range ids {
				if res.of(id) == "NONE" {
					done = false
				}
			}
			if done {
				break
			}
			time.Sleep(2 * time.Millisecond)
		}
		time.Sleep(5 * time.Millisecond) // a duplicate callback would arrive now
		if unreliable && attempt < 3 {
			continue
		}
		ex.Lock()
		batches := ex.batches
		ex.Unlock()
		where := map[int]int{}
		var bs []string
		for bi, bt := range batches {
			var s []string
			for _, id := range bt {
				where[id] = bi
				s = append(s, fmt.Sprint(id))
			}
			bs = append(bs, strings.Join(s, "+"))
		}
		sort.Ints(ids)
		var outs []string
		for _, id := range ids {
			r := res.of(id)
			if r == fmt.Sprint(id) {
				if bi, ok := where[id]; ok {
					r = fmt.Sprintf("b%d", bi)
				} else {
					r = "UNEXECUTED"
				}
			} else if _, err := strconv.Atoi(r); err == nil {
				r = "WRONG(" + r + ")"
			}
			outs = append(outs, fmt.Sprintf("%d:%s", id, r))
		}
		out := strings.Join(outs, " ") + " B[" + strings.Join(bs, "|") + "] open=_"
		if unreliable {
			return "~" + out
		}
		return out
	}
}

func c20WriteBatch(kv map[string]string) string {
	kinds := strings.Split(kv["kinds"], ",")
	ex := &c20Exec{wscript: strings.Split(kv["script"], ",")}
	res := &c20Results{got: map[int][]string{}}
	b := oxia.NewVerifBatchers(ex, 30*time.Second, len(kinds), 1<<30, 1200*time.Millisecond)
	defer b.Close()
	for id, k := range kinds {
		id := id
		key := keyOfID(id, 0)
		switch k {
		case "P":
			b.Put(key, []byte("v"), func(r *proto.PutResponse, err error) {
				tag := int64(-1)
				if r != nil {
					tag = r.GetVersion().GetVersionId()
				}
				res.record(id, tag, err)
			})
		case "D":
			b.Delete(key, func(r *proto.DeleteResponse, err error) {
				tag := int64(-1)
				if r != nil && int(r.Status) == id%3 {
					tag = int64(id)
				}
				res.record(id, tag, err)
			})
		case "R":
			b.DeleteRange(key, key+"~", func(r *proto.DeleteRangeResponse, err error) {
				tag := int64(-1)
				if r != nil && int(r.Status) == id%3 {
					tag = int64(id)
				}
				res.record(id, tag, err)
			})
		}
	}
	return c20Wait(res, len(kinds))
}

func c20Wait(res *c20Results, n int) string {
	deadline := time.Now().Add(6 * time.Second)
	for time.Now().Before(deadline) {
		done := true
		for id := 0; id < n; id++ {
			if res.of(id) == "NONE" {
				done = false
			}
		}
		if done {
			break
		}
		time.Sleep(2 * time.Millisecond)
	}
	time.Sleep(3 * time.Millisecond)
	outs := make([]string, n)
	for id := 0; id < n; id++ {
		outs[id] = fmt.Sprintf("%d=%s", id, res.of(id))
	}
	return strings.Join(outs, " ")
}

func c20ReadBatch(kv map[string]string) string {
	n, _ := strconv.Atoi(kv["n"])
	ex := &c20Exec{rscript: strings.Split(kv["script"], ",")}
	res := &c20Results{got: map[int][]string{}}
	b := oxia.NewVerifBatchers(ex, 30*time.Second, n, 1<<30, 1200*time.Millisecond)
	defer b.Close()
	for id := 0; id < n; id++ {
		id := id
		b.Get(keyOfID(id, 0), func(r *proto.GetResponse, err error) {
			tag := int64(-1)
			if r != nil {
				tag = r.GetVersion().GetVersionId()
			}
			res.record(id, tag, err)
		})
	}
	return c20Wait(res, n)
}

func c20Cmp(s string) proto.KeyComparisonType {
	switch s {
	case "floor":
		return proto.KeyComparisonType_FLOOR
	case "ceil":
		return proto.KeyComparisonType_CEILING
	case "lower":
		return proto.KeyComparisonType_LOWER
	case "higher":
		return proto.KeyComparisonType_HIGHER
	}
	return proto.KeyComparisonType_EQUAL
}

func c20MultiGet(kv map[string]string) string {
	ans := strings.Split(kv["ans"], ",")
	cbs := map[int64]func(*proto.GetResponse, error){}
	ch := oxia.VerifMultiShardGet(len(ans), "q", c20Cmp(kv["cmp"]), func(shard int64, cb func(*proto.GetResponse, error)) {
		cbs[shard] = cb
	})
	panicked := false
	for _, o := range strings.Split(kv["order"], ",") {
		i, err := strconv.Atoi(o)
		if err != nil || i >= len(ans) || cbs[int64(i)] == nil {
			continue
		}
		a := ans[i]
		cb := cbs[int64(i)]
		func() {
			defer func() {
				if r := recover(); r != nil {
					panicked = true
				}
			}()
			switch {
			case a == "n":
				cb(&proto.GetResponse{Status: proto.Status_KEY_NOT_FOUND}, nil)
			case a == "e":
				cb(nil, status.Error(codes.Internal, "shard failed"))
			default:
				k := core.UnHex(a[2:])
				ks := string(k)
				cb(&proto.GetResponse{Status: proto.Status_OK, Key: &ks, Version: &proto.Version{}}, nil)
			}
		}()
		if panicked {
			break
		}
	}
	var sent []string
	for {
		select {
		case r, ok := <-ch:
			if !ok {
				goto done
			}
			switch {
			case r.Err != nil && errors.Is(r.Err, oxia.ErrKeyNotFound):
				sent = append(sent, "nf")
			case r.Err != nil:
				sent = append(sent, "fail")
			default:
				sent = append(sent, "v:"+core.Hex([]byte(r.Key)))
			}
			continue
		default:
		}
		break
	}
done:
	out := "sent=" + strings.Join(sent, ",")
	if panicked {
		out = "panic " + out
	}
	return out
}

func c20Merge(kv map[string]string) string {
	var per [][]oxia.GetResult
	if kv["lists"] != "_" {
		for _, l := range strings.Split(kv["lists"], ";") {
			var rs []oxia.GetResult
			if l != "" {
				for _, h := range strings.Split(l, ",") {
					k := core.UnHex(h)
					rs = append(rs, oxia.GetResult{Key: string(k)})
				}
			}
			per = append(per, rs)
		}
	}
	res := oxia.VerifMergeRangeScan(per)
	out := make([]string, len(res))
	for i, r := range res {
		out[i] = core.Hex([]byte(r.Key))
	}
	return strings.Join(out, ",")
}

func c20op(op string) string {
	f := strings.Fields(op)
	kv := c20kv(f)
	switch f[0] {
	case "b.run":
		return c20Batcher(kv)
	case "wb.run":
		return c20WriteBatch(kv)
	case "rb.run":
		return c20ReadBatch(kv)
	case "mg.run":
		return c20MultiGet(kv)
	case "km.run":
		return c20Merge(kv)
	case "ws.run":
		return c20Stream(kv)
	case "rs.run":
		return c20RangeScan(kv)
	case "ls.run":
		return c20List(kv)
	case "ls.cancel":
		return c20ListCancel(op, kv)
	}
	return "bad-op"
}

func (C20) Exec(ops []string, outs []string) {
	for i, o := range ops {
		o := o
		outs[i] = core.Safe(func() string { return c20op(o) })
	}
}

// Oracle: the property recomputed on the real outputs, without the model.
func (C20) Oracle(ops, impl, model []string) string {
	for i, o := range ops {
		if i >= len(impl) {
			break
		}
		out := strings.TrimPrefix(impl[i], "~")
		f := strings.Fields(o)
		kv := c20kv(f)
		if out == "hang" {
			return fmt.Sprintf("op %d: the client blocked forever: %s", i, o)
		}
		if strings.HasPrefix(out, "panic:") {
			return fmt.Sprintf("op %d: panic in the client library: %s", i, out)
		}
		switch f[0] {
		case "b.run":
			if msg := c20BatcherOracle(kv, out, strings.HasPrefix(impl[i], "~")); msg != "" {
				return fmt.Sprintf("op %d: %s (%s)", i, msg, out)
			}
		case "ls.cancel":
			if !strings.HasPrefix(out, "closed=true errs="+kv["shards"]+" ") {
				return fmt.Sprintf("op %d: a list over %s shards whose caller cancels the context while the shards are still sending: %q (every shard's stream ends with the cancellation error; the channel has to be closed after all of them have been delivered)", i, kv["shards"], out)
			}
		case "ls.run":
			if want := c20ListExpected(kv); out != want {
				return fmt.Sprintf("op %d: a list over the shards %s delivers %q; the union of what the shards deliver is %q", i, kv["shards"], out, want)
			}
		case "rs.run":
			if strings.HasPrefix(out, "closed=false") {
				return fmt.Sprintf("op %d: the range scan never completes: its result channel is not closed (%s)", i, out)
			}
		case "ws.run":
			for _, t := range strings.Fields(out) {
				p := strings.SplitN(t, "=", 2)
				if len(p) != 2 {
					continue
				}
				switch {
				case p[1] == "DUP":
					return fmt.Sprintf("op %d: request %s on the write stream completed more than once", i, p[0])
				case p[1] == "timeout" || p[1] == "eof" || p[1] == "NONE" || p[1] == "err":
				case p[1] != p[0]:
					return fmt.Sprintf("op %d: request %s on the write stream was completed with the response to request %s", i, p[0], p[1])
				}
			}
		case "wb.run", "rb.run":
			for _, t := range strings.Fields(out) {
				p := strings.SplitN(t, "=", 2)
				if len(p) != 2 {
					continue
				}
				switch {
				case p[1] == "NONE":
					return fmt.Sprintf("op %d: call %s never completed", i, p[0])
				case strings.HasPrefix(p[1], "DUP"):
					return fmt.Sprintf("op %d: call %s completed more than once: %s", i, p[0], p[1])
				case p[1] == "fatal" || p[1] == "timeout" || p[1] == "x":
				case p[1] != p[0]:
					return fmt.Sprintf("op %d: call %s completed with the result of another operation (%s)", i, p[0], p[1])
				}
			}
		case "mg.run":
			if msg := c20MultiGetOracle(kv, out); msg != "" {
				return fmt.Sprintf("op %d: multi-shard get: %s (%s)", i, msg, out)
			}
		case "km.run":
			if msg := c20MergeOracle(kv, out); msg != "" {
				return fmt.Sprintf("op %d: range-scan merge: %s", i, msg)
			}
		}
	}
	return ""
}

func c20BatcherOracle(kv map[string]string, out string, unreliable bool) string {
	maxReq, _ := strconv.Atoi(kv["maxreq"])
	maxBytes, _ := strconv.Atoi(kv["maxbytes"])
	sizes := map[string]int{}
	var order []string
	for _, ev := range strings.Split(kv["ev"], ",") {
		if strings.HasPrefix(ev, "c") {
			p := strings.Split(ev[1:], ":")
			sizes[p[0]], _ = strconv.Atoi(p[1])
			order = append(order, p[0])
		}
	}
	bi := strings.Index(out, " B[")
	head := out
	if len(order) == 0 {
		bi = strings.Index(out, "B[")
		head = ""
	} else if bi >= 0 {
		head = out[:bi]
	}
	completed := map[string]string{}
	for _, t := range strings.Fields(head) {
		p := strings.SplitN(t, ":", 2)
		if len(p) != 2 {
			continue
		}
		switch {
		case p[1] == "NONE":
			return "call " + p[0] + " never completed"
		case strings.HasPrefix(p[1], "DUP"):
			return "call " + p[0] + " completed more than once"
		case strings.HasPrefix(p[1], "WRONG"):
			return "call " + p[0] + " completed with the result of another operation"
		case p[1] == "UNEXECUTED":
			return "call " + p[0] + " reported success without having been executed"
		case strings.HasPrefix(p[1], "b"):
			completed[p[0]] = p[1]
		}
	}
	if bi < 0 {
		return ""
	}
	bs := out[bi:]
	bs = bs[strings.Index(bs, "[")+1 : strings.Index(bs, "]")]
	var flat []string
	if bs != "" {
		for _, b := range strings.Split(bs, "|") {
			ids := strings.Split(b, "+")
			total := 0
			for _, id := range ids {
				total += sizes[id]
				flat = append(flat, id)
			}
			if len(ids) > maxReq {
				return fmt.Sprintf("a batch of %d requests exceeds the limit %d", len(ids), maxReq)
			}
			if maxBytes > 0 && total > maxBytes && len(ids) > 1 {
				return fmt.Sprintf("a batch of %d bytes exceeds the limit %d", total, maxBytes)
			}
		}
	}
	// linger bound: a call submitted before an idle period (longer than the linger time, batcher open) is
	// executed by the end of it, in a batch without any call submitted after the idle period
	if kv["linger"] != "0" && !unreliable {
		epoch := 0
		closed := false
		epochOf := map[string]int{}
		mustRun := map[string]bool{}
		var pending []string
		for _, ev := range strings.Split(kv["ev"], ",") {
			switch {
			case ev == "t":
				if !closed {
					for _, id := range pending {
						mustRun[id] = true
					}
				}
				pending = nil
				epoch++
			case ev == "x":
				closed = true
			case strings.HasPrefix(ev, "c"):
				id := strings.Split(ev[1:], ":")[0]
				epochOf[id] = epoch
				if !closed {
					pending = append(pending, id)
				}
			}
		}
		batchOf := map[string][]string{}
		if bs != "" {
			for _, b := range strings.Split(bs, "|") {
				ids := strings.Split(b, "+")
				for _, id := range ids {
					batchOf[id] = ids
				}
			}
		}
		for id := range mustRun {
			b, ok := batchOf[id]
			if !ok {
				return "call " + id + " was still waiting after an idle period longer than the linger time"
			}
			for _, o := range b {
				if epochOf[o] > epochOf[id] {
					return "call " + id + " waited for call " + o + " across an idle period longer than the linger time"
				}
			}
		}
	}
	// executed batches, concatenated, are the completed calls in submission order, each exactly once
	var want []string
	for _, id := range order {
		if _, ok := completed[id]; ok {
			want = append(want, id)
		}
	}
	if strings.Join(flat, ",") != strings.Join(want, ",") {
		return fmt.Sprintf("the executed batches %v are not the completed calls %v in submission order", flat, want)
	}
	return ""
}

func c20MultiGetOracle(kv map[string]string, out string) string {
	if strings.HasPrefix(out, "panic") {
		return "a per-shard callback panicked (send on a closed result channel)"
	}
	ans := strings.Split(kv["ans"], ",")
	sent := strings.TrimPrefix(out, "sent=")
	var results []string
	if sent != "" {
		results = strings.Split(sent, ",")
	}
	if len(results) != 1 {
		return fmt.Sprintf("the operation completed %d times", len(results))
	}
	anyErr := false
	var found [][]byte
	for _, a := range ans {
		if a == "e" {
			anyErr = true
		} else if strings.HasPrefix(a, "f:") {
			k := core.UnHex(a[2:])
			found = append(found, k)
		}
	}
	if anyErr {
		// the error of a shard may or may not arrive before the result is complete; since every
		// shard is invoked by the script, the error does arrive
		if results[0] != "fail" {
			return "a shard failed but the operation reported success"
		}
		return ""
	}
	if len(found) == 0 {
		if results[0] != "nf" {
			return "no shard has a record but the result is " + results[0]
		}
		return ""
	}
	if !strings.HasPrefix(results[0], "v:") {
		return "a shard has a record but the result is " + results[0]
	}
	got := core.UnHex(results[0][2:])
	switch kv["cmp"] {
	case "eq":
		for _, k := range found {
			if string(k) == string(got) {
				return ""
			}
		}
		return "the result is no shard's answer"
	case "floor", "lower":
		for _, k := range found {
			if compare.CompareWithSlash(k, got) > 0 {
				return fmt.Sprintf("the result %q is not the highest of the per-shard answers", got)
			}
		}
	default:
		for _, k := range found {
			if compare.CompareWithSlash(k, got) < 0 {
				return fmt.Sprintf("the result %q is not the lowest of the per-shard answers", got)
			}
		}
	}
	for _, k := range found {
		if string(k) == string(got) {
			return ""
		}
	}
	return "the result is no shard's answer"
}

func c20MergeOracle(kv map[string]string, out string) string {
	var in []string
	if kv["lists"] != "_" {
		for _, l := range strings.Split(kv["lists"], ";") {
			if l != "" {
				in = append(in, strings.Split(l, ",")...)
			}
		}
	}
	var got []string
	if out != "" {
		got = strings.Split(out, ",")
	}
	for i := 1; i < len(got); i++ {
		a := core.UnHex(got[i-1])
		b := core.UnHex(got[i])
		if compare.CompareWithSlash(a, b) > 0 {
			return fmt.Sprintf("results out of key order: %q before %q", a, b)
		}
	}
	a := append([]string{}, in...)
	b := append([]string{}, got...)
	sort.Strings(a)
	sort.Strings(b)
	if strings.Join(a, ",") != strings.Join(b, ",") {
		return fmt.Sprintf("the merged result is not the union of the per-shard results (%d in, %d out)", len(a), len(b))
	}
	return ""
}

func (C20) Nontrivial(ops []string, outs []string) bool {
	for i, o := range ops {
		if i < len(outs) && (strings.Contains(o, ",t") || strings.Contains(o, "script=r") || strings.Contains(o, "e")) {
			return true
		}
	}
	return false
}
