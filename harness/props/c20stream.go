package props

import (
	"context"
	"errors"
	"fmt"
	"io"
	"os"
	"oxverif/harness/core"
	"sort"
	"strconv"
	"strings"
	"sync"
	"time"

	"google.golang.org/grpc/metadata"

	"github.com/oxia-db/oxia/oxia"
	"github.com/oxia-db/oxia/proto"
)

// The client's write stream wrapper (oxia/internal/write_stream.go) over a stream of the harness: requests
// and responses are matched by position only; a request whose caller has given up (timeout) still owns its
// position, so that the late response does not reach the next request.

type fakeWriteStream struct {
	ctx    context.Context
	cancel context.CancelFunc
	mu     sync.Mutex
	sent   []int // ids of the requests the "leader" has received and not yet answered
	resp   chan *proto.WriteResponse
}

func (f *fakeWriteStream) Send(r *proto.WriteRequest) error {
	if f.ctx.Err() != nil {
		return io.EOF
	}
	id, _ := strconv.Atoi(strings.TrimPrefix(r.Puts[0].Key, "k"))
	f.mu.Lock()
	f.sent = append(f.sent, id)
	f.mu.Unlock()
	return nil
}

func (f *fakeWriteStream) Recv() (*proto.WriteResponse, error) {
	select {
	case r := <-f.resp:
		return r, nil
	case <-f.ctx.Done():
		return nil, io.EOF
	}
}

// answer: the leader answers its oldest unanswered request (version id = id of the request)
func (f *fakeWriteStream) answer() bool {
	f.mu.Lock()
	if len(f.sent) == 0 {
		f.mu.Unlock()
		return false
	}
	id := f.sent[0]
	f.sent = f.sent[1:]
	f.mu.Unlock()
	f.resp <- &proto.WriteResponse{Puts: []*proto.PutResponse{{Status: proto.Status_OK, Version: &proto.Version{VersionId: int64(id)}}}}
	return true
}

func (f *fakeWriteStream) Header() (metadata.MD, error) { return nil, nil }
func (f *fakeWriteStream) Trailer() metadata.MD         { return nil }
func (f *fakeWriteStream) CloseSend() error             { return nil }
func (f *fakeWriteStream) Context() context.Context     { return f.ctx }
func (f *fakeWriteStream) SendMsg(any) error            { return errors.New("not used") }
func (f *fakeWriteStream) RecvMsg(any) error            { return errors.New("not used") }

// ws.run script=s1,t2,r,s3,r,r[,x]: sN = request N is sent (its caller waits), tN = request N is sent and its
// caller gives up after 60 ms (the op waits for that), r = the leader answers its oldest unanswered request,
// x = the stream breaks. Output: for every request what its caller got.
func c20Stream(kv map[string]string) string {
	ctx, cancel := context.WithCancel(context.Background())
	defer cancel()
	fs := &fakeWriteStream{ctx: ctx, cancel: cancel, resp: make(chan *proto.WriteResponse, 64)}
	sw := oxia.VerifNewStreamWrapper(1, fs)
	var mu sync.Mutex
	got := map[int]string{}
	var order []int
	var wg sync.WaitGroup
	send := func(id int, timeout time.Duration, wait bool) {
		order = append(order, id)
		cctx, ccancel := context.WithTimeout(context.Background(), timeout)
		wg.Add(1)
		started := make(chan struct{})
		done := make(chan struct{})
		go func() {
			defer wg.Done()
			defer ccancel()
			defer close(done)
			close(started)
			r, err := sw.Send(cctx, &proto.WriteRequest{Puts: []*proto.PutRequest{{Key: fmt.Sprintf("k%d", id), Value: []byte("v")}}})
			res := ""
			switch {
			case err == nil && r != nil && len(r.Puts) == 1 && r.Puts[0].Version != nil:
				res = fmt.Sprint(r.Puts[0].Version.VersionId)
			case errors.Is(err, context.DeadlineExceeded):
				res = "timeout"
			case errors.Is(err, io.EOF):
				res = "eof"
			default:
				res = "err"
			}
			mu.Lock()
			if _, dup := got[id]; dup {
				res = "DUP"
			}
			got[id] = res
			mu.Unlock()
		}()
		<-started
		// the request is on the stream when the leader has it
		for i := 0; i < 400; i++ {
			fs.mu.Lock()
			n := len(fs.sent)
			fs.mu.Unlock()
			mu.Lock()
			_, finished := got[id]
			mu.Unlock()
			if n > 0 || finished {
				break
			}
			time.Sleep(time.Millisecond)
		}
		time.Sleep(2 * time.Millisecond)
		if wait {
			<-done
		}
	}
	for _, tok := range strings.Split(kv["script"], ",") {
		switch {
		case tok == "r":
			fs.answer()
			time.Sleep(8 * time.Millisecond) // the response is handed to its request
		case tok == "x":
			cancel()
			time.Sleep(10 * time.Millisecond)
		case strings.HasPrefix(tok, "s"):
			id, _ := strconv.Atoi(tok[1:])
			send(id, 5*time.Second, false)
		case strings.HasPrefix(tok, "t"):
			id, _ := strconv.Atoi(tok[1:])
			send(id, 60*time.Millisecond, true)
		}
	}
	time.Sleep(20 * time.Millisecond)
	var parts []string
	mu.Lock()
	for _, id := range order {
		r, ok := got[id]
		if !ok {
			r = "NONE"
		}
		parts = append(parts, fmt.Sprintf("%d=%s", id, r))
	}
	mu.Unlock()
	cancel()
	done := make(chan struct{})
	go func() { wg.Wait(); close(done) }()
	select {
	case <-done:
	case <-time.After(6 * time.Second):
	}
	return strings.Join(parts, " ")
}

func genStreamOp(rngIntn func(int) int) string {
	n := 2 + rngIntn(5)
	var toks []string
	unanswered := 0
	id := 0
	for id < n {
		switch r := rngIntn(6); {
		case r < 3:
			id++
			toks = append(toks, fmt.Sprintf("s%d", id))
			unanswered++
		case r == 3:
			id++
			toks = append(toks, fmt.Sprintf("t%d", id))
			unanswered++
		default:
			if unanswered > 0 {
				toks = append(toks, "r")
				unanswered--
			}
		}
	}
	for unanswered > 0 && rngIntn(4) > 0 {
		toks = append(toks, "r")
		unanswered--
	}
	if rngIntn(5) == 0 {
		toks = append(toks, "x")
	}
	return "ws.run script=" + strings.Join(toks, ",")
}

// ---- range scan: every call completes (its result channel is closed), whatever fails ----

type rsExec struct {
	scripts []string // per shard: "e" = the request fails; "k1+k2" records then end of stream; "k1+x" records then an error
}

func (e *rsExec) ExecuteWrite(context.Context, *proto.WriteRequest) (*proto.WriteResponse, error) {
	return nil, errors.New("not used")
}
func (e *rsExec) ExecuteRead(context.Context, *proto.ReadRequest) (proto.OxiaClient_ReadClient, error) {
	return nil, errors.New("not used")
}
func (e *rsExec) ExecuteList(ctx context.Context, r *proto.ListRequest) (proto.OxiaClient_ListClient, error) {
	s := ""
	if int(*r.Shard) < len(e.scripts) {
		s = e.scripts[*r.Shard]
	}
	if s == "e" {
		return nil, errors.New("shard unavailable")
	}
	var items []string
	if s != "" && s != "_" {
		items = strings.Split(s, "+")
	}
	return &lsStream{rsStream{ctx: ctx, items: items}}, nil
}

// lsStream: every item is one response; its keys are separated by '.'
type lsStream struct{ rsStream }

func (s *lsStream) Recv() (*proto.ListResponse, error) {
	if len(s.items) == 0 {
		return nil, io.EOF
	}
	it := s.items[0]
	s.items = s.items[1:]
	if it == "x" {
		return nil, errors.New("stream broken")
	}
	return &proto.ListResponse{Keys: strings.Split(it, ".")}, nil
}

// ls.run single=0|1 shards=a.b+c;e;d+x : the client's List over a fake executor: what arrives on the result
// channel (keys sorted: the order across shards is a matter of timing), how many errors, and whether the
// channel gets closed
func c20List(kv map[string]string) string {
	scripts := strings.Split(kv["shards"], ";")
	res, closed := oxia.VerifList(&rsExec{scripts: scripts}, len(scripts), kv["single"] == "1", 1500*time.Millisecond)
	errs := 0
	var keys []string
	for _, r := range res {
		if r.Err != nil {
			errs++
		} else {
			keys = append(keys, r.Keys...)
		}
	}
	sort.Strings(keys)
	ks := strings.Join(keys, ",")
	if ks == "" {
		ks = "_"
	}
	return fmt.Sprintf("closed=%v errs=%d keys=%s", closed, errs, ks)
}

// c20ListExpected: the property, straight from the script: the union of what the shards deliver before they
// fail, one error per failing shard
func c20ListExpected(kv map[string]string) string {
	scripts := strings.Split(kv["shards"], ";")
	if kv["single"] == "1" {
		scripts = scripts[:1]
	}
	errs := 0
	var keys []string
	for _, s := range scripts {
		if s == "e" {
			errs++
			continue
		}
		if s == "" || s == "_" {
			continue
		}
		for _, it := range strings.Split(s, "+") {
			if it == "x" {
				errs++
				break
			}
			keys = append(keys, strings.Split(it, ".")...)
		}
	}
	sort.Strings(keys)
	ks := strings.Join(keys, ",")
	if ks == "" {
		ks = "_"
	}
	return fmt.Sprintf("closed=true errs=%d keys=%s", errs, ks)
}
func (e *rsExec) ExecuteRangeScan(ctx context.Context, r *proto.RangeScanRequest) (proto.OxiaClient_RangeScanClient, error) {
	s := ""
	if int(*r.Shard) < len(e.scripts) {
		s = e.scripts[*r.Shard]
	}
	if s == "e" {
		return nil, errors.New("shard unavailable")
	}
	var items []string
	if s != "" && s != "_" {
		items = strings.Split(s, "+")
	}
	return &rsStream{ctx: ctx, items: items}, nil
}

type rsStream struct {
	ctx   context.Context
	items []string
}

func (s *rsStream) Recv() (*proto.RangeScanResponse, error) {
	if len(s.items) == 0 {
		return nil, io.EOF
	}
	it := s.items[0]
	s.items = s.items[1:]
	if it == "x" {
		return nil, errors.New("stream broken")
	}
	return &proto.RangeScanResponse{Records: []*proto.GetResponse{{Status: proto.Status_OK, Key: &it, Value: []byte("v"), Version: &proto.Version{}}}}, nil
}
func (s *rsStream) Header() (metadata.MD, error) { return nil, nil }
func (s *rsStream) Trailer() metadata.MD         { return nil }
func (s *rsStream) CloseSend() error             { return nil }
func (s *rsStream) Context() context.Context     { return s.ctx }
func (s *rsStream) SendMsg(any) error            { return errors.New("not used") }
func (s *rsStream) RecvMsg(any) error            { return errors.New("not used") }

// rs.run single=0|1 shards=a+b;e;c+x
func c20RangeScan(kv map[string]string) string {
	scripts := strings.Split(kv["shards"], ";")
	res, closed := oxia.VerifRangeScan(&rsExec{scripts: scripts}, len(scripts), kv["single"] == "1", 1500*time.Millisecond)
	hasErr := false
	n := 0
	for _, r := range res {
		if r.Err != nil {
			hasErr = true
		} else {
			n++
		}
	}
	if hasErr {
		return fmt.Sprintf("closed=%v err=true", closed)
	}
	return fmt.Sprintf("closed=%v err=false n=%d", closed, n)
}

// ---- a list whose caller cancels its context (or whose deadline passes) while the shards are still sending ----

// lcExec: every shard delivers one key and then waits for the end of the context, as a gRPC stream does; the
// cancellation surfaces as an error after a delay that differs per shard
type lcExec struct{ rsExec }

func (e *lcExec) ExecuteList(ctx context.Context, r *proto.ListRequest) (proto.OxiaClient_ListClient, error) {
	return &lcStream{rsStream: rsStream{ctx: ctx}, shard: *r.Shard}, nil
}

type lcStream struct {
	rsStream
	shard int64
	n     int
}

func (s *lcStream) Recv() (*proto.ListResponse, error) {
	s.n++
	if s.n == 1 {
		return &proto.ListResponse{Keys: []string{fmt.Sprintf("k%d", s.shard)}}, nil
	}
	<-s.ctx.Done()
	time.Sleep(time.Duration(10+20*s.shard) * time.Millisecond)
	return nil, s.ctx.Err()
}

// ls.cancel shards=K : the caller reads the first K results, cancels, and drains the channel
func c20ListCancel(op string, kv map[string]string) string {
	if os.Getenv("OXV_ISOLATED") == "" {
		return core.Isolated("C20", op, 20*time.Second)
	}
	var k int
	fmt.Sscan(kv["shards"], &k)
	res, closed := oxia.VerifListCancel(&lcExec{}, k, k, 3*time.Second)
	time.Sleep(time.Duration(100+20*k) * time.Millisecond) // goroutines that are still sending
	errs := 0
	var keys []string
	for _, r := range res {
		if r.Err != nil {
			errs++
		} else {
			keys = append(keys, r.Keys...)
		}
	}
	sort.Strings(keys)
	return fmt.Sprintf("closed=%v errs=%d keys=%s", closed, errs, strings.Join(keys, ","))
}
