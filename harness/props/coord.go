package props

import (
	"fmt"
	"math/rand"
	"sort"
	"strconv"
	"strings"
	"time"

	"oxverif/harness/cluster"
	"oxverif/harness/core"
)

// Scripts with the coordinator's real shard controller (ops k.*): nothing here is compared with the model
// (the controller's retries and the order of answers are a matter of timing); the oracle works on the log of
// RPCs and metadata writes.

func (e *protoExec) kop(op string) string {
	f := strings.Fields(op)
	kvs := c20kv(f)
	atoi := func(s string) int { v, _ := strconv.Atoi(s); return v }
	switch f[0] {
	case "k.init":
		e.close()
		e.n = atoi(kvs["n"])
		if e.n == 0 {
			e.n = 3
		}
		e.rf = atoi(kvs["rf"])
		if e.rf == 0 {
			e.rf = 3
		}
		var err error
		if e.c, err = cluster.NewP(e.n); err != nil {
			return "~err:" + err.Error()
		}
		e.k = cluster.NewCoord(e.c)
		e.unrel = false
		return "~ok"
	}
	if e.c == nil || e.k == nil {
		return "~bad-op"
	}
	leader := func() int { return e.k.Leader() }
	switch f[0] {
	case "k.fault":
		e.k.Fault(f[1], atoi(f[2]), f[3], atoi(f[4]))
		return "~ok"
	case "k.start":
		e.k.Start(e.rf)
		return "~ok"
	case "k.wait":
		if e.k.WaitSteady(20 * time.Second) {
			return "~steady"
		}
		return "~not-steady"
	case "k.write":
		// a client that retries on the node the coordinator names as leader
		for try := 0; try < 40; try++ {
			l := leader()
			if l >= 0 {
				if r := e.c.Write(l, atoi(f[1]), 1500*time.Millisecond); r == "ok" {
					return "~acked"
				}
			}
			time.Sleep(50 * time.Millisecond)
		}
		return "~not-acked"
	case "k.cutleader":
		if l := leader(); l >= 0 {
			e.c.Cut(l)
			e.k.NodeFailed(l)
			return fmt.Sprintf("~cut n%d", l)
		}
		return "~no-leader"
	case "k.cut":
		e.c.Cut(atoi(f[1]))
		e.k.NodeFailed(atoi(f[1]))
		return "~ok"
	case "k.cutraw":
		// the node drops off the network without the coordinator noticing
		e.c.Cut(atoi(f[1]))
		return "~ok"
	case "k.heal":
		e.c.Heal(atoi(f[1]))
		return "~ok"
	case "k.healall":
		for i := 0; i < e.n; i++ {
			e.c.Heal(i)
		}
		return "~ok"
	case "k.lagswap":
		// leader L, followers A and B of the ensemble {0,1,2}: B is cut, two writes are acknowledged by L and
		// A, L drops off unnoticed, B comes back, A is swapped for node 3
		l := leader()
		if l < 0 {
			return "~no-leader"
		}
		var fs []int
		for i := 0; i < 3; i++ {
			if i != l {
				fs = append(fs, i)
			}
		}
		a, b := fs[0], fs[1]
		e.c.Cut(b)
		r1 := e.c.Write(l, 9001, 1500*time.Millisecond)
		r2 := e.c.Write(l, 9002, 1500*time.Millisecond)
		e.c.Cut(l)
		e.c.Heal(b)
		res := e.k.Swap(a, 3)
		ack := ""
		if r1 == "ok" {
			ack += " acked=9001"
		}
		if r2 == "ok" {
			ack += " acked=9002"
		}
		return "~lagswap " + res + ack
	case "k.swap":
		return "~" + e.k.Swap(atoi(f[1]), atoi(f[2]))
	case "k.log":
		e.c.WaitSettled(5 * time.Second)
		l := leader()
		vis := "-"
		if l >= 0 {
			v := e.c.View(l)
			var ids []string
			for o, x := range v.Log {
				if int64(o) <= v.Commit {
					ids = append(ids, x[strings.Index(x, ":")+1:])
				}
			}
			vis = strings.Join(ids, ",")
		}
		return fmt.Sprintf("~log leader=%d term=%d vis=%s || %s || %s", l, e.k.Term(), vis, strings.Join(e.k.Log(), " | "), e.stateTwoPass())
	}
	return "~bad-op"
}

// genCoordCase: the controller under faults of its own RPCs, leader failures and a node swap
func genCoordCase(rng *rand.Rand, i int) []string {
	id := 100 * (i + 1)
	w := func() string { id++; return fmt.Sprintf("k.write %d", id) }
	rpcs := []string{"newterm", "lead", "add"}
	modes := []string{"drop", "lose"}
	fault := func() string {
		return fmt.Sprintf("k.fault %s %d %s %d", rpcs[rng.Intn(len(rpcs))], rng.Intn(4)-1, modes[rng.Intn(2)], 1+rng.Intn(2))
	}
	switch i % 4 {
	case 0:
		// the reply of the first accepted BecomeLeader is lost: the election is retried
		return []string{"k.init n=3 rf=3", "k.fault lead -1 lose 1", "k.start", "k.wait", w(), w(), "k.log"}
	case 1:
		ops := []string{"k.init n=3 rf=3", fault(), "k.start", "k.wait", w(), fault(), fault(), "k.cutleader", "k.wait", w(), "k.healall", w(), "k.log"}
		return ops
	case 2:
		if i%8 == 2 {
			// a node swap while the leader is away and the other remaining member lags: the removed node is
			// the only reachable holder of the acknowledged entries (known finding D-41 - here with the real
			// shard controller; which follower is cut decides whether the writes are lost)
			return []string{"k.init n=4 rf=3", "k.start", "k.wait", w(), "k.lagswap", "k.wait", "k.log"}
		}
		// a node swap
		ops := []string{"k.init n=4 rf=3", "k.start", "k.wait", w(), w()}
		if rng.Intn(2) == 0 {
			ops = append(ops, fault())
		}
		ops = append(ops, fmt.Sprintf("k.swap %d 3", rng.Intn(3)), "k.wait", w(), "k.log")
		return ops
	default:
		ops := []string{"k.init n=3 rf=3"}
		for j := rng.Intn(3); j > 0; j-- {
			ops = append(ops, fault())
		}
		ops = append(ops, "k.start", "k.wait", w())
		for j := 1 + rng.Intn(2); j > 0; j-- {
			ops = append(ops, fault(), "k.cutleader", "k.wait", w(), "k.healall")
		}
		ops = append(ops, w(), "k.log")
		return ops
	}
}

func genCoordCases(rng *rand.Rand, tier, which string) []core.Case {
	n := 8
	if tier == "thorough" {
		n = 150
	}
	var cases []core.Case
	for i := 0; i < n; i++ {
		cases = append(cases, core.Case{Name: fmt.Sprintf("coord-%s-%d", which, i), Ops: genCoordCase(rng, i)})
	}
	return cases
}

// coordOracle: what the log of a coordinator script has to satisfy (C05; acknowledged writes for C01)
func coordOracle(ops, impl []string, which string) string {
	acked := []string{}
	for i, o := range ops {
		if i >= len(impl) {
			break
		}
		out := impl[i]
		if strings.HasPrefix(o, "k.write ") && out == "~acked" {
			acked = append(acked, strings.Fields(o)[1])
		}
		if strings.HasPrefix(out, "~lagswap ") {
			for _, x := range strings.Fields(out) {
				if strings.HasPrefix(x, "acked=") {
					acked = append(acked, strings.TrimPrefix(x, "acked="))
				}
			}
		}
		if !strings.HasPrefix(out, "~log ") {
			continue
		}
		parts := strings.Split(strings.TrimPrefix(out, "~log "), " || ")
		if len(parts) < 2 {
			continue
		}
		head := strings.Fields(parts[0])
		vis := ""
		for _, h := range head {
			if strings.HasPrefix(h, "vis=") {
				vis = strings.TrimPrefix(h, "vis=")
			}
		}
		events := strings.Split(parts[1], " | ")
		acceptedBy := map[int]map[string]bool{} // term -> nodes that accepted BecomeLeader
		curElection := -1                       // term of the last metadata write with status Election
		maxSent := -1                           // highest term sent in any request so far
		blSent := map[int]bool{}                // terms for which a BecomeLeader has been sent
		type ans struct {
			node       string
			term, off  int
		}
		var answers []ans
		ens := map[string]bool{}
		nAll := 0
		swapTag := ""
		for _, ev := range events {
			f := strings.Fields(ev)
			if len(f) == 0 {
				continue
			}
			kv := c20kv(f)
			num := func(s string) int { v, _ := strconv.Atoi(s); return v }
			switch f[0] {
			case "MD":
				t := num(kv["term"])
				if kv["status"] == "Election" {
					if which == "C05" && (t <= curElection || blSent[t] || t <= maxSent) {
						return fmt.Sprintf("op %d: the coordinator starts an election attempt in term %d, a term it has already used (last attempt: term %d, highest term sent: %d): two leaders can be installed in one term", i, t, curElection, maxSent)
					}
					curElection = t
					answers = nil
					ens = map[string]bool{}
					for _, x := range strings.Split(kv["ens"], "+") {
						if x != "" {
							ens[x] = true
						}
					}
					nAll = len(ens)
					for _, x := range strings.Split(kv["removed"], "+") {
						if x != "" && !ens[x] {
							nAll++
						}
					}
				}
			case "NT":
				t := num(strings.TrimPrefix(f[2], "t="))
				if which == "C05" && t != curElection {
					return fmt.Sprintf("op %d: a NewTerm request carries term %d, the term in the metadata store is %d (%s)", i, t, curElection, ev)
				}
				if t > maxSent {
					maxSent = t
				}
				if len(f) >= 5 && strings.HasPrefix(f[4], "head=") && !strings.Contains(ev, "reply lost") {
					h := strings.Split(strings.TrimPrefix(f[4], "head="), ":")
					answers = append(answers, ans{f[1], num(h[0]), num(h[1])})
				}
			case "BL":
				t := num(strings.TrimPrefix(f[2], "t="))
				blSent[t] = true
				if which == "C05" && t != curElection {
					return fmt.Sprintf("op %d: a BecomeLeader request carries term %d, the term in the metadata store is %d (%s)", i, t, curElection, ev)
				}
				if which == "C05" {
					// the fencing quorum and the choice of the best head
					if len(answers) < nAll/2+1 {
						return fmt.Sprintf("op %d: BecomeLeader is sent in term %d with %d new-term answers, a majority of %d nodes is needed (%s)", i, t, len(answers), nAll, ev)
					}
					var mine *ans
					for k := range answers {
						if answers[k].node == f[1] {
							mine = &answers[k]
						}
					}
					if mine == nil || !ens[f[1]] {
						return fmt.Sprintf("op %d: BecomeLeader is sent to %s, which is not a member of the ensemble that answered the new-term request of term %d (%s)", i, f[1], t, ev)
					}
					for _, a := range answers {
						if !ens[a.node] && (a.term > mine.term || (a.term == mine.term && a.off > mine.off)) {
							swapTag = " [after a node-swap election: the removed node counts for the fencing majority but is no candidate]"
						}
					}
					for _, a := range answers {
						if ens[a.node] && (a.term > mine.term || (a.term == mine.term && a.off > mine.off)) {
							return fmt.Sprintf("op %d: BecomeLeader of term %d goes to %s with head %d:%d although %s answered with the higher head %d:%d", i, t, f[1], mine.term, mine.off, a.node, a.term, a.off)
						}
					}
				}
				if which == "C01" {
					var mine *ans
					for k := range answers {
						if answers[k].node == f[1] {
							mine = &answers[k]
						}
					}
					for _, a := range answers {
						if mine != nil && !ens[a.node] && (a.term > mine.term || (a.term == mine.term && a.off > mine.off)) {
							swapTag = " [after a node-swap election: the removed node counts for the fencing majority but is no candidate]"
						}
					}
				}
				if strings.Contains(ev, "-> ok") {
					if acceptedBy[t] == nil {
						acceptedBy[t] = map[string]bool{}
					}
					acceptedBy[t][f[1]] = true
					if which == "C05" && len(acceptedBy[t]) > 1 {
						var ns []string
						for n := range acceptedBy[t] {
							ns = append(ns, n)
						}
						sort.Strings(ns)
						return fmt.Sprintf("op %d: %s have both accepted BecomeLeader in term %d", i, strings.Join(ns, " and "), t)
					}
				}
			}
		}
		if which == "C01" && len(head) > 0 && !strings.Contains(parts[0], "leader=-1") {
			seen := map[string]bool{}
			for _, id := range strings.Split(vis, ",") {
				seen[id] = true
			}
			for _, id := range acked {
				if !seen[id] {
					l, t := "?", "?"
					for _, h := range head {
						if strings.HasPrefix(h, "leader=") {
							l = strings.TrimPrefix(h, "leader=")
						}
						if strings.HasPrefix(h, "term=") {
							t = strings.TrimPrefix(h, "term=")
						}
					}
					return fmt.Sprintf("op %d: the acknowledged write %s is not in the committed log of the leader n%s (term %s)%s", i, id, l, t, swapTag)
				}
			}
		}
	}
	return ""
}
