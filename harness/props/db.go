package props

import (
	"context"
	"errors"
	"fmt"
	"math/rand"
	"os"
	"sort"
	"strconv"
	"strings"
	"sync/atomic"
	"time"
	"unicode/utf8"

	"github.com/oxia-db/oxia/common/compare"
	time2 "github.com/oxia-db/oxia/common/time"
	"github.com/oxia-db/oxia/proto"
	"github.com/oxia-db/oxia/server"
	"github.com/oxia-db/oxia/server/kv"

	"oxverif/harness/core"
)

// dbExec runs db.* / idx.* operation lines on a real kv.DB (Pebble, in-memory VFS) with the
// callbacks the leader, the followers and the replay path use (server.WrapperUpdateOperationCallback).
type dbExec struct {
	factory kv.Factory
	db      kv.DB
	clock   *time2.MockedClock
	notif   bool
	dir     string              // non-empty: on-disk store (programs with restarts)
	subs    []kv.SequenceWaiter // sequence-update subscribers (sq.* ops)
	seen    []string            // what each of them has observed last ("\x00none" = nothing yet)
	tainted bool                // a write failed as a whole after it had told subscribers about keys
}

func (e *dbExec) close() {
	if e.db != nil {
		_ = e.db.Close()
		e.db = nil
	}
	if e.factory != nil {
		_ = e.factory.Close()
		e.factory = nil
	}
	if e.dir != "" {
		_ = os.RemoveAll(e.dir)
		e.dir = ""
	}
}

func (e *dbExec) open(notif bool, disk bool) error {
	e.close()
	opts := &kv.FactoryOptions{InMemory: true, CacheSizeMB: 4, DataDir: "db"}
	if disk {
		dir, err := os.MkdirTemp(workTmp(), "db-")
		if err != nil {
			return err
		}
		e.dir = dir
		opts = &kv.FactoryOptions{InMemory: false, CacheSizeMB: 4, DataDir: dir}
	}
	f, err := kv.NewPebbleKVFactory(opts)
	if err != nil {
		return err
	}
	e.factory = f
	e.clock = &time2.MockedClock{}
	d, err := kv.NewDB("ns", 1, f, 1*time.Hour, e.clock)
	if err != nil {
		return err
	}
	d.EnableNotifications(notif)
	e.db = d
	e.notif = notif
	return nil
}

func optI(s string) *int64 {
	if s == "_" {
		return nil
	}
	v, _ := strconv.ParseInt(s, 10, 64)
	return &v
}

func optS(s string) *string {
	if s == "_" {
		return nil
	}
	v := string(core.UnHex(s))
	return &v
}

func parseWriteOp(f []string) (*proto.WriteRequest, int64, uint64) {
	req := &proto.WriteRequest{}
	var off int64
	var ts uint64
	for _, t := range f[1:] {
		switch {
		case strings.HasPrefix(t, "off="):
			off, _ = strconv.ParseInt(t[4:], 10, 64)
		case strings.HasPrefix(t, "ts="):
			ts, _ = strconv.ParseUint(t[3:], 10, 64)
		case strings.HasPrefix(t, "P:"):
			p := strings.Split(t, ":")
			pr := &proto.PutRequest{Key: string(core.UnHex(p[1])), Value: core.UnHex(p[2]), ExpectedVersionId: optI(p[3]),
				SessionId: optI(p[4]), ClientIdentity: optS(p[5]), PartitionKey: optS(p[6])}
			if p[7] != "_" {
				for _, d := range strings.Split(p[7], ",") {
					v, _ := strconv.ParseUint(d, 10, 64)
					pr.SequenceKeyDelta = append(pr.SequenceKeyDelta, v)
				}
			}
			if p[8] != "_" {
				for _, ix := range strings.Split(p[8], ";") {
					nk := strings.Split(ix, "=")
					pr.SecondaryIndexes = append(pr.SecondaryIndexes, &proto.SecondaryIndex{IndexName: string(core.UnHex(nk[0])), SecondaryKey: string(core.UnHex(nk[1]))})
				}
			}
			req.Puts = append(req.Puts, pr)
		case strings.HasPrefix(t, "D:"):
			p := strings.Split(t, ":")
			req.Deletes = append(req.Deletes, &proto.DeleteRequest{Key: string(core.UnHex(p[1])), ExpectedVersionId: optI(p[2])})
		case strings.HasPrefix(t, "R:"):
			p := strings.Split(t, ":")
			req.DeleteRanges = append(req.DeleteRanges, &proto.DeleteRangeRequest{StartInclusive: string(core.UnHex(p[1])), EndExclusive: string(core.UnHex(p[2]))})
		}
	}
	return req, off, ts
}

func showOptI(p *int64) string {
	if p == nil {
		return "_"
	}
	return fmt.Sprint(*p)
}

func showOptS(p *string) string {
	if p == nil {
		return "_"
	}
	return core.Hex([]byte(*p))
}

func showStatus(s proto.Status) string {
	switch s {
	case proto.Status_OK:
		return "ok"
	case proto.Status_KEY_NOT_FOUND:
		return "notfound"
	case proto.Status_UNEXPECTED_VERSION_ID:
		return "badver"
	case proto.Status_SESSION_DOES_NOT_EXIST:
		return "nosession"
	}
	return "status" + fmt.Sprint(int(s))
}

func showVersion(v *proto.Version) string {
	return fmt.Sprintf("v=%d,mc=%d,ct=%d,mt=%d,s=%s,c=%s", v.VersionId, v.ModificationsCount, v.CreatedTimestamp, v.ModifiedTimestamp,
		showOptI(v.SessionId), showOptS(v.ClientIdentity))
}

func dbInfra(err error) string {
	switch {
	case errors.Is(err, kv.ErrMissingPartitionKey):
		return "err:missing-partition-key"
	case errors.Is(err, kv.ErrMissingSequenceDeltas):
		return "err:missing-sequence-deltas"
	case errors.Is(err, kv.ErrSequenceDeltaIsZero):
		return "err:sequence-delta-zero"
	case strings.Contains(err.Error(), "Deserialize"):
		return "err:deserialize"
	case strings.Contains(err.Error(), "expected integer") || strings.Contains(err.Error(), "unexpected EOF") || strings.Contains(err.Error(), "out of range") || strings.Contains(err.Error(), "EOF"):
		return "err:scanf"
	}
	return "err:other:" + strings.ReplaceAll(err.Error(), " ", "_")
}

func showNotifBatch(nb *proto.NotificationBatch) string {
	keys := make([]string, 0, len(nb.Notifications))
	for k := range nb.Notifications {
		keys = append(keys, k)
	}
	sort.Strings(keys) // bytewise, as the model's sortNotifs
	parts := make([]string, len(keys))
	for i, k := range keys {
		n := nb.Notifications[k]
		t := map[proto.NotificationType]string{proto.NotificationType_KEY_CREATED: "C", proto.NotificationType_KEY_MODIFIED: "M",
			proto.NotificationType_KEY_DELETED: "D", proto.NotificationType_KEY_RANGE_DELETED: "R"}[n.Type]
		parts[i] = fmt.Sprintf("%s/%s/%s/%s", core.Hex([]byte(k)), t, showOptI(n.VersionId), showOptS(n.KeyRangeLast))
	}
	return fmt.Sprintf("N(%d,%d,[%s])", nb.Offset, nb.Timestamp, strings.Join(parts, ","))
}

func showIdxList(l []*proto.SecondaryIndex) string {
	if len(l) == 0 {
		return "_"
	}
	ps := make([]string, len(l))
	for i, s := range l {
		ps[i] = core.Hex([]byte(s.IndexName)) + "=" + core.Hex([]byte(s.SecondaryKey))
	}
	return strings.Join(ps, ";")
}

func (e *dbExec) dump() string {
	store := kv.VerifKV(e.db)
	it, err := store.RangeScan("", "")
	if err != nil {
		return "err:" + err.Error()
	}
	defer it.Close()
	var parts []string
	for ; it.Valid(); it.Next() {
		k := it.Key()
		v, err := it.Value()
		if err != nil {
			return "err:" + err.Error()
		}
		var sv string
		switch {
		case len(v) == 0:
			sv = "R(-)"
		case strings.HasPrefix(k, "__oxia/notifications/"):
			nb := &proto.NotificationBatch{}
			if err := nb.UnmarshalVT(v); err != nil {
				sv = "N(err)"
			} else {
				sv = showNotifBatch(nb)
			}
		default:
			se := &proto.StorageEntry{}
			if err := se.UnmarshalVT(v); err != nil {
				sv = "E(err)"
			} else {
				sv = fmt.Sprintf("E(%s,%d,%d,%d,%d,%s,%s,%s,%s)", core.Hex(se.Value), se.VersionId, se.ModificationsCount, se.CreationTimestamp,
					se.ModificationTimestamp, showOptI(se.SessionId), showOptS(se.ClientIdentity), showOptS(se.PartitionKey), showIdxList(se.SecondaryIndexes))
			}
		}
		parts = append(parts, core.Hex([]byte(k))+"="+sv)
	}
	return fmt.Sprintf("n=%d %s", len(parts), strings.Join(parts, " "))
}

func showGetResp(gr *proto.GetResponse, err error) string {
	if err != nil {
		return dbInfra(err)
	}
	if gr.Status != proto.Status_OK {
		return showStatus(gr.Status)
	}
	// an absent and an empty value are the same on the wire
	return fmt.Sprintf("ok(k=%s,val=%s,%s)", showOptS(gr.Key), core.Hex(gr.Value), showVersion(gr.Version))
}

var cmpTypes = map[string]proto.KeyComparisonType{"eq": proto.KeyComparisonType_EQUAL, "floor": proto.KeyComparisonType_FLOOR,
	"ceil": proto.KeyComparisonType_CEILING, "lower": proto.KeyComparisonType_LOWER, "higher": proto.KeyComparisonType_HIGHER}

func (e *dbExec) op(op string) string {
	f := strings.Fields(op)
	if f[0] == "db.new" {
		notif, disk := true, false
		for _, t := range f[1:] {
			if t == "notif=0" {
				notif = false
			}
			if t == "disk=1" {
				disk = true
			}
		}
		if err := e.open(notif, disk); err != nil {
			return "err:" + err.Error()
		}
		return "ok"
	}
	if e.db == nil {
		if err := e.open(true, false); err != nil {
			return "err:" + err.Error()
		}
	}
	switch f[0] {
	case "sq.sub":
		sw, err := e.db.GetSequenceUpdates(string(core.UnHex(f[1])))
		if err != nil {
			return "err:" + err.Error()
		}
		e.subs = append(e.subs, sw)
		e.seen = append(e.seen, "\x00none")
		return fmt.Sprintf("sub=%d", len(e.subs)-1)
	case "sq.subrace":
		// sq.subrace <prefix> <db.write arguments>: a subscriber registers itself, a write with (at least) two
		// puts announces the key of its first put, and only then - before the write is committed - the
		// subscriber's initial read of the committed state happens; the write commits afterwards
		prefix := string(core.UnHex(f[1]))
		req, off, ts := parseWriteOp(append([]string{"db.write"}, f[2:]...))
		reached := make(chan struct{})
		release := make(chan struct{})
		var fired atomic.Bool
		kv.SetVerifYieldHook(e.db, func(p string) {
			if p == "sequence.waiter.added" && fired.CompareAndSwap(false, true) {
				close(reached)
				<-release
			}
		})
		defer kv.SetVerifYieldHook(e.db, nil)
		subDone := make(chan kv.SequenceWaiter, 1)
		go func() {
			sw, err := e.db.GetSequenceUpdates(prefix)
			if err != nil {
				subDone <- nil
				return
			}
			subDone <- sw
		}()
		select {
		case <-reached:
		case <-time.After(2 * time.Second):
			return "err:no-yield"
		}
		var sw kv.SequenceWaiter
		released := false
		cb := &subRaceCallback{inner: server.WrapperUpdateOperationCallback, onSecondPut: func() {
			if !released {
				released = true
				close(release)
				sw = <-subDone
			}
		}}
		resp, err := e.db.ProcessWrite(req, off, ts, cb)
		if !released {
			released = true
			close(release)
			sw = <-subDone
		}
		if sw == nil {
			return "err:sub"
		}
		e.subs = append(e.subs, sw)
		e.seen = append(e.seen, "\x00none")
		if err != nil {
			e.tainted = true
			return dbInfra(err)
		}
		ps := make([]string, len(resp.Puts))
		for i, p := range resp.Puts {
			if p.Status == proto.Status_OK {
				ps[i] = fmt.Sprintf("ok(%s,k=%s)", showVersion(p.Version), showOptS(p.Key))
			} else {
				ps[i] = showStatus(p.Status)
			}
		}
		return fmt.Sprintf("P[%s] sub=%d", strings.Join(ps, " "), len(e.subs)-1)
	case "sq.close":
		var n int
		fmt.Sscan(f[1], &n)
		if n < 0 || n >= len(e.subs) || e.subs[n] == nil {
			return "closed"
		}
		_ = e.subs[n].Close()
		e.subs[n] = nil
		return "ok"
	case "sq.last":
		var n int
		fmt.Sscan(f[1], &n)
		if n < 0 || n >= len(e.subs) || e.subs[n] == nil {
			return "closed"
		}
		if e.tainted {
			// a request that failed as a whole (the poison entry of known finding D-5) has announced keys
			// of its earlier puts, which were never committed: not comparable from here on
			return "~tainted"
		}
		// the override channel holds at most the latest value
		for drained := false; !drained; {
			select {
			case v, ok := <-e.subs[n].Ch():
				if !ok {
					drained = true
				} else {
					e.seen[n] = v
				}
			default:
				drained = true
			}
		}
		if e.seen[n] == "\x00none" {
			return "last=none"
		}
		return "last=" + core.Hex([]byte(e.seen[n]))
	case "db.write":
		req, off, ts := parseWriteOp(f)
		resp, err := e.db.ProcessWrite(req, off, ts, server.WrapperUpdateOperationCallback)
		if err != nil {
			e.tainted = true
			return dbInfra(err)
		}
		ps := make([]string, len(resp.Puts))
		for i, p := range resp.Puts {
			if p.Status == proto.Status_OK {
				ps[i] = fmt.Sprintf("ok(%s,k=%s)", showVersion(p.Version), showOptS(p.Key))
			} else {
				ps[i] = showStatus(p.Status)
			}
		}
		ds := make([]string, len(resp.Deletes))
		for i, d := range resp.Deletes {
			ds[i] = showStatus(d.Status)
		}
		rs := make([]string, len(resp.DeleteRanges))
		for i, r := range resp.DeleteRanges {
			rs[i] = showStatus(r.Status)
		}
		return fmt.Sprintf("P[%s] D[%s] R[%s]", strings.Join(ps, " "), strings.Join(ds, " "), strings.Join(rs, " "))
	case "db.dump":
		return e.dump()
	case "db.tracker":
		return fmt.Sprint(kv.VerifVersionIdTracker(e.db))
	case "db.commit":
		gr, err := e.db.Get(&proto.GetRequest{Key: "__oxia/commit-offset", IncludeValue: true})
		if err != nil {
			return dbInfra(err)
		}
		if gr.Status != proto.Status_OK {
			return "_"
		}
		return core.Hex(gr.Value)
	case "db.reopen":
		// restart of the process: close (flushes), then a new DB object on the same on-disk store
		if e.dir == "" {
			return "ok" // in-memory programs have no restart; the model's reopen is the identity there
		}
		if err := e.db.Close(); err != nil {
			return "err:" + err.Error()
		}
		d, err := kv.NewDB("ns", 1, e.factory, 1*time.Hour, e.clock)
		if err != nil {
			return "err:" + err.Error()
		}
		d.EnableNotifications(e.notif)
		e.db = d
		return "ok"
	case "db.get":
		gr, err := e.db.Get(&proto.GetRequest{Key: string(core.UnHex(f[2])), IncludeValue: f[3] == "1", ComparisonType: cmpTypes[f[1]]})
		return showGetResp(gr, err)
	case "db.list":
		it, err := e.db.List(&proto.ListRequest{StartInclusive: string(core.UnHex(f[1])), EndExclusive: string(core.UnHex(f[2]))})
		if err != nil {
			return dbInfra(err)
		}
		defer it.Close()
		var ks []string
		for ; it.Valid(); it.Next() {
			ks = append(ks, it.Key())
		}
		return showKeys(ks)
	case "db.scan":
		it, err := e.db.RangeScan(&proto.RangeScanRequest{StartInclusive: string(core.UnHex(f[1])), EndExclusive: string(core.UnHex(f[2]))})
		if err != nil {
			return dbInfra(err)
		}
		defer it.Close()
		var rs []string
		for ; it.Valid(); it.Next() {
			gr, err := it.Value()
			if err != nil {
				rs = append(rs, "?=err")
				continue
			}
			rs = append(rs, core.Hex([]byte(*gr.Key))+"="+core.Hex(gr.Value)+","+showVersion(gr.Version))
		}
		return fmt.Sprintf("n=%d %s", len(rs), strings.Join(rs, " "))
	case "db.notifs":
		start, _ := strconv.ParseInt(f[1], 10, 64)
		ctx, cancel := context.WithTimeout(context.Background(), 25*time.Millisecond)
		defer cancel()
		bs, err := e.db.ReadNextNotifications(ctx, start)
		if err != nil {
			if errors.Is(err, context.DeadlineExceeded) {
				return "n=0 "
			}
			return "err:" + strings.ReplaceAll(err.Error(), " ", "_")
		}
		parts := make([]string, len(bs))
		for i, b := range bs {
			parts[i] = showNotifBatch(b)
		}
		return fmt.Sprintf("n=%d %s", len(bs), strings.Join(parts, " "))
	case "db.trim":
		now, _ := strconv.ParseInt(f[1], 10, 64)
		ret, _ := strconv.ParseInt(f[2], 10, 64)
		clk := &time2.MockedClock{}
		clk.Set(now)
		if err := kv.VerifTrimNotifications(e.db, time.Duration(ret)*time.Millisecond, clk); err != nil {
			return "ok" // a failed round (missing batch in the middle) changes nothing; the model does the same
		}
		return "ok"
	case "idx.list":
		name := string(core.UnHex(f[1]))
		it, err := server.VerifSecondaryIndexList(&proto.ListRequest{StartInclusive: string(core.UnHex(f[2])), EndExclusive: string(core.UnHex(f[3])), SecondaryIndexName: &name}, e.db)
		if err != nil {
			return dbInfra(err)
		}
		defer it.Close()
		var ks []string
		for ; it.Valid(); it.Next() {
			ks = append(ks, it.Key())
		}
		return showKeys(ks)
	case "idx.get":
		name := string(core.UnHex(f[1]))
		gr, err := server.VerifSecondaryIndexGet(&proto.GetRequest{Key: string(core.UnHex(f[3])), IncludeValue: true, ComparisonType: cmpTypes[f[2]], SecondaryIndexName: &name}, e.db)
		if err != nil {
			return "error"
		}
		if gr.Status != proto.Status_OK || gr.Key == nil {
			if gr.Key != nil {
				// the index pointed to a record that does not exist
				return fmt.Sprintf("found(pk=%s,sk=%s) %s", core.Hex([]byte(*gr.Key)), showOptS(gr.SecondaryIndexKey), showStatus(gr.Status))
			}
			return "notfound"
		}
		pk := *gr.Key
		sk := gr.SecondaryIndexKey
		gr.Key = nil
		return fmt.Sprintf("found(pk=%s,sk=%s) %s", core.Hex([]byte(pk)), showOptS(sk), showGetResp(gr, nil))
	}
	return "bad-op"
}

// subRaceCallback lets the harness act between the first and the second put of a write request
type subRaceCallback struct {
	inner       kv.UpdateOperationCallback
	puts        int
	onSecondPut func()
}

func (c *subRaceCallback) OnPut(b kv.WriteBatch, r *proto.PutRequest, se *proto.StorageEntry) (proto.Status, error) {
	c.puts++
	if c.puts == 2 {
		c.onSecondPut()
	}
	return c.inner.OnPut(b, r, se)
}
func (c *subRaceCallback) OnDelete(b kv.WriteBatch, key string) error {
	return c.inner.OnDelete(b, key)
}
func (c *subRaceCallback) OnDeleteWithEntry(b kv.WriteBatch, key string, v *proto.StorageEntry) error {
	return c.inner.OnDeleteWithEntry(b, key, v)
}
func (c *subRaceCallback) OnDeleteRange(b kv.WriteBatch, lo string, hi string) error {
	return c.inner.OnDeleteRange(b, lo, hi)
}

func dbExecOps(ops []string, outs []string) {
	e := &dbExec{}
	defer e.close()
	for i, o := range ops {
		o := o
		outs[i] = core.Safe(func() string { return e.op(o) })
	}
}

// ---- generators -----------------------------------------------------------------------------

type dbGen struct {
	utf8Only bool // keep keys valid UTF-8 (the notifications trimmer rejects batches with other keys)
	rng      *rand.Rand
	ops      []string
	off      int64
	ts       uint64
	keys     [][]byte // key alphabet of this program
	sess     []int64
	idxN     []string
	seqPfx   [][]byte
}

var dbKeyAlphabets = [][]string{
	{"a", "b", "a/b", "a/c", "b/a", "a-b", "a.b", "/", "/a", "/a/b", "ab", "a/", "a\x01b", "a b", "k%41", "a\xff", "\xc3("},
	{"/x/1", "/x/2", "/x/10", "/x", "/y/1", "/x/1/a", "/x-1", "x", "y", "z"},
	{"p", "p-1", "p-00000000000000000001", "p-0abc", "p/q", "q", "p.", "p-", "p--1"},
	// first segments of eight bytes and more next to short ones (the abbreviated keys of the write batch's index)
	{"abcdefgh/x", "abcdefgz", "abc/z", "abcdefg", "abcdefgzz", "abbzzzzzz/", "abcd/", "abcdefgh", "abcdefghi/j/k", "abcdefgh/", "abcdefghij", "abcdefgh/x/y"},
}

func (g *dbGen) key() []byte { return g.keys[g.rng.Intn(len(g.keys))] }

// coversInternal: the range [a, b) contains keys of the internal "__oxia/" key space
func coversInternal(a, b []byte) bool {
	return compare.CompareWithSlash(a, []byte("__oxia/~")) <= 0 && compare.CompareWithSlash([]byte("__oxia/"), b) < 0
}

// rangeTok picks a range; unless the program is in "internal" mode it stays clear of "__oxia/"
func (g *dbGen) rangeTok(mode string) string {
	for {
		a, b := g.key(), g.key()
		if compare.CompareWithSlash(a, b) > 0 && g.rng.Intn(4) > 0 {
			a, b = b, a
		}
		if mode != "internal" && coversInternal(a, b) {
			continue
		}
		return fmt.Sprintf("R:%s:%s", core.Hex(a), core.Hex(b))
	}
}

func (g *dbGen) putTok(key []byte, opts map[string]string) string {
	get := func(k string) string {
		if v, ok := opts[k]; ok {
			return v
		}
		return "_"
	}
	val := make([]byte, g.rng.Intn(4))
	g.rng.Read(val)
	return fmt.Sprintf("P:%s:%s:%s:%s:%s:%s:%s:%s", core.Hex(key), core.Hex(val), get("exp"), get("sess"), get("cid"), get("pk"), get("deltas"), get("idx"))
}

func (g *dbGen) write(toks ...string) {
	g.off++
	g.ts += uint64(1 + g.rng.Intn(20))
	g.ops = append(g.ops, fmt.Sprintf("db.write off=%d ts=%d %s", g.off, g.ts, strings.Join(toks, " ")))
}

func (g *dbGen) sessionKeyBytes(s int64) []byte {
	return []byte(fmt.Sprintf("__oxia/session/%016x", s))
}

// randomPutOpts builds the option mix of a put; mode selects the emphasis.
func (g *dbGen) randomPutOpts(mode string, versions []int64) map[string]string {
	o := map[string]string{}
	r := g.rng.Intn(100)
	if r < 35 {
		// expected version: -1, a version seen before, or a stale/random one
		switch g.rng.Intn(4) {
		case 0:
			o["exp"] = "-1"
		case 1, 2:
			if len(versions) > 0 {
				o["exp"] = fmt.Sprint(versions[g.rng.Intn(len(versions))])
			} else {
				o["exp"] = "0"
			}
		default:
			o["exp"] = fmt.Sprint(g.rng.Intn(30))
		}
	}
	if len(g.sess) > 0 && g.rng.Intn(100) < 25 {
		s := g.sess[g.rng.Intn(len(g.sess))]
		if g.rng.Intn(8) == 0 {
			s += 100 // a session that does not exist
		}
		o["sess"] = fmt.Sprint(s)
	}
	if g.rng.Intn(10) == 0 {
		o["cid"] = core.Hex([]byte("c" + fmt.Sprint(g.rng.Intn(3))))
	}
	if g.rng.Intn(6) == 0 || mode == "seq" {
		o["pk"] = core.Hex([]byte("pk"))
	}
	if (mode == "idx" && g.rng.Intn(100) < 70) || g.rng.Intn(100) < 12 {
		n := 1 + g.rng.Intn(2)
		var parts []string
		for i := 0; i < n; i++ {
			name := g.idxN[g.rng.Intn(len(g.idxN))]
			sk := []string{"a", "b", "c", "a/b", "b-1", "zz", "a\x02", "m"}[g.rng.Intn(8)]
			if g.rng.Intn(25) == 0 {
				sk = "" // an empty secondary key is accepted by the write path: the index entry has to stay readable
			}
			parts = append(parts, core.Hex([]byte(name))+"="+core.Hex([]byte(sk)))
		}
		o["idx"] = strings.Join(parts, ";")
	}
	return o
}

func (g *dbGen) program(mode string, nops int) []string {
	g.ops = []string{"db.new notif=1"}
	if g.rng.Intn(8) == 0 && mode != "notif" {
		g.ops[0] = "db.new notif=0"
	}
	disk := g.rng.Intn(6) == 0
	if disk {
		g.ops[0] += " disk=1"
	}
	alpha := dbKeyAlphabets[g.rng.Intn(len(dbKeyAlphabets))]
	if mode == "seq" {
		alpha = dbKeyAlphabets[2]
	}
	g.keys = nil
	for _, k := range alpha {
		if g.utf8Only && !utf8.ValidString(k) {
			continue
		}
		g.keys = append(g.keys, []byte(k))
	}
	g.idxN = []string{"i", "i0", "j", "i1"}[:2+g.rng.Intn(3)]
	g.sess = nil
	var versions []int64
	nextVersion := int64(0)
	for i := 0; i < nops; i++ {
		r := g.rng.Intn(100)
		switch {
		case r < 8: // create a session (what createSession writes)
			s := int64(1 + g.rng.Intn(4))
			g.sess = append(g.sess, s)
			g.write(g.putTok(g.sessionKeyBytes(s), map[string]string{}))
			nextVersion++
		case r < 12 && len(g.sess) > 0: // close a session the way session.delete does: delete shadows' keys then the session
			s := g.sess[g.rng.Intn(len(g.sess))]
			g.write(fmt.Sprintf("D:%s:_", core.Hex(g.sessionKeyBytes(s))))
		case r < 55: // 1..3 puts, sometimes with deletes in the same request
			n := 1 + g.rng.Intn(3)
			var toks []string
			for j := 0; j < n; j++ {
				opts := g.randomPutOpts(mode, versions)
				k := g.key()
				if mode == "seq" && g.rng.Intn(100) < 60 || g.rng.Intn(100) < 6 {
					nd := 1 + g.rng.Intn(3)
					ds := make([]string, nd)
					for x := range ds {
						ds[x] = fmt.Sprint([]uint64{1, 1, 2, 5, 0, 1 << 40, 18446744073709551615, 10}[g.rng.Intn(8)])
					}
					if g.rng.Intn(10) > 0 {
						ds[0] = fmt.Sprint(1 + g.rng.Intn(3))
					}
					opts["deltas"] = strings.Join(ds, ",")
					if g.rng.Intn(12) > 0 {
						opts["pk"] = core.Hex([]byte("pk"))
						delete(opts, "exp")
					}
					k = []byte([]string{"p", "q", "p/q", "s", "a-b", "x-1-y"}[g.rng.Intn(6)])
				}
				toks = append(toks, g.putTok(k, opts))
				versions = append(versions, nextVersion)
				nextVersion++
			}
			if g.rng.Intn(4) == 0 {
				toks = append(toks, fmt.Sprintf("D:%s:_", core.Hex(g.key())))
			}
			if g.rng.Intn(8) == 0 {
				toks = append(toks, g.rangeTok(mode))
			}
			g.write(toks...)
		case r < 68: // deletes
			exp := "_"
			if g.rng.Intn(3) == 0 && len(versions) > 0 {
				exp = fmt.Sprint(versions[g.rng.Intn(len(versions))])
			}
			g.write(fmt.Sprintf("D:%s:%s", core.Hex(g.key()), exp))
		case r < 76: // range delete
			g.write(g.rangeTok(mode))
		case r < 80 && mode == "range": // many keys then a range delete around the threshold
			n := []int{98, 99, 100, 101, 102, 150}[g.rng.Intn(6)]
			pfx := []string{"/r/", "r-", "/r/x/"}[g.rng.Intn(3)]
			for j := 0; j < n; j += 25 {
				var toks []string
				for x := j; x < j+25 && x < n; x++ {
					opts := map[string]string{}
					if g.rng.Intn(5) == 0 && len(g.idxN) > 0 {
						opts["idx"] = core.Hex([]byte(g.idxN[0])) + "=" + core.Hex([]byte(fmt.Sprintf("s%03d", x)))
					}
					toks = append(toks, g.putTok([]byte(fmt.Sprintf("%s%04d", pfx, x)), opts))
					nextVersion++
				}
				g.write(toks...)
			}
			g.write(fmt.Sprintf("R:%s:%s", core.Hex([]byte(pfx)), core.Hex([]byte(pfx+"9999"))))
		case r < 88: // reads
			k := g.key()
			c := []string{"eq", "floor", "ceil", "lower", "higher"}[g.rng.Intn(5)]
			g.ops = append(g.ops, fmt.Sprintf("db.get %s %s 1", c, core.Hex(k)))
			if g.rng.Intn(3) == 0 {
				a, b := g.key(), g.key()
				g.ops = append(g.ops, fmt.Sprintf("db.list %s %s", core.Hex(a), core.Hex(b)), fmt.Sprintf("db.scan %s %s", core.Hex(a), core.Hex(b)))
			}
		case r < 94 && (mode == "idx" || g.rng.Intn(3) == 0): // index queries at and beyond the edges
			name := g.idxN[g.rng.Intn(len(g.idxN))]
			sk := []string{"", "a", "b", "c", "a/b", "zz", "zzz", "0", "m", "a\x02"}[g.rng.Intn(10)]
			c := []string{"eq", "floor", "ceil", "lower", "higher"}[g.rng.Intn(5)]
			g.ops = append(g.ops, fmt.Sprintf("idx.get %s %s %s", core.Hex([]byte(name)), c, core.Hex([]byte(sk))))
			if g.rng.Intn(2) == 0 {
				g.ops = append(g.ops, fmt.Sprintf("idx.list %s %s %s", core.Hex([]byte(name)), core.Hex([]byte("a")), core.Hex([]byte("zzzz"))))
			}
		case r < 97:
			g.ops = append(g.ops, "db.dump", "db.tracker")
			if disk && g.rng.Intn(2) == 0 {
				g.ops = append(g.ops, "db.reopen", "db.tracker")
			}
		default:
			start := int64(0)
			if g.off > 0 {
				start = g.rng.Int63n(g.off + 2)
			}
			g.ops = append(g.ops, fmt.Sprintf("db.notifs %d", start))
		}
	}
	g.ops = append(g.ops, "db.dump", "db.tracker", "db.commit", "db.notifs 0")
	return g.ops
}

func genDbCases(rng *rand.Rand, tier string, modes []string, nQuick, nThorough, maxOps int) []core.Case {
	return genDbCasesOpt(rng, tier, modes, nQuick, nThorough, maxOps, false)
}

func genDbCasesOpt(rng *rand.Rand, tier string, modes []string, nQuick, nThorough, maxOps int, utf8Only bool) []core.Case {
	n := nQuick
	if tier == "thorough" {
		n = nThorough
	}
	var cases []core.Case
	for i := 0; i < n; i++ {
		g := &dbGen{rng: rng, ts: 1000, utf8Only: utf8Only}
		mode := modes[rng.Intn(len(modes))]
		cases = append(cases, core.Case{Name: fmt.Sprintf("db-%s-%d", mode, i), Ops: g.program(mode, 5+rng.Intn(maxOps))})
	}
	return cases
}
