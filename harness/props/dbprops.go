package props

import (
	"fmt"
	"math/rand"
	"regexp"
	"strconv"
	"strings"
	"time"

	"github.com/oxia-db/oxia/common/compare"

	"oxverif/harness/core"
)

// C12: versioning, conditional writes and batch semantics (generic request sequences).
type C12 struct{}

func (C12) Generate(rng *rand.Rand, tier string) []core.Case {
	return genDbCases(rng, tier, []string{"mix", "mix", "range", "idx", "seq"}, 250, 15000, 50)
}
func (C12) Exec(ops []string, outs []string) { dbExecOps(ops, outs) }
func (C12) Timeout() time.Duration          { return 60 * time.Second }
// Oracle: an independent, tiny map specification (key -> version, modification count) kept in Go:
// version ids strictly increase, conditional operations take effect iff the expectation matches,
// delete of an absent key reports not-found, range deletes remove exactly the range, and exact
// reads of user keys agree with the map.
func (C12) Oracle(ops, impl, model []string) string { return c12Oracle(ops, impl, false) }
func (C12) Nontrivial(ops, outs []string) bool {
	// non-trivial: at least one conditional operation that took effect and one that was refused
	ok, refused := false, false
	for i, o := range ops {
		if i >= len(outs) || !strings.HasPrefix(o, "db.write") {
			continue
		}
		if strings.Contains(outs[i], "badver") || strings.Contains(outs[i], "notfound") || strings.Contains(outs[i], "nosession") {
			refused = true
		}
		if strings.Contains(outs[i], "ok(") {
			ok = true
		}
	}
	return ok && refused
}

type specRec struct{ version, mc int64 }

var putOkRe = regexp.MustCompile(`^ok\(v=(-?\d+),mc=(-?\d+),ct=\d+,mt=\d+,s=[^,]*,c=[^,]*,k=([^)]*)\)$`)

func splitResp(out string) (puts, dels, ranges []string, ok bool) {
	if !strings.HasPrefix(out, "P[") {
		return nil, nil, nil, false
	}
	i := strings.Index(out, "] D[")
	j := strings.Index(out, "] R[")
	if i < 0 || j < 0 || !strings.HasSuffix(out, "]") {
		return nil, nil, nil, false
	}
	return strings.Fields(out[2:i]), strings.Fields(out[i+4 : j]), strings.Fields(out[j+4 : len(out)-1]), true
}

func c12Oracle(ops, impl []string, checkSeq bool) string {
	spec := map[string]specRec{}
	last := int64(-1)
	for i, o := range ops {
		if i >= len(impl) {
			break
		}
		f := strings.Fields(o)
		out := impl[i]
		if out == "panic" || out == "hang" {
			return fmt.Sprintf("op %d (%.60s): %s", i, o, out)
		}
		switch f[0] {
		case "db.new":
			spec = map[string]specRec{}
			last = -1
		case "db.write":
			puts, dels, ranges, ok := splitResp(out)
			if !ok {
				continue // infrastructure error: C13's business; nothing was committed
			}
			pi, di, ri := 0, 0, 0
			for _, t := range f[1:] {
				p := strings.Split(t, ":")
				switch p[0] {
				case "P":
					if pi >= len(puts) {
						return fmt.Sprintf("op %d: fewer put responses than puts", i)
					}
					r := puts[pi]
					pi++
					key := string(core.UnHex(p[1]))
					seq := p[7] != "_"
					cur, exists := spec[key]
					m := putOkRe.FindStringSubmatch(r)
					if m != nil {
						v, _ := strconv.ParseInt(m[1], 10, 64)
						mc, _ := strconv.ParseInt(m[2], 10, 64)
						if v <= last {
							return fmt.Sprintf("op %d: put of %q got version id %d, not greater than %d assigned before", i, key, v, last)
						}
						last = v
						if seq {
							if m[3] == "_" {
								return fmt.Sprintf("op %d: sequence put returned no key", i)
							}
							key = string(core.UnHex(m[3]))
							cur, exists = spec[key]
							if exists && checkSeq {
								return fmt.Sprintf("op %d: sequence put overwrote existing key %q", i, key)
							}
							if exists {
								// an overwritten record is written as a new one (C16's concern)
								delete(spec, key)
								exists = false
							}
						}
						if p[3] != "_" && !seq {
							exp, _ := strconv.ParseInt(p[3], 10, 64)
							if (exists && cur.version != exp) || (!exists && exp != -1) {
								return fmt.Sprintf("op %d: conditional put of %q (expected %d) took effect although the current version is %v/%v", i, key, exp, cur.version, exists)
							}
						}
						if exists && mc != cur.mc+1 || !exists && mc != 0 {
							return fmt.Sprintf("op %d: put of %q has modification count %d (existing: %v, previous %d)", i, key, mc, exists, cur.mc)
						}
						spec[key] = specRec{v, mc}
					} else if r == "badver" && !seq {
						if p[3] == "_" {
							return fmt.Sprintf("op %d: unconditional put of %q refused with a version conflict", i, key)
						}
						exp, _ := strconv.ParseInt(p[3], 10, 64)
						if (exists && cur.version == exp) || (!exists && exp == -1) {
							return fmt.Sprintf("op %d: conditional put of %q (expected %d) refused although it matches", i, key, exp)
						}
					}
				case "D":
					if di >= len(dels) {
						return fmt.Sprintf("op %d: fewer delete responses than deletes", i)
					}
					r := dels[di]
					di++
					key := string(core.UnHex(p[1]))
					cur, exists := spec[key]
					matches := p[2] == "_"
					if !matches {
						exp, _ := strconv.ParseInt(p[2], 10, 64)
						matches = (exists && cur.version == exp) || (!exists && exp == -1)
					}
					switch {
					case !exists && matches && r != "notfound", !matches && r != "badver", exists && matches && r != "ok":
						if !strings.HasPrefix(key, "__oxia/") {
							return fmt.Sprintf("op %d: delete of %q (exists=%v, expectation matches=%v) answered %s", i, key, exists, matches, r)
						}
					}
					if r == "ok" {
						delete(spec, key)
					}
				case "R":
					if ri >= len(ranges) {
						return fmt.Sprintf("op %d: fewer range responses than ranges", i)
					}
					ri++
					a, b := core.UnHex(p[1]), core.UnHex(p[2])
					for k := range spec {
						if compare.CompareWithSlash(a, []byte(k)) <= 0 && compare.CompareWithSlash([]byte(k), b) < 0 {
							delete(spec, k)
						}
					}
				}
			}
		case "db.get":
			if f[1] != "eq" {
				continue
			}
			key := string(core.UnHex(f[2]))
			if strings.HasPrefix(key, "__oxia/") {
				continue
			}
			cur, exists := spec[key]
			if exists && !strings.Contains(out, fmt.Sprintf("v=%d,mc=%d,", cur.version, cur.mc)) {
				return fmt.Sprintf("op %d: exact get of %q returns %.80s, the map holds version %d / count %d", i, key, out, cur.version, cur.mc)
			}
			if !exists && out != "notfound" {
				return fmt.Sprintf("op %d: exact get of %q returns %.80s, the key was never written or was deleted", i, key, out)
			}
		}
	}
	return ""
}

// C13: every syntactically valid WriteRequest must be applicable: a per-operation status, never an
// infrastructure error of ProcessWrite.
type C13 struct{}

func (C13) Generate(rng *rand.Rand, tier string) []core.Case {
	return genDbCases(rng, tier, []string{"seq", "seq", "mix", "internal", "idx", "range"}, 250, 15000, 40)
}
func (C13) Exec(ops []string, outs []string) { dbExecOps(ops, outs) }
func (C13) Timeout() time.Duration          { return 60 * time.Second }
func (C13) Oracle(ops, impl, model []string) string {
	for i, o := range ops {
		if i >= len(impl) {
			break
		}
		if impl[i] == "panic" || impl[i] == "hang" {
			return fmt.Sprintf("op %d (%.60s): %s while applying a request", i, o, impl[i])
		}
		if strings.HasPrefix(o, "db.write") && strings.HasPrefix(impl[i], "err:") {
			cls := impl[i]
			if strings.HasPrefix(cls, "err:other:") {
				cls = "err:other"
			}
			return fmt.Sprintf("ProcessWrite fails with %s for a syntactically valid request (op %d): no replica can apply this log entry", cls, i)
		}
	}
	return ""
}
func (C13) Nontrivial(ops, outs []string) bool {
	// non-trivial: a request outside what the client library builds (sequence put without partition
	// key, zero delta, expected version on a sequence put, dead session, range over internal keys)
	for _, o := range ops {
		if strings.HasPrefix(o, "db.write") && (strings.Contains(o, ":0,") || strings.Contains(o, ",0:") || strings.Contains(o, "18446744073709551615")) {
			return true
		}
	}
	for i := range outs {
		if strings.Contains(outs[i], "nosession") || strings.Contains(outs[i], "badver") {
			return true
		}
	}
	return false
}
