package props

import (
	"fmt"
	"math/rand"
	"net/url"
	"regexp"
	"sort"
	"strconv"
	"strings"
	"time"

	"github.com/oxia-db/oxia/common/compare"

	"oxverif/harness/core"
)

// C12: versioning, conditional writes and batch semantics (generic request sequences).
type C12 struct{}

func (C12) Generate(rng *rand.Rand, tier string) []core.Case {
	return genDbCases(rng, tier, []string{"mix", "mix", "range", "idx", "seq"}, 250, 15000, 50)
}
func (C12) Exec(ops []string, outs []string) { dbExecOps(ops, outs) }
func (C12) Timeout() time.Duration           { return 60 * time.Second }

// Oracle: an independent, tiny map specification (key -> version, modification count) kept in Go:
// version ids strictly increase, conditional operations take effect iff the expectation matches,
// delete of an absent key reports not-found, range deletes remove exactly the range, and exact
// reads of user keys agree with the map.
func (C12) Oracle(ops, impl, model []string) string { return c12Oracle(ops, impl, false) }
func (C12) Nontrivial(ops, outs []string) bool {
	// non-trivial: at least one conditional operation that took effect and one that was refused
	ok, refused := false, false
	for i, o := range ops {
		if i >= len(outs) || !strings.HasPrefix(o, "db.write") {
			continue
		}
		if strings.Contains(outs[i], "badver") || strings.Contains(outs[i], "notfound") || strings.Contains(outs[i], "nosession") {
			refused = true
		}
		if strings.Contains(outs[i], "ok(") {
			ok = true
		}
	}
	return ok && refused
}

type specRec struct{ version, mc int64 }

var putOkRe = regexp.MustCompile(`^ok\(v=(-?\d+),mc=(-?\d+),ct=\d+,mt=\d+,s=[^,]*,c=[^,]*,k=([^)]*)\)$`)

func splitResp(out string) (puts, dels, ranges []string, ok bool) {
	if !strings.HasPrefix(out, "P[") {
		return nil, nil, nil, false
	}
	i := strings.Index(out, "] D[")
	j := strings.Index(out, "] R[")
	if i < 0 || j < 0 || !strings.HasSuffix(out, "]") {
		return nil, nil, nil, false
	}
	return strings.Fields(out[2:i]), strings.Fields(out[i+4 : j]), strings.Fields(out[j+4 : len(out)-1]), true
}

func c12Oracle(ops, impl []string, checkSeq bool) string {
	spec := map[string]specRec{}
	last := int64(-1)
	for i, o := range ops {
		if i >= len(impl) {
			break
		}
		f := strings.Fields(o)
		out := impl[i]
		if out == "panic" || out == "hang" {
			return fmt.Sprintf("op %d (%.60s): %s", i, o, out)
		}
		switch f[0] {
		case "db.new":
			spec = map[string]specRec{}
			last = -1
		case "db.write":
			puts, dels, ranges, ok := splitResp(out)
			if !ok {
				continue // infrastructure error: C13's business; nothing was committed
			}
			pi, di, ri := 0, 0, 0
			for _, t := range f[1:] {
				p := strings.Split(t, ":")
				switch p[0] {
				case "P":
					if pi >= len(puts) {
						return fmt.Sprintf("op %d: fewer put responses than puts", i)
					}
					r := puts[pi]
					pi++
					key := string(core.UnHex(p[1]))
					seq := p[7] != "_"
					cur, exists := spec[key]
					m := putOkRe.FindStringSubmatch(r)
					if m != nil {
						v, _ := strconv.ParseInt(m[1], 10, 64)
						mc, _ := strconv.ParseInt(m[2], 10, 64)
						if v <= last {
							return fmt.Sprintf("op %d: put of %q got version id %d, not greater than %d assigned before", i, key, v, last)
						}
						last = v
						if seq {
							if m[3] == "_" {
								return fmt.Sprintf("op %d: sequence put returned no key", i)
							}
							key = string(core.UnHex(m[3]))
							cur, exists = spec[key]
							if exists && checkSeq {
								return fmt.Sprintf("op %d: sequence put overwrote existing key %q", i, key)
							}
							if exists {
								// an overwritten record is written as a new one (C16's concern)
								delete(spec, key)
								exists = false
							}
						}
						if p[3] != "_" && !seq {
							exp, _ := strconv.ParseInt(p[3], 10, 64)
							if (exists && cur.version != exp) || (!exists && exp != -1) {
								return fmt.Sprintf("op %d: conditional put of %q (expected %d) took effect although the current version is %v/%v", i, key, exp, cur.version, exists)
							}
						}
						if exists && mc != cur.mc+1 || !exists && mc != 0 {
							return fmt.Sprintf("op %d: put of %q has modification count %d (existing: %v, previous %d)", i, key, mc, exists, cur.mc)
						}
						spec[key] = specRec{v, mc}
					} else if r == "badver" && !seq {
						if p[3] == "_" {
							return fmt.Sprintf("op %d: unconditional put of %q refused with a version conflict", i, key)
						}
						exp, _ := strconv.ParseInt(p[3], 10, 64)
						if (exists && cur.version == exp) || (!exists && exp == -1) {
							return fmt.Sprintf("op %d: conditional put of %q (expected %d) refused although it matches", i, key, exp)
						}
					}
				case "D":
					if di >= len(dels) {
						return fmt.Sprintf("op %d: fewer delete responses than deletes", i)
					}
					r := dels[di]
					di++
					key := string(core.UnHex(p[1]))
					cur, exists := spec[key]
					matches := p[2] == "_"
					if !matches {
						exp, _ := strconv.ParseInt(p[2], 10, 64)
						matches = (exists && cur.version == exp) || (!exists && exp == -1)
					}
					switch {
					case !exists && matches && r != "notfound", !matches && r != "badver", exists && matches && r != "ok":
						if !strings.HasPrefix(key, "__oxia/") {
							return fmt.Sprintf("op %d: delete of %q (exists=%v, expectation matches=%v) answered %s", i, key, exists, matches, r)
						}
					}
					if r == "ok" {
						delete(spec, key)
					}
				case "R":
					if ri >= len(ranges) {
						return fmt.Sprintf("op %d: fewer range responses than ranges", i)
					}
					ri++
					a, b := core.UnHex(p[1]), core.UnHex(p[2])
					for k := range spec {
						if compare.CompareWithSlash(a, []byte(k)) <= 0 && compare.CompareWithSlash([]byte(k), b) < 0 {
							delete(spec, k)
						}
					}
				}
			}
		case "db.get":
			if f[1] != "eq" {
				continue
			}
			key := string(core.UnHex(f[2]))
			if strings.HasPrefix(key, "__oxia/") {
				continue
			}
			cur, exists := spec[key]
			if exists && !strings.Contains(out, fmt.Sprintf("v=%d,mc=%d,", cur.version, cur.mc)) {
				return fmt.Sprintf("op %d: exact get of %q returns %.80s, the map holds version %d / count %d", i, key, out, cur.version, cur.mc)
			}
			if !exists && out != "notfound" {
				return fmt.Sprintf("op %d: exact get of %q returns %.80s, the key was never written or was deleted", i, key, out)
			}
		}
	}
	return ""
}

// C13: every syntactically valid WriteRequest must be applicable: a per-operation status, never an
// infrastructure error of ProcessWrite.
type C13 struct{}

func (C13) Generate(rng *rand.Rand, tier string) []core.Case {
	return genDbCases(rng, tier, []string{"seq", "seq", "mix", "internal", "idx", "range"}, 250, 15000, 40)
}
func (C13) Exec(ops []string, outs []string) { dbExecOps(ops, outs) }
func (C13) Timeout() time.Duration           { return 60 * time.Second }
func (C13) Oracle(ops, impl, model []string) string {
	for i, o := range ops {
		if i >= len(impl) {
			break
		}
		if impl[i] == "panic" || impl[i] == "hang" {
			return fmt.Sprintf("op %d (%.60s): %s while applying a request", i, o, impl[i])
		}
		if strings.HasPrefix(o, "db.write") && strings.HasPrefix(impl[i], "err:") {
			cls := impl[i]
			if strings.HasPrefix(cls, "err:other:") {
				cls = "err:other"
			}
			return fmt.Sprintf("ProcessWrite fails with %s for a syntactically valid request (op %d): no replica can apply this log entry", cls, i)
		}
	}
	return ""
}
func (C13) Nontrivial(ops, outs []string) bool {
	// non-trivial: a request outside what the client library builds (sequence put without partition
	// key, zero delta, expected version on a sequence put, dead session, range over internal keys)
	for _, o := range ops {
		if strings.HasPrefix(o, "db.write") && (strings.Contains(o, ":0,") || strings.Contains(o, ",0:") || strings.Contains(o, "18446744073709551615")) {
			return true
		}
	}
	for i := range outs {
		if strings.Contains(outs[i], "nosession") || strings.Contains(outs[i], "badver") {
			return true
		}
	}
	return false
}

// C15: secondary indexes mirror the live records exactly; queries stay inside one index.
type C15 struct{}

func (C15) Generate(rng *rand.Rand, tier string) []core.Case {
	cases := genDbCases(rng, tier, []string{"idx", "idx", "idx", "range"}, 250, 12000, 45)
	// every index query is preceded by a dump so that the oracle has the reference at hand
	for ci := range cases {
		var ops []string
		for _, o := range cases[ci].Ops {
			if strings.HasPrefix(o, "idx.") {
				ops = append(ops, "db.dump")
			}
			ops = append(ops, o)
		}
		cases[ci].Ops = ops
	}
	return cases
}
func (C15) Exec(ops []string, outs []string) { dbExecOps(ops, outs) }
func (C15) Timeout() time.Duration           { return 60 * time.Second }

type idxEntry struct{ sk, pk string }

var dumpEntryRe = regexp.MustCompile(`^([0-9a-f-]+)=E\(([^)]*)\)$`)

// parseDump extracts, from a canonical dump line, the declared (index, sk, pk) triples of the live
// records and the (index, sk, pk) triples of the index keys actually stored.
func parseDump(dump string) (declared, stored map[string][]idxEntry, records map[string]bool) {
	declared, stored, records = map[string][]idxEntry{}, map[string][]idxEntry{}, map[string]bool{}
	for _, tok := range strings.Fields(dump) {
		eq := strings.Index(tok, "=")
		if eq < 0 || strings.HasPrefix(tok, "n=") {
			continue
		}
		key := string(core.UnHex(tok[:eq]))
		val := tok[eq+1:]
		if strings.HasPrefix(key, "__oxia/idx/") {
			rest := key[len("__oxia/idx/"):]
			sl := strings.Index(rest, "/")
			if sl < 0 {
				continue
			}
			name, tail := rest[:sl], rest[sl+1:]
			sep := strings.Index(tail, "\x01")
			if sep < 0 {
				stored[name] = append(stored[name], idxEntry{tail, "?"})
				continue
			}
			pk, err := urlPathUnescape(tail[sep+1:])
			if err != nil {
				pk = "?"
			}
			stored[name] = append(stored[name], idxEntry{tail[:sep], pk})
			continue
		}
		if strings.HasPrefix(key, "__oxia/") || !strings.HasPrefix(val, "E(") {
			continue
		}
		records[key] = true
		fields := strings.Split(strings.TrimSuffix(strings.TrimPrefix(val, "E("), ")"), ",")
		if len(fields) < 9 || fields[8] == "_" {
			continue
		}
		for _, ix := range strings.Split(fields[8], ";") {
			nk := strings.Split(ix, "=")
			name, sk := string(core.UnHex(nk[0])), string(core.UnHex(nk[1]))
			declared[name] = append(declared[name], idxEntry{sk, key})
		}
	}
	return
}

func (C15) Oracle(ops, impl, model []string) string {
	var declared, stored map[string][]idxEntry
	var records map[string]bool
	for i, o := range ops {
		if i >= len(impl) {
			break
		}
		out := impl[i]
		f := strings.Fields(o)
		if out == "hang" {
			return fmt.Sprintf("op %d hangs", i)
		}
		switch f[0] {
		case "db.dump":
			if !strings.HasPrefix(out, "n=") {
				continue
			}
			declared, stored, records = parseDump(out)
			// exactness: stored index entries == declared ones (as multisets of distinct triples)
			names := map[string]bool{}
			for n := range declared {
				names[n] = true
			}
			for n := range stored {
				names[n] = true
			}
			for n := range names {
				d, s := map[idxEntry]bool{}, map[idxEntry]bool{}
				for _, e := range declared[n] {
					d[e] = true
				}
				for _, e := range stored[n] {
					s[e] = true
				}
				for e := range d {
					if !s[e] && e.sk != "" && !strings.Contains(e.sk, "\x01") {
						return fmt.Sprintf("op %d: record %q declares (%q -> %q) but index %q has no such entry", i, e.pk, e.sk, e.pk, n)
					}
				}
				for e := range s {
					if !d[e] {
						return fmt.Sprintf("op %d: index %q holds a stale entry (%q -> %q) that no live record declares", i, n, e.sk, e.pk)
					}
				}
			}
		case "idx.get":
			if stored == nil {
				continue
			}
			if out == "panic" {
				return fmt.Sprintf("op %d: index get panics", i)
			}
			name, cmpT, key := string(core.UnHex(f[1])), f[2], core.UnHex(f[3])
			sat := func(sk string) bool {
				c := compare.CompareWithSlash([]byte(sk), key)
				switch cmpT {
				case "eq":
					return c == 0
				case "floor":
					return c <= 0
				case "ceil":
					return c >= 0
				case "lower":
					return c < 0
				default:
					return c > 0
				}
			}
			any := false
			for _, e := range stored[name] {
				if sat(e.sk) && records[e.pk] {
					any = true
				}
			}
			if strings.HasPrefix(out, "found(") {
				var pkh, skh string
				fmt.Sscanf(strings.NewReplacer("found(pk=", "", ",sk=", " ", ")", " ").Replace(strings.Fields(out)[0]), "%s %s", &pkh, &skh)
				pk, sk := string(core.UnHex(pkh)), ""
				if skh != "_" {
					sk = string(core.UnHex(skh))
				}
				in := false
				for _, e := range stored[name] {
					if e.pk == pk && e.sk == sk {
						in = true
					}
				}
				if !in {
					return fmt.Sprintf("op %d: %s get of %q on index %q returned record %q (secondary key %q), which is not an entry of that index", i, cmpT, key, name, pk, sk)
				}
				if !sat(sk) {
					return fmt.Sprintf("op %d: %s get of %q on index %q returned secondary key %q", i, cmpT, key, name, sk)
				}
				// best match: no entry strictly between
				for _, e := range stored[name] {
					if !sat(e.sk) {
						continue
					}
					c := compare.CompareWithSlash([]byte(e.sk), []byte(sk))
					if (cmpT == "floor" || cmpT == "lower") && c > 0 || (cmpT == "ceil" || cmpT == "higher") && c < 0 {
						return fmt.Sprintf("op %d: %s get of %q on index %q returned %q although %q is closer", i, cmpT, key, name, sk, e.sk)
					}
				}
			} else if out == "notfound" && any {
				return fmt.Sprintf("op %d: %s get of %q on index %q found nothing although the index has a matching entry", i, cmpT, key, name)
			}
		case "idx.list":
			if out == "panic" {
				return fmt.Sprintf("op %d: index list panics (unparsable index key)", i)
			}
		}
	}
	return ""
}

func (C15) Nontrivial(ops, outs []string) bool {
	// non-trivial: at least two indexes in use and an index query that found a record
	found := false
	for i := range outs {
		if strings.HasPrefix(outs[i], "found(") {
			found = true
		}
	}
	return found
}

func urlPathUnescape(s string) (string, error) { return url.PathUnescape(s) }

// C16: sequence keys are fresh, strictly increasing and computed exactly.
type C16 struct{}

func (C16) Generate(rng *rand.Rand, tier string) []core.Case {
	cases := genDbCases(rng, tier, []string{"seq"}, 250, 12000, 45)
	// sequence-update subscribers come and go between the writes of some programs (in-memory programs whose
	// writes all apply: a write that fails as a whole has told the subscribers about keys that do not exist -
	// the poison entry of known finding D-5, not looked at here)
	for ci := range cases {
		if ci%3 != 0 || strings.Contains(cases[ci].Ops[0], "disk=1") {
			continue
		}
		var out []string
		nsub := 0
		open := map[int]bool{}
		bad := false
		for _, o := range cases[ci].Ops {
			if strings.HasPrefix(o, "db.reopen") || (strings.HasPrefix(o, "db.write") && !safeWrite(o)) {
				bad = true
			}
		}
		if bad {
			continue
		}
		pf := []string{"p", "q", "s"}
		for _, o := range cases[ci].Ops {
			out = append(out, o)
			if !strings.HasPrefix(o, "db.write") {
				continue
			}
			switch rng.Intn(5) {
			case 0:
				// the prefix of a sequence put of this write, or one of the usual ones
				pfx := pf[rng.Intn(len(pf))]
				for _, t := range strings.Fields(o) {
					if p := strings.Split(t, ":"); len(p) == 9 && p[0] == "P" && p[7] != "_" {
						pfx = string(core.UnHex(p[1]))
					}
				}
				out = append(out, "sq.sub "+core.Hex([]byte(pfx)), fmt.Sprintf("sq.last %d", nsub))
				open[nsub] = true
				nsub++
			case 1:
				if nsub > 0 {
					n := rng.Intn(nsub)
					if open[n] && rng.Intn(2) == 0 {
						out = append(out, fmt.Sprintf("sq.close %d", n))
						delete(open, n)
					}
				}
			}
			for n := 0; n < nsub; n++ {
				if open[n] {
					out = append(out, fmt.Sprintf("sq.last %d", n))
				}
			}
		}
		cases[ci].Ops = out
	}
	// a subscription whose initial read of the committed state happens after a write has announced its key and
	// before that write is committed
	cases = append(cases, core.Case{Name: "seq-subscriber-initial-read-race", Ops: []string{"db.new notif=1",
		"db.write off=1 ts=1001 P:70:01:_:_:_:706b:1:_",
		"sq.subrace 70 off=2 ts=1002 P:70:02:_:_:_:706b:1:_ P:71:03:_:_:_:_:_:_", "sq.last 0",
		"sq.subrace 73 off=3 ts=1003 P:73:02:_:_:_:706b:2:_ P:71:04:_:_:_:_:_:_", "sq.last 1", "sq.last 0"}})
	// subscriber churn on one prefix, and a rejected sequence put
	cases = append(cases, core.Case{Name: "seq-subscribers-directed", Ops: []string{"db.new notif=1",
		"db.write off=1 ts=1001 P:70:01:_:_:_:706b:1:_", "sq.sub 70", "sq.sub 70", "sq.last 0", "sq.last 1",
		"db.write off=2 ts=1002 P:70:02:_:_:_:706b:1:_", "sq.last 0", "sq.last 1", "sq.close 0", "sq.sub 70", "sq.last 2",
		"db.write off=3 ts=1003 P:70:03:_:_:_:706b:2:_", "sq.last 1", "sq.last 2", "sq.close 1",
		"db.write off=4 ts=1004 P:70:04:5:_:_:706b:1:_", "sq.last 2",
		"db.write off=5 ts=1005 P:70:05:_:_:_:706b:1:_", "sq.last 2"}})
	return cases
}
func (C16) Exec(ops []string, outs []string) { dbExecOps(ops, outs) }
func (C16) Timeout() time.Duration           { return 60 * time.Second }

var seqSuffixRe = regexp.MustCompile(`^(-\d{20})+$`)

func (C16) Oracle(ops, impl, model []string) string {
	live := map[string]bool{}     // keys currently in the store (user keys)
	maxGen := map[string]string{} // per prefix: greatest generated key so far
	var subPrefix []string        // sequence-update subscribers: their prefix
	var subLatest []string        // the latest key generated for that prefix since they subscribed ("" = none yet)
	for i, o := range ops {
		if i >= len(impl) {
			break
		}
		out := impl[i]
		f := strings.Fields(o)
		if out == "panic" || out == "hang" {
			return fmt.Sprintf("op %d: %s", i, out)
		}
		if f[0] == "db.new" {
			live, maxGen = map[string]bool{}, map[string]string{}
			subPrefix, subLatest = nil, nil
			continue
		}
		switch f[0] {
		case "sq.subrace":
			// the subscriber is registered before the write announces its keys
			pfx := string(core.UnHex(f[1]))
			latest := ""
			if j := strings.Index(out, "] sub="); j > 0 && strings.HasPrefix(out, "P[") {
				rs := strings.Fields(out[2:j])
				pi := 0
				for _, t := range f[2:] {
					p := strings.Split(t, ":")
					if p[0] != "P" || len(p) != 9 {
						continue
					}
					if pi < len(rs) {
						if m := putOkRe.FindStringSubmatch(rs[pi]); m != nil && p[7] != "_" && string(core.UnHex(p[1])) == pfx {
							latest = string(core.UnHex(m[3]))
						}
					}
					pi++
				}
			}
			subPrefix = append(subPrefix, pfx)
			subLatest = append(subLatest, latest)
			continue
		case "sq.sub":
			subPrefix = append(subPrefix, string(core.UnHex(f[1])))
			subLatest = append(subLatest, "")
			continue
		case "sq.close":
			var n int
			fmt.Sscan(f[1], &n)
			if n >= 0 && n < len(subPrefix) {
				subPrefix[n] = "\x00closed"
			}
			continue
		case "sq.last":
			// a subscriber observes the latest key generated for its prefix, never anything else
			var n int
			fmt.Sscan(f[1], &n)
			if n < 0 || n >= len(subPrefix) || subPrefix[n] == "\x00closed" || !strings.HasPrefix(out, "last=") {
				continue
			}
			got := strings.TrimPrefix(out, "last=")
			if got == "-" {
				return fmt.Sprintf("op %d: the subscriber %d of sequence %q was told the empty key: no sequence put generated it", i, n, subPrefix[n])
			}
			if subLatest[n] != "" && got != core.Hex([]byte(subLatest[n])) {
				g := got
				if g != "none" {
					g = string(core.UnHex(got))
				}
				return fmt.Sprintf("op %d: the subscriber %d of sequence %q has %q as its latest key, the latest key generated since it subscribed is %q", i, n, subPrefix[n], g, subLatest[n])
			}
			continue
		}
		if f[0] != "db.write" {
			continue
		}
		puts, dels, _, ok := splitResp(out)
		if !ok {
			continue
		}
		pi, di := 0, 0
		for _, t := range f[1:] {
			p := strings.Split(t, ":")
			switch p[0] {
			case "P":
				r := puts[pi]
				pi++
				m := putOkRe.FindStringSubmatch(r)
				if m == nil {
					continue
				}
				key := string(core.UnHex(p[1]))
				if p[7] == "_" {
					live[key] = true
					continue
				}
				gen := string(core.UnHex(m[3]))
				for n := range subPrefix {
					if subPrefix[n] == key {
						subLatest[n] = gen
					}
				}
				// classify the circumstances that are recorded as known findings
				label := ""
				for k := range live {
					if strings.HasPrefix(k, key+"-") && !seqSuffixRe.MatchString(k[len(key):]) {
						label = " (a foreign key lives under the sequence prefix)"
					}
				}
				wrap := false
				for _, d := range strings.Split(p[7], ",") {
					if dv, _ := strconv.ParseUint(d, 10, 64); dv >= 1<<62 {
						wrap = true
					}
				}
				for k := range live {
					if strings.HasPrefix(k, key+"-") && seqSuffixRe.MatchString(k[len(key):]) {
						for _, part := range strings.Split(k[len(key)+1:], "-") {
							if pv, _ := strconv.ParseUint(part, 10, 64); pv >= 1<<62 {
								wrap = true
							}
						}
					}
				}
				if wrap {
					label += " (uint64 wrap-around of suffix + delta)"
				}
				if !strings.HasPrefix(gen, key+"-") || !seqSuffixRe.MatchString(gen[len(key):]) {
					return fmt.Sprintf("op %d: sequence put on %q generated %q, not prefix + numeric suffixes", i, key, gen)
				}
				if strings.Count(gen[len(key):], "-") != strings.Count(p[7], ",")+1 {
					return fmt.Sprintf("op %d: sequence put on %q with deltas %s generated %q: wrong number of suffixes", i, key, p[7], gen)
				}
				if live[gen] {
					return fmt.Sprintf("op %d: sequence put on %q overwrote the existing record %q%s", i, key, gen, label)
				}
				for k := range live {
					if strings.HasPrefix(k, key+"-") && seqSuffixRe.MatchString(k[len(key):]) && compare.CompareWithSlash([]byte(k), []byte(gen)) >= 0 {
						return fmt.Sprintf("op %d: sequence put on %q generated %q, which is not greater than the existing key %q%s", i, key, gen, k, label)
					}
				}
				if prev, ok := maxGen[key]; ok && live[prev] && compare.CompareWithSlash([]byte(prev), []byte(gen)) >= 0 {
					return fmt.Sprintf("op %d: sequence put on %q generated %q after %q%s", i, key, gen, prev, label)
				}
				maxGen[key] = gen
				live[gen] = true
			case "D":
				if dels[di] == "ok" {
					delete(live, string(core.UnHex(p[1])))
				}
				di++
			case "R":
				a, b := core.UnHex(p[1]), core.UnHex(p[2])
				for k := range live {
					if compare.CompareWithSlash(a, []byte(k)) <= 0 && compare.CompareWithSlash([]byte(k), b) < 0 {
						delete(live, k)
					}
				}
			}
		}
	}
	return ""
}

func (C16) Nontrivial(ops, outs []string) bool {
	// non-trivial: at least two generated keys, one of them with more than one suffix
	n, multi := 0, false
	for i := range outs {
		if strings.Contains(outs[i], ",k=7") || strings.Contains(outs[i], ",k=2f") {
			n++
		}
		if strings.Contains(outs[i], "2d3030303030303030303030303030303030303030") {
			multi = true
		}
	}
	return n >= 2 || multi
}

// C17: notification batches: one per committed request, exact content, ordered, resumable.
type C17 struct{}

func (C17) Generate(rng *rand.Rand, tier string) []core.Case {
	cases := genDbCasesOpt(rng, tier, []string{"notif", "notif", "mix", "range"}, 250, 12000, 45, true)
	// subscribers (re)connect at every offset at the end of each program
	for ci := range cases {
		n := 0
		for _, o := range cases[ci].Ops {
			if strings.HasPrefix(o, "db.write") {
				n++
			}
		}
		if !strings.Contains(cases[ci].Ops[0], "notif=0") {
			for s := 0; s <= n+1; s += 1 + n/12 {
				cases[ci].Ops = append(cases[ci].Ops, fmt.Sprintf("db.notifs %d", s))
			}
			// trimming rounds: retention 100..400 ms of model time, "now" sweeping over the write timestamps
			ret := 100 + rng.Intn(300)
			for r := 0; r < 3; r++ {
				now := 1000 + rng.Intn(60*n+600)
				cases[ci].Ops = append(cases[ci].Ops, fmt.Sprintf("db.trim %d %d", now, ret), "db.dump", "db.notifs 0")
			}
		}
	}
	// the client side: subscriptions and reconnections of the client's notifications manager
	nc := 3
	if tier == "thorough" {
		nc = 40
	}
	scripts := []string{"sub,b,w,w,r,w", "w,w,sub,w,b,w,r,w", "sub,w,b,r,w"}
	for i := 0; i < nc; i++ {
		var toks []string
		for j := rng.Intn(3); j > 0; j-- {
			toks = append(toks, "w")
		}
		toks = append(toks, "sub")
		for j := 1 + rng.Intn(2); j > 0; j-- {
			for k := rng.Intn(3); k > 0; k-- {
				toks = append(toks, "w")
			}
			toks = append(toks, "b")
			for k := rng.Intn(3); k > 0; k-- {
				toks = append(toks, "w")
			}
			toks = append(toks, "r")
		}
		toks = append(toks, "w")
		scripts = append(scripts, strings.Join(toks, ","))
	}
	for i, sc := range scripts {
		cases = append(cases, core.Case{Name: fmt.Sprintf("notif-client-%d", i), Ops: []string{"nc.run script=" + sc}})
	}
	return cases
}
func (C17) Exec(ops []string, outs []string) {
	if len(ops) > 0 && strings.HasPrefix(ops[0], "nc.") {
		for i, o := range ops {
			o := o
			outs[i] = core.Safe(func() string {
				f := strings.Fields(o)
				if f[0] == "nc.run" {
					return c17Client(c20kv(f))
				}
				return "bad-op"
			})
		}
		return
	}
	dbExecOps(ops, outs)
}
func (C17) Timeout() time.Duration           { return 60 * time.Second }

// Oracle: what each committed request must announce is recomputed in Go from the request and its
// response; every read must return exactly the batches with offset >= start, ascending.
func (C17) Oracle(ops, impl, model []string) string {
	if len(ops) > 0 && strings.HasPrefix(ops[0], "nc.") {
		for i, o := range ops {
			if i >= len(impl) || !strings.HasPrefix(impl[i], "got=") {
				continue
			}
			out := impl[i]
			if j := strings.Index(out, " ~"); j >= 0 {
				out = out[:j]
			}
			var got []string
			if v := strings.TrimPrefix(out, "got="); v != "" {
				got = strings.Split(v, ",")
			}
			want := c17ClientExpected(c20kv(strings.Fields(o))["script"])
			for k := range want {
				if k >= len(got) || got[k] != want[k] {
					g := "nothing"
					if k < len(got) {
						g = got[k]
					}
					return fmt.Sprintf("op %d: the subscriber's notification %d is %s, the change committed after its subscription at that position is %s (received %v, committed %v): a change was lost, duplicated or reordered across a reconnection", i, k, g, want[k], got, want)
				}
			}
			if len(got) > len(want) {
				return fmt.Sprintf("op %d: the subscriber received %v, only %v were committed after its subscription", i, got, want)
			}
		}
		return ""
	}
	type batch struct {
		off    int64
		ts     int64
		expect string
	}
	var batches []batch
	enabled := true
	trimCutoff := int64(-1) // highest "now - retention" of the trimming rounds so far
	for i, o := range ops {
		if i >= len(impl) {
			break
		}
		out := impl[i]
		f := strings.Fields(o)
		if out == "panic" || out == "hang" {
			return fmt.Sprintf("op %d: %s", i, out)
		}
		switch f[0] {
		case "db.new":
			batches = nil
			trimCutoff = -1
			enabled = !strings.Contains(o, "notif=0")
		case "db.trim":
			now, _ := strconv.ParseInt(f[1], 10, 64)
			ret, _ := strconv.ParseInt(f[2], 10, 64)
			if now-ret > trimCutoff {
				trimCutoff = now - ret
			}
		case "db.write":
			puts, dels, _, ok := splitResp(out)
			if !ok {
				continue
			}
			var off int64
			var ts uint64
			ns := map[string]string{}
			pi, di := 0, 0
			for _, t := range f[1:] {
				switch {
				case strings.HasPrefix(t, "off="):
					off, _ = strconv.ParseInt(t[4:], 10, 64)
				case strings.HasPrefix(t, "ts="):
					ts, _ = strconv.ParseUint(t[3:], 10, 64)
				case strings.HasPrefix(t, "P:"):
					p := strings.Split(t, ":")
					m := putOkRe.FindStringSubmatch(puts[pi])
					pi++
					if m == nil {
						continue
					}
					key := p[1]
					if m[3] != "_" {
						key = m[3]
					}
					typ := "C"
					if m[2] != "0" {
						typ = "M"
					}
					if !strings.HasPrefix(string(core.UnHex(key)), "__oxia/") {
						ns[key] = fmt.Sprintf("%s/%s/%s/_", key, typ, m[1])
					}
				case strings.HasPrefix(t, "D:"):
					p := strings.Split(t, ":")
					if dels[di] == "ok" && !strings.HasPrefix(string(core.UnHex(p[1])), "__oxia/") {
						ns[p[1]] = fmt.Sprintf("%s/D/_/_", p[1])
					}
					di++
				case strings.HasPrefix(t, "R:"):
					p := strings.Split(t, ":")
					if !strings.HasPrefix(string(core.UnHex(p[1])), "__oxia/") {
						ns[p[1]] = fmt.Sprintf("%s/R/_/%s", p[1], p[2])
					}
				}
			}
			if !enabled {
				continue
			}
			keys := make([]string, 0, len(ns))
			for k := range ns {
				keys = append(keys, string(core.UnHex(k)))
			}
			sort.Strings(keys)
			parts := make([]string, len(keys))
			for j, k := range keys {
				parts[j] = ns[core.Hex([]byte(k))]
			}
			batches = append(batches, batch{off, int64(ts), fmt.Sprintf("N(%d,%d,[%s])", off, ts, strings.Join(parts, ","))})
		case "db.notifs":
			if !enabled {
				continue
			}
			start, _ := strconv.ParseInt(f[1], 10, 64)
			var want []string
			var wantTs []int64
			for _, b := range batches {
				if b.off >= start {
					want = append(want, b.expect)
					wantTs = append(wantTs, b.ts)
				}
			}
			// trimming may have removed a prefix of batches, each of them expired
			gotFields := strings.Fields(out)
			for len(want) > 0 && wantTs[0] <= trimCutoff && (len(gotFields) < 2 || gotFields[1] != want[0]) {
				want, wantTs = want[1:], wantTs[1:]
			}
			exp := fmt.Sprintf("n=%d %s", len(want), strings.Join(want, " "))
			if strings.TrimSpace(out) != strings.TrimSpace(exp) {
				return fmt.Sprintf("op %d: subscriber starting at offset %d received %.300s ; the committed requests announce %.300s", i, start, out, exp)
			}
		}
	}
	return ""
}

func (C17) Nontrivial(ops, outs []string) bool {
	// non-trivial: a read that returned at least two batches, one of them non-empty
	for i, o := range ops {
		if i < len(outs) && strings.HasPrefix(o, "db.notifs") && !strings.HasPrefix(outs[i], "n=0") && !strings.HasPrefix(outs[i], "n=1 ") && strings.Contains(outs[i], "/C/") {
			return true
		}
	}
	return false
}
