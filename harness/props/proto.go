package props

import (
	"fmt"
	"math/rand"
	"sort"
	"strconv"
	"strings"
	"time"

	"github.com/oxia-db/oxia/proto"

	"oxverif/harness/cluster"
	"oxverif/harness/core"
)

// The protocol scripts shared by C01-C05: real shards directors with leader / follower controllers under
// the coordinator's RPCs, against M-Repl.

type protoExec struct {
	c      *cluster.PCluster
	n      int
	unrel  bool
	healed bool
	pre    string // the settled state right before an election / attach request (annotation for the oracle)
	// the node that accepted BecomeLeader, per term: a second node accepting it in the same term is outside the
	// coordinator's discipline - two leaders then compete for the followers (a same-term request turns a leader
	// controller back into a follower), and what the nodes hold at a given moment is a matter of timing
	ledBy map[int64]int
	k      *cluster.Coord
	rf     int
}

func (e *protoExec) noteLeader(term int64, i int) {
	if e.ledBy == nil {
		e.ledBy = map[int64]int{}
	}
	if j, ok := e.ledBy[term]; ok && j != i {
		e.unrel = true
		return
	}
	e.ledBy[term] = i
}

func (e *protoExec) close() {
	if e.k != nil {
		e.k.Close()
		e.k = nil
	}
	if e.c != nil {
		e.c.Close()
		e.c = nil
	}
}

// stateTwoPass shows a cluster that is still moving: the leaders' cursors are read first, the logs
// afterwards (a log only grows while no RPC is under way), so that an acknowledged offset is never
// compared with an older view of the follower's log.
func (e *protoExec) stateTwoPass() string {
	first := make([]cluster.NodeView, e.n)
	for i := 0; i < e.n; i++ {
		first[i] = e.c.View(i)
	}
	parts := make([]string, e.n)
	for i := 0; i < e.n; i++ {
		v := e.c.View(i)
		if v.Ctrl == "L" && first[i].Ctrl == "L" && v.Term == first[i].Term {
			v.Cursors = first[i].Cursors
		}
		parts[i] = v.String(i)
	}
	return strings.Join(parts, " ")
}

func (e *protoExec) state() string {
	parts := make([]string, e.n)
	for i := 0; i < e.n; i++ {
		parts[i] = e.c.View(i).String(i)
	}
	return strings.Join(parts, " ")
}

// op runs one operation. For elections and attach requests the settled state before the request is added
// after " ~pre " - the comparison with the model ignores it (core.firstDiff), the oracle uses it to tell
// entries a follower *kept* across its truncation from entries it *took* afterwards.
func (e *protoExec) op(op string) string {
	if strings.HasPrefix(op, "k.") {
		return e.kop(op)
	}
	e.pre = ""
	r := e.opInner(op)
	if e.pre != "" && !strings.HasPrefix(r, "~") {
		r += " ~pre " + e.pre
	}
	return r
}

func (e *protoExec) opInner(op string) string {
	f := strings.Fields(op)
	kvs := c20kv(f)
	atoi := func(s string) int { v, _ := strconv.Atoi(s); return v }
	if f[0] == "p.init" {
		e.close()
		e.n = atoi(kvs["n"])
		if e.n == 0 {
			e.n = 3
		}
		var err error
		if e.c, err = cluster.NewP(e.n); err != nil {
			return "err:" + err.Error()
		}
		e.unrel = false
		return "ok"
	}
	if e.c == nil {
		return "bad-op"
	}
	if e.unrel || e.c.Snapshot.Load() {
		// a snapshot transfer (outside M-Repl) or a cluster that did not settle: the rest of the script is
		// not comparable with the model. What the nodes hold is still shown to the oracle when no snapshot
		// was involved: an acknowledgement is a statement about durable storage at any time.
		if f[0] == "p.state" && !e.c.Snapshot.Load() {
			return "~unsettled " + e.stateTwoPass()
		}
		return "~skipped"
	}
	mark := func(s string) string {
		if e.unrel || e.c.Snapshot.Load() {
			return "~" + s
		}
		return s
	}
	node := func(s string) (int, bool) {
		i := atoi(s)
		return i, i >= 0 && i < e.n
	}
	switch f[0] {
	case "p.newterm", "p.lead", "p.elect", "p.electm", "p.add", "p.write", "p.racewrite", "p.racesync", "p.raceredeliver", "p.restart", "p.crash", "p.trunc", "p.cut":
		// the model talks about settled states: everything deliverable has been delivered
		if !e.c.WaitSettled(8 * time.Second) {
			e.unrel = true
		}
		switch f[0] {
		case "p.lead", "p.elect", "p.electm", "p.add":
			e.pre = e.state()
		}
	}
	switch f[0] {
	case "p.newterm":
		i, ok := node(f[1])
		if !ok {
			return mark("err:no-such-node")
		}
		return mark(e.c.NewTerm(i, int64(atoi(f[2]))))
	case "p.lead":
		i, ok := node(f[1])
		if !ok {
			return mark("err:no-such-node")
		}
		fm := map[string]*proto.EntryId{}
		if kvs["fm"] != "" && kvs["fm"] != "_" {
			for _, x := range strings.Split(kvs["fm"], ",") {
				p := strings.Split(x, ":")
				if len(p) == 3 {
					fm[fmt.Sprintf("n%s", p[0])] = &proto.EntryId{Term: int64(atoi(p[1])), Offset: int64(atoi(p[2]))}
				}
			}
		}
		rf := atoi(kvs["rf"])
		if rf == 0 {
			rf = 1
		}
		r := e.c.BecomeLeader(i, int64(atoi(f[2])), uint32(rf), fm, 1500*time.Millisecond)
		if r == "ok" {
			e.noteLeader(int64(atoi(f[2])), i)
		}
		return mark(r)
	case "p.elect", "p.electm":
		want, ok := node(f[1])
		if !ok {
			return mark("err:no-such-node")
		}
		term := int64(atoi(f[2]))
		var members, removed []int
		if f[0] == "p.elect" {
			for i := 0; i < e.n; i++ {
				members = append(members, i)
			}
		} else {
			for _, x := range strings.Split(kvs["members"], ",") {
				if i, ok := node(x); ok && x != "" && x != "_" {
					members = append(members, i)
				}
			}
			for _, x := range strings.Split(kvs["removed"], ",") {
				if i, ok := node(x); ok && x != "" && x != "_" {
					removed = append(removed, i)
				}
			}
		}
		isMember := map[int]bool{}
		for _, m := range members {
			isMember[m] = true
		}
		all := append([]int{}, members...)
		for _, r := range removed {
			if !isMember[r] {
				all = append(all, r)
			}
		}
		type resp struct {
			i    int
			head *proto.EntryId
		}
		var answers []resp
		for _, i := range all {
			if e.c.IsCut(i) {
				continue
			}
			r := e.c.NewTerm(i, term)
			if strings.HasPrefix(r, "head=") {
				p := strings.Split(strings.TrimPrefix(r, "head="), ":")
				answers = append(answers, resp{i, &proto.EntryId{Term: int64(atoi(p[0])), Offset: int64(atoi(p[1]))}})
			}
		}
		// newTermQuorum: a majority of the ensemble and the nodes being removed (fact)
		if len(answers) < len(all)/2+1 {
			return mark("no-quorum")
		}
		var cands []resp
		for _, a := range answers {
			if isMember[a.i] {
				cands = append(cands, a)
			}
		}
		if len(cands) == 0 {
			return mark("no-quorum")
		}
		// selectNewLeader: the highest head; ties broken towards the wanted node
		better := func(a, b *proto.EntryId) bool { return a.Term > b.Term || (a.Term == b.Term && a.Offset > b.Offset) }
		best := cands[0]
		for _, h := range cands {
			if h.i == want {
				best = h
			}
		}
		for _, h := range cands {
			if better(h.head, best.head) {
				best = h
			}
		}
		fm := map[string]*proto.EntryId{}
		for _, h := range cands {
			if h.i != best.i {
				fm[fmt.Sprintf("n%d", h.i)] = h.head
			}
		}
		r := e.c.BecomeLeader(best.i, term, uint32(len(members)), fm, 2500*time.Millisecond)
		if r == "ok" {
			e.noteLeader(term, best.i)
			return mark(fmt.Sprintf("leader=%d", best.i))
		}
		if r == "timeout" {
			return mark("no-quorum")
		}
		return mark(r)
	case "p.add":
		l, ok1 := node(f[1])
		fo, ok2 := node(f[3])
		if !ok1 || !ok2 {
			return mark("err:no-such-node")
		}
		p := strings.Split(f[4], ":")
		r := e.c.AddFollower(l, int64(atoi(f[2])), fo, &proto.EntryId{Term: int64(atoi(p[0])), Offset: int64(atoi(p[1]))})
		if r == "ok" {
			e.c.WaitSettled(3 * time.Second)
		}
		return mark(r)
	case "p.write":
		i, ok := node(f[1])
		if !ok {
			return mark("err:no-such-node")
		}
		r := e.c.Write(i, atoi(f[2]), 1500*time.Millisecond)
		if r == "timeout" && e.c.StaleLeaderActive(i) {
			// liveness under a competing stale leader is a matter of timing: the rest of the script is not comparable
			e.unrel = true
		}
		return mark(r)
	case "p.racewrite":
		i, ok := node(f[1])
		if !ok {
			return mark("err:no-such-node")
		}
		return mark(e.c.RaceWriteNewTerm(i, atoi(f[2]), int64(atoi(f[3]))))
	case "p.racesync":
		// p.racesync <leader> <follower> <id> <term>
		l, ok1 := node(f[1])
		fo, ok2 := node(f[2])
		if !ok1 || !ok2 {
			return mark("err:no-such-node")
		}
		return mark(e.c.RaceAppendNewTerm(l, fo, atoi(f[3]), int64(atoi(f[4]))))
	case "p.raceredeliver":
		// p.raceredeliver <leader> <follower> <id>: the follower has appended the entry, its sync goroutine has not
		// run, the stream breaks and the entry is delivered again
		l, ok1 := node(f[1])
		fo, ok2 := node(f[2])
		if !ok1 || !ok2 {
			return mark("err:no-such-node")
		}
		return mark(e.c.RaceAppendRedeliver(l, fo, atoi(f[3])))
	case "p.cut":
		if i, ok := node(f[1]); ok {
			e.c.Cut(i)
		}
		return mark("ok")
	case "p.failappend":
		// the next entry this node takes as a follower fails in its WAL (an I/O error); the leader's cursor
		// reconnects and delivers it again
		if i, ok := node(f[1]); ok {
			e.c.FailNextAppend(i)
		}
		return mark("ok")
	case "p.heal":
		if i, ok := node(f[1]); ok {
			e.c.Heal(i)
			e.healed = true
		}
		return mark("ok")
	case "p.trunc":
		i, ok := node(f[1])
		if !ok {
			return mark("err:no-such-node")
		}
		r := mark(e.c.Truncate(i, int64(atoi(f[2])), int64(atoi(f[3]))))
		if strings.HasPrefix(strings.TrimPrefix(r, "~"), "head=") {
			// a Truncate request the script made up was carried out (the node was FENCED in that term): no
			// leader sends such a request - what follows (acknowledged entries gone, a log that restarts at
			// a later offset) is the script's doing and is not looked at
			e.unrel = true
		}
		return r
	case "p.crash":
		if i, ok := node(f[1]); ok {
			if err := e.c.Crash(i); err != nil {
				e.unrel = true
			}
			e.healed = true
		}
		return mark("ok")
	case "p.restart":
		if i, ok := node(f[1]); ok {
			if err := e.c.Restart(i); err != nil {
				e.unrel = true
			}
			e.healed = true
		}
		return mark("ok")
	case "p.settle":
		if !e.c.WaitSettled(8 * time.Second) {
			e.unrel = true
		}
		return mark("ok")
	case "p.state":
		if !e.c.WaitSettled(8 * time.Second) {
			e.unrel = true
			if !e.c.Snapshot.Load() {
				return "~unsettled " + e.stateTwoPass()
			}
		}
		return mark(e.state())
	case "p.astat":
		return "~astat" // a question to the model driver only
	case "p.read":
		i, ok := node(f[1])
		if !ok {
			return mark("err:no-such-node")
		}
		if !e.c.WaitSettled(8 * time.Second) {
			e.unrel = true
		}
		v := e.c.View(i)
		if v.Ctrl != "L" || v.Status != "leader" {
			return mark("err:not-leader")
		}
		var ids []string
		for o, x := range v.Log {
			if int64(o) <= v.Commit {
				ids = append(ids, x[strings.Index(x, ":")+1:])
			}
		}
		// what the leader's database really holds (annotation for the oracle: applied = committed);
		// the application follows the commit offset asynchronously, so give it a moment
		want := append([]string{}, ids...)
		sort.Strings(want)
		db := ""
		for try := 0; try < 100; try++ {
			got, ok := e.c.LeaderDBIds(i)
			if !ok {
				break
			}
			sort.Strings(got)
			db = " ~db=" + strings.Join(got, ",")
			if strings.Join(got, ",") == strings.Join(want, ",") {
				break
			}
			time.Sleep(10 * time.Millisecond)
		}
		r := mark("vis=" + strings.Join(ids, ","))
		if !strings.HasPrefix(r, "~") {
			r += db
		}
		return r
	}
	return "bad-op"
}

func protoExecOps(ops []string, outs []string) {
	e := &protoExec{}
	defer e.close()
	for i, o := range ops {
		o := o
		outs[i] = core.Safe(func() string { return e.op(o) })
	}
}

// ---- script generator: a coordinator that follows the election discipline, plus faults ----

type protoGen struct {
	rng    *rand.Rand
	ops    []string
	n      int
	term   int
	leader int
	nextID int
	cut    map[int]bool
}

// election emits a full election the way the coordinator runs it: the heads are not known to the script,
// so it fences every reachable node and lets the harness-side choice be expressed through p.lead with
// "auto" follower maps (resolved by the executor and by the model from the newterm answers).
func genProtoCase(rng *rand.Rand, adversarial bool) []string {
	g := &protoGen{rng: rng, n: 3, cut: map[int]bool{}, leader: -1}
	if rng.Intn(4) == 0 {
		g.n = 5
	}
	g.ops = []string{fmt.Sprintf("p.init n=%d", g.n)}
	g.elect(rng.Intn(g.n))
	steps := 6 + rng.Intn(24)
	for s := 0; s < steps; s++ {
		switch r := rng.Intn(20); {
		case r < 9:
			tgt := g.leader
			if adversarial && rng.Intn(6) == 0 {
				tgt = rng.Intn(g.n)
			}
			g.ops = append(g.ops, fmt.Sprintf("p.write %d %d", tgt, g.nextID))
			g.nextID++
		case r < 11:
			i := rng.Intn(g.n)
			if !g.cut[i] && len(g.cut) < g.n/2 {
				g.cut[i] = true
				g.ops = append(g.ops, fmt.Sprintf("p.cut %d", i))
			}
		case r < 13:
			for i := range g.cut {
				delete(g.cut, i)
				g.ops = append(g.ops, fmt.Sprintf("p.heal %d", i), "p.settle")
				break
			}
		case r < 15:
			g.elect(rng.Intn(g.n))
		case r == 15:
			i := rng.Intn(g.n)
			if rng.Intn(2) == 0 {
				g.ops = append(g.ops, fmt.Sprintf("p.crash %d", i), "p.settle")
			} else {
				g.ops = append(g.ops, fmt.Sprintf("p.restart %d", i), "p.settle")
			}
		case r == 16 && adversarial:
			// a late / duplicate / stale coordinator request
			switch rng.Intn(4) {
			case 3:
				// a Truncate request delivered again after the follower went on
				tgt := rng.Intn(g.n)
				if tgt == g.leader {
					tgt = (tgt + 1) % g.n // the leader sends truncations, it never receives one of its own term
				}
				g.ops = append(g.ops, "p.settle", fmt.Sprintf("p.trunc %d %d %d", tgt, g.term, rng.Intn(3)-1), "p.settle", "p.state")
			case 0:
				g.ops = append(g.ops, fmt.Sprintf("p.newterm %d %d", rng.Intn(g.n), g.term-rng.Intn(2)))
			case 1:
				g.ops = append(g.ops, fmt.Sprintf("p.lead %d %d rf=%d fm=_", rng.Intn(g.n), g.term-1, g.n))
			default:
				g.ops = append(g.ops, fmt.Sprintf("p.add %d %d %d -1:-1", g.leader, g.term, rng.Intn(g.n)))
			}
		default:
			g.ops = append(g.ops, "p.settle", "p.state")
		}
	}
	for i := range g.cut {
		g.ops = append(g.ops, fmt.Sprintf("p.heal %d", i))
	}
	g.ops = append(g.ops, "p.settle", "p.state", fmt.Sprintf("p.read %d", g.leader))
	return g.ops
}

func (g *protoGen) elect(want int) {
	g.term++
	g.ops = append(g.ops, fmt.Sprintf("p.elect %d %d", want, g.term))
	g.leader = want
}

type protoTarget struct{}

func (protoTarget) Timeout() time.Duration { return 120 * time.Second }

// ModelStats counts how the model driver explained the scripts by A-Repl steps (answers to p.astat).
func (protoTarget) ModelStats(ops []string, model []string, acc map[string]int) {
	for i, o := range ops {
		if o != "p.astat" || i >= len(model) {
			continue
		}
		m := model[i]
		switch {
		case strings.HasPrefix(m, "arepl on steps="):
			n, _ := strconv.Atoi(strings.TrimPrefix(m, "arepl on steps="))
			acc["arepl_scripts_explained_to_the_end"]++
			acc["arepl_steps_checked"] += n
		case strings.HasPrefix(m, "arepl off: "):
			acc["arepl_scripts_left_the_model"]++
			acc["arepl_off: "+strings.TrimPrefix(m, "arepl off: ")]++
		case strings.HasPrefix(m, "arepl unexplained"):
			acc["arepl_unexplained"]++
		}
	}
}

// C03: what a follower acknowledges is what the leader holds.
type C03 struct{ protoTarget }

func (C03) Generate(rng *rand.Rand, tier string) []core.Case { return genProtoCases(rng, tier, "C03") }

func (C03) Exec(ops []string, outs []string) { protoExecOps(ops, outs) }

// parseState: n0[L t=2 leader log=1:0,2:5 c=1 cur=1@1,2@1] ...
type nodeState struct {
	ctrl, status string
	term         int
	log          []string
	commit       int
	cursors      map[int]int
}

func parseProtoState(s string) []nodeState {
	var res []nodeState
	for _, part := range strings.Split(strings.TrimPrefix(s, "~"), "] ") {
		part = strings.TrimSuffix(part, "]")
		i := strings.Index(part, "[")
		if i < 0 {
			continue
		}
		f := strings.Fields(part[i+1:])
		ns := nodeState{commit: -1, cursors: map[int]int{}}
		if len(f) >= 3 {
			ns.ctrl = f[0]
			ns.term, _ = strconv.Atoi(strings.TrimPrefix(f[1], "t="))
			ns.status = f[2]
		}
		for _, t := range f[3:] {
			switch {
			case strings.HasPrefix(t, "log="):
				if v := strings.TrimPrefix(t, "log="); v != "" {
					ns.log = strings.Split(v, ",")
				}
			case strings.HasPrefix(t, "c="):
				ns.commit, _ = strconv.Atoi(strings.TrimPrefix(t, "c="))
			case strings.HasPrefix(t, "cur="):
				if v := strings.TrimPrefix(t, "cur="); v != "" {
					for _, x := range strings.Split(v, ",") {
						p := strings.Split(x, "@")
						a, _ := strconv.Atoi(p[0])
						b, _ := strconv.Atoi(p[1])
						ns.cursors[a] = b
					}
				}
			}
		}
		res = append(res, ns)
	}
	return res
}

// protoOracle checks, on the implementation's own outputs, the safety statements of C01-C05 that are
// visible in settled states.
func protoOracle(ops, impl []string, which string) string {
	acked := map[string]bool{}    // ids of writes acknowledged to the client
	maxTerm := map[int]int{}      // highest term each node has answered
	leaderOfTerm := map[int]int{} // term -> node that became leader in it
	var visible []string          // what a read has shown (ids in log order)
	entryTerm := map[string]int{} // id -> term of the entry (from the states)
	shownBy := map[string]int{}   // id -> term of the leader whose read showed it first
	swapped := false              // an election with nodes being removed has succeeded
	prevAck := map[string]int{}   // "leader>follower" -> acknowledged offset in the previous state
	prevTerm := map[int]int{}     // node -> term in the previous state
	preLog := map[int][]string{}  // node -> its log right before the last election / attach request
	// nodes that have carried out a Truncate request the script made up itself (p.trunc: not what any leader
	// sent): what such a node had acknowledged may be gone, by the script's doing
	madeUpTrunc := map[int]bool{}
	for i, o := range ops {
		if i >= len(impl) {
			break
		}
		out := impl[i]
		if strings.HasPrefix(o, "p.trunc ") && strings.HasPrefix(strings.TrimPrefix(out, "~"), "head=") {
			if tf := strings.Fields(o); len(tf) > 1 {
				tn, _ := strconv.Atoi(tf[1])
				madeUpTrunc[tn] = true
			}
		}
		dbIds, haveDB := []string(nil), false
		if j := strings.Index(out, " ~"); j >= 0 {
			ann := out[j+2:]
			out = out[:j]
			switch {
			case strings.HasPrefix(ann, "pre "):
				for n, s := range parseProtoState(ann[4:]) {
					preLog[n] = s.log
				}
			case strings.HasPrefix(ann, "db="):
				haveDB = true
				if v := strings.TrimPrefix(ann, "db="); v != "" {
					dbIds = strings.Split(v, ",")
				}
			}
		}
		if strings.HasPrefix(out, "~unsettled ") {
			// a cluster that did not come to rest (no snapshot involved): what a follower has acknowledged it
			// holds, at any time
			if which == "C03" {
				st := parseProtoState(strings.TrimPrefix(out, "~unsettled "))
				for n, s := range st {
					if s.ctrl != "L" || s.status != "leader" {
						continue
					}
					for fo, ack := range s.cursors {
						if fo >= len(st) || st[fo].term != s.term || st[fo].ctrl != "F" || madeUpTrunc[fo] {
							continue
						}
						for k := 0; k <= ack && k < len(s.log); k++ {
							if k >= len(st[fo].log) || st[fo].log[k] != s.log[k] {
								got := "nothing"
								if k < len(st[fo].log) {
									got = st[fo].log[k]
								}
								return fmt.Sprintf("op %d: follower n%d acknowledged offset %d to the leader n%d of term %d but holds %s at offset %d where the leader holds %s (the cluster did not come to rest)", i, fo, ack, n, s.term, got, k, s.log[k])
							}
						}
					}
				}
			}
			return ""
		}
		if strings.HasPrefix(out, "~") {
			continue // not comparable (snapshot transfer or unsettled cluster)
		}
		f := strings.Fields(o)
		switch {
		case out == "hang" || out == "panic":
			return fmt.Sprintf("op %d (%s): %s", i, o, out)
		case strings.HasPrefix(out, "err:other"):
			return fmt.Sprintf("op %d (%s): %s", i, o, out)
		}
		want := func(p string) bool { return which == p }
		switch f[0] {
		case "p.racewrite":
			// C04: the head a node reports when it is fenced is the end of its log, and stays it
			if want("C04") && strings.HasPrefix(out, "head=") {
				p := strings.Fields(out)
				if len(p) == 2 && strings.TrimPrefix(p[0], "head=") != strings.TrimPrefix(p[1], "wal=") {
					return fmt.Sprintf("op %d: n%s answered the new-term request with head %s but its log then ended at %s: the log grew after the node was fenced", i, f[1], strings.TrimPrefix(p[0], "head="), strings.TrimPrefix(p[1], "wal="))
				}
			}
		case "p.raceredeliver":
			if out == "ack-before-sync" {
				return fmt.Sprintf("op %d: the leader n%s holds an acknowledgement of follower n%s for an entry that is not among the follower's synced entries: the entry was appended through a stream that broke before the sync, delivered again, and acknowledged at once as a duplicate", i, f[1], f[2])
			}
		case "p.racesync":
			// C04: the same for a follower whose sync goroutine had not yet run when it was fenced
			if want("C04") && strings.HasPrefix(out, "head=") {
				p := strings.Fields(out)
				if len(p) == 2 && strings.TrimPrefix(p[0], "head=") != strings.TrimPrefix(p[1], "wal=") {
					return fmt.Sprintf("op %d: the follower n%s answered the new-term request with head %s but its log then ended at %s: an appended entry became visible after the node was fenced", i, f[2], strings.TrimPrefix(p[0], "head="), strings.TrimPrefix(p[1], "wal="))
				}
			}
		case "p.write":
			if out == "ok" {
				acked[f[2]] = true
			}
		case "p.elect", "p.electm":
			if strings.HasPrefix(out, "leader=") {
				l, _ := strconv.Atoi(strings.TrimPrefix(out, "leader="))
				t, _ := strconv.Atoi(f[2])
				if kv := c20kv(f); kv["removed"] != "" && kv["removed"] != "_" {
					swapped = true
				}
				if prev, ok := leaderOfTerm[t]; ok && prev != l && want("C05") {
					return fmt.Sprintf("op %d: two leaders in term %d: n%d and n%d", i, t, prev, l)
				}
				leaderOfTerm[t] = l
			}
		case "p.read":
			if strings.HasPrefix(out, "vis=") {
				var ids []string
				if v := strings.TrimPrefix(out, "vis="); v != "" {
					ids = strings.Split(v, ",")
				}
				// C02: the database the read is served from holds the effects of the committed entries and of
				// nothing else
				if haveDB && want("C02") {
					inVis := map[string]bool{}
					for _, id := range ids {
						inVis[id] = true
					}
					inDB := map[string]bool{}
					for _, id := range dbIds {
						inDB[id] = true
						if !inVis[id] {
							return fmt.Sprintf("op %d: the database of the leader n%s holds write %s, which is not in its committed log (%s): uncommitted or rolled-back data is served", i, f[1], id, strings.Join(ids, ","))
						}
					}
					for _, id := range ids {
						if !inDB[id] {
							return fmt.Sprintf("op %d: the database of the leader n%s does not hold write %s, which is in its committed log at or below the commit offset: a committed entry was never applied", i, f[1], id)
						}
					}
				}
				// C02: what a read has shown is never rolled back: the earlier view is a prefix
				for k, id := range visible {
					if !want("C02") {
						break
					}
					if k >= len(ids) || ids[k] != id {
						why := ""
						if et, ok := entryTerm[id]; ok && et < shownBy[id] {
							why = fmt.Sprintf(" [the entry was written in term %d and only re-committed by the leader of term %d, which had written no entry of its own]", et, shownBy[id])
						}
						return fmt.Sprintf("op %d: a read on n%s no longer shows write %s at position %d, which an earlier read had shown (rolled back)%s", i, f[1], id, k, why)
					}
				}
				if len(ids) > len(visible) {
					visible = ids
				}
				rt := -1
				for t, l := range leaderOfTerm {
					if fmt.Sprint(l) == f[1] && t > rt {
						rt = t
					}
				}
				for _, id := range ids {
					if _, ok := shownBy[id]; !ok {
						shownBy[id] = rt
					}
				}
				// C01: every acknowledged write is visible on the current leader (a deposed leader that has
				// not learned of the newer term may still serve its older committed state)
				cur := -1
				maxT := -1
				for t, l := range leaderOfTerm {
					if t > maxT {
						maxT, cur = t, l
					}
				}
				if fmt.Sprint(cur) != f[1] || !want("C01") {
					break
				}
				seen := map[string]bool{}
				for _, id := range ids {
					seen[id] = true
				}
				for id := range acked {
					if !seen[id] {
						why := ""
						if swapped {
							why = " [after a node-swap election: the removed node counts for the fencing majority but is no candidate]"
						}
						return fmt.Sprintf("op %d: the acknowledged write %s is not visible on the leader n%s%s", i, id, f[1], why)
					}
				}
			}
		case "p.state":
			st := parseProtoState(out)
			for _, s := range st {
				for _, e := range s.log {
					j := strings.Index(e, ":")
					t, _ := strconv.Atoi(e[:j])
					if _, ok := entryTerm[e[j+1:]]; !ok {
						entryTerm[e[j+1:]] = t
					}
				}
			}
			for n, s := range st {
				if _, ok := maxTerm[n]; !ok {
					maxTerm[n] = -1
				}
				if s.term < maxTerm[n] && want("C05") {
					return fmt.Sprintf("op %d: the term of n%d went back from %d to %d", i, n, maxTerm[n], s.term)
				}
				maxTerm[n] = s.term
			}
			// C03: any two replicas agree on every entry at or below either one's commit offset
			if want("C03") {
				for a := range st {
					for b := range st {
						if a >= b || st[a].ctrl != "L" || st[b].ctrl != "L" || st[a].status != "leader" || st[b].status != "leader" {
							continue
						}
						m := st[a].commit
						if st[b].commit < m {
							m = st[b].commit
						}
						for k := 0; k <= m && k < len(st[a].log) && k < len(st[b].log); k++ {
							if st[a].log[k] != st[b].log[k] {
								why := ""
								older, ot := st[a], a
								if st[b].term < st[a].term {
									older, ot = st[b], b
								}
								if j := strings.Index(older.log[k], ":"); j > 0 {
									if et, _ := strconv.Atoi(older.log[k][:j]); et < older.term {
										why = fmt.Sprintf(" [n%d, leader of term %d, re-committed this entry of the older term %d and wrote none of its own]", ot, older.term, et)
									}
								}
								return fmt.Sprintf("op %d: n%d (term %d) and n%d (term %d) both hold offset %d as committed, with different entries %s and %s%s", i, a, st[a].term, b, st[b].term, k, st[a].log[k], st[b].log[k], why)
							}
						}
					}
				}
			}
			// C03/C04: a node that follows term T holds nothing but (a prefix of) what the leader of T holds
			if want("C03") || want("C04") {
				for l := range st {
					if st[l].ctrl != "L" || st[l].status != "leader" {
						continue
					}
					for fo := range st {
						if fo == l || st[fo].term != st[l].term || st[fo].ctrl != "F" || st[fo].status != "follower" {
							continue
						}
						for k := 0; k < len(st[fo].log); k++ {
							if k >= len(st[l].log) || st[fo].log[k] != st[l].log[k] {
								lh := "nothing"
								if k < len(st[l].log) {
									lh = st[l].log[k]
								}
								// kept or taken? an entry the follower already held before the leader attached it
								// was left in place by the truncation (C03); anything else was appended since (C03, C04)
								if pl, ok := preLog[fo]; ok && k < len(pl) && pl[k] == st[fo].log[k] {
									if !want("C03") {
										continue
									}
									et, _ := strconv.Atoi(st[fo].log[k][:strings.Index(st[fo].log[k], ":")])
									why := ""
									hasTerm, lastLower := false, -1
									for o2, x := range st[l].log {
										xt, _ := strconv.Atoi(x[:strings.Index(x, ":")])
										if xt == et {
											hasTerm = true
										}
										if xt < et {
											lastLower = o2
										}
									}
									if !hasTerm && lastLower >= k {
										why = fmt.Sprintf(" [the leader holds no entry of term %d; its last entry of a lower term is at offset %d, and the follower was truncated by offset to there]", et, lastLower)
									}
									return fmt.Sprintf("op %d: n%d follows term %d and has acknowledged offset %d, but still holds %s at offset %d where the leader n%d holds %s: the truncation left it in place%s", i, fo, st[l].term, st[l].cursors[fo], st[fo].log[k], k, l, lh, why)
								}
								return fmt.Sprintf("op %d: n%d follows term %d but holds %s at offset %d where the leader n%d of that term holds %s: it took entries on behalf of another term", i, fo, st[l].term, st[fo].log[k], k, l, lh)
							}
						}
					}
				}
			}
			// C04: a node never acknowledges entries on behalf of a term lower than its own
			for l := range st {
				if st[l].ctrl != "L" {
					continue
				}
				for fo, ack := range st[l].cursors {
					key := fmt.Sprintf("%d>%d@%d", l, fo, st[l].term)
					pt, seen := prevTerm[fo]
					if prev, ok := prevAck[key]; ok && ack > prev && fo < len(st) && seen && pt > st[l].term && st[fo].term > st[l].term && want("C04") {
						return fmt.Sprintf("op %d: n%d, which has answered a new-term request for term %d, acknowledged offset %d to n%d, the leader of the lower term %d", i, fo, st[fo].term, ack, l, st[l].term)
					}
					prevAck[key] = ack
				}
			}
			for n := range st {
				prevTerm[n] = st[n].term
			}
			nLeaders := map[int]int{}
			for n, s := range st {
				if s.ctrl == "L" && s.status == "leader" {
					if prev, ok := nLeaders[s.term]; ok && want("C05") {
						return fmt.Sprintf("op %d: n%d and n%d both lead term %d", i, prev, n, s.term)
					}
					nLeaders[s.term] = n
				}
			}
			for n, s := range st {
				if s.ctrl != "L" || s.status != "leader" {
					continue
				}
				// C03: a follower that acknowledged offset o holds the leader's entries up to o
				for fo, ack := range s.cursors {
					if fo >= len(st) || st[fo].term != s.term || !want("C03") || madeUpTrunc[fo] {
						continue
					}
					for k := 0; k <= ack && k < len(s.log); k++ {
						if k >= len(st[fo].log) || st[fo].log[k] != s.log[k] {
							got := "nothing"
							if k < len(st[fo].log) {
								got = st[fo].log[k]
							}
							return fmt.Sprintf("op %d: follower n%d acknowledged offset %d to the leader n%d of term %d but holds %s at offset %d where the leader holds %s", i, fo, ack, n, s.term, got, k, s.log[k])
						}
					}
				}
				// commit offset: within the log, acknowledged by a quorum
				if s.commit >= len(s.log) && want("C03") {
					return fmt.Sprintf("op %d: the commit offset %d of leader n%d is beyond its head %d", i, s.commit, n, len(s.log)-1)
				}
				// C01: acknowledged writes are in the log of the leader, at or below its commit offset
				inLog := map[string]int{}
				for k, e := range s.log {
					inLog[e[strings.Index(e, ":")+1:]] = k
				}
				higher := false
				for _, s2 := range st {
					if s2.term > s.term {
						higher = true
					}
				}
				if !higher && want("C01") {
					for id := range acked {
						if k, ok := inLog[id]; !ok || k > s.commit {
							why := ""
							if swapped {
								why = " [after a node-swap election: the removed node counts for the fencing majority but is no candidate]"
							}
							return fmt.Sprintf("op %d: the acknowledged write %s is not in the committed log of the leader n%d (term %d)%s", i, id, n, s.term, why)
						}
					}
				}
			}
		}
	}
	return ""
}

func (C03) Oracle(ops, impl, model []string) string { return protoOracle(ops, impl, "C03") }

func (C03) Nontrivial(ops []string, outs []string) bool {
	for i, o := range ops {
		if i < len(outs) && strings.HasPrefix(o, "p.elect") && strings.HasPrefix(outs[i], "leader=") && i > 2 {
			return true
		}
	}
	return false
}

// genProtoDirected adds the situations the single properties are about to a random script.
func genProtoDirected(rng *rand.Rand, which string, i int) []string {
	ops := genProtoCase(rng, i%3 == 0)
	if which == "C04" && i%5 == 1 {
		// an entry is on its way into a follower (appended, its sync goroutine not yet run) when the follower
		// is fenced: the head it reports is the end of its log; the election that follows sees it
		w1, w2, w3 := 10+i, 400+i, 800+i
		fo := 1 + i%2
		return []string{"p.init n=3", "p.elect 0 1", fmt.Sprintf("p.write 0 %d", w1), "p.settle", "p.state",
			fmt.Sprintf("p.racesync 0 %d %d 2", fo, w2), "p.elect 0 2", "p.settle", "p.state", fmt.Sprintf("p.write 0 %d", w3), "p.settle", "p.state", "p.read 0"}
	}
	if which == "C04" && i%5 == 3 {
		// the same, with the new leader's process gone when the deposed leader reconnects
		return []string{"p.init n=3", "p.elect 0 1", fmt.Sprintf("p.write 0 %d", 10+i), "p.settle", "p.cut 0", fmt.Sprintf("p.write 0 %d", 100+i), fmt.Sprintf("p.write 0 %d", 200+i),
			"p.elect 1 2", fmt.Sprintf("p.write 1 %d", 300+i), "p.settle", "p.state", "p.restart 1", "p.heal 0", "p.settle", "p.state", "p.elect 2 3", "p.settle", "p.state", "p.read 2"}
	}
	if (which == "C03" || which == "C04") && i%5 == 2 {
		// a deposed leader with an uncommitted tail comes back while the others follow a newer term
		return []string{"p.init n=3", "p.elect 0 1", fmt.Sprintf("p.write 0 %d", 10+i), "p.settle", "p.cut 0", fmt.Sprintf("p.write 0 %d", 100+i), fmt.Sprintf("p.write 0 %d", 200+i),
			"p.elect 1 2", fmt.Sprintf("p.write 1 %d", 300+i), "p.settle", "p.state", "p.heal 0", "p.settle", "p.state", fmt.Sprintf("p.write 1 %d", 400+i), "p.settle", "p.state",
			"p.elect 2 3", "p.settle", "p.state", "p.read 2"}
	}
	if (which == "C03" || which == "C01") && i%10 == 0 {
		// an entry is appended by a follower whose sync goroutine is held; the stream breaks; the cursor delivers
		// the entry again: it is acknowledged only once it is synced
		fo := 1 + (i/10)%2
		return []string{"p.init n=3", "p.elect 0 1", fmt.Sprintf("p.write 0 %d", 10+i), "p.settle", "p.state",
			fmt.Sprintf("p.raceredeliver 0 %d %d", fo, 900+i), "p.settle", "p.state", fmt.Sprintf("p.write 0 %d", 1900+i), "p.settle", "p.state", "p.read 0"}
	}
	if which == "C03" && i%5 == 3 {
		// an I/O error in a follower's WAL while it takes an entry: the stream breaks, the leader's cursor
		// reconnects and delivers again from what the follower had acknowledged: what the follower acknowledges
		// afterwards it holds
		fo := 1 + i%2
		out := []string{"p.init n=3", "p.elect 0 1", fmt.Sprintf("p.write 0 %d", 10+i), "p.settle", fmt.Sprintf("p.failappend %d", fo)}
		for j := 0; j < 1+rng.Intn(3); j++ {
			out = append(out, fmt.Sprintf("p.write 0 %d", 600+10*i+j))
		}
		out = append(out, "p.settle", "p.state", fmt.Sprintf("p.elect %d 2", fo), "p.settle", "p.state", fmt.Sprintf("p.read %d", fo))
		return out
	}
	if which == "C03" && i%5 == 1 {
		// a young shard (nothing committed, so no snapshot is sent): entries are pushed towards a follower
		// that cannot be reached, the follower restarts (the stream breaks with entries in flight), the
		// cursor reconnects: everything at or below what the follower acknowledges afterwards must be there
		k := 1 + rng.Intn(3)
		out := []string{"p.init n=3", "p.elect 0 1", "p.cut 1", "p.cut 2"}
		for j := 0; j < k; j++ {
			out = append(out, fmt.Sprintf("p.write 0 %d", 50+10*i+j))
		}
		out = append(out, "p.state", "p.restart 2", "p.heal 2", fmt.Sprintf("p.write 0 %d", 7000+i), "p.settle", "p.state", "p.heal 1", "p.settle", "p.state", "p.read 0")
		return out
	}
	if which == "C03" && i%5 == 4 {
		// a deposed leader whose uncommitted tail is of a term the next leader has no entry of, while that
		// leader holds (re-committed) entries of a lower term further up: `getHighestEntryOfTerm` answers with
		// an entry of the lower term and the follower is cut by offset (known finding D-44 when the follower's
		// log is longer than that offset; ErrOffsetOutOfBounds and a failed election when it is not)
		k, m := 1+rng.Intn(3), 1+rng.Intn(4)
		out := []string{"p.init n=3", "p.elect 0 1", fmt.Sprintf("p.write 0 %d", 10+i), "p.settle", "p.cut 0"}
		for j := 0; j < k; j++ {
			out = append(out, fmt.Sprintf("p.write 0 %d", 100+10*i+j))
		}
		out = append(out, "p.elect 1 2", "p.settle", "p.cut 2")
		for j := 0; j < m; j++ {
			out = append(out, fmt.Sprintf("p.write 1 %d", 2000+10*i+j))
		}
		out = append(out, "p.cut 1", "p.heal 0", "p.heal 2", "p.elect 0 3", fmt.Sprintf("p.write 0 %d", 30000+i), "p.settle", "p.state",
			"p.heal 1", "p.elect 0 4", "p.settle", "p.state", "p.read 0")
		return out
	}
	switch which {
	case "C04":
		// a client write racing with the fencing of its leader (the leader is cut off, so the outcome for the
		// followers does not depend on timing)
		n := 3
		if strings.Contains(ops[0], "n=5") {
			n = 5
		}
		var out []string
		term := 100
		id := 5000
		for _, o := range ops {
			out = append(out, o)
			if strings.HasPrefix(o, "p.elect ") && rng.Intn(3) == 0 {
				l := strings.Fields(o)[1]
				term++
				out = append(out, "p.settle", "p.cut "+l, fmt.Sprintf("p.racewrite %s %d %d", l, id, term), "p.heal "+l, "p.settle", "p.state")
				id++
				term++
				out = append(out, fmt.Sprintf("p.elect %d %d", rng.Intn(n), term))
			}
		}
		// the terms of the random part have to stay below the directed ones: renumber
		return renumberTerms(out)
	case "C01":
		if i%4 == 1 {
			// a node swap while the leader is away and the other member lags (known finding D-41 when the
			// removed node is the only reachable holder of the committed entries)
			return []string{"p.init n=4", "p.electm 0 1 members=0,1,2 removed=_", "p.cut 2", fmt.Sprintf("p.write 0 %d", 100+i), fmt.Sprintf("p.write 0 %d", 500+i), "p.state",
				"p.cut 0", "p.heal 2", "p.electm 2 2 members=0,2,3 removed=1", "p.state", "p.read 2"}
		}
	case "C02":
		if i%4 == 3 {
			// an election that is abandoned while the new leader waits for its log to reach a quorum: the
			// node holds an uncommitted entry, is fenced again, follows another leader that commits something
			// else at that offset, and leads later: its database must hold what is committed, nothing else
			a, b, c := 10+i, 1000+i, 3000+i
			return []string{"p.init n=3", "p.elect 0 1", fmt.Sprintf("p.write 0 %d", a), "p.settle", "p.cut 0", fmt.Sprintf("p.write 0 %d", b), "p.state",
				"p.newterm 0 2", "p.newterm 1 2", "p.cut 1", "p.lead 0 2 rf=3 fm=1:1:0", "p.state",
				"p.heal 1", "p.elect 1 3", fmt.Sprintf("p.write 1 %d", c), "p.settle", "p.state", "p.read 1",
				"p.heal 0", "p.elect 1 4", "p.settle", "p.state", "p.read 1", "p.elect 0 5", "p.settle", "p.state", "p.read 0"}
		}
		if i%4 == 1 {
			// a leader that only re-commits entries of older terms is followed by a leader with a higher head
			// term (known finding D-40)
			return []string{"p.init n=3", "p.elect 0 1", "p.cut 1", "p.cut 2", "p.write 0 100", "p.cut 0", "p.heal 1", "p.heal 2", "p.elect 1 2", "p.cut 2",
				"p.write 1 200", "p.cut 1", "p.heal 0", "p.heal 2", "p.elect 0 3", "p.state", "p.read 0", "p.cut 0", "p.heal 1", "p.elect 1 4", "p.state", "p.read 1"}
		}
	}
	return ops
}

// renumberTerms makes the terms of the election ops strictly increasing in script order.
func renumberTerms(ops []string) []string {
	t := 0
	res := make([]string, len(ops))
	for i, o := range ops {
		f := strings.Fields(o)
		switch f[0] {
		case "p.elect":
			t++
			f[2] = fmt.Sprint(t)
		case "p.racewrite":
			t++
			f[3] = fmt.Sprint(t)
		case "p.racesync":
			t++
			f[4] = fmt.Sprint(t)
		case "p.newterm":
			f[2] = fmt.Sprint(t)
		case "p.lead":
			// a stale BecomeLeader: the coordinator sends one BecomeLeader per term, to one node
			f[2] = fmt.Sprint(t - 1)
		case "p.add":
			f[2] = fmt.Sprint(t)
		}
		res[i] = strings.Join(f, " ")
	}
	return res
}

func genProtoCases(rng *rand.Rand, tier, which string) []core.Case {
	n := 40
	if tier == "thorough" {
		n = 1200
	}
	var cases []core.Case
	for i := 0; i < n; i++ {
		cases = append(cases, core.Case{Name: fmt.Sprintf("proto-%s-%d", which, i), Ops: append(genProtoDirected(rng, which, i), "p.astat")})
	}
	return cases
}

func protoNontrivial(ops []string, outs []string) bool {
	for i, o := range ops {
		if i < len(outs) && o == "k.wait" && outs[i] == "~steady" && i > 2 {
			return true
		}
		if i < len(outs) && strings.HasPrefix(o, "p.elect") && strings.HasPrefix(outs[i], "leader=") && i > 2 {
			return true
		}
	}
	return false
}

type C04 struct{ protoTarget }

func (C04) Generate(rng *rand.Rand, tier string) []core.Case { return genProtoCases(rng, tier, "C04") }
func (C04) Exec(ops []string, outs []string)                 { protoExecOps(ops, outs) }
func (C04) Oracle(ops, impl, model []string) string          { return protoOracle(ops, impl, "C04") }
func (C04) Nontrivial(ops []string, outs []string) bool      { return protoNontrivial(ops, outs) }

type C05 struct{ protoTarget }

func (C05) Generate(rng *rand.Rand, tier string) []core.Case {
	return append(genProtoCases(rng, tier, "C05"), genCoordCases(rng, tier, "C05")...)
}
func (C05) Exec(ops []string, outs []string)                 { protoExecOps(ops, outs) }
func (C05) Oracle(ops, impl, model []string) string {
	if len(ops) > 0 && strings.HasPrefix(ops[0], "k.") {
		return coordOracle(ops, impl, "C05")
	}
	return protoOracle(ops, impl, "C05")
}
func (C05) Nontrivial(ops []string, outs []string) bool      { return protoNontrivial(ops, outs) }

type C01 struct{ protoTarget }

func (C01) Generate(rng *rand.Rand, tier string) []core.Case {
	return append(genProtoCases(rng, tier, "C01"), genCoordCases(rng, tier, "C01")...)
}
func (C01) Exec(ops []string, outs []string)                 { protoExecOps(ops, outs) }
func (C01) Oracle(ops, impl, model []string) string {
	if len(ops) > 0 && strings.HasPrefix(ops[0], "k.") {
		return coordOracle(ops, impl, "C01")
	}
	return protoOracle(ops, impl, "C01")
}
func (C01) Nontrivial(ops []string, outs []string) bool      { return protoNontrivial(ops, outs) }

type C02 struct{ protoTarget }

func (C02) Generate(rng *rand.Rand, tier string) []core.Case { return genProtoCases(rng, tier, "C02") }
func (C02) Exec(ops []string, outs []string)                 { protoExecOps(ops, outs) }
func (C02) Oracle(ops, impl, model []string) string          { return protoOracle(ops, impl, "C02") }
func (C02) Nontrivial(ops []string, outs []string) bool      { return protoNontrivial(ops, outs) }
