package props

import "oxverif/harness/core"

// Targets maps property ids to their correspondence targets.
var Targets = map[string]core.Target{
	"C11": C11{},
	"C01": C01{},
	"C02": C02{},
	"C03": C03{},
	"C04": C04{},
	"C05": C05{},
	"C06": C06{},
	"C07": C07{},
	"C08": C08{},
	"C09": C09{},
	"C10": C10{},
	"C12": C12{},
	"C13": C13{},
	"C14": C14{},
	"C15": C15{},
	"C16": C16{},
	"C17": C17{},
	"C18": C18{},
	"C19": C19{},
	"C20": C20{},
}
