import OxiaVerif.Model.Key
import OxiaVerif.Model.Hex
import OxiaVerif.Facts
import OxiaVerif.Driver.Dispatch

open Oxia

partial def loop (hin : IO.FS.Stream) (hout : IO.FS.Stream) (st : Driver.State) : IO Unit := do
  let line ← hin.getLine
  if line.isEmpty then
    hout.flush
    return ()
  let l := (line.dropEndWhile (fun c => c == '\n' || c == '\r')).toString
  if l == "sync" then
    hout.putStrLn "sync"
    hout.flush
    loop hin hout st
  else
    let (st', out) := Driver.step st l
    hout.putStrLn out
    loop hin hout st'

def main : IO Unit := do
  let hin ← IO.getStdin
  let hout ← IO.getStdout
  loop hin hout Driver.State.init
