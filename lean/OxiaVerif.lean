-- Root of the OxiaVerif library: models, lemmas and the per-property theorem files.
import OxiaVerif.Model.Key
import OxiaVerif.Model.SKV
import OxiaVerif.Model.Hex
import OxiaVerif.FactTypes
import OxiaVerif.Facts
import OxiaVerif.Lemmas.Key
import OxiaVerif.Props.C11
import OxiaVerif.Props.C11OnTree
import OxiaVerif.Model.Wal
import OxiaVerif.Lemmas.Wal
import OxiaVerif.Props.C09
import OxiaVerif.Props.C09OnTree
import OxiaVerif.Driver.Dispatch
import OxiaVerif.Model.Codec
import OxiaVerif.Props.C10
import OxiaVerif.Props.C10OnTree
