import OxiaVerif.Model.ARepl

/-!
The tie between M-Repl (whole RPCs on settled states, what the implementation is compared with) and
A-Repl (the atomic steps the safety theorems are about): after every operation of a protocol script the
driver *explains* the change of M-Repl's world by a sequence of A-Repl steps, each of which has to be
enabled (`ARepl.pre`), and then compares what the nodes hold in both. A change that cannot be explained is
reported in the next `p.state` answer (and so shows up as a disagreement with the implementation).

The explanation is searched in a fixed order that follows the protocol: the coordinator's term, the
client write, deliveries from the leaders there are, new-term answers, restarts, the installation of a
leader (with every node of the term whose head does not beat the winner's as the fenced majority),
attaches, deliveries.

Tracking is switched off (not reported) when a script leaves what A-Repl covers: RPCs sent outside the
coordinator's discipline (`p.newterm`, `p.lead`, `p.add`, `p.trunc`), ensemble changes (`p.electm`), a
second BecomeLeader in one term, and the attach case of known finding D-44.
-/
namespace Oxia.AReplSim
open Oxia.Repl

structure Track where
  a : ARepl.St
  on : Bool := true
  flagged : Bool := false
  note : String := ""
  steps : Nat := 0
  lastElect : Int := -1

inductive Hint
  | none
  | write (l id : Nat)

def showOp (op : ARepl.Op) : String := (reprStr op).replace "\n" " "

def apply1 (st : ARepl.St × Nat) (op : ARepl.Op) : Except String (ARepl.St × Nat) :=
  if ARepl.pre st.1 op then .ok (ARepl.next st.1 op, st.2 + 1) else .error ("flag:step not enabled: " ++ showOp op)

/-- deliveries from the leaders there are, as far as they lead towards what the nodes hold in `w` -/
def appendsPhase (w : World) (st0 : ARepl.St × Nat) : Except String (ARepl.St × Nat) := do
  let n := w.nodes.length
  let ids := List.range n
  let bound := ids.foldl (fun m i => m + (getNode w i).log.length + 1) 1
  let mut st := st0
  for _ in List.range bound do
    let mut progressed := false
    for l in ids do
      for f in ids do
        if st.1.leading l && f != l && st.1.att f && st.1.term f == st.1.term l then
          let F := st.1.log f
          let L := st.1.log l
          let T := (getNode w f).log
          if F.length < L.length && F.length < T.length && L[F.length]? == T[F.length]? && F == T.take F.length then
            st ← apply1 st (.append l f)
            progressed := true
    if !progressed then break
  return st

def showLog (l : List Entry) : String := String.intercalate "," (l.map fun e => toString e.term ++ ":" ++ toString e.id)

/-- explain the step from what `a` holds to what `w` holds -/
def explain (a : ARepl.St) (w : World) (hint : Hint) : Except String (ARepl.St × Nat) := do
  let n := w.nodes.length
  let ids := List.range n
  let mut st : ARepl.St × Nat := (a, 0)
  -- the coordinator's term
  let tmax := ids.foldl (fun m i => max m (getNode w i).term) a.ct
  for _ in List.range (tmax - a.ct).toNat do
    st ← apply1 st .newElection
  -- the client write
  match hint with
  | .write l id =>
    if (getNode w l).log == st.1.log l ++ [{ term := st.1.term l, id := id }] && st.1.leading l then
      st ← apply1 st (.write l id)
  | .none => pure ()
  st ← appendsPhase w st
  -- new-term answers
  for i in ids do
    if (getNode w i).term > st.1.term i then
      if (getNode w i).term != st.1.ct then throw "off:a node answered a term that is not the coordinator's current one"
      st ← apply1 st (.fence i)
  -- restarts
  for i in ids do
    if st.1.leading i && (getNode w i).ctrl != .leaderC then
      st ← apply1 st (.restart i)
  -- a leader is installed
  for l in ids do
    let nd := getNode w l
    if nd.ctrl == .leaderC && nd.term == st.1.ct && st.1.term l == st.1.ct && nd.rf > 0 && !st.1.leading l then
      if (st.1.ldr st.1.ct).isSome then throw "off:a second BecomeLeader in one term"
      let S := ids.filter fun j => st.1.term j == st.1.ct && !(better (headOf (st.1.log j)) (headOf (st.1.log l)))
      st ← apply1 st (.becomeLeader l S)
  -- attaches
  for l in ids do
    if st.1.leading l then
      for c in (getNode w l).cursors do
        let f := c.1
        if f != l && !st.1.att f && st.1.term f == st.1.term l then
          if ARepl.d44case (st.1.log l) (headOf (st.1.log f)) (st.1.eh (st.1.term l)) then
            throw "off:the attach case of known finding D-44"
          st ← apply1 st (.attach l f)
  st ← appendsPhase w st
  -- what the nodes hold
  for i in ids do
    if st.1.log i != (getNode w i).log then
      throw ("flag:n" ++ toString i ++ " holds " ++ showLog (getNode w i).log ++ ", the steps of A-Repl lead to " ++ showLog (st.1.log i))
    if st.1.term i != (getNode w i).term then
      throw ("flag:n" ++ toString i ++ " is in term " ++ toString (getNode w i).term ++ ", the steps of A-Repl lead to " ++ toString (st.1.term i))
  return st

/-- after one operation of a script -/
def advance (t : Track) (w : World) (hint : Hint) : Track :=
  if !t.on || t.flagged then t else
  match explain t.a w hint with
  | .ok (a', k) => { t with a := a', steps := t.steps + k }
  | .error e =>
    if e.startsWith "off:" then { t with on := false, note := (e.drop 4).toString }
    else { t with flagged := true, note := (e.drop 5).toString }

/-- the same for an RPC that a script sends on its own (`p.newterm`, `p.add`, `p.lead`, `p.trunc`): it may or
    may not be what the coordinator would send; when the steps of A-Repl do not explain it, the script has
    left the model -/
def advanceLenient (t : Track) (w : World) (op : String) : Track :=
  if !t.on || t.flagged then t else
  match explain t.a w .none with
  | .ok (a', k) => { t with a := a', steps := t.steps + k }
  | .error e =>
    { t with on := false, note := "an RPC outside the coordinator's discipline (" ++ op ++ "): " ++
        (if e.startsWith "off:" then (e.drop 4).toString else (e.drop 5).toString) }

def switchOff (t : Track) (why : String) : Track := if t.on && !t.flagged then { t with on := false, note := why } else t

def status (t : Track) : String :=
  if t.flagged then "arepl unexplained: " ++ t.note
  else if t.on then "arepl on steps=" ++ toString t.steps
  else "arepl off: " ++ t.note

end Oxia.AReplSim
