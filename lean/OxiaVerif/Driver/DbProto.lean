import OxiaVerif.Model.Db
import OxiaVerif.Model.Hex
import OxiaVerif.Facts

/-! Line protocol for the database model: parsing of write requests, canonical printing. -/
namespace Oxia.Driver.DbProto
open Oxia.Key Oxia.Db

def optInt (s : String) : Option (Option Int) :=
  if s == "_" then some none else s.toInt?.map some

def optKey (s : String) : Option (Option Key) :=
  if s == "_" then some none else (Hex.decode s).map some

def parseDeltas (s : String) : Option (List Nat) :=
  if s == "_" then some [] else (s.splitOn ",").mapM (·.toNat?)

def parseIdx (s : String) : Option (List SecIdx) :=
  if s == "_" then some [] else
  (s.splitOn ";").mapM fun p =>
    match p.splitOn "=" with
    | [n, k] => do
      let n ← Hex.decode n
      let k ← Hex.decode k
      pure { name := n, key := k }
    | _ => none

/-- `P:<key>:<val>:<exp>:<sess>:<cid>:<pk>:<deltas>:<idx>` -/
def parsePut (t : String) : Option PutReq :=
  match t.splitOn ":" with
  | ["P", k, v, e, s, c, pk, d, ix] => do
    let k ← Hex.decode k
    let v ← Hex.decode v
    let e ← optInt e
    let s ← optInt s
    let c ← optKey c
    let pk ← optKey pk
    let d ← parseDeltas d
    let ix ← parseIdx ix
    pure { key := k, value := v, expected := e, session := s, clientId := c, partitionKey := pk, deltas := d, indexes := ix }
  | _ => none

def parseDel (t : String) : Option DelReq :=
  match t.splitOn ":" with
  | ["D", k, e] => do
    let k ← Hex.decode k
    let e ← optInt e
    pure { key := k, expected := e }
  | _ => none

def parseRange (t : String) : Option RangeReq :=
  match t.splitOn ":" with
  | ["R", a, b] => do
    let a ← Hex.decode a
    let b ← Hex.decode b
    pure { start := a, stop := b }
  | _ => none

def parseWrite (toks : List String) : Option WriteReq :=
  let ps := toks.filter (·.startsWith "P:")
  let ds := toks.filter (·.startsWith "D:")
  let rs := toks.filter (·.startsWith "R:")
  do
    let ps ← ps.mapM parsePut
    let ds ← ds.mapM parseDel
    let rs ← rs.mapM parseRange
    pure { puts := ps, dels := ds, ranges := rs }

def showOptInt : Option Int → String
  | none => "_" | some i => toString i
def showOptKey : Option Key → String
  | none => "_" | some k => Hex.encode k

def showStatus : Status → String
  | .ok => "ok" | .keyNotFound => "notfound" | .unexpectedVersion => "badver" | .sessionDoesNotExist => "nosession"

def showVersion (v : Version) : String :=
  s!"v={v.version},mc={v.modCount},ct={v.created},mt={v.modified},s={showOptInt v.session},c={showOptKey v.clientId}"

def showPutResp (r : PutResp) : String :=
  match r.status, r.version with
  | .ok, some v => "ok(" ++ showVersion v ++ ",k=" ++ showOptKey r.key ++ ")"
  | st, _ => showStatus st

def showInfra : InfraErr → String
  | .missingPartitionKey => "err:missing-partition-key"
  | .missingSequenceDeltas => "err:missing-sequence-deltas"
  | .sequenceDeltaIsZero => "err:sequence-delta-zero"
  | .scanf => "err:scanf"
  | .deserialize => "err:deserialize"

def showWriteResp : Except InfraErr WriteResp → String
  | .error e => showInfra e
  | .ok r => "P[" ++ String.intercalate " " (r.puts.map showPutResp) ++ "] D[" ++
      String.intercalate " " (r.dels.map showStatus) ++ "] R[" ++ String.intercalate " " (r.ranges.map showStatus) ++ "]"

def showIdx (l : List SecIdx) : String :=
  if l.isEmpty then "_" else String.intercalate ";" (l.map fun i => Hex.encode i.name ++ "=" ++ Hex.encode i.key)

def showNType : NType → String
  | .created => "C" | .modified => "M" | .deleted => "D" | .rangeDeleted => "R"

def showNotif (n : Notif) : String :=
  Hex.encode n.key ++ "/" ++ showNType n.type ++ "/" ++ showOptInt n.version ++ "/" ++ showOptKey n.rangeEnd

def showBatch (b : NotifBatch) : String :=
  s!"N({b.offset},{b.timestamp},[" ++ String.intercalate "," (b.notifs.map showNotif) ++ "])"

def showVal : Val → String
  | .entry e => s!"E({Hex.encode e.value},{e.version},{e.modCount},{e.created},{e.modified},{showOptInt e.session}," ++
      showOptKey e.clientId ++ "," ++ showOptKey e.partitionKey ++ "," ++ showIdx e.indexes ++ ")"
  | .raw b => "R(" ++ Hex.encode b ++ ")"
  | .notif b => showBatch b

def showStore (s : Store) : String :=
  "n=" ++ toString s.length ++ " " ++ String.intercalate " " (s.map fun p => Hex.encode p.1 ++ "=" ++ showVal p.2)

def showGet : Except InfraErr GetResp → String
  | .error e => showInfra e
  | .ok r => match r.status, r.version with
    | .ok, some v => "ok(k=" ++ showOptKey r.key ++ ",val=" ++ Hex.encode (r.value.getD []) ++ "," ++ showVersion v ++ ")"
    | st, _ => showStatus st

def parseCmp : String → Option Cmp
  | "eq" => some .equal | "floor" => some .floor | "ceil" => some .ceiling | "lower" => some .lower | "higher" => some .higher
  | _ => none

def kvOf (toks : List String) (name : String) : Option String :=
  (toks.find? (·.startsWith (name ++ "="))).map (fun t => (t.drop (name.length + 1)).toString)

end Oxia.Driver.DbProto
