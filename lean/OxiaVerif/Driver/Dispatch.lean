import OxiaVerif.Model.Key
import OxiaVerif.Model.Hex
import OxiaVerif.Facts
import OxiaVerif.Props.C11Defs
import OxiaVerif.Model.SKV
import OxiaVerif.Model.Wal
import OxiaVerif.Model.Codec
import OxiaVerif.Driver.DbProto
import OxiaVerif.Model.Shard
import OxiaVerif.Model.Select
import OxiaVerif.Model.Batch
import OxiaVerif.Model.Ack
import OxiaVerif.Model.Session
import OxiaVerif.Model.Repl
import OxiaVerif.Driver.AReplSim

/-! Line-protocol dispatch: one operation line in, one output line out. -/
namespace Oxia.Driver
open Oxia.Key

structure State where
  kv : SKV.Map Unit := []
  walCfg : Wal.Cfg := { segmentSize := 1024, headerSize := Facts.codecV2HeaderSize, truncFix := Facts.walTruncateUpdatesOffsetsOnAllPaths }
  walRetention : Int := 0
  wal : Wal.SW := Wal.SW.init
  db : Db.Db := Db.Db.empty
  dbDisk : Bool := false
  cluster : Shard.ClusterStatus := { namespaces := [], gen := 0, serverIdx := 0 }
  client : List Shard.Shard := []
  tracker : Ack.Tracker := Ack.Tracker.new 1 (-1) (-1)
  trackerSet : Bool := false
  sess : Session.SS := Session.SS.init
  clusterOff : Int := 0
  clusterUp : Bool := false
  world : Repl.World := Repl.World.init 0
  track : Option AReplSim.Track := none
  seqSubs : List (Key × Option Key × Bool) := []   -- sequence-update subscribers: prefix, last observed, open

def State.init : State := {}

def ordStr : Ordering → String
  | .lt => "-1" | .eq => "0" | .gt => "1"

def stepKey (st : State) (toks : List String) : State × String :=
  match toks with
  | ["key.cmp", a, b] =>
    match Hex.decode a, Hex.decode b with
    | some a, some b => (st, ordStr (cmpSlash a b))
    | _, _ => (st, "bad-op")
  | ["key.cmpwired", a, b] =>
    match Hex.decode a, Hex.decode b with
    | some a, some b => (st, ordStr (C11.cmpOf Facts.comparer.cmp a b))
    | _, _ => (st, "bad-op")
  | ["key.abbrev", a] =>
    match Hex.decode a with
    | some a => (st, toString (C11.abbrevOf Facts.comparer.abbr a))
    | _ => (st, "bad-op")
  | ["key.sep", a, b] =>
    match Hex.decode a, Hex.decode b with
    | some a, some b => (st, Hex.encode (C11.sepOf Facts.comparer.sep a b))
    | _, _ => (st, "bad-op")
  | ["key.succ", a] =>
    match Hex.decode a with
    | some a => (st, Hex.encode (C11.succOf Facts.comparer.succ a))
    | _ => (st, "bad-op")
  | _ => (st, "bad-op")

/-- FNV-1a (32 bit) over the keys of a listing, each key followed by a 0x2c separator; used to
    keep listing outputs short for big data sets. -/
def fnvKeys (ks : List Key) : Nat :=
  ks.foldl (fun h k => (k ++ [44]).foldl (fun h b => ((h ^^^ b) * 16777619) % 4294967296) h) 2166136261

def showKeys (ks : List Key) : String :=
  if ks.length ≤ 64 then
    "n=" ++ toString ks.length ++ " " ++ String.intercalate "," (ks.map Hex.encode)
  else
    "n=" ++ toString ks.length ++ " first=" ++ Hex.encode (ks.headD []) ++ " last=" ++
      Hex.encode (ks.getLastD []) ++ " h=" ++ toString (fnvKeys ks)

def showOptKey {V} : Option (Key × V) → String
  | none => "none"
  | some (k, _) => Hex.encode k

def decodeAll (l : List String) : Option (List Key) := l.mapM Hex.decode

/-- sort + dedupe a batch of keys, then merge into the map (bulk form of repeated `insert`) -/
def bulkPut (ks : List Key) (m : SKV.Map Unit) : SKV.Map Unit :=
  let sorted := ks.mergeSort (fun a b => cmpSlash a b != .gt)
  let rec dedup : List Key → List Key
    | a :: b :: r => if cmpSlash a b == .eq then dedup (b :: r) else a :: dedup (b :: r)
    | l => l
  SKV.merge ((dedup sorted).map (fun k => (k, ()))) m

def stepKv (st : State) (toks : List String) : State × String :=
  match toks with
  | "kv.mput" :: ks =>
    match decodeAll ks with
    | some ks => ({ st with kv := bulkPut ks st.kv }, "ok")
    | none => (st, "bad-op")
  | ["kv.put", k] =>
    match Hex.decode k with
    | some k => ({ st with kv := SKV.insert k () st.kv }, "ok")
    | none => (st, "bad-op")
  | ["kv.del", k] =>
    match Hex.decode k with
    | some k => ({ st with kv := SKV.erase k st.kv }, "ok")
    | none => (st, "bad-op")
  | ["kv.flush"] => (st, "ok")
  | ["kv.vlen", _] => (st, "ok")
  | ["kv.compact"] => (st, "ok")
  | ["kv.get", c, k] =>
    match Hex.decode k with
    | some k =>
      match c with
      | "eq" => (st, match SKV.get? k st.kv with | some _ => Hex.encode k | none => "none")
      | "floor" => (st, showOptKey (SKV.floor k st.kv))
      | "ceil" => (st, showOptKey (SKV.ceiling k st.kv))
      | "lower" => (st, showOptKey (SKV.lower k st.kv))
      | "higher" => (st, showOptKey (SKV.higher k st.kv))
      | _ => (st, "bad-op")
    | none => (st, "bad-op")
  | ["kv.list", lo, hi] =>
    match Hex.decode lo, Hex.decode hi with
    | some lo, some hi => (st, showKeys (SKV.keys (SKV.range lo hi st.kv)))
    | _, _ => (st, "bad-op")
  | ["kv.listrev", lo, hi] =>
    match Hex.decode lo, Hex.decode hi with
    | some lo, some hi => (st, showKeys (SKV.keys (SKV.range lo hi st.kv)).reverse)
    | _, _ => (st, "bad-op")
  | ["kv.getall"] => (st, "missing=0 first=-")
  | _ => (st, "bad-op")

def showEntry (e : Wal.Entry) : String :=
  s!"{e.offset}.{e.term}.{e.ts}.{e.id}.{e.size}"

def showEntries : Except Wal.Err (List Wal.Entry) → String
  | .error e => e.str
  | .ok l => "n=" ++ toString l.length ++ " " ++ String.intercalate "," (l.map showEntry)

def stepWal (st : State) (toks : List String) : State × String :=
  match toks with
  | ["wal.cfg", seg, ret] =>
    match seg.toNat?, ret.toInt? with
    | some seg, some ret => ({ st with walCfg := { st.walCfg with segmentSize := seg }, walRetention := ret, wal := Wal.SW.init }, "ok")
    | _, _ => (st, "bad-op")
  | [op, off, term, ts, size, id] =>
    if op == "wal.append" || op == "wal.appendsync" then
      match off.toInt?, term.toInt?, ts.toInt?, size.toNat?, id.toNat? with
      | some off, some term, some ts, some size, some id =>
        match st.wal.appendAsync st.walCfg { offset := off, term := term, ts := ts, size := size, id := id } with
        | .ok w => ({ st with wal := if op == "wal.appendsync" then w.sync else w }, "ok")
        | .error e => (st, e.str)
      | _, _, _, _, _ => (st, "bad-op")
    else (st, "bad-op")
  | ["wal.sync"] => ({ st with wal := st.wal.sync }, "ok")
  | ["wal.clear"] => ({ st with wal := st.wal.clear }, "ok")
  | ["wal.reopen"] => ({ st with wal := st.wal.reopen }, "ok")
  | ["wal.trunc", o] =>
    match o.toInt? with
    | some o =>
      match st.wal.truncate st.walCfg o with
      | .ok (w, r) => ({ st with wal := w }, toString r)
      | .error e => (st, e.str)
    | none => (st, "bad-op")
  | ["wal.trim", now, commit] =>
    match now.toInt?, commit.toInt? with
    | some now, some commit =>
      match st.wal.doTrim now st.walRetention commit with
      | .ok w => ({ st with wal := w }, "ok")
      | .error e => (st, e.str)
    | _, _ => (st, "bad-op")
  | ["wal.first"] => (st, toString st.wal.first)
  | ["wal.last"] => (st, toString st.wal.synced)
  | ["wal.readfwd", a] =>
    match a.toInt? with
    | some a => (st, showEntries (st.wal.readFwd a))
    | none => (st, "bad-op")
  | ["wal.readrev"] => (st, showEntries st.wal.readRev)
  | _ => (st, "bad-op")

def codecCfg (ver : String) : Codec.Cfg :=
  { v2 := ver != "1", overflowSafe := Facts.codecSizeCheckOverflowSafe, readGuarded := Facts.codecReadIntGuarded }

def roCfg : Codec.ROCfg :=
  { lenGuard := Facts.readIndexChecksLength, emptyGuard := Facts.readOnlySegmentRefusesEmptyIndex }

def showRecovered : Codec.Res Codec.Recovered → String
  | .ok r => "ok idx=" ++ String.intercalate "," (r.index.map toString) ++ " crc=" ++ toString r.lastCrc ++
      " off=" ++ toString r.newFileOffset ++ " n=" ++ toString r.count
  | .errOutOfBounds => "err:oob"
  | .errEmptyPayload => "err:empty"
  | .errDataCorrupted => "err:corrupt"
  | .panic => "panic"

def stepCodec (st : State) (toks : List String) : State × String :=
  match toks with
  | "cx.recover" :: ver :: buf :: start :: uf :: _ =>
    match Hex.decode buf, start.toNat?, uf.toInt? with
    | some buf, some start, some uf =>
      let u : Option Nat := if uf < 0 then none else some uf.toNat
      (st, showRecovered (Codec.recoverIndex (codecCfg ver) Codec.oxiaCrc buf start u))
    | _, _, _ => (st, "bad-op")
  | "cx.read" :: ver :: buf :: start :: _ =>
    match Hex.decode buf, start.toNat? with
    | some buf, some start =>
      (st, match Codec.readRecord (codecCfg ver) Codec.oxiaCrc buf start with
        | .ok p => "ok " ++ Hex.encode p
        | .errOutOfBounds => "err:oob"
        | .errEmptyPayload => "err:empty"
        | .errDataCorrupted => "err:corrupt"
        | .panic => "panic")
    | _, _ => (st, "bad-op")
  | "cx.openro" :: ver :: idxFile :: txn :: _ =>
    -- a read-only segment opened on an index file and a txn file as they are given; what it serves
    match (if idxFile == "." then some [] else Hex.decode idxFile), Hex.decode txn with
    | some idxFile, some txn =>
      let c := codecCfg ver
      let showErr : {α : Type} → Codec.Res α → String := fun r => match r with
        | .ok _ => "ok"
        | .errOutOfBounds => "err:oob"
        | .errEmptyPayload => "err:empty"
        | .errDataCorrupted => "err:corrupt"
        | .panic => "panic"
      (st, match Codec.openReadOnly c roCfg Codec.oxiaCrc idxFile txn with
        | .ok s =>
          let ps := (List.range s.count).map fun k => match Codec.roRead c Codec.oxiaCrc s txn k with
            | .ok p => Hex.encode p
            | r => showErr r
          "ok n=" ++ toString s.count ++ " crc=" ++ toString s.lastCrc ++ " p=" ++ String.intercalate "," ps
        | r => showErr r)
    | _, _ => (st, "bad-op")
  | "cx.encode" :: ver :: prev :: payload :: _ =>
    match prev.toNat?, Hex.decode payload with
    | some prev, some payload =>
      let (b, c) := Codec.encodeRecord (codecCfg ver) Codec.oxiaCrc prev payload
      (st, Hex.encode b ++ " " ++ toString (if ver == "1" then 0 else c))
    | _, _ => (st, "bad-op")
  | "cw.stale" :: rest =>
    -- the list model of the WAL across a crash: the damaged uncommitted entry and everything behind it are
    -- gone, the appended entry follows, a restart changes nothing
    match ((DbProto.kvOf rest "tear").getD "").toInt?, ((DbProto.kvOf rest "commit").getD "").toInt? with
    | some tear, some commit =>
      if tear ≤ commit then (st, "err:corrupt")
      else (st, "first=" ++ toString (tear - 1) ++ " second=" ++ toString tear)
    | _, _ => (st, "bad-op")
  | "cw.power" :: rest =>
    -- a syncing WAL (`Sync` = msync of what has been appended): what the WAL reports as synced after the
    -- script is what a power failure leaves, whatever the segment boundaries: the last entry appended
    -- before the last `s`
    let ops := ((DbProto.kvOf rest "ops").getD "").splitOn ","
    let (_, synced) := ops.foldl (fun (acc : Int × Int) o =>
      if o == "s" then (acc.1, acc.1 - 1) else if o.startsWith "a" then (acc.1 + 1, acc.2) else acc) ((0 : Int), (-1 : Int))
    (st, "synced=" ++ toString synced ++ " durable=ok")
  | "cw.shortfile" :: rest =>
    -- the file of the current segment holds only the first `len` bytes of the segment. fact: the file is given its
    -- size whenever it is shorter than the segment (then the rest reads as zeroes); otherwise the mapping reaches
    -- behind the end of the file and touching it brings the process down
    match ((DbProto.kvOf rest "len").getD "").toNat?, ((DbProto.kvOf rest "seg").getD "").toNat?, ((DbProto.kvOf rest "recs").getD "").toNat? with
    | some l, some seg, some n =>
      if l < seg && !Facts.walSegmentFileSizeEnsured then (st, "fatal error: fault") else
      let payloads := (List.range n).map fun i => ("payload-" ++ toString i).toUTF8.toList.map (·.toNat)
      -- the records that fit into the first `l` bytes
      let fit := payloads.foldl (fun (acc : List (List Nat) × Nat) p =>
        if acc.2 + 12 + p.length ≤ l ∧ acc.1.length = (payloads.takeWhile (· != p)).length then (acc.1 ++ [p], acc.2 + 12 + p.length) else acc) ([], 0)
      let img := Codec.encodeAll (codecCfg "2") Codec.oxiaCrc 0 fit.1
      let buf := img ++ List.replicate (seg - img.length) 0
      let app := (((DbProto.kvOf rest "app").getD "0").toNat?).getD 0
      (st, match Codec.recoverIndex (codecCfg "2") Codec.oxiaCrc buf 0 none with
        | .ok r => "ok last=" ++ toString ((r.count : Int) - 1 + app)
        | .errOutOfBounds => "err:oob"
        | .errEmptyPayload => "err:empty"
        | .errDataCorrupted => "err:corrupt"
        | .panic => "panic")
    | _, _, _ => (st, "bad-op")
  | "cw.reopen" :: buf :: uf :: _ =>
    -- the WAL opened on a single v2 segment image: `recoverWal` -> `newReadWriteSegment` -> `RecoverIndex`
    match Hex.decode buf, uf.toInt? with
    | some buf, some uf =>
      let u : Option Nat := if uf < 0 then none else some uf.toNat
      (st, match Codec.recoverIndex (codecCfg "2") Codec.oxiaCrc buf 0 u with
        | .ok r => "ok last=" ++ toString ((r.count : Int) - 1)
        | .errOutOfBounds => "err:oob"
        | .errEmptyPayload => "err:empty"
        | .errDataCorrupted => "err:corrupt"
        | .panic => "panic")
    | _, _ => (st, "bad-op")
  | _ => (st, "bad-op")

open DbProto in
def stepDb (st : State) (toks : List String) : State × String :=
  match toks with
  | "db.new" :: rest =>
    let en := (kvOf rest "notif").getD "1" != "0"
    ({ st with db := { Db.Db.empty with notificationsEnabled := en }, dbDisk := (kvOf rest "disk") == some "1" }, "ok")
  | "db.write" :: rest =>
    match (kvOf rest "off").bind (·.toInt?), (kvOf rest "ts").bind (·.toNat?), parseWrite rest with
    | some off, some ts, some req =>
      -- in a cluster script the offsets are implicit (one entry per write, in order)
      let off := if st.clusterUp then st.clusterOff else off
      let (db', r) := Db.processWrite st.db req off ts
      -- sequence-update subscribers are told the key every sequence put generates (fact: only when it
      -- succeeds; before the repair of D-54 a rejected sequence put announced the empty key)
      let notes : List (Key × Key) := match r with
        | .ok resp => (req.puts.zip resp.puts).filterMap fun (p, pr) =>
            if p.deltas.isEmpty then none
            else match pr.status, pr.key with
              | .ok, some k => some (p.key, k)
              | _, _ => if Facts.sequenceUpdateOnlyOnSuccess then none else some (p.key, [])
        | .error _ => []
      let subs := notes.foldl (fun subs n => subs.map fun s => if s.2.2 && s.1 == n.1 then (s.1, some n.2, true) else s) st.seqSubs
      ({ st with db := db', clusterOff := st.clusterOff + 1, seqSubs := subs }, showWriteResp r)
    | _, _, _ => (st, "bad-op")
  | ["sq.sub", pfx] =>
    match Hex.decode pfx with
    | some pfx =>
      -- `GetSequenceUpdates`: the greatest key in [prefix-0, prefix-MaxInt64) is the first value
      let lo := pfx ++ [Db.dash] ++ Db.fmt020d 0
      let hi := pfx ++ [Db.dash] ++ Db.fmt020d 9223372036854775807
      let init := ((SKV.range lo hi st.db.store).getLast?).map (·.1)
      ({ st with seqSubs := st.seqSubs ++ [(pfx, init, true)] }, "sub=" ++ toString st.seqSubs.length)
    | none => (st, "bad-op")
  | "sq.subrace" :: pfx :: rest =>
    -- a subscription whose initial read races with a write: whatever the interleaving, the subscriber ends
    -- with the latest key generated for its prefix (here: registered first, then the write)
    match Hex.decode pfx, (kvOf rest "off").bind (·.toInt?), (kvOf rest "ts").bind (·.toNat?), parseWrite rest with
    | some pfx, some off, some ts, some req =>
      let lo := pfx ++ [Db.dash] ++ Db.fmt020d 0
      let hi := pfx ++ [Db.dash] ++ Db.fmt020d 9223372036854775807
      let init := ((SKV.range lo hi st.db.store).getLast?).map (·.1)
      let n := st.seqSubs.length
      let subs0 := st.seqSubs ++ [(pfx, init, true)]
      let (db', r) := Db.processWrite st.db req off ts
      let notes : List (Key × Key) := match r with
        | .ok resp => (req.puts.zip resp.puts).filterMap fun (p, pr) =>
            if p.deltas.isEmpty then none
            else match pr.status, pr.key with
              | .ok, some k => some (p.key, k)
              | _, _ => none
        | .error _ => []
      let subs := notes.foldl (fun subs nt => subs.map fun s => if s.2.2 && s.1 == nt.1 then (s.1, some nt.2, true) else s) subs0
      ({ st with db := db', seqSubs := subs }, match r with
        | .ok resp => "P[" ++ String.intercalate " " (resp.puts.map showPutResp) ++ "] sub=" ++ toString n
        | .error e => showInfra e)
    | _, _, _, _ => (st, "bad-op")
  | ["sq.close", n] =>
    match n.toNat? with
    | some n =>
      (match st.seqSubs[n]? with
       | some (p, l, true) => ({ st with seqSubs := st.seqSubs.set n (p, l, false) }, "ok")
       | _ => (st, "closed"))
    | none => (st, "bad-op")
  | ["sq.last", n] =>
    match n.toNat? with
    | some n =>
      (match st.seqSubs[n]? with
       | some (_, l, true) => (st, "last=" ++ (match l with | some k => Hex.encode k | none => "none"))
       | _ => (st, "closed"))
    | none => (st, "bad-op")
  | ["db.dump"] => (st, showStore st.db.store)
  | ["db.tracker"] => (st, toString st.db.tracker)
  | ["db.commit"] => (st, DbProto.showOptKey (Db.readAsciiLong st.db Db.commitOffsetKey))
  | ["db.reopen"] =>
    if !st.dbDisk then (st, "ok") else
    ({ st with db := Db.reopen st.db (fun k => (String.ofList (k.map Char.ofNat)).toInt?.getD (-1)) }, "ok")
  | ["db.get", c, k, incl] =>
    match parseCmp c, Hex.decode k with
    | some c, some k => (st, showGet (Db.get st.db k c (incl == "1")))
    | _, _ => (st, "bad-op")
  | ["db.list", lo, hi] =>
    match Hex.decode lo, Hex.decode hi with
    | some lo, some hi => (st, showKeys (Db.list st.db lo hi))
    | _, _ => (st, "bad-op")
  | ["db.scan", lo, hi] =>
    match Hex.decode lo, Hex.decode hi with
    | some lo, some hi =>
      let rs := (SKV.range lo hi st.db.store).map fun p =>
        match Db.asEntry p.2 with
        | some e => Hex.encode p.1 ++ "=" ++ Hex.encode e.value ++ "," ++ showVersion e.toVersion
        | none => "?=err"
      (st, "n=" ++ toString rs.length ++ " " ++ String.intercalate " " rs)
    | _, _ => (st, "bad-op")
  | ["db.notifs", start] =>
    match start.toInt? with
    | some start =>
      if !st.db.notificationsEnabled then (st, "err:oxia:_notifications_disabled") else
      let bs := Db.readNotifications st.db start
      (st, "n=" ++ toString bs.length ++ " " ++ String.intercalate " " (bs.map showBatch))
    | none => (st, "bad-op")
  | ["db.trim", now, ret] =>
    match now.toInt?, ret.toInt? with
    | some now, some ret =>
      ({ st with db := Db.trimNotifications Facts.notificationsTrimUpperBoundIsTrimOffsetPlusOne st.db now ret }, "ok")
    | _, _ => (st, "bad-op")
  | ["idx.list", name, lo, hi] =>
    match Hex.decode name, Hex.decode lo, Hex.decode hi with
    | some name, some lo, some hi =>
      (st, match Db.indexList st.db name lo hi with
        | some ks => showKeys ks
        | none => "panic")
    | _, _, _ => (st, "bad-op")
  | ["idx.get", name, c, k] =>
    match Hex.decode name, parseCmp c, Hex.decode k with
    | some name, some c, some k =>
      (st, match Db.indexGetKeys Facts.secondaryGetChecksIndexName Facts.secondaryGetEndOfKeySpaceSafe st.db name k c with
        | .found pk sk =>
          "found(pk=" ++ Hex.encode pk ++ ",sk=" ++ Hex.encode sk ++ ") " ++ showGet (Db.get st.db pk .equal true)
        | .notFound => "notfound"
        | .error => "error")
    | _, _, _ => (st, "bad-op")
  | _ => (st, "bad-op")

def showShard (s : Shard.Shard) : String := s!"{s.id}:{s.min}:{s.max}"

def fnvStr (s : String) : Nat :=
  s.toUTF8.data.toList.foldl (fun h b => ((h ^^^ b.toNat) * 16777619) % 4294967296) 2166136261

def showShards (l : List Shard.Shard) : String :=
  if l.length ≤ 16 then "n=" ++ toString l.length ++ " " ++ String.intercalate "," (l.map showShard)
  else "n=" ++ toString l.length ++ " first=" ++ showShard (l.headD default) ++ " last=" ++ showShard (l.getLastD default) ++
    " h=" ++ toString (fnvStr (String.intercalate "," (l.map showShard)))

def parseShard (t : String) : Option Shard.Shard :=
  match t.splitOn ":" with
  | [i, a, b] => do
    let i ← i.toInt?
    let a ← a.toNat?
    let b ← b.toNat?
    pure { id := i, min := a, max := b }
  | _ => none

def showStatusKind : Shard.ShardStatus → String
  | .unknown => "U" | .steadyState => "S" | .election => "E" | .deleting => "D"

def insertSorted {α : Type} (le : α → α → Bool) (x : α) : List α → List α
  | [] => [x]
  | y :: ys => if le x y then x :: y :: ys else y :: insertSorted le x ys

def sortBy {α : Type} (le : α → α → Bool) (l : List α) : List α := l.foldl (fun acc x => insertSorted le x acc) []

def showCluster (c : Shard.ClusterStatus) : String :=
  let nss := sortBy (fun (a b : Shard.NsStatus) => a.name ≤ b.name) c.namespaces
  "gen=" ++ toString c.gen ++ " idx=" ++ toString c.serverIdx ++ " " ++ String.intercalate " " (nss.map fun ns =>
    "ns" ++ toString ns.name ++ "[" ++ String.intercalate "," ((sortBy (fun (a b : Shard.ShardMeta) => a.id ≤ b.id) ns.shards).map fun s =>
      s!"{s.id}:{s.min}:{s.max}:{showStatusKind s.status}:{s.ensemble.length}") ++ "]")

def stepShard (st : State) (toks : List String) : State × String :=
  match toks with
  | ["sh.gen", base, n] =>
    match base.toInt?, n.toNat? with
    | some base, some n =>
      (st, match Shard.generateShards base n with
        | some l => showShards l
        | none => "panic")
    | _, _ => (st, "bad-op")
  | ["cs.reset"] => ({ st with cluster := { namespaces := [], gen := 0, serverIdx := 0 } }, "ok")
  | "cs.apply" :: rest =>
    -- cs.apply servers=<k> fail=<mod>:<rem> ns=<name>:<count>:<rf> ...
    let servers := ((DbProto.kvOf rest "servers").bind (·.toNat?)).getD 3
    let fail := match ((DbProto.kvOf rest "fail").getD "0:0").splitOn ":" with
      | [m, r] => (m.toNat?.getD 0, r.toNat?.getD 0)
      | _ => (0, 0)
    let nss : List Shard.NsConfig := (rest.filter (·.startsWith "ns=")).filterMap fun t =>
      match (t.drop 3).toString.splitOn ":" with
      | [nm, c, rf] => match nm.toNat?, c.toNat?, rf.toNat? with
        | some nm, some c, some rf => some { name := nm, initialShardCount := c, rf := rf }
        | _, _, _ => none
      | _ => none
    let failk := ((DbProto.kvOf rest "failk").bind (·.toNat?)).getD 0
    let sup : Shard.Supplier := fun nc s k =>
      if fail.1 ≠ 0 ∧ s.serverIdx % fail.1 = fail.2 then none
      else if k < 16 ∧ failk.testBit k then none
      else if nc.rf > servers then none
      else some (List.range nc.rf)
    let c' := Shard.applyClusterChanges sup { namespaces := nss, servers := servers } st.cluster
    ({ st with cluster := c' }, showCluster c')
  | ["cs.published", nm] =>
    match nm.toNat? with
    | some nm =>
      (st, match st.cluster.namespaces.find? (·.name = nm) with
        | some ns => showShards (sortBy (fun (a b : Shard.Shard) => a.id ≤ b.id) (Shard.published ns))
        | none => "none")
    | none => (st, "bad-op")
  | ["cl.reset"] => ({ st with client := [] }, "ok")
  | "cl.update" :: ts =>
    match ts.mapM parseShard with
    | some ups =>
      let c := Shard.update st.client ups
      ({ st with client := c }, showShards (sortBy (fun (a b : Shard.Shard) => a.id ≤ b.id) c))
    | none => (st, "bad-op")
  | ["cl.get", h] =>
    match h.toNat? with
    | some h =>
      -- all shards containing the hash code (the Go map iteration order decides which one `Get` returns)
      let hits := sortBy (fun (a b : Int) => a ≤ b) ((st.client.filter (Shard.contains · h)).map (·.id))
      (st, if hits.isEmpty then "panic" else String.intercalate "|" (hits.map toString))
    | none => (st, "bad-op")
  | _ => (st, "bad-op")

/-- `labels=<server>.<label>.<value>,...` -/
def parseLabels (t : String) : List (Nat × Nat × Nat) :=
  if t == "_" then [] else
  (t.splitOn ",").filterMap fun x =>
    match x.splitOn "." with
    | [s, l, v] => match s.toNat?, l.toNat?, v.toNat? with
      | some s, some l, some v => some (s, l, v)
      | _, _, _ => none
    | _ => none

/-- `rules=<l1>+<l2>:S;<l3>:R` -/
def parseRules (t : String) : List Select.Rule :=
  if t == "_" then [] else
  (t.splitOn ";").filterMap fun x =>
    match x.splitOn ":" with
    | [ls, m] => some { labels := (ls.splitOn "+").filterMap (·.toNat?), strict := m == "S" }
    | _ => none

def parseNatList (t : String) : List Nat := if t == "_" then [] else (t.splitOn ",").filterMap (·.toNat?)

def showNatList (l : List Nat) : String := String.intercalate "," (l.map toString)

def selErr : Select.Err → String
  | .unsatisfiedAntiAffinity => "err:unsatisfied-anti-affinity"
  | .unsupportedMode => "err:unsupported-mode"
  | .unsatisfiedReplicas => "err:unsatisfied-replicas"

def stepSelect (st : State) (toks : List String) : State × String :=
  let get (k : String) : String := (DbProto.kvOf toks k).getD "_"
  let servers := parseNatList (get "servers")
  let labels := parseLabels (get "labels")
  let ctx : Select.Ctx := {
    servers := servers,
    labelsOf := fun s => (labels.filter (·.1 = s)).map (fun x => (x.2.1, x.2.2)),
    rules := parseRules (get "rules"),
    replicas := (get "rf").toNat?.getD 0 }
  let prio := parseNatList (get "prio")
  -- lowest-load selector: the first node of the load-ratio order that is a candidate
  let pick : List Nat → Nat := fun cs => ((prio.find? (cs.contains ·)).getD (cs.headD 0))
  match toks with
  | "sel.round" :: _ =>
    -- a rebalancing round of the real scheduler: which servers it picks is a matter of load and tie-breaks; the
    -- harness marks its answer as not comparable and checks the property on it
    (st, "ok")
  | "sel.ens" :: _ =>
    (st, match Select.selectEnsemble Facts.antiAffinityFirstRuleUnion Facts.selectorRefusesWhenNoCandidate ctx pick with
      | .ok e => "ok " ++ showNatList e
      | .error e => selErr e
      | .panic => "panic")
  | "sel.swap" :: _ =>
    let ens := parseNatList (get "ens")
    let from_ := (get "from").toNat?.getD 0
    (st, match Select.swapTarget Facts.antiAffinityFirstRuleUnion Facts.selectorRefusesWhenNoCandidate ctx pick ens from_ with
      | .ok s _ => "ok " ++ toString s
      | .error e => selErr e
      | .panic => "panic")
  | "sel.replace" :: _ =>
    let l := parseNatList (get "list")
    (st, showNatList (Select.replaceInList l ((get "old").toNat?.getD 0) ((get "new").toNat?.getD 0)))
  | _ => (st, "bad-op")

def parseEv (t : String) : Option Batch.Ev :=
  if t == "t" then some .timer
  else if t == "x" then some .close
  else if t.startsWith "c" then
    match (t.drop 1).toString.splitOn ":" with
    | [i, sz] => match i.toNat?, sz.toNat? with
      | some i, some sz => some (.call { id := i, size := sz })
      | _, _ => none
    | _ => none
  else none

def showOutcome : Batch.Outcome → String
  | .completed b => "b" ++ toString b
  | .failedShutdown => "x"

def parseAns (t : String) : Option Batch.Ans :=
  if t == "n" then some .notFound
  else if t == "e" then some .error
  else if t.startsWith "f:" then (Hex.decode (t.drop 2).toString).map .found
  else none

def parseBCmp : String → Option Batch.Cmp
  | "eq" => some .equal | "floor" => some .floor | "ceil" => some .ceiling | "lower" => some .lower | "higher" => some .higher
  | _ => none

def stepBatch (st : State) (toks : List String) : State × String :=
  let get (k : String) : String := (DbProto.kvOf toks k).getD "_"
  match toks with
  | "b.run" :: _ =>
    let cfg : Batch.Cfg := { linger := (get "linger").toNat?.getD 0, maxRequests := (get "maxreq").toNat?.getD 0,
                             maxBytes := (get "maxbytes").toNat?.getD 0, rearmAfterSplit := Facts.batcherRearmsTimerAfterSplit }
    match ((get "ev").splitOn ",").mapM parseEv with
    | some evs =>
      let s := Batch.run cfg (evs ++ [.close])
      let outs := sortBy (fun (a b : Nat × Batch.Outcome) => a.1 ≤ b.1) s.outcomes
      (st, String.intercalate " " (outs.map fun p => toString p.1 ++ ":" ++ showOutcome p.2) ++ " B[" ++
        String.intercalate "|" (s.batches.map fun b => String.intercalate "+" (b.map (toString ·.id))) ++ "] open=" ++
        (match s.cur with | some b => String.intercalate "+" (b.map (toString ·.id)) | none => "_"))
    | none => (st, "bad-op")
  | "wb.run" :: _ =>
    -- one write batch: kinds of the calls 0..n-1 in arrival order, script of executor answers
    let kinds : List Batch.Kind := ((get "kinds").splitOn ",").filterMap fun t =>
      if t == "P" then some .put else if t == "D" then some .delete else if t == "R" then some .deleteRange else none
    let calls := (List.range kinds.length).zip kinds
    let script : List (Batch.Exec Nat) := ((get "script").splitOn ",").map fun t =>
      if t == "r" then .retriable else if t == "f" then .fatal else .ok []
    let all (t : String) := String.intercalate " " ((List.range kinds.length).map fun i => toString i ++ "=" ++ t)
    (st, match Batch.withRetries script with
      | some (.ok _) =>
        let m := sortBy (fun (a b : Nat × Nat) => a.1 ≤ b.1) (Batch.writeHandle calls id)
        String.intercalate " " (m.map fun p => toString p.1 ++ "=" ++ toString p.2)
      | some .fatal => all "fatal"
      | _ => all "timeout")
  | "rb.run" :: _ =>
    let n := (get "n").toNat?.getD 0
    let script : List Batch.RAttempt := ((get "script").splitOn ",").filterMap fun t =>
      if t == "o" then some .ok
      else if t.startsWith "r" then (t.drop 1).toString.toNat?.map .partialRetriable
      else if t.startsWith "f" then (t.drop 1).toString.toNat?.map .partialFatal
      else none
    let all (t : String) := String.intercalate " " ((List.range n).map fun i => toString i ++ "=" ++ t)
    (st, match Batch.readWithRetries Facts.readBatchFreshResponsePerAttempt (List.range n) script [] with
      | some (.ok resps) => (match Batch.handle (List.range n) resps with
        | some m => String.intercalate " " (m.map fun p => toString p.1 ++ "=" ++ toString p.2)
        | none => "panic")
      | some .fatal => all "fatal"
      | _ => all "timeout")
  | "mg.run" :: _ =>
    match parseBCmp (get "cmp"), ((get "ans").splitOn ",").mapM parseAns with
    | some c, some answers =>
      let order := parseNatList (get "order")
      let arrivals := order.filterMap fun i => answers[i]?
      let s := Batch.multiShardGetN Facts.multiShardGetReturnsAfterError c answers.length arrivals
      -- the counter starts at the number of shards
      (st, (if s.panicked then "panic " else "") ++ "sent=" ++ String.intercalate "," (s.sent.map fun o =>
        match o with | .value (some k) => "v:" ++ Hex.encode k | .value none => "nf" | .failed => "fail"))
    | _, _ => (st, "bad-op")
  | "rs.run" :: _ =>
    -- a range scan completes whatever fails: the result channel is closed; an error of any shard is reported
    let shards := (get "shards").splitOn ";"
    let single := get "single" == "1"
    let used := if single then shards.take 1 else shards
    let bad := used.any fun s => s == "e" || (s.splitOn "+").contains "x"
    let n := (used.map fun s => if s == "" || s == "_" then 0 else (s.splitOn "+").length).sum
    (st, if bad then "closed=true err=true" else "closed=true err=false n=" ++ toString n)
  | "ls.run" :: _ =>
    -- a list over the shards: the union of what the per-shard streams deliver, one error per failing shard;
    -- the shards are drained one after the other here (any other order gives a permutation: `C20_list_union`)
    let shards := (get "shards").splitOn ";"
    let used := if get "single" == "1" then shards.take 1 else shards
    let parse : String → Option (List (Option (List String))) := fun s =>
      if s == "e" then none else if s == "" || s == "_" then some []
      else some ((s.splitOn "+").map fun it => if it == "x" then none else some (it.splitOn "."))
    let streams := used.map fun s => Batch.shardResults (parse s)
    let sched := (List.range streams.length).flatMap fun i => List.replicate (streams.getD i []).length i
    let (keys, errs) := Batch.listSummary (Batch.runSched streams sched).1
    (st, "closed=true errs=" ++ toString errs ++ " keys=" ++ (if keys.isEmpty then "_" else String.intercalate "," keys))
  | "ls.cancel" :: _ =>
    -- the caller cancels after the first result of every shard: every stream ends with the cancellation error.
    -- fact: the channel is closed only after every shard goroutine has returned; otherwise a shard sends on the
    -- closed channel
    match (get "shards").toNat? with
    | some k =>
      if !Facts.listClosesChannelAfterAllShards then (st, "panic: send on closed channel") else
      let streams := (List.range k).map fun i => Batch.shardResults (some [some ["k" ++ toString i], none])
      let sched := (List.range k) ++ (List.range k)
      let (keys, errs) := Batch.listSummary (Batch.runSched streams sched).1
      (st, "closed=true errs=" ++ toString errs ++ " keys=" ++ String.intercalate "," keys)
    | none => (st, "bad-op")
  | "ws.run" :: _ =>
    let toks : List Batch.WTok := ((get "script").splitOn ",").filterMap fun t =>
      if t == "r" then some .resp else if t == "x" then some .brk
      else if t.startsWith "s" then (t.drop 1).toString.toNat?.map .send
      else if t.startsWith "t" then (t.drop 1).toString.toNat?.map .sendTimeout else none
    let s := Batch.wrun Facts.writeStreamKeepsTimedOutRequests toks
    let ids := toks.filterMap fun t => match t with | .send i => some i | .sendTimeout i => some i | _ => none
    (st, String.intercalate " " (ids.map fun i =>
      toString i ++ "=" ++ (match s.got.find? (·.1 == i) with
        | some (_, .resp r) => toString r | some (_, .timeout) => "timeout" | some (_, .eof) => "eof" | none => "NONE")))
  | "km.run" :: _ =>
    let lists : List (List Key) := if get "lists" == "_" then [] else
      ((get "lists").splitOn ";").map fun l => if l == "" then [] else (l.splitOn ",").filterMap Hex.decode
    let total := (lists.map List.length).sum
    (st, String.intercalate "," ((Batch.kwayMerge total lists).map Hex.encode))
  | _ => (st, "bad-op")

def showTracker (before after : Ack.Tracker) : String :=
  "commit=" ++ toString after.commit ++ " head=" ++ toString after.head ++ " done=" ++
    String.intercalate "," ((after.completed.drop before.completed.length).map toString) ++
    (if after.panicked then " panic" else "")

def stepAck (st : State) (toks : List String) : State × String :=
  let t := st.tracker
  if toks.head? != some "q.new" && toks.head? != some "lc.concurrent" && !st.trackerSet then (st, "bad-op") else
  match toks with
  | ["q.new", rf, h, c] =>
    match rf.toNat?, h.toInt?, c.toInt? with
    | some rf, some h, some c => let t' := Ack.Tracker.new rf h c; ({ st with tracker := t', trackerSet := true }, showTracker t' t')
    | _, _, _ => (st, "bad-op")
  | ["q.head", h] =>
    match h.toInt? with
    | some h => let t' := Ack.advanceHead t h; ({ st with tracker := t' }, showTracker t t')
    | none => (st, "bad-op")
  | ["q.cursor", a] =>
    match a.toInt? with
    | some a =>
      (match Ack.newCursor t a with
       | .ok (t', i) => ({ st with tracker := t' }, "cursor=" ++ toString i ++ " " ++ showTracker t t')
       | .error .tooMany => (st, "err:too-many-cursors")
       | .error .invalidHead => (st, "err:invalid-head-offset"))
    | none => (st, "bad-op")
  | ["q.ack", i, o] =>
    match i.toNat?, o.toInt? with
    | some i, some o =>
      -- only cursors that were created have an acker object
      let t' := if i < t.cursorGen then Ack.ack t i o else t
      ({ st with tracker := t' }, showTracker t t')
    | _, _ => (st, "bad-op")
  | ["q.wait", o, id] =>
    match o.toInt?, id.toNat? with
    | some o, some id => let t' := Ack.waitAsync t o id; ({ st with tracker := t' }, showTracker t t')
    | _, _ => (st, "bad-op")
  | ["q.next"] => let (t', o) := Ack.nextOffset t; ({ st with tracker := t' }, "next=" ++ toString o)
  | "lc.concurrent" :: rest =>
    -- any interleaving of atomic writes: all succeed, contiguous offsets
    let get (k : String) : String := (DbProto.kvOf rest k).getD "_"
    let n := (get "writers").toNat?.getD 0 * (get "each").toNat?.getD 0 + (get "extra").toNat?.getD 0
    let atomic := Facts.writeHoldsAppendLockAcrossAllocAndAppend
    let evs : List Ack.PEv := if atomic then (List.range n).map .write
      else ((List.range n).map .alloc) ++ ((List.range n).reverse.map .append)
    let p := Ack.prun (Ack.Pipe.new 1 (-1) (-1)) evs
    (st, "ok=" ++ toString p.appended.length ++ " failed=" ++ toString p.failed.length)
  | _ => (st, "bad-op")

def showSessStatus : Session.Status → String
  | .ok => "ok" | .keyNotFound => "key-not-found" | .sessionDoesNotExist => "session-does-not-exist"

def parseSid (t : String) : Option (Option Int) := if t == "_" then some none else t.toInt?.map some

def sessDump (s : Session.SS) : String :=
  let recs := sortBy (fun (a b : String) => a ≤ b) (s.recs.map fun r => Hex.encode r.1 ++ ":" ++ (match r.2 with | some o => toString o | none => "_"))
  let sessions := sortBy (fun (a b : Int) => a ≤ b) (s.sessions.map (·.1))
  let shadows := sortBy (fun (a b : Int × String) => a.1 < b.1 || (a.1 == b.1 && a.2 ≤ b.2)) (s.shadows.map fun x => (x.1, Hex.encode x.2))
  let timers := sortBy (fun (a b : Int) => a ≤ b) (s.timers.map (·.1))
  "recs=" ++ String.intercalate "," recs ++ " sessions=" ++ String.intercalate "," (sessions.map toString) ++
    " shadows=" ++ String.intercalate "," (shadows.map fun x => toString x.1 ++ ":" ++ x.2) ++
    " timers=" ++ String.intercalate "," (timers.map toString)

def stepSess (st : State) (toks : List String) : State × String :=
  let s := st.sess
  let sf := Facts.sessionShadowPutBeforeDelete
  match toks with
  | ["s.put", k, sid] =>
    match Hex.decode k, parseSid sid with
    | some k, some sid => let r := Session.put sf s k sid; ({ st with sess := r.1 }, showSessStatus r.2)
    | _, _ => (st, "bad-op")
  | ["s.del", k] =>
    match Hex.decode k with
    | some k => let r := Session.delete s k; ({ st with sess := r.1 }, showSessStatus r.2)
    | none => (st, "bad-op")
  | ["s.delrange", lo, hi] =>
    match Hex.decode lo, Hex.decode hi with
    | some lo, some hi => ({ st with sess := Session.deleteRange s lo hi }, "ok")
    | _, _ => (st, "bad-op")
  | ["s.create", t] =>
    match t.toNat? with
    | some t => let r := Session.createSession s t; ({ st with sess := r.1 }, "sid=" ++ toString r.2)
    | none => (st, "bad-op")
  | ["s.keepalive", sid] =>
    match sid.toInt? with
    | some sid => let r := Session.keepAlive s sid; ({ st with sess := r.1 }, if r.2 then "ok" else "not-found")
    | none => (st, "bad-op")
  | ["s.close", sid] =>
    match sid.toInt? with
    | some sid =>
      if s.timers.any (·.1 = sid) then ({ st with sess := Session.endSession s sid }, "ok") else (st, "not-found")
    | none => (st, "bad-op")
  | ["s.closerace", sid, k, sid2] =>
    match sid.toInt?, Hex.decode k, parseSid sid2 with
    | some sid, some k, some sid2 =>
      if s.timers.any (·.1 = sid) then
        let listed := Session.listOwned s sid
        let r := Session.put sf s k sid2
        let s2 := Session.cleanupWrite r.1 sid listed
        ({ st with sess := { s2 with timers := s2.timers.filter (·.1 ≠ sid) } }, "ok put=" ++ showSessStatus r.2)
      else (st, "not-found")
    | _, _, _ => (st, "bad-op")
  | ["s.advance", dt] =>
    match dt.toNat? with
    | some dt => ({ st with sess := Session.advance s dt }, "ok")
    | none => (st, "bad-op")
  | ["s.leaderchange"] => ({ st with sess := Session.leaderChange s }, "ok")
  | ["s.dump"] => (st, sessDump s)
  | _ => (st, "bad-op")

def showReplErr : Repl.Err → String
  | .invalidTerm => "err:invalid-term" | .invalidStatus => "err:invalid-status" | .noSuchNode => "err:no-such-node"
  | .notLeader => "err:not-leader" | .timeout => "timeout" | .invalidHead => "err:invalid-head" | .outOfBounds => "err:out-of-bounds"

def parseHead (t : String) : Option (Int × Int) :=
  match t.splitOn ":" with
  | [a, b] => match a.toInt?, b.toInt? with
    | some a, some b => some (a, b)
    | _, _ => none
  | _ => none

def showNodeState (i : Nat) (n : Repl.Node) : String :=
  let c := match n.ctrl with | .none => "-" | .leaderC => "L" | .followerC => "F"
  let st := match n.status with | .notMember => "notmember" | .fenced => "fenced" | .follower => "follower" | .leader => "leader"
  let st := if n.ctrl == .none then "-" else st
  "n" ++ toString i ++ "[" ++ c ++ " t=" ++ toString n.term ++ " " ++ st ++ " log=" ++
    String.intercalate "," (n.log.map fun e => toString e.term ++ ":" ++ toString e.id) ++
    (if n.ctrl == .leaderC && n.status == .leader then " c=" ++ toString n.commit ++ " cur=" ++
      String.intercalate "," ((sortBy (fun (a b : Nat × Int) => a.1 ≤ b.1) n.cursors).map fun c => toString c.1 ++ "@" ++ toString c.2) else "") ++ "]"

/-- protocol scripts (C01-C05) on M-Repl -/
def stepRepl (st : State) (toks : List String) : State × String :=
  let w := st.world
  let g : Repl.Cfg := ⟨Facts.lateRequestCannotConvertLeader, Facts.truncateComparesWithFollowerTermEntry, Facts.followerTruncateOnlyWhenFenced,
    Facts.cursorStartsAtTruncatedHead, Facts.followerAppendChecksTermAlways⟩
  let get (k : String) : String := (DbProto.kvOf toks k).getD "_"
  if toks.head? != some "p.init" && w.nodes.length == 0 then (st, "bad-op") else
  -- the RPCs act on settled states
  let w := if ["p.newterm", "p.lead", "p.elect", "p.electm", "p.add", "p.write", "p.racewrite", "p.racesync", "p.raceredeliver", "p.restart", "p.crash", "p.trunc", "p.cut"].contains (toks.headD "") then Repl.settle g w else w
  match toks with
  | "p.init" :: _ => ({ st with world := Repl.World.init ((get "n").toNat?.getD 3) }, "ok")
  | ["p.newterm", i, t] =>
    match i.toNat?, t.toInt? with
    | some i, some t =>
      let (w', r) := Repl.newTerm w i t
      ({ st with world := w' }, match r with | .ok h => "head=" ++ toString h.1 ++ ":" ++ toString h.2 | .error e => showReplErr e)
    | _, _ => (st, "bad-op")
  | "p.lead" :: i :: t :: _ =>
    match i.toNat?, t.toInt? with
    | some i, some t =>
      let fm : List (Nat × (Int × Int)) := if get "fm" == "_" then [] else
        ((get "fm").splitOn ",").filterMap fun x => match x.splitOn ":" with
          | [f, a, b] => match f.toNat?, a.toInt?, b.toInt? with
            | some f, some a, some b => some (f, (a, b))
            | _, _, _ => none
          | _ => none
      let (w', r) := Repl.becomeLeader g w i t ((get "rf").toNat?.getD 1) fm
      ({ st with world := w' }, match r with | .ok _ => "ok" | .error e => showReplErr e)
    | _, _ => (st, "bad-op")
  | ["p.elect", want, t] =>
    -- the coordinator's election over the whole cluster
    match want.toNat?, t.toInt? with
    | some want, some t =>
      let (w', r) := Repl.elect g Facts.newTermQuorumMajorityOverEnsembleAndRemoved w want t (List.range w.nodes.length) []
      ({ st with world := w' }, match r with
        | .ok l => "leader=" ++ toString l
        | .error .timeout => "no-quorum"
        | .error e => showReplErr e)
    | _, _ => (st, "bad-op")
  | "p.electm" :: want :: t :: _ =>
    -- an election for a given ensemble, with nodes being removed by a swap
    match want.toNat?, t.toInt? with
    | some want, some t =>
      let (w', r) := Repl.elect g Facts.newTermQuorumMajorityOverEnsembleAndRemoved w want t (parseNatList (get "members")) (parseNatList (get "removed"))
      ({ st with world := w' }, match r with
        | .ok l => "leader=" ++ toString l
        | .error .timeout => "no-quorum"
        | .error e => showReplErr e)
    | _, _ => (st, "bad-op")
  | ["p.add", l, t, f, h] =>
    match l.toNat?, t.toInt?, f.toNat?, parseHead h with
    | some l, some t, some f, some h =>
      let (w', r) := Repl.addFollowerRpc g w l t f h
      ({ st with world := w' }, match r with | .ok _ => "ok" | .error e => showReplErr e)
    | _, _, _, _ => (st, "bad-op")
  | ["p.write", i, id] =>
    match i.toNat?, id.toNat? with
    | some i, some id =>
      let (w', r) := Repl.write g w i id
      ({ st with world := w' }, match r with | .ok _ => "ok" | .error e => showReplErr e)
    | _, _ => (st, "bad-op")
  | ["p.racewrite", i, id, t] =>
    match i.toNat?, id.toNat?, t.toInt? with
    | some i, some id, some t =>
      let (w', r) := Repl.raceWriteNewTerm g Facts.newTermWaitsForInFlightAppends w i id t
      let h := Repl.headOf (Repl.getNode w' i).log
      ({ st with world := w' }, match r with
        | .ok rep => "head=" ++ toString rep.1 ++ ":" ++ toString rep.2 ++ " wal=" ++ toString h.1 ++ ":" ++ toString h.2
        | .error e => showReplErr e)
    | _, _, _ => (st, "bad-op")
  | ["p.racesync", l, f, id, t] =>
    match l.toNat?, f.toNat?, id.toNat?, t.toInt? with
    | some l, some f, some id, some t =>
      let (w', r) := Repl.raceAppendNewTerm g Facts.followerNewTermSyncsWalBeforeHead w l f id t
      let h := Repl.headOf (Repl.getNode w' f).log
      ({ st with world := w' }, match r with
        | none => "norace"
        | some (.ok rep) => "head=" ++ toString rep.1 ++ ":" ++ toString rep.2 ++ " wal=" ++ toString h.1 ++ ":" ++ toString h.2
        | some (.error e) => showReplErr e)
    | _, _, _, _ => (st, "bad-op")
  | ["p.raceredeliver", l, f, id] =>
    match l.toNat?, f.toNat?, id.toNat? with
    | some l, some f, some id =>
      let (w', r) := Repl.raceAppendRedeliver g Facts.followerAcksDuplicateOnlyWhenSynced w l f id
      ({ st with world := w' }, match r with
        | none => "norace"
        | some true => "ok"
        | some false => "ack-before-sync")
    | _, _, _ => (st, "bad-op")
  | ["p.trunc", f, t, o] =>
    -- a (re-)delivered Truncate request
    match f.toNat?, t.toInt?, o.toInt? with
    | some f, some t, some o =>
      let (w', r) := Repl.truncateFollower g w f t o
      ({ st with world := w' }, match r with | .ok h => "head=" ++ toString h | .error e => showReplErr e)
    | _, _, _ => (st, "bad-op")
  | ["p.crash", i] => match i.toNat? with
    -- a crash: what is durable (term, log) stays - as after a restart
    | some i => ({ st with world := Repl.restart w i }, "ok")
    | none => (st, "bad-op")
  | ["p.cut", i] => match i.toNat? with
    | some i => ({ st with world := { w with cut := if w.cut.contains i then w.cut else w.cut ++ [i] } }, "ok")
    | none => (st, "bad-op")
  | ["p.failappend", _] =>
    -- an I/O error in the follower's WAL for the next entry it takes: the stream breaks and the cursor delivers
    -- again; in settled states nothing is different
    (st, "ok")
  | ["p.heal", i] => match i.toNat? with
    | some i => ({ st with world := { w with cut := w.cut.filter (· ≠ i) } }, "ok")
    | none => (st, "bad-op")
  | ["p.restart", i] => match i.toNat? with
    | some i => ({ st with world := Repl.restart w i }, "ok")
    | none => (st, "bad-op")
  | ["p.settle"] => ({ st with world := Repl.settle g w }, "ok")
  | ["p.state"] =>
    let w := Repl.settle g w
    ({ st with world := w }, String.intercalate " " ((List.range w.nodes.length).map fun i => showNodeState i (Repl.getNode w i)))
  | ["p.read", i] => match i.toNat? with
    | some i =>
      let w := Repl.settle g w
      let st := { st with world := w }
      let n := Repl.getNode w i
      if n.ctrl == .leaderC && n.status == .leader then
        (st, "vis=" ++ String.intercalate "," ((n.log.take (n.commit + 1).toNat).map fun e => toString e.id))
      else (st, "err:not-leader")
    | none => (st, "bad-op")
  | _ => (st, "bad-op")

/-- protocol scripts with the A-Repl explanation of every step (`Driver/AReplSim.lean`) -/
def stepReplTracked (st : State) (toks : List String) : State × String :=
  match toks with
  | ["p.astat"] =>
    if st.world.nodes.length == 0 then (st, "bad-op") else
    (st, match st.track with | some t => AReplSim.status t | none => "arepl none")
  | _ =>
  let (st', out) := stepRepl st toks
  if out == "bad-op" then (st', out) else
  let op := toks.headD ""
  if op == "p.init" then
    ({ st' with track := some { a := ARepl.init st'.world.nodes.length } }, out)
  else
  match st'.track with
  | none => (st', out)
  | some t =>
    let t :=
      if op == "p.electm" then
        AReplSim.switchOff t "an ensemble change (p.electm)"
      else if ["p.newterm", "p.lead", "p.add", "p.trunc"].contains op then
        AReplSim.advanceLenient t st'.world op
      else
        let t := match toks with
          | ["p.elect", _, tm] =>
            match tm.toInt? with
            | some tm => if tm ≤ t.lastElect then AReplSim.switchOff t "an election that reuses a term" else { t with lastElect := tm }
            | none => t
          | ["p.racesync", _, _, _, tm] =>
            match tm.toInt? with
            | some tm => if tm ≤ t.lastElect then AReplSim.switchOff t "an election that reuses a term" else { t with lastElect := tm }
            | none => t
          | ["p.racewrite", _, _, tm] =>
            match tm.toInt? with
            | some tm => if tm ≤ t.lastElect then AReplSim.switchOff t "an election that reuses a term" else { t with lastElect := tm }
            | none => t
          | _ => t
        let hint : AReplSim.Hint := match toks with
          | ["p.write", i, id] => (match i.toNat?, id.toNat? with | some i, some id => .write i id | _, _ => .none)
          | ["p.racewrite", i, id, _] => (match i.toNat?, id.toNat? with | some i, some id => .write i id | _, _ => .none)
          | ["p.racesync", i, _, id, _] => (match i.toNat?, id.toNat? with | some i, some id => .write i id | _, _ => .none)
          | ["p.raceredeliver", i, _, id] => (match i.toNat?, id.toNat? with | some i, some id => .write i id | _, _ => .none)
          | _ => .none
        AReplSim.advance t st'.world hint
    let out := if op == "p.state" && t.flagged then out ++ " AREPL-UNEXPLAINED(" ++ t.note ++ ")" else out
    ({ st' with track := some t }, out)

/-- the cluster scripts of C06/C07: M-Db applies the log in one go; the routes (restart, election with
    replay, snapshot join) do not exist in the model -/
def stepCluster (st : State) (toks : List String) : State × String :=
  match toks with
  | "c.init" :: rest =>
    let en := (DbProto.kvOf rest "notif").getD "1" != "0"
    ({ st with db := { Db.Db.empty with notificationsEnabled := en }, clusterOff := 0, clusterUp := true }, "ok")
  | "c.checkpoint" :: rest =>
    if !st.clusterUp then (st, "bad-op") else
    match (DbProto.kvOf rest "ts").bind (·.toNat?) with
    | some ts =>
      let d := DbProto.showStore st.db.store
      -- the marker entry: a delete of a key that never exists
      let marker : Db.WriteReq := { puts := [], dels := [{ key := Db.str "zz-marker", expected := none }], ranges := [] }
      let (db', _) := Db.processWrite st.db marker st.clusterOff ts
      ({ st with db := db', clusterOff := st.clusterOff + 1 }, d)
    | none => (st, "bad-op")
  | ["c.restart", _] => if !st.clusterUp then (st, "bad-op") else (st, "ok")
  | ["c.elect", _] => if !st.clusterUp then (st, "bad-op") else (st, "ok")
  | ["c.join"] => if !st.clusterUp then (st, "bad-op") else (st, "ok")
  | ["c.crash", _] => if !st.clusterUp then (st, "bad-op") else (st, "ok")
  | ["c.failelect", _] => if !st.clusterUp then (st, "bad-op") else (st, "ok")
  | ["c.trimcrash", _] => if !st.clusterUp then (st, "bad-op") else (st, "ok")
  | _ => (st, "bad-op")

def step (st : State) (line : String) : State × String :=
  let toks := (line.splitOn " ").filter (· ≠ "")
  match toks with
  | [] => (st, "bad-op")
  | "reset" :: _ => (State.init, "ok")
  | t :: _ =>
    if t.startsWith "key." then stepKey st toks
    else if t.startsWith "kv." then stepKv st toks
    else if t.startsWith "wal." then stepWal st toks
    else if t.startsWith "cx." || t.startsWith "cw." then stepCodec st toks
    else if t.startsWith "db." || t.startsWith "idx." || t.startsWith "sq." then stepDb st toks
    else if t.startsWith "sh." || t.startsWith "cs." || t.startsWith "cl." then stepShard st toks
    else if t.startsWith "sel." then stepSelect st toks
    else if t.startsWith "p." then stepReplTracked st toks
    else if t.startsWith "nc." then
      -- the client's notifications manager: every change committed after the subscription, once, in order
      let script := ((DbProto.kvOf toks "script").getD "").splitOn ","
      let (_, _, keys) := script.foldl (fun (acc : Bool × Nat × List String) tok =>
        if tok == "w" then (acc.1, acc.2.1 + 1, if acc.1 then acc.2.2 ++ ["k" ++ toString acc.2.1] else acc.2.2)
        else if tok == "sub" then (true, acc.2.1, acc.2.2) else acc) (false, 0, [])
      (st, "got=" ++ String.intercalate "," keys)
    else if t.startsWith "k." then (st, "ok")   -- coordinator scripts: nothing to compare, the oracle works on the RPC log
    else if t.startsWith "c." then stepCluster st toks
    else if t.startsWith "s." then stepSess st toks
    else if t.startsWith "q." || t.startsWith "lc." then stepAck st toks
    else if t.startsWith "b." || t.startsWith "wb." || t.startsWith "rb." || t.startsWith "mg." || t.startsWith "km." || t.startsWith "ws." || t.startsWith "rs." || t.startsWith "ls." then stepBatch st toks
    else (st, "bad-op")

end Oxia.Driver
