/-
Types of the facts that `/verif/extract` regenerates from `/repo` into `OxiaVerif/Facts.lean`
on every run.  This file is hand-written; `Facts.lean` is not.
-/
namespace Oxia

/-- How a field of `OxiaSlashSpanComparer` is initialised. -/
inductive CmpKind | slash | bytewise | unknown
  deriving DecidableEq, Repr
inductive SepKind | bytewise | identity | unknown
  deriving DecidableEq, Repr
inductive AbbrevKind | disableSlash | bytewise | unknown
  deriving DecidableEq, Repr

structure ComparerCfg where
  cmp : CmpKind
  sep : SepKind
  succ : SepKind
  abbr : AbbrevKind
  deriving DecidableEq, Repr

end Oxia
