import OxiaVerif.Model.ARepl
import OxiaVerif.Props.C03

/-!
Helper lemmas for the safety proof of A-Repl (`Props/ReplSafety.lean`): majorities intersect, point
updates, logs cut from the per-term logs.
-/
namespace Oxia.ARepl
open Oxia.Repl Oxia.C03

/-! ### majorities -/

theorem nodup_bounded_length : ∀ (n : Nat) (l : List Nat), l.Nodup → (∀ x ∈ l, x < n) → l.length ≤ n := by
  intro n
  induction n with
  | zero =>
    intro l _ hb
    cases l with
    | nil => simp
    | cons a t => exact absurd (hb a (by simp)) (by omega)
  | succ n ih =>
    intro l hn hb
    have h1 : (l.erase n).length ≤ n := by
      apply ih
      · exact hn.erase n
      · intro x hx
        have hxl : x ∈ l := List.mem_of_mem_erase hx
        have hne : x ≠ n := by
          intro h; subst h
          exact (List.Nodup.mem_erase_iff hn).1 hx |>.1 rfl
        have := hb x hxl
        omega
    have h2 : l.length ≤ (l.erase n).length + 1 := by
      by_cases hm : n ∈ l
      · rw [List.length_erase_of_mem hm]; omega
      · rw [List.erase_of_not_mem hm]; omega
    omega

theorem maj_inter {n : Nat} {Q S : List Nat} (hQ : Maj n Q) (hS : Maj n S) : ∃ x, x ∈ Q ∧ x ∈ S := by
  apply Classical.byContradiction
  intro hno
  have hdis : ∀ x ∈ Q, x ∉ S := fun x hx hs => hno ⟨x, hx, hs⟩
  have hnd : (Q ++ S).Nodup := by
    rw [List.nodup_append]
    exact ⟨hQ.1, hS.1, fun a ha b hb hab => hdis a ha (hab ▸ hb)⟩
  have hb : ∀ x ∈ Q ++ S, x < n := by
    intro x hx
    rcases List.mem_append.1 hx with h | h
    · exact hQ.2.1 x h
    · exact hS.2.1 x h
  have := nodup_bounded_length n (Q ++ S) hnd hb
  rw [List.length_append] at this
  have := hQ.2.2
  have := hS.2.2
  omega

/-! ### point updates -/

@[simp] theorem upd_same {β : Type} (f : Nat → β) (a : Nat) (b : β) : upd f a b a = b := by simp [upd]
theorem upd_other {β : Type} (f : Nat → β) (a : Nat) (b : β) (x : Nat) (h : x ≠ a) : upd f a b x = f x := by simp [upd, h]
@[simp] theorem updI_same {β : Type} (f : Int → β) (a : Int) (b : β) : updI f a b a = b := by simp [updI]
theorem updI_other {β : Type} (f : Int → β) (a : Int) (b : β) (x : Int) (h : x ≠ a) : updI f a b x = f x := by simp [updI, h]
theorem setAck_same (ack : Nat → Int → Nat) (i : Nat) (t : Int) (v : Nat) : setAck ack i t v i t = v := by simp [setAck]
theorem setAck_other (ack : Nat → Int → Nat) (i : Nat) (t : Int) (v : Nat) (j : Nat) (u : Int) (h : ¬ (j = i ∧ u = t)) :
    setAck ack i t v j u = ack j u := by simp [setAck, h]

/-! ### logs cut from the per-term logs -/

theorem getElemOpt_lt {α : Type} {l : List α} {i : Nat} {a : α} (h : l[i]? = some a) : i < l.length := by
  rcases Nat.lt_or_ge i l.length with h1 | h1
  · exact h1
  · rw [List.getElem?_eq_none h1] at h; cases h

/-- a conforming log is sorted by term when the per-term logs are -/
theorem conforms_sorted {G : Int → List Entry} {X : List Entry} (hc : Conforms G X)
    (hs : ∀ t, TermsSorted (G t)) : TermsSorted X := by
  intro i j a b hij ha hb
  have hj := hc j b hb
  have hjl := getElemOpt_lt hb
  -- both entries are in the prefix of G b.term
  have h1 : (G b.term)[i]? = some a := by
    have : (X.take (j + 1))[i]? = some a := by rw [List.getElem?_take, if_pos (by omega)]; exact ha
    rw [hj, List.getElem?_take, if_pos (by omega)] at this; exact this
  have h2 : (G b.term)[j]? = some b := by
    have : (X.take (j + 1))[j]? = some b := by rw [List.getElem?_take, if_pos (by omega)]; exact hb
    rw [hj, List.getElem?_take, if_pos (by omega)] at this; exact this
  exact hs b.term i j a b hij h1 h2

theorem conforms_mem_G {G : Int → List Entry} {X : List Entry} (hc : Conforms G X) {j : Nat} {e : Entry}
    (h : X[j]? = some e) : (G e.term)[j]? = some e := by
  have h1 := hc j e h
  have : (X.take (j + 1))[j]? = some e := by rw [List.getElem?_take, if_pos (by omega)]; exact h
  rw [h1, List.getElem?_take, if_pos (by omega)] at this; exact this

theorem acked_full_prefix (X L : List Entry) (h : Acked X L ((X.length : Int) - 1)) :
    X = L.take X.length ∧ X.length ≤ L.length := by
  have hn : ((X.length : Int) - 1 + 1).toNat = X.length := by omega
  have h1 := h.inL
  have h2 := h.eq
  rw [hn] at h1 h2
  unfold Agree at h2
  rw [List.take_length] at h2
  exact ⟨h2, h1⟩

end Oxia.ARepl
