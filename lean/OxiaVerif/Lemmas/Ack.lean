import OxiaVerif.Model.Ack

/-! Lemmas about M-Ack: lookups in the tracker map, the ghost "acked up to" vector and the invariant
    that ties the per-offset cursor sets to it. -/
namespace Oxia.Ack

def lookL (l : List (Int × List Nat)) (o : Int) : Option (List Nat) := (l.find? (·.1 = o)).map (·.2)

theorem lookL_append_single (l : List (Int × List Nat)) (h : Int) (b : List Nat) (o : Int) :
    lookL (l ++ [(h, b)]) o = match lookL l o with
      | some x => some x
      | none => if o = h then some b else none := by
  induction l with
  | nil =>
    simp only [lookL, List.nil_append, List.find?_cons, List.find?_nil]
    by_cases ho : h = o
    · simp [ho]
    · have : ¬ o = h := fun e => ho e.symm
      simp [ho, this]
  | cons x xs ih =>
    simp only [lookL, List.cons_append, List.find?_cons] at ih ⊢
    by_cases hx : x.1 = o
    · simp [hx]
    · simp only [hx, decide_false]
      exact ih

theorem lookL_filter_ne (l : List (Int × List Nat)) (o0 o : Int) :
    lookL (l.filter (·.1 ≠ o0)) o = if o = o0 then none else lookL l o := by
  induction l with
  | nil => simp [lookL]
  | cons x xs ih =>
    simp only [List.filter_cons]
    by_cases hx : x.1 = o0
    · simp only [hx, ne_eq, not_true_eq_false, decide_false, Bool.false_eq_true, if_false]
      rw [ih]
      by_cases ho : o = o0
      · simp [ho]
      · simp only [ho, if_false, lookL, List.find?_cons]
        have : ¬ x.1 = o := fun e => ho (e.symm.trans hx)
        simp [this]
    · simp only [ne_eq, hx, not_false_eq_true, decide_true, if_true]
      simp only [lookL, List.find?_cons] at ih ⊢
      by_cases hxo : x.1 = o
      · have : ¬ o = o0 := fun e => hx (hxo.trans e)
        simp [hxo, this]
      · simp only [hxo, decide_false]
        exact ih

theorem lookL_map_replace (l : List (Int × List Nat)) (o0 : Int) (b : List Nat) (o : Int) :
    lookL (l.map fun x => if x.1 = o0 then (o0, b) else x) o =
      if o = o0 then (lookL l o).map (fun _ => b) else lookL l o := by
  induction l with
  | nil => simp [lookL]
  | cons x xs ih =>
    simp only [List.map_cons, lookL, List.find?_cons] at ih ⊢
    by_cases hx : x.1 = o0
    · simp only [hx, if_true]
      by_cases ho : o = o0
      · simp [ho]
      · have h1 : ¬ o0 = o := fun e => ho e.symm
        simp only [h1, decide_false, ho, if_false]
        simpa [ho] using ih
    · simp only [hx, if_false]
      by_cases hxo : x.1 = o
      · have : ¬ o = o0 := fun e => hx (hxo.trans e)
        simp [hxo, this]
      · simp only [hxo, decide_false]
        exact ih

theorem find?_lookL {l : List (Int × List Nat)} {o : Int} {e : Int × List Nat}
    (h : l.find? (·.1 = o) = some e) : e.1 = o ∧ lookL l o = some e.2 := by
  have := List.find?_some h
  exact ⟨by simpa using this, by simp [lookL, h]⟩

theorem find?_none_lookL {l : List (Int × List Nat)} {o : Int}
    (h : l.find? (·.1 = o) = none) : lookL l o = none := by simp [lookL, h]

/-- at least `req` distinct cursors have acknowledged everything up to `o` -/
def Quorum (acked : List Int) (req : Nat) (o : Int) : Prop :=
  ∃ S : List Nat, S.Nodup ∧ req ≤ S.length ∧ ∀ idx ∈ S, ∃ a, acked[idx]? = some a ∧ o ≤ a

end Oxia.Ack
