import OxiaVerif.Model.Key

namespace Oxia.Key

/-! ### bytes.Compare is a strict total order -/

theorem cmpBytes_eq_iff (a b : Key) : cmpBytes a b = .eq ↔ a = b := by
  induction a generalizing b with
  | nil => cases b <;> simp [cmpBytes]
  | cons x xs ih =>
    cases b with
    | nil => simp [cmpBytes]
    | cons y ys =>
      simp only [cmpBytes]
      by_cases h1 : x < y
      · simp [h1]; omega
      · by_cases h2 : y < x
        · simp [h1, h2]; omega
        · have : x = y := by omega
          simp [h1, h2, ih, this]

theorem cmpBytes_refl (a : Key) : cmpBytes a a = .eq := (cmpBytes_eq_iff a a).2 rfl

theorem cmpBytes_swap (a b : Key) : cmpBytes b a = (cmpBytes a b).swap := by
  induction a generalizing b with
  | nil => cases b <;> simp [cmpBytes]
  | cons x xs ih =>
    cases b with
    | nil => simp [cmpBytes]
    | cons y ys =>
      simp only [cmpBytes]
      by_cases h1 : x < y
      · have : ¬ y < x := by omega
        simp [h1, this]
      · by_cases h2 : y < x
        · simp [h1, h2]
        · simp [h1, h2, ih]

theorem cmpBytes_gt_iff (a b : Key) : cmpBytes a b = .gt ↔ cmpBytes b a = .lt := by
  rw [cmpBytes_swap a b]; cases cmpBytes a b <;> simp

theorem cmpBytes_trans {a b c : Key} (h1 : cmpBytes a b = .lt) (h2 : cmpBytes b c = .lt) :
    cmpBytes a c = .lt := by
  induction a generalizing b c with
  | nil =>
    cases b with
    | nil => simp [cmpBytes] at h1
    | cons y ys => cases c with
      | nil => simp [cmpBytes] at h2
      | cons z zs => simp [cmpBytes]
  | cons x xs ih =>
    cases b with
    | nil => simp [cmpBytes] at h1
    | cons y ys =>
      cases c with
      | nil => simp [cmpBytes] at h2
      | cons z zs =>
        simp only [cmpBytes] at h1 h2 ⊢
        by_cases hxy : x < y
        · by_cases hyz : y < z
          · have : x < z := by omega
            simp [this]
          · by_cases hzy : z < y
            · simp [hyz, hzy] at h2
            · have : x < z := by omega
              simp [this]
        · by_cases hyx : y < x
          · simp [hxy, hyx] at h1
          · simp only [hxy, hyx, if_false] at h1
            have hxy' : x = y := by omega
            subst hxy'
            by_cases hyz : x < z
            · simp [hyz]
            · by_cases hzy : z < x
              · simp [hyz, hzy] at h2
              · simp only [hyz, hzy, if_false] at h2 ⊢
                exact ih h1 h2

/-! ### the segment order is a strict total order -/

theorem cmpSegs_eq_iff (a b : List Key) : cmpSegs a b = .eq ↔ a = b := by
  induction a generalizing b with
  | nil => cases b <;> simp [cmpSegs]
  | cons x xs ih =>
    cases b with
    | nil => simp [cmpSegs]
    | cons y ys =>
      cases xs with
      | nil =>
        cases ys with
        | nil => simp [cmpSegs, cmpBytes_eq_iff]
        | cons y' ys => simp [cmpSegs]
      | cons x' xs =>
        cases ys with
        | nil => simp [cmpSegs]
        | cons y' ys =>
          simp only [cmpSegs]
          cases hc : cmpBytes x y with
          | eq =>
            have := (cmpBytes_eq_iff x y).1 hc
            subst this
            simp [ih]
          | lt =>
            have : x ≠ y := fun h => by rw [(cmpBytes_eq_iff x y).2 h] at hc; cases hc
            simp [this]
          | gt =>
            have : x ≠ y := fun h => by rw [(cmpBytes_eq_iff x y).2 h] at hc; cases hc
            simp [this]

theorem cmpSegs_swap (a b : List Key) : cmpSegs b a = (cmpSegs a b).swap := by
  induction a generalizing b with
  | nil => cases b <;> simp [cmpSegs]
  | cons x xs ih =>
    cases b with
    | nil => simp [cmpSegs]
    | cons y ys =>
      cases xs with
      | nil =>
        cases ys with
        | nil => simp [cmpSegs, cmpBytes_swap x y]
        | cons y' ys => simp [cmpSegs]
      | cons x' xs =>
        cases ys with
        | nil => simp [cmpSegs]
        | cons y' ys =>
          simp only [cmpSegs]
          rw [cmpBytes_swap x y]
          cases hc : cmpBytes x y <;> simp [ih]

theorem cmpSegs_trans {a b c : List Key} (h1 : cmpSegs a b = .lt) (h2 : cmpSegs b c = .lt) :
    cmpSegs a c = .lt := by
  induction a generalizing b c with
  | nil =>
    cases b with
    | nil => simp [cmpSegs] at h1
    | cons y ys => cases c with
      | nil => simp [cmpSegs] at h2
      | cons z zs => simp [cmpSegs]
  | cons x xs ih =>
    cases b with
    | nil => simp [cmpSegs] at h1
    | cons y ys =>
      cases c with
      | nil => simp [cmpSegs] at h2
      | cons z zs =>
        cases xs with
        | nil =>
          cases ys with
          | nil =>
            cases zs with
            | nil => simp only [cmpSegs] at *; exact cmpBytes_trans h1 h2
            | cons z' zs => simp [cmpSegs]
          | cons y' ys =>
            cases zs with
            | nil => simp [cmpSegs] at h2
            | cons z' zs => simp [cmpSegs]
        | cons x' xs =>
          cases ys with
          | nil => simp [cmpSegs] at h1
          | cons y' ys =>
            cases zs with
            | nil => simp [cmpSegs] at h2
            | cons z' zs =>
              simp only [cmpSegs] at h1 h2 ⊢
              cases hxy : cmpBytes x y with
              | gt => simp [hxy] at h1
              | lt =>
                cases hyz : cmpBytes y z with
                | gt => simp [hyz] at h2
                | lt => simp [cmpBytes_trans hxy hyz]
                | eq =>
                  have := (cmpBytes_eq_iff y z).1 hyz; subst this
                  simp [hxy]
              | eq =>
                have := (cmpBytes_eq_iff x y).1 hxy; subst this
                simp only [hxy] at h1
                cases hyz : cmpBytes x z with
                | gt => simp [hyz] at h2
                | lt => simp
                | eq =>
                  simp only [hyz] at h2 ⊢
                  exact ih h1 h2

/-! ### `segs` is injective and characterises `splitSlash` -/

theorem segs_nil : segs [] = [[]] := by simp [segs]
theorem segs_cons_slash (cs : Key) : segs (slash :: cs) = [] :: segs cs := by
  rw [segs]; simp
theorem segs_cons_ne {c : Nat} (cs : Key) (h : c ≠ slash) :
    segs (c :: cs) = consHead c (segs cs) := by
  rw [segs]; simp [h]

@[simp] theorem consHead_nil (c : Nat) : consHead c [] = [[c]] := rfl
@[simp] theorem consHead_cons (c : Nat) (s : Key) (r : List Key) :
    consHead c (s :: r) = (c :: s) :: r := rfl

theorem consHead_ne_nil (c : Nat) (l : List Key) : consHead c l ≠ [] := by
  cases l <;> simp

theorem consHead_head_ne_nil {c : Nat} {l : List Key} {x : Key} {xs : List Key}
    (h : consHead c l = x :: xs) : x ≠ [] := by
  cases l <;> simp at h <;> obtain ⟨rfl, _⟩ := h <;> simp

theorem segs_ne_nil (k : Key) : segs k ≠ [] := by
  cases k with
  | nil => simp [segs]
  | cons c cs =>
    by_cases hc : c = slash
    · subst hc; rw [segs_cons_slash]; simp
    · rw [segs_cons_ne _ hc]; exact consHead_ne_nil _ _

theorem segs_splitSlash_none {k : Key} (h : splitSlash k = none) : segs k = [k] := by
  induction k with
  | nil => simp [segs]
  | cons c cs ih =>
    unfold splitSlash at h
    split at h
    · simp at h
    · rename_i hc
      split at h
      · rename_i hs
        rw [segs_cons_ne _ hc, ih hs]; rfl
      · simp at h

theorem segs_splitSlash_some {k s r : Key} (h : splitSlash k = some (s, r)) :
    segs k = s :: segs r := by
  induction k generalizing s r with
  | nil => simp [splitSlash] at h
  | cons c cs ih =>
    unfold splitSlash at h
    split at h
    · rename_i hc
      simp at h; obtain ⟨rfl, rfl⟩ := h
      subst hc; exact segs_cons_slash _
    · rename_i hc
      split at h
      · simp at h
      · rename_i s' r' heq
        simp at h; obtain ⟨rfl, rfl⟩ := h
        rw [segs_cons_ne _ hc, ih heq]; rfl

theorem segs_injective {a b : Key} (h : segs a = segs b) : a = b := by
  induction a generalizing b with
  | nil =>
    cases b with
    | nil => rfl
    | cons d ds =>
      rw [segs_nil] at h
      by_cases hd : d = slash
      · subst hd; rw [segs_cons_slash] at h
        simp at h
        exact absurd h (segs_ne_nil ds)
      · rw [segs_cons_ne _ hd] at h
        exact absurd rfl (consHead_head_ne_nil h.symm)
  | cons c cs ih =>
    cases b with
    | nil =>
      rw [segs_nil] at h
      by_cases hc : c = slash
      · subst hc; rw [segs_cons_slash] at h
        simp at h
        exact absurd h (segs_ne_nil cs)
      · rw [segs_cons_ne _ hc] at h
        exact absurd rfl (consHead_head_ne_nil h)
    | cons d ds =>
      by_cases hc : c = slash <;> by_cases hd : d = slash
      · subst hc; subst hd
        rw [segs_cons_slash, segs_cons_slash] at h
        simp at h
        rw [ih h]
      · subst hc
        rw [segs_cons_slash, segs_cons_ne _ hd] at h
        exact absurd rfl (consHead_head_ne_nil h.symm)
      · subst hd
        rw [segs_cons_slash, segs_cons_ne _ hc] at h
        exact absurd rfl (consHead_head_ne_nil h)
      · rw [segs_cons_ne _ hc, segs_cons_ne _ hd] at h
        cases hs : segs cs with
        | nil => exact absurd hs (segs_ne_nil cs)
        | cons s r =>
          cases hs' : segs ds with
          | nil => exact absurd hs' (segs_ne_nil ds)
          | cons s' r' =>
            rw [hs, hs'] at h
            simp at h
            obtain ⟨⟨rfl, rfl⟩, rfl⟩ := h
            have : segs cs = segs ds := by rw [hs, hs']
            rw [ih this]

/-! ### the Go loop computes the segment order -/

theorem segs_length_two_of_split {k s r : Key} (_h : splitSlash k = some (s, r)) :
    ∃ y ys, segs r = y :: ys := by
  cases hs : segs r with
  | nil => exact absurd hs (segs_ne_nil r)
  | cons y ys => exact ⟨y, ys, rfl⟩

theorem cmpSegs_singleton_nil_left (b : Key) (hb : b ≠ []) : cmpSegs [[]] (segs b) = .lt := by
  cases hs : splitSlash b with
  | none =>
    rw [segs_splitSlash_none hs]
    cases b with
    | nil => exact absurd rfl hb
    | cons c cs => simp [cmpSegs, cmpBytes]
  | some p =>
    obtain ⟨s, r⟩ := p
    rw [segs_splitSlash_some hs]
    obtain ⟨y, ys, hy⟩ := segs_length_two_of_split hs
    rw [hy]; simp [cmpSegs]

theorem cmpSegs_len (a b : Key) (h : a = [] ∨ b = []) :
    compare a.length b.length = cmpSegs (segs a) (segs b) := by
  rcases h with h | h
  · subst h
    cases b with
    | nil => simp [segs, cmpSegs, cmpBytes]
    | cons c cs =>
      rw [segs_nil, cmpSegs_singleton_nil_left (c :: cs) (by simp)]
      simp [Nat.compare_eq_lt]
  · subst h
    cases a with
    | nil => simp [segs, cmpSegs, cmpBytes]
    | cons c cs =>
      have := cmpSegs_singleton_nil_left (c :: cs) (by simp)
      rw [cmpSegs_swap] at this
      have h2 : cmpSegs (segs (c :: cs)) (segs []) = .gt := by
        rw [segs_nil]
        cases hh : cmpSegs (segs (c :: cs)) [[]] <;> rw [hh] at this <;> simp at this ⊢
      rw [h2]
      simp [Nat.compare_eq_gt]

theorem cmpSlashLoop_eq (fuel : Nat) (a b : Key) (h : min a.length b.length < fuel) :
    cmpSlashLoop fuel a b = cmpSegs (segs a) (segs b) := by
  induction fuel generalizing a b with
  | zero => omega
  | succ n ih =>
    unfold cmpSlashLoop
    by_cases he : (a.isEmpty || b.isEmpty) = true
    · simp only [he, if_true]
      apply cmpSegs_len
      simp [List.isEmpty_iff] at he
      exact he
    · simp only [he]
      simp [List.isEmpty_iff] at he
      cases hsa : splitSlash a with
      | none =>
        cases hsb : splitSlash b with
        | none =>
          simp only [Bool.false_eq_true, if_false]
          rw [segs_splitSlash_none hsa, segs_splitSlash_none hsb]; simp [cmpSegs]
        | some p =>
          obtain ⟨sb, rb⟩ := p
          simp only [Bool.false_eq_true, if_false]
          rw [segs_splitSlash_none hsa, segs_splitSlash_some hsb]
          obtain ⟨y, ys, hy⟩ := segs_length_two_of_split hsb
          rw [hy]; simp [cmpSegs]
      | some p =>
        obtain ⟨sa, ra⟩ := p
        cases hsb : splitSlash b with
        | none =>
          simp only [Bool.false_eq_true, if_false]
          rw [segs_splitSlash_some hsa, segs_splitSlash_none hsb]
          obtain ⟨y, ys, hy⟩ := segs_length_two_of_split hsa
          rw [hy]; simp [cmpSegs]
        | some q =>
          obtain ⟨sb, rb⟩ := q
          simp only [Bool.false_eq_true, if_false]
          rw [segs_splitSlash_some hsa, segs_splitSlash_some hsb]
          obtain ⟨y, ys, hy⟩ := segs_length_two_of_split hsa
          obtain ⟨z, zs, hz⟩ := segs_length_two_of_split hsb
          have la := splitSlash_length hsa
          have lb := splitSlash_length hsb
          have hrec := ih ra rb (by omega)
          rw [hy, hz] at hrec ⊢
          simp only [cmpSegs]
          cases hc : cmpBytes sa sb <;> simp [hrec]

theorem cmpSlash_eq_cmpSegs (a b : Key) : cmpSlash a b = cmpSegs (segs a) (segs b) :=
  cmpSlashLoop_eq _ a b (by omega)

end Oxia.Key

namespace Oxia.Key

/-! ### abbreviated keys -/

def IsBytes (k : Key) : Prop := ∀ x ∈ k, x < 256
instance (k : Key) : Decidable (IsBytes k) := by unfold IsBytes; infer_instance

theorem abbrevN_lt (n : Nat) (a : Key) (ha : IsBytes a) : abbrevN n a < 256 ^ n := by
  induction n generalizing a with
  | zero => simp [abbrevN]
  | succ n ih =>
    cases a with
    | nil => simp only [abbrevN]; exact Nat.pow_pos (by decide)
    | cons c cs =>
      simp only [abbrevN]
      have hc : c < 256 := ha c (by simp)
      have := ih cs (fun x hx => ha x (by simp [hx]))
      have h1 : c * 256 ^ n ≤ 255 * 256 ^ n := Nat.mul_le_mul_right _ (by omega)
      have : 256 ^ (n + 1) = 255 * 256 ^ n + 256 ^ n := by rw [Nat.pow_succ]; omega
      omega

theorem abbrevN_lt_cmp (n : Nat) (a b : Key) (ha : IsBytes a) (hb : IsBytes b)
    (h : abbrevN n a < abbrevN n b) : cmpBytes a b = .lt := by
  induction n generalizing a b with
  | zero => simp [abbrevN] at h
  | succ n ih =>
    cases a with
    | nil =>
      cases b with
      | nil => simp [abbrevN] at h
      | cons d ds => simp [cmpBytes]
    | cons c cs =>
      cases b with
      | nil => simp [abbrevN] at h
      | cons d ds =>
        simp only [abbrevN] at h
        have hA := abbrevN_lt n cs (fun x hx => ha x (by simp [hx]))
        have hB := abbrevN_lt n ds (fun x hx => hb x (by simp [hx]))
        simp only [cmpBytes]
        by_cases hcd : c < d
        · simp [hcd]
        · by_cases hdc : d < c
          · exfalso
            have : (d + 1) * 256 ^ n ≤ c * 256 ^ n := Nat.mul_le_mul_right _ (by omega)
            rw [Nat.add_mul] at this
            omega
          · have : c = d := by omega
            subst this
            simp only [hcd, if_false]
            exact ih cs ds (fun x hx => ha x (by simp [hx])) (fun x hx => hb x (by simp [hx])) (by omega)

end Oxia.Key
