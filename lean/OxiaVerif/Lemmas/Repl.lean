import OxiaVerif.Model.Repl

/-! Lemmas about M-Repl shared by C03, C04, C05, C01: node access, what each RPC can change. -/
namespace Oxia.Repl

theorem getNode_setNode_same (w : World) (i : Nat) (n : Node) (h : i < w.nodes.length) :
    getNode (setNode w i n) i = n := by
  simp [getNode, setNode, List.getD, h]

theorem getNode_setNode_ne (w : World) (i j : Nat) (n : Node) (h : i ≠ j) :
    getNode (setNode w i n) j = getNode w j := by
  simp [getNode, setNode, List.getD, List.getElem?_set, h]

theorem setNode_length (w : World) (i : Nat) (n : Node) : (setNode w i n).nodes.length = w.nodes.length := by
  simp [setNode]

theorem setNode_cut (w : World) (i : Nat) (n : Node) : (setNode w i n).cut = w.cut := rfl

theorem toLeaderCtrl_term (n : Node) : (toLeaderCtrl n).term = n.term := by
  unfold toLeaderCtrl; cases n.ctrl <;> rfl

theorem toLeaderCtrl_log (n : Node) : (toLeaderCtrl n).log = n.log := by
  unfold toLeaderCtrl; cases n.ctrl <;> rfl

theorem toFollowerCtrl_term (cfg : Cfg) (n n' : Node) (t : Int) (h : toFollowerCtrl cfg n t = some n') : n'.term = n.term := by
  unfold toFollowerCtrl at h
  cases hc : n.ctrl with
  | none => simp [hc] at h; rw [← h]
  | followerC => simp [hc] at h; rw [← h]
  | leaderC =>
    simp only [hc] at h
    split at h
    · cases h
    · simp at h; rw [← h]

theorem toFollowerCtrl_log (cfg : Cfg) (n n' : Node) (t : Int) (h : toFollowerCtrl cfg n t = some n') : n'.log = n.log := by
  unfold toFollowerCtrl at h
  cases hc : n.ctrl with
  | none => simp [hc] at h; rw [← h]
  | followerC => simp [hc] at h; rw [← h]
  | leaderC =>
    simp only [hc] at h
    split at h
    · cases h
    · simp at h; rw [← h]

/-- the late-request guard: a leader controller of term `T` is not replaced for a request of another term -/
theorem toFollowerCtrl_guard (n : Node) (t : Int) (hc : n.ctrl = .leaderC) (ht : 0 ≤ t) (hne : t ≠ n.term) :
    toFollowerCtrl Cfg.good n t = none := by
  unfold toFollowerCtrl
  simp [hc, Cfg.good, ht, hne]

/-! ### the follower's append loop -/

theorem pushLoop_term (ca : Bool) (L : List Entry) (t : Int) : ∀ (fuel : Nat) (ack : Int) (f : Node),
    (pushLoop ca L t fuel ack f).1.term = f.term := by
  intro fuel
  induction fuel with
  | zero => intro ack f; rfl
  | succ fuel ih =>
    intro ack f
    unfold pushLoop
    simp only []
    cases L[(ack + 1).toNat]? with
    | none => rfl
    | some e =>
      simp only []
      split
      · rfl
      · split
        · rfl
        · split
          · rw [ih]
          · split
            · rw [ih]
            · rfl

/-- **fencing at the follower**: entries of a leader whose term is not the follower's own are not
    appended and not acknowledged -/
theorem pushLoop_other_term (L : List Entry) (t : Int) (fuel : Nat) (ack : Int) (f : Node) (h : t ≠ f.term) :
    pushLoop true L t fuel ack f = (f, ack) := by
  cases fuel with
  | zero => rfl
  | succ fuel =>
    unfold pushLoop
    simp only []
    cases L[(ack + 1).toNat]? with
    | none => rfl
    | some e =>
      simp only []
      split
      · rfl
      · simp [h]

/-! ### world size -/

theorem pushCursor_length (cfg : Cfg) (w : World) (l : Nat) (c : Nat × Int) : (pushCursor cfg w l c).1.nodes.length = w.nodes.length := by
  unfold pushCursor
  simp only []
  split
  · rfl
  · split
    · rfl
    · split <;> simp [setNode_length]

theorem settleLeader_length (cfg : Cfg) (w : World) (l : Nat) : (settleLeader cfg w l).nodes.length = w.nodes.length := by
  unfold settleLeader
  simp only []
  split
  · rfl
  · have hfold : ∀ (cs : List (Nat × Int)) (acc : World × List (Nat × Int)),
        (cs.foldl (fun (acc : World × List (Nat × Int)) c => ((pushCursor cfg acc.1 l c).1, acc.2 ++ [(pushCursor cfg acc.1 l c).2])) acc).1.nodes.length = acc.1.nodes.length := by
      intro cs
      induction cs with
      | nil => intro acc; rfl
      | cons c rest ih => intro acc; simp only [List.foldl_cons]; rw [ih, pushCursor_length]
    simp only [setNode_length]
    exact hfold _ _

end Oxia.Repl
