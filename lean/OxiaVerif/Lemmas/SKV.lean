import OxiaVerif.Model.SKV
import OxiaVerif.Lemmas.Key

/-! Ordered-map lemmas for `SKV.Map`: on a strictly ascending list, `insert`/`erase`/`get?` behave
like a finite map keyed by `Key`. They use only the order laws of `cmpSlash` (C11). -/
namespace Oxia.SKV
open Oxia.Key

variable {V : Type}

theorem cs_eq_iff (a b : Key) : cmpSlash a b = .eq ↔ a = b := by
  rw [cmpSlash_eq_cmpSegs, cmpSegs_eq_iff]
  exact ⟨segs_injective, fun h => by rw [h]⟩

theorem cs_refl (a : Key) : cmpSlash a a = .eq := (cs_eq_iff a a).2 rfl

theorem cs_swap (a b : Key) : cmpSlash b a = (cmpSlash a b).swap := by
  rw [cmpSlash_eq_cmpSegs, cmpSlash_eq_cmpSegs, cmpSegs_swap]

theorem cs_trans {a b c : Key} (h1 : cmpSlash a b = .lt) (h2 : cmpSlash b c = .lt) : cmpSlash a c = .lt := by
  rw [cmpSlash_eq_cmpSegs] at *
  exact cmpSegs_trans h1 h2

theorem cs_gt_iff (a b : Key) : cmpSlash a b = .gt ↔ cmpSlash b a = .lt := by
  rw [cs_swap a b]; cases cmpSlash a b <;> simp

/-- strictly ascending in the slash order -/
def Sorted (m : Map V) : Prop := m.Pairwise (fun a b => cmpSlash a.1 b.1 = .lt)

theorem Sorted.tail {p : Key × V} {m : Map V} (h : Sorted (p :: m)) : Sorted m := (List.pairwise_cons.1 h).2
theorem Sorted.head {p : Key × V} {m : Map V} (h : Sorted (p :: m)) : ∀ q ∈ m, cmpSlash p.1 q.1 = .lt :=
  (List.pairwise_cons.1 h).1

theorem mem_insert {k : Key} {v : V} {m : Map V} {p : Key × V} (h : p ∈ insert k v m) : p = (k, v) ∨ p ∈ m := by
  induction m with
  | nil => simp [insert] at h; exact .inl h
  | cons q m ih =>
    unfold insert at h
    split at h
    · simp at h; rcases h with h | h | h
      · exact .inl h
      · exact .inr (by simp [h])
      · exact .inr (by simp [h])
    · simp at h; rcases h with h | h
      · exact .inl h
      · exact .inr (by simp [h])
    · simp at h; rcases h with h | h
      · exact .inr (by simp [h])
      · rcases ih h with h | h
        · exact .inl h
        · exact .inr (by simp [h])

theorem mem_erase {k : Key} {m : Map V} {p : Key × V} (h : p ∈ erase k m) : p ∈ m := by
  induction m with
  | nil => simp [erase] at h
  | cons q m ih =>
    unfold erase at h
    split at h
    · exact h
    · simp [h]
    · simp at h; rcases h with h | h
      · simp [h]
      · simp [ih h]

theorem insert_sorted {k : Key} {v : V} {m : Map V} (h : Sorted m) : Sorted (insert k v m) := by
  induction m with
  | nil => simp [insert, Sorted]
  | cons q m ih =>
    obtain ⟨qk, qv⟩ := q
    unfold insert
    split
    · rename_i hlt
      refine List.pairwise_cons.2 ⟨?_, h⟩
      intro r hr
      simp at hr
      rcases hr with hr | hr
      · subst hr; exact hlt
      · exact cs_trans hlt (h.head r hr)
    · rename_i heq
      have := (cs_eq_iff k qk).1 heq
      subst this
      exact List.pairwise_cons.2 ⟨h.head, h.tail⟩
    · rename_i hgt
      refine List.pairwise_cons.2 ⟨?_, ih h.tail⟩
      intro r hr
      rcases mem_insert hr with hr | hr
      · subst hr; exact (cs_gt_iff k qk).1 hgt
      · exact h.head r hr

theorem erase_sorted {k : Key} {m : Map V} (h : Sorted m) : Sorted (erase k m) := by
  induction m with
  | nil => simp [erase, Sorted]
  | cons q m ih =>
    unfold erase
    split
    · exact h
    · exact h.tail
    · exact List.pairwise_cons.2 ⟨fun r hr => h.head r (mem_erase hr), ih h.tail⟩

theorem filter_sorted {m : Map V} (p : Key × V → Bool) (h : Sorted m) : Sorted (m.filter p) :=
  List.Pairwise.filter p h

/-- a key smaller than the head of a sorted map is not in it -/
theorem get?_none_of_lt {k : Key} {m : Map V} (h : Sorted m) (hlt : ∀ q ∈ m, cmpSlash k q.1 = .lt) : get? k m = none := by
  cases m with
  | nil => rfl
  | cons q m => unfold get?; rw [hlt q (by simp)]

theorem get?_insert {k k' : Key} {v : V} {m : Map V} (h : Sorted m) :
    get? k' (insert k v m) = if k' = k then some v else get? k' m := by
  induction m with
  | nil =>
    simp only [insert, get?]
    by_cases hk : k' = k
    · subst hk; simp [cs_refl]
    · simp only [hk, if_false]
      cases hc : cmpSlash k' k with
      | eq => exact absurd ((cs_eq_iff k' k).1 hc) hk
      | lt => rfl
      | gt => rfl
  | cons q m ih =>
    obtain ⟨qk, qv⟩ := q
    unfold insert
    split
    · rename_i hlt
      -- k < qk : new head
      by_cases hk : k' = k
      · subst hk; simp [get?, cs_refl]
      · simp only [hk, if_false]
        conv => lhs; unfold get?
        cases hc : cmpSlash k' k with
        | eq => exact absurd ((cs_eq_iff k' k).1 hc) hk
        | lt =>
          simp only
          have : cmpSlash k' qk = .lt := cs_trans hc hlt
          simp [get?, this]
        | gt => rfl
    · rename_i heq
      have := (cs_eq_iff k qk).1 heq
      subst this
      by_cases hk : k' = k
      · subst hk; simp [get?, cs_refl]
      · simp only [hk, if_false]
        simp only [get?]
        cases hc : cmpSlash k' k with
        | eq => exact absurd ((cs_eq_iff k' k).1 hc) hk
        | lt => rfl
        | gt => rfl
    · rename_i hgt
      have hqk : cmpSlash qk k = .lt := (cs_gt_iff k qk).1 hgt
      by_cases hk : k' = k
      · subst hk
        simp only [if_true]
        conv => lhs; unfold get?
        rw [hgt]; simp only
        rw [ih h.tail]; simp
      · simp only [hk, if_false]
        conv => lhs; unfold get?
        conv => rhs; unfold get?
        cases hc : cmpSlash k' qk with
        | lt => rfl
        | eq => rfl
        | gt => simp only; rw [ih h.tail]; simp [hk]

theorem get?_erase {k k' : Key} {m : Map V} (h : Sorted m) :
    get? k' (erase k m) = if k' = k then none else get? k' m := by
  induction m with
  | nil => simp [erase, get?]
  | cons q m ih =>
    obtain ⟨qk, qv⟩ := q
    unfold erase
    split
    · rename_i hlt
      -- k < qk: k is not in the map
      by_cases hk : k' = k
      · subst hk; simp only [if_true]; unfold get?; rw [hlt]
      · simp [hk]
    · rename_i heq
      have := (cs_eq_iff k qk).1 heq
      subst this
      by_cases hk : k' = k
      · subst hk; simp only [if_true]
        exact get?_none_of_lt h.tail (fun q hq => h.head q hq)
      · simp only [hk, if_false]
        conv => rhs; unfold get?
        cases hc : cmpSlash k' k with
        | eq => exact absurd ((cs_eq_iff k' k).1 hc) hk
        | lt =>
          simp only
          exact get?_none_of_lt h.tail (fun q hq => cs_trans hc (h.head q hq))
        | gt => rfl
    · rename_i hgt
      by_cases hk : k' = k
      · subst hk; simp only [if_true]
        unfold get?; rw [hgt]; simp only
        rw [ih h.tail]; simp
      · simp only [hk, if_false]
        conv => lhs; unfold get?
        conv => rhs; unfold get?
        cases hc : cmpSlash k' qk with
        | lt => rfl
        | eq => rfl
        | gt => simp only; rw [ih h.tail]; simp [hk]

/-- on a sorted map, membership and lookup coincide -/
theorem mem_iff_get? {k : Key} {v : V} {m : Map V} (h : Sorted m) : (k, v) ∈ m ↔ get? k m = some v := by
  induction m with
  | nil => simp [get?]
  | cons q m ih =>
    obtain ⟨qk, qv⟩ := q
    unfold get?
    cases hc : cmpSlash k qk with
    | lt =>
      simp only
      constructor
      · intro hm
        simp at hm
        rcases hm with ⟨rfl, _⟩ | hm
        · rw [cs_refl] at hc; cases hc
        · have := h.head _ hm
          simp at this
          rw [(cs_gt_iff k qk).2 this] at hc; cases hc
      · intro h'; cases h'
    | eq =>
      have := (cs_eq_iff k qk).1 hc
      subst this
      simp only
      constructor
      · intro hm
        simp at hm
        rcases hm with rfl | hm
        · rfl
        · have := h.head _ hm
          simp [cs_refl] at this
      · intro h'; simp at h'; simp [h']
    | gt =>
      simp only
      rw [← ih h.tail]
      constructor
      · intro hm
        simp at hm
        rcases hm with ⟨rfl, _⟩ | hm
        · rw [cs_refl] at hc; cases hc
        · exact hm
      · intro hm; simp [hm]

end Oxia.SKV
