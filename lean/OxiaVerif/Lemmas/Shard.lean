import OxiaVerif.Model.Shard

namespace Oxia.Shard

/-- the arithmetic heart of `GenerateShards`: with at most 65536 shards the last bucket starts inside
    the 32-bit space -/
theorem last_bucket_fits (n : Nat) (h1 : 1 ≤ n) (h2 : n ≤ 65536) : (n - 1) * (MaxU32 / n + 1) ≤ MaxU32 := by
  obtain ⟨m, rfl⟩ : ∃ m, n = m + 1 := ⟨n - 1, by omega⟩
  simp only [Nat.add_sub_cancel]
  have hq : (m + 1) * (MaxU32 / (m + 1)) ≤ MaxU32 := Nat.mul_div_le _ _
  have hq65 : 65535 ≤ MaxU32 / (m + 1) := by
    rw [Nat.le_div_iff_mul_le (by omega)]
    have : 65535 * (m + 1) ≤ 65535 * 65536 := Nat.mul_le_mul_left _ h2
    unfold MaxU32; omega
  generalize MaxU32 / (m + 1) = q at *
  -- m * (q + 1) = m*q + m ≤ m*q + q = (m+1)*q ≤ MaxU32
  have e1 : m * (q + 1) = m * q + m := by rw [Nat.mul_add, Nat.mul_one]
  have e2 : (m + 1) * q = m * q + q := by rw [Nat.add_mul, Nat.one_mul]
  omega

def shardAt (base : Int) (n b i : Nat) : Shard :=
  { id := base + i, min := i * b, max := if i = n - 1 then MaxU32 else (i + 1) * b - 1 }

theorem contig_range (base : Int) (n b : Nat) (hb1 : 1 ≤ b) (hb : (n - 1) * b ≤ MaxU32) (hn : 1 ≤ n) :
    ∀ (m k start : Nat), k + m = n → (start = if k = n then MaxU32 + 1 else k * b) →
      Contig start ((List.range' k m).map (shardAt base n b)) := by
  intro m
  induction m with
  | zero =>
    intro k start hk hs
    have : k = n := by omega
    simp [this] at hs
    simp [Contig, hs]
  | succ m ih =>
    intro k start hk hs
    have hkn : k ≠ n := by omega
    simp only [hkn, if_false] at hs
    simp only [List.range'_succ, List.map_cons, Contig]
    have hkb : k * b ≤ (n - 1) * b := Nat.mul_le_mul_right _ (by omega)
    have hsucc : (k + 1) * b = k * b + b := by rw [Nat.add_mul, Nat.one_mul]
    refine ⟨by simp [shardAt, hs], ?_, ?_, ?_⟩
    · simp only [shardAt]; split <;> omega
    · simp only [shardAt]
      split
      · omega
      · have : (k + 1) * b ≤ (n - 1) * b := Nat.mul_le_mul_right _ (by omega)
        omega
    · apply ih (k + 1) _ (by omega)
      simp only [shardAt]
      by_cases hlast : k = n - 1
      · have hn1 : n - 1 + 1 = n := by omega
        subst hlast
        simp only [hn1, if_true]
      · have : k + 1 ≠ n := by omega
        simp only [hlast, this, if_false]
        omega

theorem generateShards_eq (base : Int) (n : Nat) (h2 : 2 ≤ n) (h3 : n ≤ 65536) :
    generateShards base n = some ((List.range n).map (shardAt base n (MaxU32 / n + 1))) := by
  unfold generateShards
  have hn0 : n ≠ 0 := by omega
  simp only [hn0, if_false]
  congr 1
  have hbU : MaxU32 / n + 1 < U32 := by
    have : MaxU32 / n ≤ MaxU32 / 2 := Nat.div_le_div_left h2 (by omega)
    unfold MaxU32 U32 at *; omega
  have hbmod : (MaxU32 / n + 1) % U32 = MaxU32 / n + 1 := Nat.mod_eq_of_lt hbU
  rw [hbmod]
  apply List.map_congr_left
  intro i hi
  have hin : i < n := List.mem_range.1 hi
  have hfit := last_bucket_fits n (by omega) h3
  generalize hbq : MaxU32 / n + 1 = b at *
  have hib : i * b ≤ (n - 1) * b := Nat.mul_le_mul_right _ (by omega)
  have hU : U32 = 4294967296 := rfl
  have hM : MaxU32 = 4294967295 := rfl
  have hlow : (i * b) % U32 = i * b := Nat.mod_eq_of_lt (by omega)
  simp only [shardAt, hlow]
  by_cases hl : i = n - 1
  · simp [hl]
  · simp only [hl, if_false]
    have hsucc : (i + 1) * b = i * b + b := by rw [Nat.add_mul, Nat.one_mul]
    have : (i + 1) * b ≤ (n - 1) * b := Nat.mul_le_mul_right _ (by omega)
    have hb1 : 1 ≤ b := by rw [← hbq]; exact Nat.succ_le_succ (Nat.zero_le _)
    have hup : (i * b + b - 1) % U32 = i * b + b - 1 := by
      apply Nat.mod_eq_of_lt
      have hU : U32 = 4294967296 := rfl
      have hM : MaxU32 = 4294967295 := rfl
      rw [hsucc] at this
      omega
    rw [hup]
    congr 1
    omega

/-- every shard of a contiguous list starts at or after the list's start -/
theorem contig_min_ge {s : Nat} {l : List Shard} (h : Contig s l) : ∀ x ∈ l, s ≤ x.min ∧ x.min ≤ x.max ∧ x.max ≤ MaxU32 := by
  induction l generalizing s with
  | nil => intro x hx; cases hx
  | cons sh rest ih =>
    obtain ⟨h1, h2, h3, h4⟩ := h
    intro x hx
    simp at hx
    rcases hx with rfl | hx
    · exact ⟨by omega, h2, h3⟩
    · have := ih h4 x hx
      exact ⟨by omega, this.2.1, this.2.2⟩

/-- a hash code in range is contained in exactly one shard of a contiguous list -/
theorem contig_unique {s : Nat} {l : List Shard} (h : Contig s l) (c : Nat) (hs : s ≤ c) (hc : c ≤ MaxU32) :
    ∃ sh ∈ l, contains sh c = true ∧ ∀ sh' ∈ l, contains sh' c = true → sh' = sh := by
  induction l generalizing s with
  | nil => simp [Contig] at h; omega
  | cons sh rest ih =>
    obtain ⟨h1, h2, h3, h4⟩ := h
    by_cases hin : c ≤ sh.max
    · refine ⟨sh, by simp, by simp [contains]; omega, ?_⟩
      intro sh' hsh' hc'
      simp at hsh'
      rcases hsh' with rfl | hsh'
      · rfl
      · have := (contig_min_ge h4 sh' hsh').1
        simp [contains] at hc'
        omega
    · obtain ⟨x, hx, hxc, hxu⟩ := ih h4 (by omega)
      refine ⟨x, by simp [hx], hxc, ?_⟩
      intro sh' hsh' hc'
      simp at hsh'
      rcases hsh' with rfl | hsh'
      · simp [contains] at hc'; omega
      · exact hxu sh' hsh' hc'

theorem find?_unique {α : Type} (p : α → Bool) (l : List α) (x : α) (hx : x ∈ l) (hp : p x = true)
    (hu : ∀ y ∈ l, p y = true → y = x) : l.find? p = some x := by
  induction l with
  | nil => cases hx
  | cons a as ih =>
    simp only [List.find?]
    by_cases ha : p a = true
    · have := hu a (by simp) ha
      subst this
      simp [hp]
    · simp only [ha]
      simp at hx
      rcases hx with rfl | hx
      · exact absurd hp ha
      · exact ih hx (fun y hy => hu y (by simp [hy]))

end Oxia.Shard

namespace Oxia.Shard

/-! ### the client's routing table under updates -/

def Valid (s : Shard) : Prop := s.min ≤ s.max ∧ s.max ≤ MaxU32

/-- as a set: distinct members do not overlap -/
def Disj (m : List Shard) : Prop := ∀ a ∈ m, ∀ b ∈ m, a ≠ b → overlap a b = false

theorem overlap_comm (a b : Shard) : overlap a b = overlap b a := by
  simp only [overlap, Bool.and_comm]

theorem contig_disjoint {s : Nat} {l : List Shard} (h : Contig s l) : Disj l := by
  induction l generalizing s with
  | nil => intro a ha; cases ha
  | cons sh rest ih =>
    obtain ⟨h1, h2, h3, h4⟩ := h
    have hlater : ∀ x ∈ rest, sh.max < x.min := fun x hx => by
      have := (contig_min_ge h4 x hx).1; omega
    intro a ha b hb hne
    simp at ha hb
    rcases ha with rfl | ha <;> rcases hb with rfl | hb
    · exact absurd rfl hne
    · have := hlater b hb
      simp [overlap]; omega
    · have := hlater a ha
      have hv := contig_min_ge h4 a ha
      simp [overlap]; omega
    · exact ih h4 a ha b hb hne

/-- a valid range overlaps some member of a partition -/
theorem partition_covers {l : List Shard} (hp : Partition l) (s : Shard) (hv : Valid s) : ∃ u ∈ l, overlap u s = true := by
  obtain ⟨u, hu, hc, _⟩ := contig_unique hp s.min (Nat.zero_le _) (by unfold Valid at hv; omega)
  refine ⟨u, hu, ?_⟩
  simp [contains] at hc
  simp [overlap]
  unfold Valid at hv
  omega

theorem applyUpdate_existing (m : List Shard) (u : Shard) (h : ∀ s ∈ m, s.id = u.id → s = u)
    (he : m.any (·.id = u.id) = true) : applyUpdate m u = m := by
  unfold applyUpdate
  simp only [he, if_true]
  conv => rhs; rw [← List.map_id m]
  apply List.map_congr_left
  intro s hs
  by_cases hid : s.id = u.id
  · simp [hid, h s hs hid]
  · simp [hid]

/-- invariant while the updates of one assignment message are applied -/
structure UpdInv (m0 ups done cur : List Shard) : Prop where
  disj : Disj cur
  origin : ∀ s ∈ cur, s ∈ m0 ∨ s ∈ ups
  hasDone : ∀ u ∈ done, u ∈ cur
  noOverlap : ∀ s ∈ cur, s ∉ ups → ∀ u ∈ done, overlap u s = false

theorem applyUpdate_inv (m0 ups done cur : List Shard) (u : Shard)
    (hp : Partition ups) (hinj : ∀ a ∈ ups, ∀ b ∈ ups, a.id = b.id → a = b)
    (hstable : ∀ x ∈ ups, ∀ s ∈ m0, s.id = x.id → s = x)
    (hdone : ∀ x ∈ done, x ∈ ups) (hu : u ∈ ups)
    (inv : UpdInv m0 ups done cur) : UpdInv m0 ups (done ++ [u]) (applyUpdate cur u) := by
  have hsame : ∀ s ∈ cur, s.id = u.id → s = u := by
    intro s hs hid
    rcases inv.origin s hs with h | h
    · exact hstable u hu s h hid
    · exact hinj s h u hu hid
  by_cases he : cur.any (·.id = u.id) = true
  · -- the shard is already known: nothing changes
    rw [applyUpdate_existing cur u hsame he]
    have hucur : u ∈ cur := by
      simp at he
      obtain ⟨s, hs, hid⟩ := he
      have := hsame s hs hid
      subst this; exact hs
    refine ⟨inv.disj, inv.origin, ?_, ?_⟩
    · intro x hx
      simp at hx
      rcases hx with hx | rfl
      · exact inv.hasDone x hx
      · exact hucur
    · intro s hs hns x hx
      simp at hx
      rcases hx with hx | rfl
      · exact inv.noOverlap s hs hns x hx
      · -- s and u are distinct members of cur
        have hne : x ≠ s := fun h => hns (h ▸ hu)
        exact inv.disj x hucur s hs hne
  · -- a new shard id: overlapping entries are dropped
    have he' : cur.any (·.id = u.id) = false := by simpa using he
    unfold applyUpdate
    simp only [he', Bool.false_eq_true, if_false]
    have hpdisj := contig_disjoint hp
    refine ⟨?_, ?_, ?_, ?_⟩
    · intro a ha b hb hne
      simp at ha hb
      rcases ha with ⟨ha, hau⟩ | rfl <;> rcases hb with ⟨hb, hbu⟩ | rfl
      · exact inv.disj a ha b hb hne
      · rw [overlap_comm]; exact hau
      · exact hbu
      · exact absurd rfl hne
    · intro s hs
      simp at hs
      rcases hs with ⟨hs, _⟩ | rfl
      · exact inv.origin s hs
      · exact .inr hu
    · intro x hx
      simp at hx ⊢
      rcases hx with hx | rfl
      · left
        refine ⟨inv.hasDone x hx, ?_⟩
        -- members of the partition do not overlap each other
        by_cases hxu : x = u
        · -- x = u would mean the id was already present
          exfalso
          have := inv.hasDone x hx
          simp at he'
          exact he' x this (by rw [hxu])
        · rw [overlap_comm]
          exact hpdisj x (hdone x hx) u hu hxu
      · right; trivial
    · intro s hs hns x hx
      simp at hs hx
      rcases hs with ⟨hs, hsu⟩ | rfl
      · rcases hx with hx | rfl
        · exact inv.noOverlap s hs hns x hx
        · exact hsu
      · exact absurd hu hns

theorem update_inv (m0 ups : List Shard)
    (hp : Partition ups) (hinj : ∀ a ∈ ups, ∀ b ∈ ups, a.id = b.id → a = b)
    (hstable : ∀ x ∈ ups, ∀ s ∈ m0, s.id = x.id → s = x) :
    ∀ (todo done cur : List Shard), done ++ todo = ups → UpdInv m0 ups done cur →
      UpdInv m0 ups ups (todo.foldl applyUpdate cur) := by
  intro todo
  induction todo with
  | nil => intro done cur hd inv; simp at hd; subst hd; exact inv
  | cons u rest ih =>
    intro done cur hd inv
    simp only [List.foldl]
    apply ih (done ++ [u]) _ (by simp [← hd])
    have hu : u ∈ ups := by rw [← hd]; simp
    have hdone : ∀ x ∈ done, x ∈ ups := fun x hx => by rw [← hd]; simp [hx]
    exact applyUpdate_inv m0 ups done cur u hp hinj hstable hdone hu inv

end Oxia.Shard
