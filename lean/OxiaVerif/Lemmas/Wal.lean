import OxiaVerif.Model.Wal

namespace Oxia.Wal

/-- the entries a segmented WAL physically holds, oldest first -/
def SW.ents (w : SW) : List Entry := w.ro.flatMap (·.ents) ++ w.cur.ents

/-- read-only segments ascending by base offset, all below `b` -/
def RoOk : List Seg → Int → Prop
  | [], _ => True
  | s :: r, b => s.base < b ∧ 0 ≤ s.base ∧ (∀ t ∈ r, s.base < t.base) ∧ RoOk r b

theorem insertSeg_append (s : Seg) (ro : List Seg) (h : RoOk ro s.base) : insertSeg s ro = ro ++ [s] := by
  induction ro with
  | nil => rfl
  | cons t r ih =>
    obtain ⟨h1, _, _, h3⟩ := h
    unfold insertSeg
    have : ¬ s.base < t.base := by omega
    have h' : ¬ s.base = t.base := by omega
    simp [this, h', ih h3]

theorem RoOk_append {ro : List Seg} {s : Seg} {b : Int} (h : RoOk ro s.base) (hb : s.base < b)
    (h0 : 0 ≤ s.base) : RoOk (ro ++ [s]) b := by
  induction ro with
  | nil => exact ⟨hb, h0, by simp, trivial⟩
  | cons t r ih =>
    obtain ⟨h1, h0', h2, h3⟩ := h
    refine ⟨by omega, h0', ?_, ih h3⟩
    intro u hu
    simp at hu
    rcases hu with hu | hu
    · exact h2 u hu
    · subst hu; exact h1

theorem RoOk_mono {ro : List Seg} {b b' : Int} (h : RoOk ro b) (hb : b ≤ b') : RoOk ro b' := by
  induction ro with
  | nil => trivial
  | cons t r ih => exact ⟨by have := h.1; omega, h.2.1, h.2.2.1, ih h.2.2.2⟩

theorem RoOk_filter {ro : List Seg} {b : Int} (p : Seg → Bool) (h : RoOk ro b) : RoOk (ro.filter p) b := by
  induction ro with
  | nil => trivial
  | cons t r ih =>
    obtain ⟨h1, h0, h2, h3⟩ := h
    simp only [List.filter]
    split
    · refine ⟨h1, h0, ?_, ih h3⟩
      intro u hu
      exact h2 u (List.mem_filter.1 hu).1
    · exact ih h3

/-- structural invariant of the segmented WAL -/
structure Inv (w : SW) : Prop where
  ro : RoOk w.ro w.cur.base
  empty : w.appended = -1 → w.ro = [] ∧ w.cur = { base := 0, ents := [] }
  last : w.appended ≠ -1 → w.cur.last = w.appended
  nonneg : -1 ≤ w.appended
  base : 0 ≤ w.cur.base

theorem Inv_init : Inv SW.init := by
  refine ⟨trivial, fun _ => ⟨rfl, rfl⟩, fun h => absurd rfl h, by simp [SW.init], by simp [SW.init]⟩

theorem Seg.append_ok {c : Cfg} {s s' : Seg} {e : Entry} (h : s.append c e = .ok s') :
    s' = { s with ents := s.ents ++ [e] } ∧ e.offset = s.last + 1 ∧ e.size ≠ 0 ∧
      s.fileOffset c + c.headerSize + e.size ≤ c.segmentSize := by
  unfold Seg.append at h
  split at h
  · cases h
  · split at h
    · cases h
    · split at h
      · cases h
      · rename_i h1 h2 h3
        simp at h
        exact ⟨h.symm, by simpa using h3, h1, by simpa using h2⟩

/-- The entry fits into an empty segment (hypothesis of C09: `segmentSize ≥ headerSize + size`). -/
def Fits (c : Cfg) (e : Entry) : Prop := c.headerSize + e.size ≤ c.segmentSize

theorem Seg.last_append (s : Seg) (e : Entry) : ({ s with ents := s.ents ++ [e] } : Seg).last = s.last + 1 := by
  simp [Seg.last]; omega

theorem restart_props {w : SW} {e : Entry} (hi : Inv w) (hge : 0 ≤ e.offset) :
    (w.restart e).cur.ents = w.cur.ents ∧ (w.restart e).ro = w.ro ∧ (w.restart e).appended = w.appended ∧
    (w.restart e).first = w.first ∧ (w.restart e).synced = w.synced ∧
    RoOk (w.restart e).ro (w.restart e).cur.base ∧
    (w.appended = -1 → (w.restart e).cur = { base := e.offset, ents := [] }) ∧
    (w.appended ≠ -1 → w.restart e = w) := by
  unfold SW.restart
  split
  · rename_i hc
    obtain ⟨hc1, hc2, hc3⟩ := hc
    obtain ⟨hro, hcur⟩ := hi.empty hc1
    refine ⟨?_, rfl, rfl, rfl, rfl, ?_, ?_, ?_⟩
    · simp [hcur]
    · simp [hro, RoOk]
    · intro _; rfl
    · intro hne; exact absurd hc1 hne
  · rename_i hc
    refine ⟨rfl, rfl, rfl, rfl, rfl, hi.ro, ?_, fun _ => rfl⟩
    intro he
    obtain ⟨hro, hcur⟩ := hi.empty he
    by_cases h0 : e.offset = 0
    · simp [hcur, h0]
    · exact absurd ⟨he, h0, by simp [hcur]⟩ hc

theorem Seg.append_full {c : Cfg} {s : Seg} {e : Entry} (h : s.append c e = .error .segmentFull) :
    ¬ (s.fileOffset c + c.headerSize + e.size ≤ c.segmentSize) := by
  unfold Seg.append at h
  split at h
  · simp at h
  · split at h
    · assumption
    · split at h <;> simp at h

theorem Seg.append_err_full {c : Cfg} {s : Seg} {e : Entry} {err : Err} (hs : e.size ≠ 0)
    (ho : e.offset = s.last + 1) (h : s.append c e = .error err) : err = .segmentFull := by
  unfold Seg.append at h
  simp only [hs, if_false] at h
  split at h
  · simp at h; exact h.symm
  · simp [ho] at h

theorem Seg.append_fresh {c : Cfg} {e : Entry} (b : Int) (hs : e.size ≠ 0) (hf : Fits c e) (ho : e.offset = b) :
    ({ base := b, ents := [] } : Seg).append c e = .ok { base := b, ents := [e] } := by
  unfold Seg.append
  have h2 : ¬ ¬ (Seg.fileOffset c { base := b, ents := [] } + c.headerSize + e.size ≤ c.segmentSize) := by
    simp [Seg.fileOffset]; exact hf
  have h3 : ¬ e.offset ≠ ({ base := b, ents := [] } : Seg).last + 1 := by simp [Seg.last, ho]
  simp only [hs, h2, h3, if_false, List.nil_append]

/-- **append, abstractly**: a successful append adds exactly the entry at the end of the log and
    keeps the invariant; the accepted offset is `last+1` (or any non-negative offset on an empty log). -/
theorem appendAsync_ok {c : Cfg} {w w' : SW} {e : Entry} (hi : Inv w)
    (h : w.appendAsync c e = .ok w') :
    w'.ents = w.ents ++ [e] ∧ Inv w' ∧ w'.appended = e.offset ∧ 0 ≤ e.offset ∧
    (w.appended ≠ -1 → e.offset = w.appended + 1) ∧ w'.synced = w.synced := by
  unfold SW.appendAsync at h
  split at h
  · cases h
  rename_i hneg
  split at h
  · cases h
  rename_i hnext
  have hnext' : w.appended ≠ -1 → e.offset = w.appended + 1 := by
    intro hne
    by_cases he : e.offset = w.appended + 1
    · exact he
    · exact absurd ⟨hne, he⟩ hnext
  have hge : 0 ≤ e.offset := by omega
  obtain ⟨he1, hro1, happ1, hfirst1, hsync1, hrook1, hempty1, hsame1⟩ := restart_props hi hge
  generalize w.restart e = w1 at *
  unfold SW.appendCore at h
  cases hap : w1.cur.append c e with
  | ok cur' =>
    rw [hap] at h
    simp at h
    subst h
    obtain ⟨hcur', hoff, _, _⟩ := Seg.append_ok hap
    refine ⟨?_, ?_, rfl, hge, hnext', hsync1⟩
    · simp [SW.ents, SW.finishAppend, hcur', he1, hro1]
    · refine ⟨?_, ?_, ?_, ?_, ?_⟩
      · simpa [SW.finishAppend, hcur'] using hrook1
      · intro h'; simp [SW.finishAppend] at h'; omega
      · intro _
        simp only [SW.finishAppend, hcur', Seg.last_append]
        omega
      · simp [SW.finishAppend]; omega
      · simp only [SW.finishAppend, hcur']
        by_cases hne : w.appended = -1
        · rw [hempty1 hne]; exact hge
        · rw [hsame1 hne]; exact hi.base
  | error err =>
    rw [hap] at h
    cases err <;> simp at h
    -- segment full: rollover
    have hins : insertSeg w1.cur w1.ro = w1.ro ++ [w1.cur] := insertSeg_append _ _ hrook1
    cases hap2 : w1.rollover.cur.append c e with
    | error err2 => rw [hap2] at h; simp at h
    | ok cur' =>
      rw [hap2] at h
      simp at h
      subst h
      obtain ⟨hcur', hoff, _, _⟩ := Seg.append_ok hap2
      have hne : w.appended ≠ -1 := by
        intro he
        -- on an empty log `restart` made the current segment an empty one: if it is full for `e`,
        -- so is the fresh segment after the rollover
        have hcur := hempty1 he
        have hf1 := Seg.append_full hap
        have hf2 := (Seg.append_ok hap2).2.2.2
        simp [hcur, SW.rollover, Seg.fileOffset] at hf1 hf2
        omega
      have hw : w1 = w := hsame1 hne
      subst hw
      have hlast := hi.last hne
      refine ⟨?_, ?_, rfl, hge, hnext', rfl⟩
      · simp [SW.ents, SW.finishAppend, SW.rollover, hcur', hins, List.flatMap_append]
      · refine ⟨?_, ?_, ?_, ?_, ?_⟩
        · simp only [SW.finishAppend, SW.rollover, hcur', hins]
          refine RoOk_append hi.ro ?_ hi.base
          simp [Seg.last] at hlast
          show w1.cur.base < w1.appended + 1
          -- the segment that was full is not empty (the fresh one accepted the entry)
          have hf1 := Seg.append_full hap
          have hf2 := (Seg.append_ok hap2).2.2.2
          have hlen : 1 ≤ w1.cur.ents.length := by
            cases hce : w1.cur.ents with
            | nil => simp [SW.rollover, Seg.fileOffset, hce] at hf1 hf2; omega
            | cons x xs => simp
          omega
        · intro h'; simp [SW.finishAppend] at h'; omega
        · intro _
          simp [SW.finishAppend, SW.rollover, hcur', Seg.last]
          have := hnext' hne; omega
        · simp [SW.finishAppend]; omega
        · simp [SW.finishAppend, SW.rollover, hcur']
          have := hi.nonneg; omega

/-- **acceptance**: an append of a non-empty entry that fits a segment is accepted exactly at
    `last+1` (on an empty log: at any offset `≥ 0`). -/
theorem appendAsync_accepts {c : Cfg} {w : SW} {e : Entry} (hi : Inv w) (hs : e.size ≠ 0) (hf : Fits c e)
    (hoff : (w.appended = -1 ∧ 0 ≤ e.offset) ∨ (w.appended ≠ -1 ∧ e.offset = w.appended + 1)) :
    ∃ w', w.appendAsync c e = .ok w' := by
  have hge : 0 ≤ e.offset := by
    rcases hoff with h | h
    · exact h.2
    · have := hi.nonneg; omega
  unfold SW.appendAsync
  have h1 : ¬ e.offset < 0 := by omega
  have h2 : ¬ (w.appended ≠ -1 ∧ e.offset ≠ w.appended + 1) := by
    rcases hoff with h | h
    · simp [h.1]
    · simp [h.2]
  simp only [h1, h2, if_false]
  obtain ⟨he1, hro1, happ1, hfirst1, hsync1, hrook1, hempty1, hsame1⟩ := restart_props hi hge
  have hk1 : e.offset = (w.restart e).cur.last + 1 := by
    rcases hoff with h | h
    · rw [hempty1 h.1]; simp [Seg.last]
    · rw [hsame1 h.1, hi.last h.1]; exact h.2
  generalize w.restart e = w1 at *
  unfold SW.appendCore
  cases hap : w1.cur.append c e with
  | ok cur' => exact ⟨_, rfl⟩
  | error err =>
    have herr : err = .segmentFull := Seg.append_err_full hs hk1 hap
    subst herr
    simp only
    have hne : w.appended ≠ -1 := by
      intro he
      -- empty log: the (empty) current segment cannot be full for an entry that fits
      have hcur := hempty1 he
      have hf1 := Seg.append_full hap
      simp [hcur, Seg.fileOffset] at hf1
      exact absurd hf (by unfold Fits; omega)
    have hoffv : e.offset = w.appended + 1 := by
      rcases hoff with h | h
      · exact absurd h.1 hne
      · exact h.2
    have hfresh : w1.rollover.cur.append c e = .ok { base := w1.appended + 1, ents := [e] } := by
      simp only [SW.rollover]
      exact Seg.append_fresh _ hs hf (by omega)
    rw [hfresh]
    exact ⟨_, rfl⟩

theorem sync_inv {w : SW} (hi : Inv w) : Inv w.sync :=
  ⟨hi.ro, hi.empty, hi.last, hi.nonneg, hi.base⟩

theorem sync_ents (w : SW) : w.sync.ents = w.ents := rfl

theorem clear_inv (w : SW) : Inv w.clear := Inv_init

theorem filter_gt_suffix (ro : List Seg) (b cutoff : Int) (h : RoOk ro b) :
    ∃ dropped, ro = dropped ++ ro.filter (fun s => decide (s.base > cutoff)) ∧
      ∀ s ∈ dropped, s.base ≤ cutoff := by
  induction ro with
  | nil => exact ⟨[], by simp, by simp⟩
  | cons s r ih =>
    obtain ⟨h1, _, h2, h3⟩ := h
    by_cases hs : s.base > cutoff
    · refine ⟨[], ?_, by simp⟩
      have : ∀ t ∈ r, (decide (t.base > cutoff)) = true := by
        intro t ht; have := h2 t ht; simp; omega
      simp [List.filter, hs, List.filter_eq_self.2 this]
    · obtain ⟨d, hd1, hd2⟩ := ih h3
      refine ⟨s :: d, ?_, ?_⟩
      · simp [List.filter, hs]; exact hd1
      · intro u hu
        simp at hu
        rcases hu with hu | hu
        · subst hu; omega
        · exact hd2 u hu

/-- **trim** only drops whole read-only segments from the front (never the current one) -/
theorem trimSegments_suffix (ro : List Seg) (b o : Int) (h : RoOk ro b) :
    ∃ dropped, ro = dropped ++ trimSegments ro o := by
  unfold trimSegments
  cases hfb : floorBase ro ((floorBase ro o).getD o - 1) with
  | none => exact ⟨[], by simp⟩
  | some cutoff =>
    obtain ⟨d, hd, _⟩ := filter_gt_suffix ro b cutoff h
    exact ⟨d, by simpa using hd⟩

theorem trim_first_le (w : SW) (o : Int) : (w.trim o).first = max w.first o ∧ (w.trim o).cur = w.cur ∧
    (w.trim o).appended = w.appended ∧ (w.trim o).synced = w.synced := by
  unfold SW.trim
  split
  · refine ⟨by omega, rfl, rfl, rfl⟩
  · refine ⟨by simp; omega, rfl, rfl, rfl⟩

/-- `doTrim` never moves the first offset above the commit offset (nor backwards) -/
theorem doTrim_bound {w w' : SW} {now ret commit : Int} (h : w.doTrim now ret commit = .ok w') :
    w'.first ≤ max w.first commit ∧ w.first ≤ w'.first ∧ w'.cur = w.cur ∧ w'.appended = w.appended ∧
    w'.synced = w.synced := by
  unfold SW.doTrim at h
  split at h
  · simp at h; subst h; exact ⟨by omega, by omega, rfl, rfl, rfl⟩
  · cases hr : w.readAt w.first with
    | error e => rw [hr] at h; simp at h
    | ok fe =>
      rw [hr] at h
      simp only at h
      split at h
      · simp at h; subst h; exact ⟨by omega, by omega, rfl, rfl, rfl⟩
      · cases hb : binarySearch w (now - effRetention ret) (w.synced - w.first + 1).toNat w.first w.synced with
        | error e => rw [hb] at h; simp at h
        | ok t =>
          rw [hb] at h
          simp at h; subst h
          obtain ⟨h1, h2, h3, h4⟩ := trim_first_le w (if commit < t then commit else t)
          refine ⟨?_, ?_, h2, h3, h4⟩
          · rw [h1]; split <;> omega
          · rw [h1]; omega


/-! ### truncate -/

theorem Seg.truncate_ok {s s' : Seg} {o : Int} (h : s.truncate o = .ok s') :
    s' = { s with ents := s.ents.take (o - s.base + 1).toNat } ∧ s.base ≤ o ∧ o ≤ s.last := by
  unfold Seg.truncate at h
  split at h
  · cases h
  · rename_i hb
    simp at h
    exact ⟨h.symm, by omega, by omega⟩

theorem Seg.truncate_last {s s' : Seg} {o : Int} (h : s.truncate o = .ok s') : s'.last = o ∧ s'.base = s.base := by
  obtain ⟨h1, h2, h3⟩ := Seg.truncate_ok h
  subst h1
  simp [Seg.last] at *
  omega

/-- descending by base -/
def Desc : List Seg → Prop
  | [] => True
  | s :: r => (∀ t ∈ r, t.base < s.base) ∧ Desc r

theorem Desc_append_single {l : List Seg} {s : Seg} (h : Desc l) (hs : ∀ t ∈ l, s.base < t.base) :
    Desc (l ++ [s]) := by
  induction l with
  | nil => exact ⟨by simp, trivial⟩
  | cons t r ih =>
    refine ⟨?_, ih h.2 (fun u hu => hs u (by simp [hu]))⟩
    intro u hu
    simp at hu
    rcases hu with hu | hu
    · exact h.1 u hu
    · subst hu; exact hs t (by simp)

theorem RoOk_reverse_desc {ro : List Seg} {b : Int} (h : RoOk ro b) : Desc ro.reverse := by
  induction ro with
  | nil => trivial
  | cons s r ih =>
    obtain ⟨_, _, h2, h3⟩ := h
    simp only [List.reverse_cons]
    exact Desc_append_single (ih h3) (fun t ht => h2 t (by simpa using ht))

theorem Desc_reverse_RoOk {l : List Seg} {b : Int} (h : Desc l) (hb : ∀ t ∈ l, t.base < b)
    (h0 : ∀ t ∈ l, 0 ≤ t.base) : RoOk l.reverse b := by
  induction l generalizing b with
  | nil => trivial
  | cons s r ih =>
    simp only [List.reverse_cons]
    exact RoOk_append (ih h.2 (fun t ht => h.1 t ht) (fun t ht => h0 t (by simp [ht]))) (hb s (by simp)) (h0 s (by simp))

theorem truncLoop_ok {c : Cfg} {w : SW} {o : Int} {l : List Seg} {w' : SW} {r : Int}
    (hd : Desc l) (hfix : c.truncFix = true) (hge : 0 ≤ o) (hb : ∀ t ∈ l, 0 ≤ t.base)
    (h : truncLoop c w o l = .ok (w', r)) :
    Inv w' ∧ w'.appended = r ∧ w'.synced = r ∧ (r = o ∨ r = -1) := by
  induction l with
  | nil =>
    simp [truncLoop] at h
    obtain ⟨rfl, rfl⟩ := h
    exact ⟨Inv_init, rfl, rfl, .inr rfl⟩
  | cons s rest ih =>
    unfold truncLoop at h
    split at h
    · cases ht : s.truncate o with
      | error e => rw [ht] at h; simp at h
      | ok s' =>
        rw [ht] at h
        simp [hfix] at h
        obtain ⟨rfl, rfl⟩ := h
        obtain ⟨hl, hbase⟩ := Seg.truncate_last ht
        refine ⟨⟨?_, ?_, ?_, ?_, ?_⟩, rfl, rfl, .inl rfl⟩
        · simp only [hbase]
          exact Desc_reverse_RoOk hd.2 hd.1 (fun t ht => hb t (by simp [ht]))
        · intro h'; simp at h'; omega
        · intro _; exact hl
        · simp; omega
        · simp only [hbase]; exact hb s (by simp)
    · exact ih hd.2 (fun t ht => hb t (by simp [ht])) h

theorem RoOk_mem_lt {ro : List Seg} {b : Int} (h : RoOk ro b) : ∀ t ∈ ro, t.base < b := by
  induction ro with
  | nil => simp
  | cons s r ih =>
    intro t ht
    simp at ht
    rcases ht with ht | ht
    · subst ht; exact h.1
    · exact ih h.2.2.2 t ht

theorem RoOk_mem_nonneg {ro : List Seg} {b : Int} (h : RoOk ro b) : ∀ t ∈ ro, 0 ≤ t.base := by
  induction ro with
  | nil => simp
  | cons s r ih =>
    intro t ht
    simp at ht
    rcases ht with ht | ht
    · subst ht; exact h.2.1
    · exact ih h.2.2.2 t ht

/-- **truncate**: with the offsets stored on every path (`truncFix`), a successful `TruncateLog(o)`
    returns the new last offset, which is also what `LastOffset()` then reports, and the next append is
    accepted at exactly that offset + 1 (by `appendAsync_accepts` and the invariant). -/
theorem truncate_ok {c : Cfg} {w w' : SW} {o r : Int} (hi : Inv w) (hfix : c.truncFix = true)
    (ho : -1 ≤ o) (h : w.truncate c o = .ok (w', r)) :
    Inv w' ∧ w'.appended = r ∧ (w.appended ≠ -1 → w'.synced = r) ∧ (r = o ∨ r = -1) := by
  unfold SW.truncate at h
  split at h
  · simp at h; obtain ⟨rfl, rfl⟩ := h
    exact ⟨Inv_init, rfl, fun _ => rfl, .inr rfl⟩
  · rename_i ho1
    split at h
    · rename_i he
      simp at h; obtain ⟨rfl, rfl⟩ := h
      exact ⟨hi, he, fun hne => absurd he hne, .inr rfl⟩
    · rename_i hne
      split at h
      · cases ht : w.cur.truncate o with
        | error e => rw [ht] at h; simp at h
        | ok cur' =>
          rw [ht] at h
          simp at h; obtain ⟨rfl, rfl⟩ := h
          obtain ⟨hl, hbase⟩ := Seg.truncate_last ht
          refine ⟨⟨?_, ?_, ?_, ?_, ?_⟩, rfl, fun _ => rfl, .inl rfl⟩
          · simp only [hbase]; exact hi.ro
          · intro h'; simp at h'; omega
          · intro _; exact hl
          · simp; omega
          · simp only [hbase]; exact hi.base
      · obtain ⟨h1, h2, h3, h4⟩ := truncLoop_ok (RoOk_reverse_desc hi.ro) hfix (by omega)
          (fun t ht => RoOk_mem_nonneg hi.ro t (by simpa using ht)) h
        exact ⟨h1, h2, fun _ => h3, h4⟩

/-- Without the stores on the read-only-segment path (the pinned tree, defect D-2) the reported last
    offset stays stale: 3 entries in two segments, truncate to offset 0. -/
theorem truncate_stale_without_fix :
    let c : Cfg := { segmentSize := 40, headerSize := 12, truncFix := false }
    let e (o : Int) : Entry := { offset := o, term := 1, ts := 0, size := 8, id := 0 }
    let w : SW := { ro := [{ base := 0, ents := [e 0, e 1] }], cur := { base := 2, ents := [e 2] },
                    first := 0, appended := 2, synced := 2 }
    ∃ w', w.truncate c 0 = .ok (w', 0) ∧ w'.synced = 2 ∧ w'.appended = 2 := by
  refine ⟨_, rfl, rfl, rfl⟩


theorem trim_inv {w : SW} (o : Int) (hi : Inv w) : Inv (w.trim o) := by
  unfold SW.trim
  split
  · exact hi
  · refine ⟨?_, ?_, hi.last, hi.nonneg, hi.base⟩
    · simp only [trimSegments]
      split
      · exact hi.ro
      · exact RoOk_filter _ hi.ro
    · intro he
      obtain ⟨h1, h2⟩ := hi.empty he
      refine ⟨?_, h2⟩
      simp [trimSegments, h1, floorBase]

theorem doTrim_inv {w w' : SW} {now ret commit : Int} (hi : Inv w) (h : w.doTrim now ret commit = .ok w') :
    Inv w' := by
  unfold SW.doTrim at h
  split at h
  · simp at h; subst h; exact hi
  · cases hr : w.readAt w.first with
    | error e => rw [hr] at h; simp at h
    | ok fe =>
      rw [hr] at h
      simp only at h
      split at h
      · simp at h; subst h; exact hi
      · cases hb : binarySearch w (now - effRetention ret) (w.synced - w.first + 1).toNat w.first w.synced with
        | error e => rw [hb] at h; simp at h
        | ok t =>
          rw [hb] at h
          simp at h; subst h
          exact trim_inv _ hi

end Oxia.Wal
