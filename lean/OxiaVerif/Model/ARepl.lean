import OxiaVerif.Model.Repl

/-!
A-Repl: the replication protocol of one shard as a transition system of small atomic steps, for a fixed
ensemble of `n` nodes, with the history ("ghost") state the safety argument needs.

M-Repl (`Model/Repl.lean`) executes whole RPCs and whole settled deliveries; one M-Repl operation is a
sequence of A-Repl steps (the driver replays every protocol script in both and compares what the nodes
hold, `Driver/Dispatch.lean`, ops `p.*`). A-Repl takes its decisions from the same functions as M-Repl:
`plan` (truncateFollowerIfNeeded), `highestOfTerm`, `better` (selectNewLeader), `headOf`.

Steps:
* `newElection`            the coordinator moves to the next term (it persists the term before using it);
* `fence i`                node `i` answers the NewTerm request of the coordinator's current term;
* `becomeLeader l S`       the coordinator has the answers of a majority `S`, all fenced in the current term,
                           `l ∈ S` has a head entry no other member of `S` beats; at most once per term;
* `attach l f`             leader `l` runs `addFollower` for a node of its term that has no cursor yet: the
                           follower is truncated as `plan` says, the cursor starts at its head;
* `append l f`             the next entry of the leader's log reaches the attached follower, which appends and
                           acknowledges it;
* `write l id`             the leader appends a client write to its own log;
* `restart i`              the process restarts (or the leader steps down): log and term stay.

Ghost state: `G t` = the log of the leader of term `t` (the only log entries of term `t` are ever appended
to), `ldr t` = that leader, `eh t` = its head when elected, `ack i t` = how many entries node `i` has
acknowledged to the leader of term `t` (for the leader itself: what it holds). Acknowledgements are history:
they stay when the node moves on to a later term, as the messages that carry them do.

Not in A-Repl: membership changes (D-41 is about them), snapshots, the follower that `attach` would cut
at the offset of an entry of a lower term (known finding D-44: the step is not enabled there).
-/
namespace Oxia.ARepl
open Oxia.Repl

def upd {β : Type} (f : Nat → β) (a : Nat) (b : β) : Nat → β := fun x => if x = a then b else f x
def updI {β : Type} (f : Int → β) (a : Int) (b : β) : Int → β := fun x => if x = a then b else f x

structure St where
  n : Nat
  ct : Int
  term : Nat → Int
  log : Nat → List Entry
  leading : Nat → Bool
  att : Nat → Bool
  G : Int → List Entry
  ldr : Int → Option Nat
  eh : Int → Int × Int
  ack : Nat → Int → Nat

def init (n : Nat) : St :=
  { n := n, ct := 0, term := fun _ => -1, log := fun _ => [], leading := fun _ => false, att := fun _ => false,
    G := fun _ => [], ldr := fun _ => none, eh := fun _ => (-1, -1), ack := fun _ _ => 0 }

inductive Op
  | newElection
  | fence (i : Nat)
  | becomeLeader (l : Nat) (S : List Nat)
  | attach (l f : Nat)
  | append (l f : Nat)
  | write (l : Nat) (id : Nat)
  | restart (i : Nat)
  deriving Repr

/-- a majority of the ensemble, as a duplicate-free list of node numbers -/
def Maj (n : Nat) (Q : List Nat) : Prop := Q.Nodup ∧ (∀ i ∈ Q, i < n) ∧ n < 2 * Q.length

instance (n : Nat) (Q : List Nat) : Decidable (Maj n Q) := by unfold Maj; exact inferInstance

/-- the case of `truncateFollowerIfNeeded` that known finding D-44 is about: none of the early exits fires
    and the leader's last entry at or below the follower's head term is of a lower term -/
def d44case (L : List Entry) (fh eh : Int × Int) : Prop :=
  ¬ (fh.1 = eh.1 ∧ fh.2 ≤ eh.2) ∧ ¬ (fh.1 > eh.1) ∧
  (highestOfTerm L fh.1).1 ≠ fh.1 ∧ highestOfTerm L fh.1 ≠ (-1, -1)

instance (L : List Entry) (fh eh : Int × Int) : Decidable (d44case L fh eh) := by unfold d44case; exact inferInstance

/-- the follower can carry out what `plan` says: a truncation beyond the end of a non-empty log is refused
    by the WAL (ErrOffsetOutOfBounds), a refusal attaches nothing -/
def planOk (F : List Entry) : Plan → Bool
  | .attach _ => true
  | .truncate k => !(decide (k ≥ (F.length : Int)) && !F.isEmpty)
  | .refuse => false

/-- enabling condition of a step -/
def pre (s : St) : Op → Prop
  | .newElection => True
  | .fence i => s.term i < s.ct
  | .becomeLeader l S =>
      s.ldr s.ct = none ∧ Maj s.n S ∧ l ∈ S ∧ (∀ i ∈ S, s.term i = s.ct) ∧
      (∀ i ∈ S, better (headOf (s.log i)) (headOf (s.log l)) = false)
  | .attach l f =>
      s.leading l = true ∧ f ≠ l ∧ s.term f = s.term l ∧ s.att f = false ∧
      ¬ d44case (s.log l) (headOf (s.log f)) (s.eh (s.term l)) ∧
      planOk (s.log f) (plan Cfg.good (s.log l) (headOf (s.log f)) (s.eh (s.term l))) = true
  | .append l f =>
      s.leading l = true ∧ f ≠ l ∧ s.term f = s.term l ∧ s.att f = true ∧ (s.log f).length < (s.log l).length
  | .write l _ => s.leading l = true
  | .restart _ => True

instance decPre (s : St) : (op : Op) → Decidable (pre s op)
  | .newElection => inferInstanceAs (Decidable True)
  | .fence i => inferInstanceAs (Decidable (s.term i < s.ct))
  | .becomeLeader l S => inferInstanceAs (Decidable (s.ldr s.ct = none ∧ Maj s.n S ∧ l ∈ S ∧ (∀ i ∈ S, s.term i = s.ct) ∧
      (∀ i ∈ S, better (headOf (s.log i)) (headOf (s.log l)) = false)))
  | .attach l f => inferInstanceAs (Decidable (s.leading l = true ∧ f ≠ l ∧ s.term f = s.term l ∧ s.att f = false ∧
      ¬ d44case (s.log l) (headOf (s.log f)) (s.eh (s.term l)) ∧
      planOk (s.log f) (plan Cfg.good (s.log l) (headOf (s.log f)) (s.eh (s.term l))) = true))
  | .append l f => inferInstanceAs (Decidable (s.leading l = true ∧ f ≠ l ∧ s.term f = s.term l ∧ s.att f = true ∧
      (s.log f).length < (s.log l).length))
  | .write l _ => inferInstanceAs (Decidable (s.leading l = true))
  | .restart _ => inferInstanceAs (Decidable True)

def setAck (ack : Nat → Int → Nat) (i : Nat) (t : Int) (v : Nat) : Nat → Int → Nat :=
  fun j u => if j = i ∧ u = t then v else ack j u

/-- the state after a step (meaningful when `pre` holds) -/
def next (s : St) : Op → St
  | .newElection => { s with ct := s.ct + 1 }
  | .fence i => { s with term := upd s.term i s.ct, leading := upd s.leading i false, att := upd s.att i false }
  | .becomeLeader l _ =>
      { s with leading := upd s.leading l true, G := updI s.G s.ct (s.log l), ldr := updI s.ldr s.ct (some l),
               eh := updI s.eh s.ct (headOf (s.log l)), ack := setAck s.ack l s.ct (s.log l).length }
  | .attach l f =>
      match plan Cfg.good (s.log l) (headOf (s.log f)) (s.eh (s.term l)) with
      | .attach _ => { s with att := upd s.att f true, ack := setAck s.ack f (s.term l) (s.log f).length }
      | .truncate k =>
          { s with log := upd s.log f ((s.log f).take (k + 1).toNat), att := upd s.att f true,
                   ack := setAck s.ack f (s.term l) ((s.log f).take (k + 1).toNat).length }
      | .refuse => s
  | .append l f =>
      match (s.log l)[(s.log f).length]? with
      | some e => { s with log := upd s.log f (s.log f ++ [e]), ack := setAck s.ack f (s.term l) ((s.log f).length + 1) }
      | none => s
  | .write l id =>
      { s with log := upd s.log l (s.log l ++ [{ term := s.term l, id := id }]),
               G := updI s.G (s.term l) (s.log l ++ [{ term := s.term l, id := id }]),
               ack := setAck s.ack l (s.term l) ((s.log l).length + 1) }
  | .restart i => { s with leading := upd s.leading i false }

/-- the states the protocol can reach -/
inductive Reach (n : Nat) : St → Prop
  | init : Reach n (init n)
  | step (s : St) (op : Op) : Reach n s → pre s op → Reach n (next s op)

/-- run a list of steps; `none` when one of them is not enabled -/
def runOps (s : St) : List Op → Option St
  | [] => some s
  | op :: ops => if pre s op then runOps (next s op) ops else none

/-- offset `o` of term `t` has been acknowledged by a majority (the leader counts with what it holds) -/
def Chosen (s : St) (t : Int) (o : Nat) : Prop := ∃ Q, Maj s.n Q ∧ ∀ i ∈ Q, o < s.ack i t

/-- offset `o` of term `t` can still become acknowledged by a majority -/
def Choosable (s : St) (t : Int) (o : Nat) : Prop := ∃ Q, Maj s.n Q ∧ ∀ i ∈ Q, o < s.ack i t ∨ s.term i ≤ t

end Oxia.ARepl
