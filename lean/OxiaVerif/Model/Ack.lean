/-!
M-Ack: the leader's quorum-ack tracker (`server/quorum_ack_tracker.go`) and the write pipeline of
`leaderController.write` (`server/leader_controller.go`) as event-driven state machines.

Offsets are `Int` (`-1` = invalid offset). Cursor bitsets are lists of cursor indices without
duplicates (`util.BitSet` with at most 16 bits; the index bound is explicit).
-/
namespace Oxia.Ack

structure Tracker where
  rf : Nat
  head : Int
  commit : Int
  next : Int                           -- `nextOffset`
  tracker : List (Int × List Nat)      -- offset ↦ cursor indices that acked it
  cursorGen : Nat
  waiting : List (Int × Nat)           -- (minOffset, callback id), in registration order
  completed : List Nat                 -- callback ids completed successfully, in completion order
  panicked : Bool
  deriving Repr

def Tracker.required (t : Tracker) : Nat := t.rf / 2

/-- `NewQuorumAckTracker(rf, head, commit)` -/
def Tracker.new (rf : Nat) (head commit : Int) : Tracker :=
  { rf, head, commit, next := head,
    tracker := (List.range (head - commit).toNat).map fun (i : Nat) => (commit + 1 + (i : Int), ([] : List Nat)),
    cursorGen := 0, waiting := [], completed := [], panicked := false }

/-- the loop of `notifyCommitOffsetAdvanced`: complete waiting requests from the front while they are
    at or below the commit offset -/
def drainWaiting (commit : Int) : List (Int × Nat) → List (Int × Nat) × List Nat
  | [] => ([], [])
  | (m, id) :: rest =>
    if m > commit then ((m, id) :: rest, [])
    else
      let (w, done) := drainWaiting commit rest
      (w, id :: done)

def notifyCommit (t : Tracker) (c : Int) : Tracker :=
  let r := drainWaiting c t.waiting
  { t with commit := c, waiting := r.1, completed := t.completed ++ r.2 }

/-- `AdvanceHeadOffset` -/
def advanceHead (t : Tracker) (h : Int) : Tracker :=
  if h ≤ t.head then t
  else if t.required = 0 then notifyCommit { t with head := h } h
  else { t with head := h, tracker := t.tracker ++ [(h, [])] }

/-- `cursorAcker.ack` -/
def ack (t : Tracker) (idx : Nat) (o : Int) : Tracker :=
  match t.tracker.find? (·.1 = o) with
  | none => t
  | some e =>
    if idx ≥ 16 then { t with panicked := true }
    else
      let bits := if e.2.contains idx then e.2 else e.2 ++ [idx]
      if bits.length = t.required then
        notifyCommit { t with tracker := t.tracker.filter (·.1 ≠ o) } o
      else { t with tracker := t.tracker.map fun x => if x.1 = o then (o, bits) else x }

def ackRange (t : Tracker) (idx : Nat) (from_ : Int) : Nat → Tracker
  | 0 => t
  | n + 1 => ackRange (ack t idx from_) idx (from_ + 1) n

inductive CursorErr | tooMany | invalidHead
  deriving DecidableEq, Repr

/-- `NewCursorAcker(ackOffset)` -/
def newCursor (t : Tracker) (ackOffset : Int) : Except CursorErr (Tracker × Nat) :=
  if t.cursorGen + 1 ≥ t.rf then .error .tooMany          -- uint32(gen) >= rf - 1 (rf ≥ 1)
  else if ackOffset > t.head then .error .invalidHead
  else
    let t' := ackRange t t.cursorGen (t.commit + 1) (ackOffset - t.commit).toNat
    .ok ({ t' with cursorGen := t.cursorGen + 1 }, t.cursorGen)

/-- `WaitForCommitOffsetAsync` -/
def waitAsync (t : Tracker) (o : Int) (id : Nat) : Tracker :=
  if t.required = 0 ∨ t.commit ≥ o then { t with completed := t.completed ++ [id] }
  else { t with waiting := t.waiting ++ [(o, id)] }

/-- `NextOffset` -/
def nextOffset (t : Tracker) : Tracker × Int := ({ t with next := t.next + 1 }, t.next + 1)

/-! ### the write pipeline -/

/-- the leader's WAL as far as the pipeline is concerned -/
structure Pipe where
  t : Tracker
  walLast : Int                      -- last appended offset
  synced : Int                       -- last synced offset
  pendingSync : List (Int × Nat)     -- (offset, writer) whose sync callback has not run yet, in append order
  allocated : List (Nat × Int)       -- writer ↦ offset allocated but not appended yet (only when not atomic)
  failed : List Nat                  -- writers whose append was rejected
  appended : List (Int × Nat)        -- (offset, writer) accepted by the WAL, in append order
  deriving Repr

inductive PEv
  | write (w : Nat)                  -- atomic: allocate + append (the fact `writeHoldsAppendLock`)
  | alloc (w : Nat)                  -- non-atomic variant, step 1
  | append (w : Nat)                 -- non-atomic variant, step 2
  | sync                             -- the WAL sync completes for everything appended; callbacks run in order
  | ack (idx : Nat) (o : Int)
  | newCursor (ackOffset : Int)
  deriving DecidableEq, Repr

def Pipe.new (rf : Nat) (head commit : Int) : Pipe :=
  { t := Tracker.new rf head commit, walLast := head, synced := head, pendingSync := [], allocated := [],
    failed := [], appended := [] }

def appendWal (p : Pipe) (w : Nat) (o : Int) : Pipe :=
  -- `checkNextOffset`
  if p.walLast ≠ -1 ∧ o ≠ p.walLast + 1 then { p with failed := p.failed ++ [w] }
  else { p with walLast := o, pendingSync := p.pendingSync ++ [(o, w)], appended := p.appended ++ [(o, w)] }

def syncCallbacks (t : Tracker) : List (Int × Nat) → Tracker
  | [] => t
  | (o, w) :: rest => syncCallbacks (waitAsync (advanceHead t o) o w) rest

def pstep (p : Pipe) : PEv → Pipe
  | .write w =>
    let (t', o) := nextOffset p.t
    appendWal { p with t := t' } w o
  | .alloc w =>
    let (t', o) := nextOffset p.t
    { p with t := t', allocated := p.allocated ++ [(w, o)] }
  | .append w =>
    match p.allocated.find? (·.1 = w) with
    | none => p
    | some (_, o) => appendWal { p with allocated := p.allocated.filter (·.1 ≠ w) } w o
  | .sync =>
    { p with synced := p.walLast, pendingSync := [], t := syncCallbacks p.t p.pendingSync }
  | .ack idx o => { p with t := ack p.t idx o }
  | .newCursor a =>
    match newCursor p.t a with
    | .ok (t', _) => { p with t := t' }
    | .error _ => p

def prun (p : Pipe) (evs : List PEv) : Pipe := evs.foldl pstep p

end Oxia.Ack
