import OxiaVerif.Model.Key

/-!
M-Batch: the client library's batching and fan-out.

* `Batcher`: the run loop of `oxia/batch/batcher.go` as a fold over events (`call`, `timer`, `close`);
  a batch is completed when it reaches `maxRequests`, when the next call does not fit (`CanAdd`),
  when the linger timer fires, and failed when the batcher is closed.
* write / read batch: positional mapping between the calls of a batch and the response lists
  (`oxia/internal/batch/write_batch.go`, `read_batch.go`), whole-batch retry on retriable errors.
* `multiShardGet`: the completion logic of `doMultiShardGet` (`oxia/async_client_impl.go`).
* `kwayMerge`: `aggregateAndSortRangeScanAcrossShards` (`results_heap.go`).
-/
namespace Oxia.Batch
open Oxia.Key

/-! ### the batcher loop -/

structure Call where
  id : Nat
  size : Nat           -- `getByteSize(call)`
  deriving DecidableEq, Repr

inductive Ev
  | call (c : Call)
  | timer             -- the linger timer of the current batch fires
  | close
  deriving DecidableEq, Repr

structure Cfg where
  linger : Nat              -- 0 = complete every batch immediately
  maxRequests : Nat
  maxBytes : Nat            -- write batches: `CanAdd` ⇔ bytes + size ≤ maxBytes; 0 = unlimited (read batches)
  /-- fact: the batch created after a size split is created by `newBatch()`, i.e. with a freshly armed
      linger timer -/
  rearmAfterSplit : Bool
  deriving Repr

inductive Outcome
  | completed (batch : Nat)     -- index of the executed batch the call was part of
  | failedShutdown
  deriving DecidableEq, Repr

structure St where
  cur : Option (List Call)       -- the open batch (calls in arrival order)
  timerArmed : Bool
  closed : Bool
  batches : List (List Call)     -- executed batches, oldest first
  outcomes : List (Nat × Outcome)
  deriving Repr

def St.init : St := { cur := none, timerArmed := false, closed := false, batches := [], outcomes := [] }

def bytes (l : List Call) : Nat := (l.map (·.size)).sum

def canAdd (cfg : Cfg) (b : List Call) (c : Call) : Bool := cfg.maxBytes = 0 || bytes b + c.size ≤ cfg.maxBytes

/-- `completeBatch()`: the batch is executed, every call of it gets its outcome -/
def complete (s : St) (b : List Call) : St :=
  if b.isEmpty then { s with cur := none, timerArmed := false }   -- (`writeBatch.Complete` with no call does nothing)
  else
    { s with cur := none, timerArmed := false, batches := s.batches ++ [b],
             outcomes := s.outcomes ++ b.map (fun c => (c.id, .completed s.batches.length)) }

/-- `if batch == nil { newBatch() }`: the open batch and whether its linger timer is armed -/
def openBatch (cfg : Cfg) (s : St) : List Call × Bool :=
  match s.cur with
  | none => ([], decide (cfg.linger > 0))
  | some b => (b, s.timerArmed)

/-- `batch.Add(call)` and the completion test after it -/
def finish (cfg : Cfg) (s1 : St) (b1 : List Call) (armed1 : Bool) (c : Call) : St :=
  if (b1 ++ [c]).length = cfg.maxRequests ∨ cfg.linger = 0 then complete { s1 with cur := some (b1 ++ [c]) } (b1 ++ [c])
  else { s1 with cur := some (b1 ++ [c]), timerArmed := armed1 }

/-- a call taken from the channel by the run loop -/
def addCall (cfg : Cfg) (s : St) (c : Call) : St :=
  if canAdd cfg (openBatch cfg s).1 c then finish cfg s (openBatch cfg s).1 (openBatch cfg s).2 c
  else
    -- `if !CanAdd { completeBatch(); newBatch() }`
    finish cfg (complete s (openBatch cfg s).1) [] (decide (cfg.linger > 0) && cfg.rearmAfterSplit) c

def step (cfg : Cfg) (s : St) : Ev → St
  | .call c =>
    if s.closed then { s with outcomes := s.outcomes ++ [(c.id, .failedShutdown)] }
    else addCall cfg s c
  | .timer =>
    match s.cur with
    | some b => if s.timerArmed then complete s b else s
    | none => s
  | .close =>
    match s.cur with
    | some b => { s with cur := none, timerArmed := false, closed := true,
                         outcomes := s.outcomes ++ b.map (fun c => (c.id, .failedShutdown)) }
    | none => { s with closed := true }

def run (cfg : Cfg) (evs : List Ev) : St := evs.foldl (step cfg) St.init

/-! ### positional mapping of a batch -/

/-- `writeBatch.handle` / `readBatch.handle`: the i-th call gets the i-th response; `none` = index out of
    range (panic) -/
def handle {α : Type} (calls : List Nat) (resps : List α) : Option (List (Nat × α)) :=
  if resps.length < calls.length then none else some (calls.zip resps)

/-- whole-batch retry: the executor is asked again while it answers with a retriable error -/
inductive Exec (α : Type)
  | ok (resps : List α)
  | retriable
  | fatal
  deriving Repr

def withRetries {α : Type} : List (Exec α) → Option (Exec α)
  | [] => none                       -- the script ran out (request timeout)
  | .retriable :: rest => withRetries rest
  | r :: _ => some r

/-- the write batch keeps three lists; the request carries the puts, then the deletes, then the
    delete-ranges, each in arrival order; the response has the same three lists -/
inductive Kind | put | delete | deleteRange
  deriving DecidableEq, Repr

/-- `writeBatch.handle` on a server that answers the j-th request of each list with `answer req`:
    call ids with their kind, in arrival order ↦ (id, answer) in callback order -/
def writeHandle {α : Type} (calls : List (Nat × Kind)) (answer : Nat → α) : List (Nat × α) :=
  let of (k : Kind) := (calls.filter (·.2 = k)).map (·.1)
  -- the server sees `of .put`, `of .delete`, `of .deleteRange`, and answers position-wise
  ((of .put).zip ((of .put).map answer)) ++ ((of .delete).zip ((of .delete).map answer)) ++
    ((of .deleteRange).zip ((of .deleteRange).map answer))

/-- one attempt of `readBatch.doRequest`: the stream delivers a prefix of the answers and then fails,
    or delivers everything -/
inductive RAttempt
  | partialRetriable (k : Nat)
  | partialFatal (k : Nat)
  | ok
  deriving DecidableEq, Repr

/-- `readBatch.doRequestWithRetries`; `fresh` = fact: every attempt starts from an empty response -/
def readWithRetries {α : Type} (fresh : Bool) (answers : List α) : List RAttempt → List α → Option (Exec α)
  | [], _ => none
  | .partialRetriable k :: rest, acc => readWithRetries fresh answers rest (if fresh then [] else acc ++ answers.take k)
  | .partialFatal _ :: _, _ => some .fatal
  | .ok :: _, acc => some (.ok (acc ++ answers))

/-! ### multi-shard comparison get -/

inductive Cmp | equal | floor | ceiling | lower | higher
  deriving DecidableEq, Repr

/-- a shard's answer: a record key (already the best of that shard), not found, or an error -/
inductive Ans
  | found (k : Key)
  | notFound
  | error
  deriving DecidableEq, Repr

/-- `selectResponse` -/
def selectResponse (c : Cmp) (sel : Option Key) (r : Ans) : Option Key :=
  match r with
  | .found k =>
    match c, sel with
    | .equal, none => some k
    | .equal, some s => some s
    | .floor, none | .lower, none | .ceiling, none | .higher, none => some k
    | .floor, some s | .lower, some s => if cmpSlash s k = .lt then some k else some s
    | .ceiling, some s | .higher, some s => if cmpSlash s k = .gt then some k else some s
  | _ => sel

inductive GetOut
  | value (k : Option Key)     -- completed with the selected record (none = KEY_NOT_FOUND)
  | failed                     -- completed with the error
  deriving DecidableEq, Repr

structure MState where
  counter : Int
  selected : Option Key
  sent : List GetOut            -- what was sent on the result channel
  closedCh : Bool
  panicked : Bool
  deriving Repr

/-- one per-shard callback of `doMultiShardGet`; `returnsAfterError` = fact: the error branch returns -/
def mstep (returnsAfterError : Bool) (c : Cmp) (s : MState) (r : Ans) : MState :=
  if s.panicked then s
  else if s.counter = 0 then s
  else
    let s1 : MState :=
      if r = .error then
        if s.closedCh then { s with panicked := true }      -- send on a closed channel
        else { s with sent := s.sent ++ [.failed], closedCh := true, counter := 0 }
      else s
    if s1.panicked then s1
    else if r = .error ∧ returnsAfterError then s1
    else
      let s2 := { s1 with selected := selectResponse c s1.selected r, counter := s1.counter - 1 }
      if s2.counter = 0 then
        if s2.closedCh then { s2 with panicked := true }
        else { s2 with sent := s2.sent ++ [.value s2.selected], closedCh := true }
      else s2

def MState.init (shards : Nat) : MState := { counter := shards, selected := none, sent := [], closedCh := false, panicked := false }

/-- the callbacks of `shards` shards arrive in the order `arrivals` -/
def multiShardGetN (returnsAfterError : Bool) (c : Cmp) (shards : Nat) (arrivals : List Ans) : MState :=
  arrivals.foldl (mstep returnsAfterError c) (MState.init shards)

def multiShardGet (returnsAfterError : Bool) (c : Cmp) (answers : List Ans) : MState :=
  multiShardGetN returnsAfterError c answers.length answers

/-! ### k-way merge of per-shard sorted results -/

def insertSortedKey (k : Key) : List Key → List Key
  | [] => [k]
  | x :: xs => if cmpSlash k x = .gt then x :: insertSortedKey k xs else k :: x :: xs

/-- the smallest of the current heads (what `heap.Pop` returns) -/
def minKey (h : Key) (hs : List Key) : Key := hs.foldl (fun a b => if cmpSlash b a = .lt then b else a) h

/-- read again from the channel the popped element came from -/
def popHead (m : Key) : List (List Key) → List (List Key)
  | [] => []
  | l :: rest => if l.head? = some m then l.tail :: rest else l :: popHead m rest

/-- the observable result of `aggregateAndSortRangeScanAcrossShards` on error-free inputs: repeatedly
    emit the smallest head. (`fuel` = total number of elements.) -/
def kwayMerge : Nat → List (List Key) → List Key
  | 0, _ => []
  | fuel + 1, ls =>
    match ls.filterMap List.head? with
    | [] => []
    | h :: hs => minKey h hs :: kwayMerge fuel (popHead (minKey h hs) ls)

/-! ### the write stream: requests and responses are matched by position -/

inductive WTok
  | send (id : Nat)          -- a request is sent, its caller waits
  | sendTimeout (id : Nat)   -- a request is sent, its caller gives up before the answer
  | resp                     -- the leader answers its oldest unanswered request
  | brk                      -- the stream breaks
  deriving Repr

inductive WOut
  | resp (r : Nat)   -- the response to request `r`
  | timeout
  | eof
  deriving Repr, DecidableEq

structure WSt where
  pending : List (Nat × Bool) := []   -- the wrapper's queue: request id, "its caller still waits"
  leader : List Nat := []             -- requests the leader has not answered yet
  got : List (Nat × WOut) := []
  broken : Bool := false

/-- `keepsTimedOut` = fact: a request whose caller has given up keeps its place in the queue (and absorbs
    the late response) -/
def wstep (keepsTimedOut : Bool) (s : WSt) : WTok → WSt
  | .send id =>
    if s.broken then { s with got := s.got ++ [(id, .eof)] }
    else { s with pending := s.pending ++ [(id, true)], leader := s.leader ++ [id] }
  | .sendTimeout id =>
    if s.broken then { s with got := s.got ++ [(id, .eof)] }
    else if keepsTimedOut then
      { s with pending := s.pending ++ [(id, false)], leader := s.leader ++ [id], got := s.got ++ [(id, .timeout)] }
    else { s with leader := s.leader ++ [id], got := s.got ++ [(id, .timeout)] }
  | .resp =>
    match s.leader, s.pending with
    | r :: ls, (id, waiting) :: ps =>
      { s with leader := ls, pending := ps, got := if waiting then s.got ++ [(id, .resp r)] else s.got }
    | _ :: ls, [] => { s with leader := ls }
    | [], _ => s
  | .brk =>
    { s with broken := true, pending := [], got := s.got ++ (s.pending.filter (·.2)).map fun p => (p.1, WOut.eof) }

def wrun (keepsTimedOut : Bool) (toks : List WTok) : WSt := toks.foldl (wstep keepsTimedOut) {}

/-! ### multi-shard list (`List` / `listFromShard`): one goroutine per shard sends what its stream delivers
    into one channel -/

/-- what the stream of one shard delivers: batches of keys, then possibly a failure -/
inductive LRes
  | keys (ks : List String)
  | err
  deriving Repr, DecidableEq

/-- the results `listFromShard` sends for one shard: `none` = the request itself fails; `some items` = the
    responses of the stream, `none` among them = the stream breaks (nothing after it is delivered) -/
def streamResults : List (Option (List String)) → List LRes
  | [] => []
  | none :: _ => [.err]
  | some ks :: rest => .keys ks :: streamResults rest

def shardResults : Option (List (Option (List String))) → List LRes
  | none => [.err]
  | some items => streamResults items

/-- the goroutines run in any order: `sched` says which shard sends its next result; a shard that has nothing
    left is skipped -/
def pull {α : Type} : List (List α) → Nat → Option (α × List (List α))
  | [], _ => none
  | [] :: _, 0 => none
  | (a :: t) :: ls, 0 => some (a, t :: ls)
  | l :: ls, i + 1 => (pull ls i).map fun p => (p.1, l :: p.2)

def runSched {α : Type} (ls : List (List α)) : List Nat → List α × List (List α)
  | [] => ([], ls)
  | i :: rest =>
    match pull ls i with
    | none => runSched ls rest
    | some (a, ls') => let r := runSched ls' rest; (a :: r.1, r.2)

/-- what the caller of `List` has received when the channel is closed: the keys (sorted here: their order
    across shards is a matter of timing) and the number of errors -/
def insertSorted (a : String) : List String → List String
  | [] => [a]
  | b :: t => if a ≤ b then a :: b :: t else b :: insertSorted a t

def listSummary (rs : List LRes) : List String × Nat :=
  ((rs.flatMap fun r => match r with | .keys ks => ks | .err => []).foldr insertSorted [],
   (rs.filter fun r => r == .err).length)

end Oxia.Batch
