/-!
M-Codec: the WAL record codecs (`server/wal/codec/v1.go`, `v2.go`) on raw bytes.

Buffers are `List Nat` (bytes).  Go's `uint32` arithmetic is modelled with explicit `% 2^32` exactly
where the source computes in `uint32` and a wrap-around is possible; a slice expression that Go would
reject at run time yields the explicit outcome `panic`, so "never panics" is a theorem about the
model rather than an artefact of totalisation.  The checksum is a parameter.
-/
namespace Oxia.Codec

def U32 : Nat := 4294967296

inductive Res (α : Type)
  | ok (a : α)
  | errOutOfBounds
  | errEmptyPayload
  | errDataCorrupted
  | panic
  deriving Repr, DecidableEq

/-- Which of the two on-disk formats, and the two facts read from `ReadHeaderWithValidation`. -/
structure Cfg where
  v2 : Bool
  /-- the bound check compares `payloadSize` with `actualBufSize - HeaderSize` (no `uint32` sum that can wrap) -/
  overflowSafe : Bool
  /-- the remaining buffer length is checked before the size field is read -/
  readGuarded : Bool
  deriving Repr, DecidableEq

def Cfg.header (c : Cfg) : Nat := if c.v2 then 12 else 4

/-- `codec.ReadInt`: big-endian uint32 at `off`; `none` = slice bounds out of range (panic) -/
def readInt (buf : List Nat) (off : Nat) : Option Nat :=
  if off + 4 ≤ buf.length then
    some (buf.getD off 0 * 16777216 + buf.getD (off + 1) 0 * 65536 + buf.getD (off + 2) 0 * 256 + buf.getD (off + 3) 0)
  else none

abbrev Crc := Nat → List Nat → Nat

structure Header where
  payloadSize : Nat
  previousCrc : Nat
  payloadCrc : Nat
  deriving Repr, DecidableEq

/-- the bound check on the size field -/
def tooBig (c : Cfg) (actual payloadSize : Nat) : Bool :=
  if c.overflowSafe then actual < c.header || payloadSize > actual - c.header
  else (payloadSize + c.header) % U32 > actual

/-- v2 only: read the two checksums, slice the payload, verify the checksum -/
def readV2Rest (crc : Crc) (buf : List Nat) (start payloadSize : Nat) : Res Header :=
  match readInt buf (start + 4), readInt buf (start + 8) with
  | some prev, some pcrc =>
    -- payloadSlice := buf[payloadStart : payloadStart+payloadSize] in uint32 arithmetic
    if start + 12 > (start + 12 + payloadSize) % U32 || (start + 12 + payloadSize) % U32 > buf.length then .panic
    else if crc prev ((buf.drop (start + 12)).take payloadSize) ≠ pcrc then .errDataCorrupted
    else .ok { payloadSize := payloadSize, previousCrc := prev, payloadCrc := pcrc }
  | _, _ => .panic

/-- after the size field has been read -/
def readAfterSize (c : Cfg) (crc : Crc) (buf : List Nat) (start payloadSize : Nat) : Res Header :=
  if payloadSize = 0 then .errEmptyPayload
  else if tooBig c (buf.length - start) payloadSize then .errOutOfBounds
  else if !c.v2 then .ok { payloadSize := payloadSize, previousCrc := 0, payloadCrc := 0 }
  else readV2Rest crc buf start payloadSize

/-- `ReadHeaderWithValidation` (both formats; `start` and `buf.length` are `< 2^32`) -/
def readHeader (c : Cfg) (crc : Crc) (buf : List Nat) (start : Nat) : Res Header :=
  if start ≥ buf.length then .errOutOfBounds
  else if c.readGuarded && buf.length - start < 4 then .errOutOfBounds
  else match readInt buf start with
    | none => .panic
    | some payloadSize => readAfterSize c crc buf start payloadSize

/-- `ReadRecordWithValidation`: the payload at `start` -/
def readRecord (c : Cfg) (crc : Crc) (buf : List Nat) (start : Nat) : Res (List Nat) :=
  match readHeader c crc buf start with
  | .ok h =>
    let lo := start + c.header
    let hi := (lo + h.payloadSize) % U32
    if lo > hi || hi > buf.length then .panic
    else .ok ((buf.drop lo).take h.payloadSize)
  | .errOutOfBounds => .errOutOfBounds
  | .errEmptyPayload => .errEmptyPayload
  | .errDataCorrupted => .errDataCorrupted
  | .panic => .panic

structure Recovered where
  index : List Nat         -- file offsets of the records
  lastCrc : Nat
  newFileOffset : Nat
  count : Nat              -- number of records (lastEntryOffset = base + count - 1)
  deriving Repr, DecidableEq

/-- loop condition of `RecoverIndex` (v2: a whole header must fit; v1: any byte left) -/
def canContinue (c : Cfg) (off len : Nat) : Bool := if c.v2 then off + 12 ≤ len else off < len

/-- what `RecoverIndex` does with a validation error: `done` = stop here with what was recovered.
    `uncommittedFrom = some k`: entries with index `≥ k` (relative to the segment base) are above the
    commit offset; `none`: no commit offset known (nil provider). -/
def onError (c : Cfg) (uncommittedFrom : Option Nat) (n : Nat) (done : Recovered) (outOfBounds : Bool) : Res Recovered :=
  if !c.v2 then .ok done     -- v1: out-of-bounds also ends the scan (no checksum, no corruption error)
  else match uncommittedFrom with
    | some k => if n ≥ k then .ok done else (if outOfBounds then .errOutOfBounds else .errDataCorrupted)
    | none => if outOfBounds then .errOutOfBounds else .errDataCorrupted

/-- `RecoverIndex` loop -/
def recoverLoop (c : Cfg) (crc : Crc) (buf : List Nat) (uncommittedFrom : Option Nat) :
    Nat → Nat → List Nat → Nat → Nat → Res Recovered
  | 0, off, idx, lastCrc, n => .ok { index := idx.reverse, lastCrc := lastCrc, newFileOffset := off, count := n }
  | fuel + 1, off, idx, lastCrc, n =>
    if !canContinue c off buf.length then
      .ok { index := idx.reverse, lastCrc := lastCrc, newFileOffset := off, count := n }
    else match readHeader c crc buf off with
      | .ok h => recoverLoop c crc buf uncommittedFrom fuel (off + c.header + h.payloadSize) (off :: idx)
                   (if c.v2 then h.payloadCrc else lastCrc) (n + 1)
      | .errEmptyPayload => .ok { index := idx.reverse, lastCrc := lastCrc, newFileOffset := off, count := n }
      | .panic => .panic
      | .errOutOfBounds =>
        onError c uncommittedFrom n { index := idx.reverse, lastCrc := lastCrc, newFileOffset := off, count := n } true
      | .errDataCorrupted =>
        onError c uncommittedFrom n { index := idx.reverse, lastCrc := lastCrc, newFileOffset := off, count := n } false

def recoverIndex (c : Cfg) (crc : Crc) (buf : List Nat) (start : Nat) (uncommittedFrom : Option Nat) : Res Recovered :=
  recoverLoop c crc buf uncommittedFrom (buf.length + 1) start [] 0 0

/-- big-endian bytes of a uint32 -/
def putInt (x : Nat) : List Nat := [x / 16777216 % 256, x / 65536 % 256, x / 256 % 256, x % 256]

/-- `WriteRecord`: the bytes of one record and the new running crc -/
def encodeRecord (c : Cfg) (crc : Crc) (prev : Nat) (payload : List Nat) : List Nat × Nat :=
  if c.v2 then
    let pc := crc prev payload
    (putInt payload.length ++ putInt prev ++ putInt pc ++ payload, pc)
  else (putInt payload.length ++ payload, prev)

def encodeAll (c : Cfg) (crc : Crc) : Nat → List (List Nat) → List Nat
  | _, [] => []
  | prev, p :: ps => let (b, pc) := encodeRecord c crc prev p; b ++ encodeAll c crc pc ps

/-! ### read-only segments: the index file (`ReadIndex`, `newReadOnlySegment`, `readOnlySegment.Read`) -/

/-- facts read from the code: `ReadIndex` (v2) looks at the length of the file before it reads the checksum;
    `newReadOnlySegment` refuses an index without entries -/
structure ROCfg where
  lenGuard : Bool
  emptyGuard : Bool
  deriving Repr, DecidableEq

def Res.cast {α β : Type} (r : Res α) (dflt : Res β) : Res β :=
  match r with
  | .ok _ => dflt
  | .errOutOfBounds => .errOutOfBounds
  | .errEmptyPayload => .errEmptyPayload
  | .errDataCorrupted => .errDataCorrupted
  | .panic => .panic

/-- `ReadIndex`: v1 returns the file as it is; v2 compares the checksum in the first four bytes with the
    checksum of the rest -/
def readIndexFile (c : Cfg) (ro : ROCfg) (crc : Crc) (file : List Nat) : Res (List Nat) :=
  if !c.v2 then .ok file
  else if ro.lenGuard && file.length < 4 then .errDataCorrupted
  else match readInt file 0 with
    | none => .panic                       -- ReadInt(indexBuf, 0) on fewer than four bytes
    | some expected => if expected ≠ crc 0 (file.drop 4) then .errDataCorrupted else .ok (file.drop 4)

/-- the index `RecoverIndex` returns, as the bytes the segment keeps -/
def indexBytes (idx : List Nat) : List Nat := idx.flatMap putInt

structure ROSeg where
  idx : List Nat           -- index bytes, four per entry
  count : Nat
  lastCrc : Nat
  deriving Repr, DecidableEq

/-- the tail of `newReadOnlySegment`: the last entry and its checksum -/
def finishReadOnly (c : Cfg) (ro : ROCfg) (crc : Crc) (idx txn : List Nat) : Res ROSeg :=
  let n := idx.length / 4
  if n = 0 then (if ro.emptyGuard then .errDataCorrupted else .panic)   -- fileOffset(idx, base, base-1)
  else match readInt idx ((n - 1) * 4) with
    | none => .panic
    | some fo =>
      match readHeader c crc txn fo with
      | .ok h => .ok { idx := idx, count := n, lastCrc := h.payloadCrc }
      | r => r.cast .panic

/-- `newReadOnlySegment`: the index file is read; a v2 index that fails its checksum is rebuilt from the txn file -/
def openReadOnly (c : Cfg) (ro : ROCfg) (crc : Crc) (idxFile txn : List Nat) : Res ROSeg :=
  match readIndexFile c ro crc idxFile with
  | .ok idx => finishReadOnly c ro crc idx txn
  | .errDataCorrupted =>
    match recoverIndex c crc txn 0 none with
    | .ok r => finishReadOnly c ro crc (indexBytes r.index) txn
    | r => r.cast .panic
  | r => r.cast .panic

/-- `readOnlySegment.Read` of the `k`-th entry -/
def roRead (c : Cfg) (crc : Crc) (s : ROSeg) (txn : List Nat) (k : Nat) : Res (List Nat) :=
  if k ≥ s.count then .errOutOfBounds
  else match readInt s.idx (k * 4) with
    | none => .panic
    | some fo => readRecord c crc txn fo

/-! ### CRC-32C as used by `server/util/crc` (for the driver; theorems keep the checksum abstract) -/

def crc32cByte (crc : Nat) (b : Nat) : Nat :=
  let x := (crc ^^^ b) % U32
  (List.range 8).foldl (fun x _ => if x % 2 = 1 then (x / 2) ^^^ 0x82F63B78 else x / 2) x

/-- `crc32.Update(crc, castagnoli, bytes)` -/
def crc32cUpdate (crc : Nat) (bytes : List Nat) : Nat :=
  let inv := fun x => (U32 - 1) - x
  inv (bytes.foldl (fun acc b =>
    let t := crc32cByte (acc % 256) b   -- table[(acc ^ b) & 0xff]
    (t ^^^ (acc / 256))) (inv crc))

/-- `crc.Checksum(prev).Update(payload).Value()` -/
def oxiaCrc : Crc := fun prev payload =>
  let c := crc32cUpdate prev payload
  ((c / 32768 + (c * 131072) % U32) % U32 + 0xa282ead8) % U32

end Oxia.Codec
