import OxiaVerif.Model.SKV

/-!
M-Db: the per-shard database state machine of `server/kv/db.go` together with the update
callbacks the leader, the followers and the replay path all use
(`server/session_manager.go`: session shadows, `server/secondary_indexes.go`: index entries),
sequence keys (`db_sequences.go`) and notification batches (`notifications_tracker.go`).

The storage engine is the ordered map `SKV.Map` (what Pebble is trusted to be for a lawful comparer,
C11).  A write batch is modelled by running the operations of one request on a working copy of the
map (an indexed batch reads its own writes) that replaces the map at commit, or is dropped when an
operation returns an infrastructure error — exactly the cases in which `ProcessWrite` returns `err`.
-/
namespace Oxia.Db
open Oxia.Key Oxia.SKV

def str (s : String) : Key := s.toUTF8.data.toList.map (·.toNat)

/-! ### formatting helpers (`fmt.Sprintf`, `url.PathEscape`) -/

def hexDigitLower (n : Nat) : Nat := if n < 10 then 48 + n else 87 + n
def hexDigitUpper (n : Nat) : Nat := if n < 10 then 48 + n else 55 + n

/-- digits of `n` in `base`, most significant first, at least `width` digits -/
def digitsPad (base width : Nat) (digit : Nat → Nat) (n : Nat) : Key :=
  let rec go : Nat → Nat → Key → Key
    | 0, _, acc => acc
    | fuel + 1, n, acc => if n = 0 then acc else go fuel (n / base) (digit (n % base) :: acc)
  let ds := go 80 n []
  List.replicate (width - ds.length) 48 ++ ds

/-- `%016x` of an int64 (Go prints a sign for negative values and pads inside the width) -/
def fmt016x (n : Int) : Key :=
  if n < 0 then 45 :: digitsPad 16 15 hexDigitLower n.natAbs else digitsPad 16 16 hexDigitLower n.toNat

/-- `w` decimal digits of `n`, most significant first (exact for `n < 10^w`) -/
def digitsFixed : Nat → Nat → Key
  | 0, _ => []
  | w + 1, n => (48 + n / 10 ^ w % 10) :: digitsFixed w n

/-- `%020d` of a uint64 (`< 2^64 < 10^20`, so twenty digits are exact) -/
def fmt020d (n : Nat) : Key := digitsFixed 20 n

/-- `%d` of an int64 -/
def fmtInt (n : Int) : Key :=
  if n < 0 then 45 :: digitsPad 10 1 (fun d => 48 + d) n.natAbs else digitsPad 10 1 (fun d => 48 + d) n.toNat

/-- `url.PathEscape`: bytes kept verbatim in a path segment -/
def pathSafe (b : Nat) : Bool :=
  (48 ≤ b && b ≤ 57) || (65 ≤ b && b ≤ 90) || (97 ≤ b && b ≤ 122) ||
  b == 45 || b == 95 || b == 46 || b == 126 ||           -- - _ . ~
  b == 36 || b == 38 || b == 43 || b == 58 || b == 61 || b == 64   -- $ & + : = @

def pathEscape (k : Key) : Key :=
  k.flatMap fun b => if pathSafe b then [b] else [37, hexDigitUpper (b / 16), hexDigitUpper (b % 16)]

def unhex (c : Nat) : Option Nat :=
  if 48 ≤ c && c ≤ 57 then some (c - 48)
  else if 97 ≤ c && c ≤ 102 then some (c - 87)
  else if 65 ≤ c && c ≤ 70 then some (c - 55)
  else none

/-- `url.PathUnescape` (`none` = error) -/
def pathUnescape : Key → Option Key
  | [] => some []
  | 37 :: a :: b :: rest =>
    match unhex a, unhex b, pathUnescape rest with
    | some x, some y, some r => some ((x * 16 + y) :: r)
    | _, _, _ => none
  | 37 :: _ => none
  | c :: rest => (pathUnescape rest).map (c :: ·)

/-! ### keys -/

def internalPrefix : Key := str "__oxia/"
def commitOffsetKey : Key := str "__oxia/commit-offset"
def lastVersionIdKey : Key := str "__oxia/last-version-id"
def termKey : Key := str "__oxia/term"
def termOptionsKey : Key := str "__oxia/term-options"

def isInternal (k : Key) : Bool := internalPrefix.isPrefixOf k

def sessionKey (s : Int) : Key := str "__oxia/session/" ++ fmt016x s
def shadowKey (s : Int) (k : Key) : Key := sessionKey s ++ [47] ++ pathEscape k
def notificationKey (o : Int) : Key := str "__oxia/notifications/" ++ fmt016x o
def idxRangePrefix (name sk : Key) : Key := str "__oxia/idx/" ++ name ++ [47] ++ sk
def idxKey (name sk pk : Key) : Key := idxRangePrefix name sk ++ [1] ++ pathEscape pk

/-! ### values -/

structure SecIdx where
  name : Key
  key : Key
  deriving DecidableEq, Repr, Inhabited

structure Entry where
  value : Key
  version : Int
  modCount : Int
  created : Nat
  modified : Nat
  session : Option Int
  clientId : Option Key
  partitionKey : Option Key
  indexes : List SecIdx
  deriving DecidableEq, Repr, Inhabited

inductive NType | created | modified | deleted | rangeDeleted
  deriving DecidableEq, Repr

structure Notif where
  key : Key
  type : NType
  version : Option Int      -- resulting version id (created / modified)
  rangeEnd : Option Key     -- range deletes
  deriving DecidableEq, Repr

structure NotifBatch where
  offset : Int
  timestamp : Nat
  notifs : List Notif       -- kept sorted by key (the Go map is compared after sorting), one per key
  deriving DecidableEq, Repr

inductive Val
  | entry (e : Entry)
  | raw (bytes : Key)            -- shadow and index entries (empty value)
  | notif (b : NotifBatch)
  deriving DecidableEq, Repr

abbrev Store := SKV.Map Val

/-- `Deserialize(value, se)`: a storage entry; an empty value unmarshals to the zero entry -/
def asEntry : Val → Option Entry
  | .entry e => some e
  | .raw [] => some { value := [], version := 0, modCount := 0, created := 0, modified := 0, session := none,
                       clientId := none, partitionKey := none, indexes := [] }
  | _ => none

/-! ### requests and responses -/

structure PutReq where
  key : Key
  value : Key
  expected : Option Int
  session : Option Int
  clientId : Option Key
  partitionKey : Option Key
  deltas : List Nat            -- uint64
  indexes : List SecIdx
  deriving DecidableEq, Repr, Inhabited

structure DelReq where
  key : Key
  expected : Option Int
  deriving DecidableEq, Repr

structure RangeReq where
  start : Key
  stop : Key
  deriving DecidableEq, Repr

structure WriteReq where
  puts : List PutReq
  dels : List DelReq
  ranges : List RangeReq
  deriving DecidableEq, Repr

inductive Status | ok | keyNotFound | unexpectedVersion | sessionDoesNotExist
  deriving DecidableEq, Repr

structure Version where
  version : Int
  modCount : Int
  created : Nat
  modified : Nat
  session : Option Int
  clientId : Option Key
  deriving DecidableEq, Repr

structure PutResp where
  status : Status
  version : Option Version
  key : Option Key             -- generated key of a sequence put
  deriving DecidableEq, Repr

structure WriteResp where
  puts : List PutResp
  dels : List Status
  ranges : List Status
  deriving DecidableEq, Repr

/-- errors of `ProcessWrite` itself (not per-operation statuses) -/
inductive InfraErr
  | missingPartitionKey | missingSequenceDeltas | sequenceDeltaIsZero | scanf | deserialize
  deriving DecidableEq, Repr

def Entry.toVersion (e : Entry) : Version :=
  { version := e.version, modCount := e.modCount, created := e.created, modified := e.modified,
    session := e.session, clientId := e.clientId }

/-! ### the database -/

structure Db where
  store : Store
  /-- `versionIdTracker` (in memory; persisted under `lastVersionIdKey` by every committed batch) -/
  tracker : Int
  notificationsEnabled : Bool
  deriving Repr

def Db.empty : Db := { store := [], tracker := -1, notificationsEnabled := true }

/-- working state of one write batch -/
structure Batch where
  store : Store
  tracker : Int
  notifs : List Notif

def getEntry (s : Store) (k : Key) : Except InfraErr (Option Entry) :=
  match SKV.get? k s with
  | none => .ok none
  | some v => match asEntry v with
    | some e => .ok (some e)
    | none => .error .deserialize

/-- result of `checkExpectedVersionId` -/
inductive Check | bad | absent | present (e : Entry)

def checkExpected (s : Store) (k : Key) (expected : Option Int) : Except InfraErr Check :=
  match getEntry s k with
  | .error e => .error e
  | .ok none => if expected.isNone || expected == some (-1) then .ok .absent else .ok .bad
  | .ok (some e) => match expected with
    | some v => if e.version ≠ v then .ok .bad else .ok (.present e)
    | none => .ok (.present e)

/-- the per-request notification map: one entry per key, last writer wins; internal keys filtered -/
def addNotif (ns : List Notif) (n : Notif) : List Notif :=
  if isInternal n.key then ns else (ns.filter (fun m => m.key ≠ n.key)) ++ [n]

/-! #### callbacks (`WrapperUpdateOperationCallback` = session callback, then index callback) -/

/-- `deleteShadow` -/
def deleteShadow (s : Store) (k : Key) (existing : Option Entry) : Store :=
  match existing with
  | some e => match e.session with
    | some sid => SKV.erase (shadowKey sid k) s
    | none => s
  | none => s

def deleteIndexes (s : Store) (pk : Key) (e : Entry) : Store :=
  e.indexes.foldl (fun s si => SKV.erase (idxKey si.name si.key pk) s) s

def writeIndexes (s : Store) (pk : Key) (idx : List SecIdx) : Store :=
  idx.foldl (fun s si => SKV.insert (idxKey si.name si.key pk) (.raw []) s) s

/-- `OnPut`: `none` = status SESSION_DOES_NOT_EXIST (nothing was modified) -/
def onPut (s : Store) (req : PutReq) (key : Key) (existing : Option Entry) : Option Store :=
  -- session callback
  let s1 : Option Store :=
    match req.session with
    | none => some (deleteShadow s key existing)
    | some sid =>
      match SKV.get? (sessionKey sid) s with
      | none => none
      | some _ => some (SKV.insert (shadowKey sid key) (.raw []) (deleteShadow s key existing))
  -- secondary-index callback
  s1.map fun s1 =>
    let s2 := match existing with | some e => deleteIndexes s1 key e | none => s1
    writeIndexes s2 key req.indexes

/-- `OnDelete` (reads the entry back from the batch) and `OnDeleteWithEntry` -/
def onDeleteEntry (s : Store) (k : Key) (e : Entry) : Store :=
  deleteIndexes (deleteShadow s k (some e)) k e

/-! #### sequence keys -/

def dash : Nat := 45

def splitDash (k : Key) : List Key :=
  let rec go : Key → Key → List Key
    | [], cur => [cur.reverse]
    | c :: cs, cur => if c = dash then cur.reverse :: go cs [] else go cs (c :: cur)
  go k []

/-- `fmt.Sscanf(part, "%020d", &uint64)`: leading decimal digits (at most 20 are consumed), at least one;
    overflow of uint64 is an error -/
def scanUint (p : Key) : Option Nat :=
  let ds := (p.take 20).takeWhile (fun c => 48 ≤ c && c ≤ 57)
  if ds.isEmpty then none
  else
    let v := ds.foldl (fun acc c => acc * 10 + (c - 48)) 0
    if v ≥ 18446744073709551616 then none else some v

def maxSeqKey (pfx : Key) : Key := pfx ++ [dash] ++ fmt020d 18446744073709551615

/-- `findCurrentLastKeyInSequence`: the suffix parts of the greatest key below `prefix-<max>` -/
def lastSequenceParts (s : Store) (req : PutReq) : Except InfraErr (List Key) :=
  let last := match SKV.lower (maxSeqKey req.key) s with
    | some (k, _) => if req.key.isPrefixOf k then k.drop req.key.length else []
    | none => []
  let parts := (splitDash last).drop 1
  if parts.length > req.deltas.length then .error .missingSequenceDeltas else .ok parts

def genKeyLoop (parts : List Key) : Nat → List Nat → Key → Except InfraErr Key
  | _, [], acc => .ok acc
  | idx, d :: ds, acc =>
    if idx = 0 ∧ d = 0 then .error .sequenceDeltaIsZero
    else
      match (if h : idx < parts.length then scanUint parts[idx] else some 0) with
      | none => .error .scanf
      | some last => genKeyLoop parts (idx + 1) ds (acc ++ [dash] ++ fmt020d ((last + d) % 18446744073709551616))

/-- result of `generateUniqueKeyFromSequences` -/
inductive GenKey | key (k : Key) | badVersion | infra (e : InfraErr)

def generateKey (s : Store) (req : PutReq) : GenKey :=
  if req.partitionKey.isNone then .infra .missingPartitionKey
  else if req.expected.isSome then .badVersion
  else match lastSequenceParts s req with
    | .error e => .infra e
    | .ok parts => match genKeyLoop parts 0 req.deltas req.key with
      | .error e => .infra e
      | .ok k => .key k

/-! #### the three operations -/

def mkEntry (existing : Option Entry) (req : PutReq) (version : Int) (ts : Nat) : Entry :=
  match existing with
  | none => { value := req.value, version := version, modCount := 0, created := ts, modified := ts,
              session := req.session, clientId := req.clientId, partitionKey := req.partitionKey,
              indexes := req.indexes }
  | some e => { e with value := req.value, version := version, modCount := e.modCount + 1, modified := ts,
                        session := req.session, clientId := req.clientId, partitionKey := req.partitionKey,
                        indexes := req.indexes }

/-- first part of `applyPut`: which key is written, over which existing record.
    `.ok none` = answer UNEXPECTED_VERSION_ID. -/
def putPre (s : Store) (req : PutReq) : Except InfraErr (Option (Key × Option Entry × Option Key)) :=
  if req.deltas.length > 0 then
    match generateKey s req with
    | .key k => .ok (some (k, none, some k))
    | .badVersion => .ok none
    | .infra e => .error e
  else match checkExpected s req.key req.expected with
    | .error e => .error e
    | .ok .bad => .ok none
    | .ok .absent => .ok (some (req.key, none, none))
    | .ok (.present e) => .ok (some (req.key, some e, none))

/-- second part of `applyPut`: callbacks, version id, the record itself, the notification -/
def putApply (b : Batch) (req : PutReq) (ts : Nat) (key : Key) (existing : Option Entry) (newKey : Option Key) :
    Batch × PutResp :=
  match onPut b.store req key existing with
  | none => (b, { status := .sessionDoesNotExist, version := none, key := none })
  | some s1 =>
    let e := mkEntry existing req (b.tracker + 1) ts
    ({ store := SKV.insert key (.entry e) s1, tracker := b.tracker + 1,
       notifs := addNotif b.notifs { key := key, type := if e.modCount > 0 then .modified else .created,
                                     version := some e.version, rangeEnd := none } },
     { status := .ok, version := some e.toVersion, key := newKey })

/-- `applyPut` for a client operation (`internal = false`) -/
def applyPut (b : Batch) (req : PutReq) (ts : Nat) : Except InfraErr (Batch × PutResp) :=
  match putPre b.store req with
  | .error e => .error e
  | .ok none => .ok (b, { status := .unexpectedVersion, version := none, key := none })
  | .ok (some (key, existing, newKey)) => .ok (putApply b req ts key existing newKey)

/-- `applyDelete` -/
def applyDelete (b : Batch) (req : DelReq) : Except InfraErr (Batch × Status) :=
  match checkExpected b.store req.key req.expected with
  | .error e => .error e
  | .ok .bad => .ok (b, .unexpectedVersion)
  | .ok .absent => .ok (b, .keyNotFound)
  | .ok (.present e) =>
    let s1 := onDeleteEntry b.store req.key e
    .ok ({ b with store := SKV.erase req.key s1,
                  notifs := addNotif b.notifs { key := req.key, type := .deleted, version := none, rangeEnd := none } }, .ok)

/-- the range a write batch scans/deletes: `LowerBound = start`, `UpperBound = end` as given
    (no "empty means unbounded" here, unlike the read API) -/
def inBatchRange (start stop k : Key) : Bool := SKV.le start k && SKV.lt k stop

def deleteThreshold : Nat := 100

/-- `applyDeleteRange` -/
def applyDeleteRange (b : Batch) (req : RangeReq) : Except InfraErr (Batch × Status) :=
  let notifs := addNotif b.notifs { key := req.start, type := .rangeDeleted, version := none, rangeEnd := some req.stop }
  let hits := b.store.filter (fun p => inBatchRange req.start req.stop p.1)
  -- callbacks for every key in range (in key order); they only touch shadow / index keys
  let cb : Except InfraErr Store := hits.foldl (fun acc p =>
    match acc with
    | .error e => .error e
    | .ok s => match asEntry p.2 with
      | none => .error .deserialize
      | some e => .ok (onDeleteEntry s p.1 e)) (.ok b.store)
  match cb with
  | .error e => .error e
  | .ok s1 =>
    let s2 :=
      if hits.length > deleteThreshold then s1.filter (fun p => !inBatchRange req.start req.stop p.1)
      else hits.foldl (fun s p => SKV.erase p.1 s) s1
    .ok ({ b with store := s2, notifs := notifs }, .ok)

def foldOps {α β : Type} (f : Batch → α → Except InfraErr (Batch × β)) :
    Batch → List α → List β → Except InfraErr (Batch × List β)
  | b, [], acc => .ok (b, acc.reverse)
  | b, x :: xs, acc => match f b x with
    | .error e => .error e
    | .ok (b', r) => foldOps f b' xs (r :: acc)

def internalEntry (value : Key) (ts : Nat) : Val :=
  .entry { value := value, version := -1, modCount := 0, created := ts, modified := ts, session := none,
           clientId := none, partitionKey := none, indexes := [] }

def sortNotifs (ns : List Notif) : List Notif := ns.mergeSort (fun a b => cmpBytes a.key b.key != .gt)

/-- `ProcessWrite`: the result, and the database afterwards. On an infrastructure error nothing is
    committed, but the in-memory version counter has already advanced. -/
def processWrite (db : Db) (req : WriteReq) (offset : Int) (ts : Nat) : Db × Except InfraErr WriteResp :=
  let b0 : Batch := { store := db.store, tracker := db.tracker, notifs := [] }
  let run : Except InfraErr (Batch × WriteResp) :=
    match foldOps (fun b r => applyPut b r ts) b0 req.puts [] with
    | .error e => .error e
    | .ok (b1, puts) =>
      match foldOps applyDelete b1 req.dels [] with
      | .error e => .error e
      | .ok (b2, dels) =>
        match foldOps applyDeleteRange b2 req.ranges [] with
        | .error e => .error e
        | .ok (b3, ranges) => .ok (b3, { puts := puts, dels := dels, ranges := ranges })
  match run with
  | .error e =>
    -- which tracker value remains in memory: the one reached when the error occurred; the model
    -- recomputes it by running the puts that precede the failing operation
    let t := (req.puts.foldl (fun (acc : Batch × Bool) r =>
      if acc.2 then acc else match applyPut acc.1 r ts with
        | .ok (b', _) => (b', false)
        | .error _ => (acc.1, true)) (b0, false)).1.tracker
    ({ db with tracker := t }, .error e)
  | .ok (b, resp) =>
    let s1 := SKV.insert commitOffsetKey (internalEntry (fmtInt offset) ts) b.store
    let s2 := SKV.insert lastVersionIdKey (internalEntry (fmtInt b.tracker) ts) s1
    let s3 := if db.notificationsEnabled
      then SKV.insert (notificationKey offset) (.notif { offset := offset, timestamp := ts, notifs := sortNotifs b.notifs }) s2
      else s2
    ({ db with store := s3, tracker := b.tracker }, .ok resp)

/-! ### reads -/

inductive Cmp | equal | floor | ceiling | lower | higher
  deriving DecidableEq, Repr

structure GetResp where
  status : Status
  key : Option Key
  value : Option Key
  version : Option Version
  deriving DecidableEq, Repr

def notFound : GetResp := { status := .keyNotFound, key := none, value := none, version := none }

/-- `applyGet` / `db.Get` -/
def get (db : Db) (k : Key) (c : Cmp) (includeValue : Bool) : Except InfraErr GetResp :=
  let hit : Option (Key × Val) := match c with
    | .equal => (SKV.get? k db.store).map (fun v => (k, v))
    | .floor => SKV.floor k db.store
    | .ceiling => SKV.ceiling k db.store
    | .lower => SKV.lower k db.store
    | .higher => SKV.higher k db.store
  match hit with
  | none => .ok notFound
  | some (rk, v) => match asEntry v with
    | none => .error .deserialize
    | some e => .ok { status := .ok, key := if c = .equal then none else some rk,
                      value := if includeValue then some e.value else none, version := some e.toVersion }

/-- `db.List` -/
def list (db : Db) (lo hi : Key) : List Key := SKV.keys (SKV.range lo hi db.store)

/-- `db.ReadCommitOffset` / `readLastVersionId` -/
def readAsciiLong (db : Db) (k : Key) : Option Key :=
  match SKV.get? k db.store with
  | some (.entry e) => some e.value
  | _ => none

/-- `ReadNextNotifications(start)`: all stored batches with offset `≥ start`, ascending -/
def readNotifications (db : Db) (start : Int) : List NotifBatch :=
  (SKV.range (notificationKey start) (notificationKey 9223372036854775807) db.store).filterMap fun p =>
    match p.2 with | .notif b => some b | _ => none

/-- `NewDB` on an existing store (restart): the version counter is read back from the store -/
def reopen (db : Db) (parse : Key → Int) : Db :=
  { db with tracker := match readAsciiLong db lastVersionIdKey with | some v => parse v | none => -1 }


/-! ### notification trimming (`server/kv/notifications_trimmer.go`) -/

/-- the stored notification batches, ascending by key -/
def notifBatches (db : Db) : List NotifBatch :=
  (SKV.range (notificationKey 0) (notificationKey 9223372036854775807) db.store).filterMap fun p =>
    match p.2 with | .notif b => some b | _ => none

def batchAt (db : Db) (o : Int) : Option NotifBatch :=
  match SKV.get? (notificationKey o) db.store with
  | some (.notif b) => some b
  | _ => none

/-- `notificationsTrimmer.binarySearch`; `none` = a batch in the middle is missing (the trimmer reports an
    error and changes nothing) -/
def trimSearch (db : Db) (cutoff : Int) : Nat → Int → Int → Option Int
  | 0, lo, _ => some lo
  | fuel + 1, lo, hi =>
    if lo < hi then
      let med := (lo + hi) / 2 + (if (lo + hi) % 2 > 0 then 1 else 0)
      match batchAt db med with
      | none => none
      | some b => if cutoff < (b.timestamp : Int) then trimSearch db cutoff fuel lo (med - 1)
                  else trimSearch db cutoff fuel med hi
    else some lo

/-- `trimNotifications` with the clock as input; `upperIsTrimPlusOne` is the fact that the deleted
    key range ends at `notificationKey(trimOffset+1)` -/
def trimNotifications (upperIsTrimPlusOne : Bool) (db : Db) (now retention : Int) : Db :=
  match (notifBatches db).head?, (notifBatches db).getLast? with
  | some f, some l =>
    let cutoff := now - retention
    if cutoff < (f.timestamp : Int) then db
    else match trimSearch db cutoff (l.offset - f.offset + 1).toNat f.offset l.offset with
      | none => db
      | some t =>
        let hi := if upperIsTrimPlusOne then notificationKey (t + 1) else notificationKey 9223372036854775807
        { db with store := db.store.filter fun p => !inBatchRange (notificationKey f.offset) hi p.1 }
  | _, _ => db

/-! ### secondary-index reads (`server/secondary_indexes.go`) -/

/-- the regular expression `^__oxia/idx/[^/]+/([^\x01]*)\x01(.+)$`: `(secondaryKey, escapedPrimaryKey)`; the
    secondary key may be empty (fact `secondaryIndexRegexAllowsEmptyKey`; fixed D-52) -/
def parseIdxKey (k : Key) : Option (Key × Key) :=
  let pfx := str "__oxia/idx/"
  if !pfx.isPrefixOf k then none
  else
    let r := k.drop pfx.length
    let name := r.takeWhile (· ≠ 47)
    let r1 := r.drop name.length
    if name.isEmpty then none
    else match r1 with
      | 47 :: r2 =>
        let sk := r2.takeWhile (· ≠ 1)
        let r3 := r2.drop sk.length
        match r3 with
          | 1 :: pk => if pk.isEmpty || pk.any (· == 10) then none else some (sk, pk)
          | _ => none
      | _ => none

/-- `secondaryIndexListIterator`: primary keys of the index entries with `lo ≤ secondaryKey-prefix < hi`;
    `none` = the iterator panics (an index key that does not parse) -/
def indexList (db : Db) (name lo hi : Key) : Option (List Key) :=
  (SKV.keys (SKV.range (idxRangePrefix name lo) (idxRangePrefix name hi) db.store)).mapM fun k =>
    match parseIdxKey k with
    | some (_, epk) => pathUnescape epk
    | none => none

inductive IdxGet
  | found (pk sk : Key)
  | notFound
  | error
  deriving DecidableEq, Repr

/-- one step of the loop of `doSecondaryGet`; `stays` = fact `secondaryGetChecksIndexName` -/
def idxGetLoop (stays endSafe : Bool) (keys : Array Key) (name key : Key) (c : Cmp) :
    Nat → Int → Key → Key → IdxGet
  | 0, _, pk, sk => if pk.isEmpty then .notFound else .found pk sk
  | fuel + 1, i, pk, sk =>
    if i < 0 ∨ i ≥ keys.size then
      -- the iterator ran off the key space: with `endSafe` the function returns "not found",
      -- without it the named results of the last iteration
      (if endSafe ∨ pk.isEmpty then .notFound else .found pk sk)
    else
      let itKey := keys[i.toNat]!
      let idxPfx := idxRangePrefix name []
      if stays && !idxPfx.isPrefixOf itKey then
        if (c = .floor ∨ c = .lower) ∧ cmpSlash itKey idxPfx = .gt then idxGetLoop stays endSafe keys name key c fuel (i - 1) [] []
        else .notFound
      else
      match (match parseIdxKey itKey with
             | none => some ([], [])                      -- errFailedToParseSecondaryKey: ignored
             | some (sk', epk) => (pathUnescape epk).map (fun pk' => (pk', sk'))) with
      | none => .error
      | some (pk', sk') =>
        let cmp := cmpSlash key sk'
        match c with
        | .equal => if cmp ≠ .eq ∨ pk'.isEmpty then .notFound else .found pk' sk'
        | .floor => if pk'.isEmpty ∨ cmp = .lt then idxGetLoop stays endSafe keys name key c fuel (i - 1) pk' sk'
                    else .found pk' sk'
        | .lower => if cmp ≠ .gt then idxGetLoop stays endSafe keys name key c fuel (i - 1) pk' sk'
                    else (if pk'.isEmpty then .notFound else .found pk' sk')
        | .ceiling => if pk'.isEmpty then .notFound else .found pk' sk'
        | .higher => if cmp ≠ .lt then idxGetLoop stays endSafe keys name key c fuel (i + 1) pk' sk'
                     else (if pk'.isEmpty then .notFound else .found pk' sk')

/-- `doSecondaryGet` -/
def indexGetKeys (stays endSafe : Bool) (db : Db) (name key : Key) (c : Cmp) : IdxGet :=
  let keys := (SKV.keys db.store).toArray
  let search := idxRangePrefix name key
  let below : Int := ((SKV.keys db.store).filter (fun k => SKV.lt k search)).length
  -- SeekLT for LOWER, SeekGE otherwise (FLOOR falls back to SeekLT when nothing is >= the search key)
  let start : Int :=
    if c = .lower then below - 1
    else if endSafe ∧ c = .floor ∧ below ≥ keys.size then below - 1
    else below
  idxGetLoop stays endSafe keys name key c (keys.size + 2) start [] []

end Oxia.Db
