/- hex <-> key helpers for the line protocol (core only) -/
namespace Oxia.Hex

def hexDigit (n : Nat) : Char :=
  if n < 10 then Char.ofNat (48 + n) else Char.ofNat (87 + n)

def encode (k : List Nat) : String :=
  if k.isEmpty then "-" else
  String.ofList (k.flatMap fun b => [hexDigit (b / 16), hexDigit (b % 16)])

def digitVal (c : Char) : Option Nat :=
  if '0' ≤ c ∧ c ≤ '9' then some (c.toNat - 48)
  else if 'a' ≤ c ∧ c ≤ 'f' then some (c.toNat - 87)
  else none

def decodeChars : List Char → Option (List Nat)
  | [] => some []
  | [_] => none
  | a :: b :: rest => do
    let x ← digitVal a
    let y ← digitVal b
    let r ← decodeChars rest
    pure ((x * 16 + y) :: r)

def decode (s : String) : Option (List Nat) :=
  if s == "-" then some [] else decodeChars s.toList

end Oxia.Hex
