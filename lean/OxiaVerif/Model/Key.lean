/-
M-Key: the hierarchical ("slash") key order of oxia and the pieces of the Pebble comparer
that `server/kv/kv_pebble.go` wires into `OxiaSlashSpanComparer`.

Bytes are modelled as `Nat` (a key is a `List Nat`); the Go code works on `[]byte`, i.e. on
lists whose elements are `< 256`.  Every law below is proved for arbitrary `Nat` alphabets, hence
for bytes.  Core Lean only (this file is linked into the driver executable).
-/
namespace Oxia.Key

abbrev Key := List Nat

def slash : Nat := 47

/-- `bytes.Compare`. -/
def cmpBytes : Key → Key → Ordering
  | [], [] => .eq
  | [], _ :: _ => .lt
  | _ :: _, [] => .gt
  | a :: as, b :: bs => if a < b then .lt else if b < a then .gt else cmpBytes as bs

/-- `bytes.IndexByte(k, '/')` as a split: `none` when there is no slash (idx < 0), otherwise
    `(k[:idx], k[idx+1:])`. -/
def splitSlash : Key → Option (Key × Key)
  | [] => none
  | c :: cs =>
    if c = slash then some ([], cs)
    else match splitSlash cs with
      | none => none
      | some (s, r) => some (c :: s, r)

theorem splitSlash_length {k s r : Key} (h : splitSlash k = some (s, r)) : r.length < k.length := by
  induction k generalizing s r with
  | nil => simp [splitSlash] at h
  | cons c cs ih =>
    unfold splitSlash at h
    split at h
    · simp at h; obtain ⟨_, rfl⟩ := h; simp
    · split at h
      · simp at h
      · rename_i s' r' heq
        simp at h; obtain ⟨_, rfl⟩ := h
        have := ih heq; simp; omega

/-- `compare.CompareWithSlash`, in the shape of the Go loop: `fuel` bounds the number of iterations
    (each iteration strips at least one byte from both keys). -/
def cmpSlashLoop : Nat → Key → Key → Ordering
  | 0, a, b => compare a.length b.length
  | fuel + 1, a, b =>
    if a.isEmpty || b.isEmpty then
      compare a.length b.length
    else
      match splitSlash a, splitSlash b with
      | none, none => cmpBytes a b
      | none, some _ => .lt
      | some _, none => .gt
      | some (sa, ra), some (sb, rb) =>
        match cmpBytes sa sb with
        | .eq => cmpSlashLoop fuel ra rb
        | o => o

/-- `CompareWithSlash(a, b)`. -/
def cmpSlash (a b : Key) : Ordering := cmpSlashLoop (a.length + 1) a b

/-- push a byte onto the first segment -/
def consHead (c : Nat) : List Key → List Key
  | [] => [[c]]
  | s :: r => (c :: s) :: r

/-- Split on every `/`: the segments of a key (always a non-empty list). -/
def segs : Key → List Key
  | [] => [[]]
  | c :: cs => if c = slash then [] :: segs cs else consHead c (segs cs)

/-- The order on segment lists that `CompareWithSlash` computes: a last segment sorts before any
    non-last segment, otherwise segments compare bytewise. -/
def cmpSegs : List Key → List Key → Ordering
  | [], [] => .eq
  | [], _ :: _ => .lt
  | _ :: _, [] => .gt
  | [x], [y] => cmpBytes x y
  | [_], _ :: _ :: _ => .lt
  | _ :: _ :: _, [_] => .gt
  | x :: x' :: xs, y :: y' :: ys =>
    match cmpBytes x y with
    | .eq => cmpSegs (x' :: xs) (y' :: ys)
    | o => o

/-- `pebble.DefaultComparer.AbbreviatedKey`: the first 8 bytes, big endian, zero padded. -/
def abbrevN : Nat → Key → Nat
  | 0, _ => 0
  | _ + 1, [] => 0
  | n + 1, c :: cs => c * 256 ^ n + abbrevN n cs

def abbrevBytewise (k : Key) : Nat := abbrevN 8 k

def maxUint64 : Nat := 18446744073709551615

/-- `compare.AbbreviatedKeyDisableSlash`. -/
def abbrevKey (k : Key) : Nat :=
  match splitSlash k with
  | some _ => maxUint64
  | none => abbrevBytewise k

/-- `base.SharedPrefixLen`. -/
def sharedPrefixLen : Key → Key → Nat
  | a :: as, b :: bs => if a = b then sharedPrefixLen as bs + 1 else 0
  | _, _ => 0

/-- tail loop of pebble's bytewise `Separator`/`Successor`: first byte `≠ 0xff` from position `i`
    is incremented and the key cut after it; if there is none the key is returned unchanged. -/
def bumpFrom (a : Key) (i : Nat) : Key :=
  match (List.range (a.length - i)).map (· + i) |>.find? (fun j => a.getD j 0 != 255) with
  | some j => a.take j ++ [a.getD j 0 + 1]
  | none => a

/-- `pebble.DefaultComparer.Separator(nil, a, b)` (pebble v1.1.2, internal/base/comparer.go). -/
def bytewiseSeparator (a b : Key) : Key :=
  let i := sharedPrefixLen a b
  if i ≥ min a.length b.length then a
  else if a.getD i 0 ≥ b.getD i 0 then a
  else if i < b.length - 1 || a.getD i 0 + 1 < b.getD i 0 then a.take i ++ [a.getD i 0 + 1]
  else bumpFrom a (i + 1)

/-- `pebble.DefaultComparer.Successor(nil, a)`. -/
def bytewiseSuccessor (a : Key) : Key := bumpFrom a 0

/-- An order-agnostic separator/successor: return the key itself. -/
def idSeparator (a _b : Key) : Key := a
def idSuccessor (a : Key) : Key := a

/-- The acceptance test pebble applies to a separator/successor candidate `s` for the key `a`
    (`InternalKey.Separator` / `InternalKey.Successor` in internal/base/internal.go): only a candidate
    that is not longer than `a` and strictly after it in the comparer's order replaces `a`. -/
def pebbleAccepts (cmp : Key → Key → Ordering) (a s : Key) : Bool :=
  s.length ≤ a.length && cmp a s == .lt

/-- What pebble stores as index separator between a block ending with `a` and one starting with `b`. -/
def effectiveSeparator (cmp : Key → Key → Ordering) (sep : Key → Key → Key) (a b : Key) : Key :=
  let s := sep a b
  if pebbleAccepts cmp a s then s else a

def effectiveSuccessor (cmp : Key → Key → Ordering) (succ : Key → Key) (a : Key) : Key :=
  let s := succ a
  if pebbleAccepts cmp a s then s else a

end Oxia.Key
