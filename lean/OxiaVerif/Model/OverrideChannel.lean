/-!
M-OverrideChannel: `common/channel/override_channel.go` — a channel of capacity one that only keeps
the latest value.  `WriteLast` is a loop of two non-blocking `select`s; a receiver may run between any
two of them, so the writer is modelled as a small program counter machine and the receiver as an
action that can be interleaved anywhere.
-/
namespace Oxia.OverrideChannel

inductive Pc | idle | trySend | tryDrain
  deriving DecidableEq, Repr

structure St where
  buf : Option Nat          -- the one-slot channel buffer
  pc : Pc
  value : Nat               -- value of the `WriteLast` call in progress
  delivered : List Nat      -- what the receiver has taken, oldest first
  written : List Nat        -- values of completed `WriteLast` calls, oldest first
  deriving Repr

def init : St := { buf := none, pc := .idle, value := 0, delivered := [], written := [] }

inductive Act
  | call (v : Nat)      -- `WriteLast(v)` is invoked (the mutex serialises writers)
  | writerStep          -- the writer executes its next `select`
  | recv                -- the receiver takes the buffered value, if any
  deriving DecidableEq, Repr

/-- `innerDefaultContinues`: the `default:` of the inner select goes round the loop again (fact read from
    the source); if it returned instead, the value of the call would be dropped. -/
def step (innerDefaultContinues : Bool) (s : St) : Act → St
  | .call v => if s.pc = .idle then { s with pc := .trySend, value := v } else s
  | .writerStep =>
    match s.pc with
    | .idle => s
    | .trySend =>
      match s.buf with
      | none => { s with buf := some s.value, pc := .idle, written := s.written ++ [s.value] }   -- case o.ch <- value: return
      | some _ => { s with pc := .tryDrain }                                                       -- default:
    | .tryDrain =>
      match s.buf with
      | some _ => { s with buf := none, pc := .trySend }                                           -- case <-o.ch: continue
      | none => if innerDefaultContinues then { s with pc := .trySend }                            -- default: continue
                else { s with pc := .idle, written := s.written ++ [s.value] }                     -- (seeded variant: return)
  | .recv =>
    match s.buf with
    | some x => { s with buf := none, delivered := s.delivered ++ [x] }
    | none => s

def run (c : Bool) (acts : List Act) : St := acts.foldl (step c) init

/-- the value the subscriber has seen last or will see next -/
def latestVisible (s : St) : Option Nat :=
  match s.buf with
  | some x => some x
  | none => s.delivered.getLast?

end Oxia.OverrideChannel
