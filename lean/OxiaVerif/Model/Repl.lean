/-!
M-Repl: the replication protocol of one shard at the level of the coordinator's RPCs and of what the
nodes hold when the network has delivered everything it can ("settled" states).

A node = the shards director's controller slot (none / leader controller / follower controller), the
durable term, the WAL (entries with term and payload id; offset = position), the status, and — on a
leader controller — the follower cursors with their acknowledged offsets and the quorum tracker's commit
offset. The RPCs (`newTerm`, `becomeLeader`, `addFollower`, `truncate`) are atomic; replication is the
function `settle`, which pushes every leader's log to the followers its cursors can reach, exactly as the
follower's `append` handles it (term check, duplicate suppression by offset, contiguous append).

Sources: `server/internal_rpc_server.go`, `server/shards_director.go`, `server/leader_controller.go`
(NewTerm, BecomeLeader, addFollower, truncateFollowerIfNeeded, write), `server/follower_controller.go`
(NewTerm, Truncate, Replicate/append), `server/follower_cursor.go`, `server/quorum_ack_tracker.go`.
Snapshots, sessions and the database contents are not part of this model (C06, C07, C14).
-/
namespace Oxia.Repl

structure Entry where
  term : Int
  id : Nat
  deriving DecidableEq, Repr

inductive Ctrl | none | leaderC | followerC
  deriving DecidableEq, Repr

inductive Status | notMember | fenced | follower | leader
  deriving DecidableEq, Repr

structure Node where
  ctrl : Ctrl := .none
  term : Int := -1
  status : Status := .notMember      -- meaningful while a controller exists
  log : List Entry := []
  cursors : List (Nat × Int) := []   -- leader controller: follower ↦ acknowledged offset
  rf : Nat := 0
  commit : Int := -1                 -- leader: the tracker's commit offset; the database's commit offset
  electionHead : Int × Int := (-1, -1) -- the leader's head when it became leader
  deriving Repr

structure World where
  nodes : List Node
  cut : List Nat := []               -- partitioned nodes
  deriving Repr

def World.init (n : Nat) : World := { nodes := List.replicate n {} }

def headOf (log : List Entry) : Int × Int :=
  match log.getLast? with
  | some e => (e.term, (log.length : Int) - 1)
  | none => (-1, -1)

def getNode (w : World) (i : Nat) : Node := w.nodes.getD i {}
def setNode (w : World) (i : Nat) (n : Node) : World := { w with nodes := w.nodes.set i n }

/-- how the code decides at the points the seeded changes and the proofs care about (regenerated facts) -/
structure Cfg where
  /-- `GetOrCreateFollower` refuses to replace a leader controller for a request of another term -/
  lateGuard : Bool
  /-- `truncateFollowerIfNeeded`: a follower on an older term is compared with the leader's last entry of
      that term (not with the leader's election head) -/
  truncCmpOk : Bool
  /-- `followerController.Truncate` is accepted in status FENCED only -/
  truncFencedOnly : Bool
  /-- the cursor starts at the head the follower has after the truncation -/
  cursorAtTruncated : Bool
  /-- `followerController.append` compares the request's term with its own in every status -/
  appendChecksTerm : Bool
  deriving Repr

def Cfg.good : Cfg := ⟨true, true, true, true, true⟩

inductive Err | invalidTerm | invalidStatus | noSuchNode | notLeader | timeout | invalidHead | outOfBounds
  deriving DecidableEq, Repr

/-- what a controller created over existing storage starts with -/
def freshStatus (term : Int) : Status := if term = -1 then .notMember else .fenced

/-- `GetOrCreateLeader`: a follower controller is closed and replaced -/
def toLeaderCtrl (n : Node) : Node :=
  match n.ctrl with
  | .leaderC => n
  | _ => { n with ctrl := .leaderC, status := freshStatus n.term, cursors := [], rf := 0 }

/-- `GetOrCreateFollower(term)`: an existing leader controller is only replaced when the request carries
    its term (`lateConversionGuard` = fact); `none` = refused -/
def toFollowerCtrl (cfg : Cfg) (n : Node) (reqTerm : Int) : Option Node :=
  match n.ctrl with
  | .followerC => some n
  | .leaderC =>
    if cfg.lateGuard && reqTerm ≥ 0 && reqTerm ≠ n.term then none
    else some { n with ctrl := .followerC, status := freshStatus n.term, cursors := [], rf := 0 }
  | .none => some { n with ctrl := .followerC, status := freshStatus n.term, cursors := [], rf := 0 }

/-- the coordinator's NewTerm RPC as routed by the internal RPC server -/
def newTerm (w : World) (i : Nat) (t : Int) : World × Except Err (Int × Int) :=
  if i ≥ w.nodes.length then (w, .error .noSuchNode) else
  let n := getNode w i
  match n.ctrl with
  | .followerC =>
    if t < n.term then (w, .error .invalidTerm)
    else (setNode w i { n with term := t, status := .fenced }, .ok (headOf n.log))
  | _ =>
    let n := toLeaderCtrl n
    if t < n.term then (setNode w i n, .error .invalidTerm)
    else if t = n.term ∧ n.status ≠ .fenced then (setNode w i n, .error .invalidStatus)
    else (setNode w i { n with term := t, status := .fenced, cursors := [], rf := 0 }, .ok (headOf n.log))

/-- scan for the last entry with a term at most `t` (`i` = offset of the first entry of the list) -/
def lastLE : List Entry → Int → Nat → Int × Int → Int × Int
  | [], _, _, acc => acc
  | e :: es, t, i, acc => lastLE es t (i + 1) (if e.term ≤ t then (e.term, (i : Int)) else acc)

/-- `getHighestEntryOfTerm`: the last entry of the leader's log whose term is **at most** `t`
    (the reverse scan stops at the first entry with `e.Term <= term`) -/
def highestOfTerm (log : List Entry) (t : Int) : Int × Int := lastLE log t 0 (-1, -1)

/-- the follower's side of the Truncate RPC -/
def truncateFollower (cfg : Cfg) (w : World) (f : Nat) (t : Int) (upTo : Int) : World × Except Err Int :=
  if f ≥ w.nodes.length then (w, .error .noSuchNode) else
  match toFollowerCtrl cfg (getNode w f) t with
  | none => (w, .error .invalidTerm)
  | some n =>
    if n.status ≠ .fenced ∧ (cfg.truncFencedOnly ∨ n.status ≠ .follower) then (setNode w f n, .error .invalidStatus)
    else if t ≠ n.term then (setNode w f n, .error .invalidTerm)
    -- `wal.TruncateLog` beyond the last offset of a non-empty log: ErrOffsetOutOfBounds (the status is
    -- already FOLLOWER at that point)
    else if upTo ≥ (n.log.length : Int) ∧ n.log ≠ [] then (setNode w f { n with status := .follower }, .error .outOfBounds)
    else
      let log' := n.log.take (upTo + 1).toNat
      (setNode w f { n with status := .follower, log := log' }, .ok ((log'.length : Int) - 1))

/-- what `truncateFollowerIfNeeded` decides from the follower's reported head `fh`, the leader's election
    head `eh` and the leader's log -/
inductive Plan
  | attach (ack : Int)        -- no truncation: the cursor starts at the follower's head
  | truncate (upTo : Int)     -- truncate the follower to this offset (the leader's last entry of the follower's head term)
  | refuse                    -- the follower's head term is ahead of the leader's
  deriving DecidableEq, Repr

def plan (cfg : Cfg) (L : List Entry) (fh eh : Int × Int) : Plan :=
  if fh.1 = eh.1 ∧ fh.2 ≤ eh.2 then .attach fh.2
  else if fh.1 > eh.1 then .refuse
  else if fh.1 = (highestOfTerm L fh.1).1 ∧ fh.2 ≤ (if cfg.truncCmpOk then (highestOfTerm L fh.1).2 else eh.2) then .attach fh.2
  else .truncate (highestOfTerm L fh.1).2

/-- `addFollower` on the leader: truncate the follower if needed, then attach a cursor -/
def addFollower (cfg : Cfg) (w : World) (l : Nat) (f : Nat) (fh : Int × Int) (eh : Int × Int) : World × Except Err Unit :=
  let ln := getNode w l
  let attach (w : World) (ack : Int) : World × Except Err Unit :=
    let ln := getNode w l
    -- NewCursorAcker: the acknowledged offset cannot be beyond the leader's head
    if ack > (ln.log.length : Int) - 1 then (w, .error .invalidHead)
    else (setNode w l { ln with cursors := ln.cursors.filter (·.1 ≠ f) ++ [(f, ack)] }, .ok ())
  match plan cfg ln.log fh eh with
  | .attach ack => attach w ack
  | .refuse => (w, .error .invalidStatus)
  | .truncate upTo =>
    if w.cut.contains f || w.cut.contains l then (w, .error .timeout)
    else match truncateFollower cfg w f ln.term upTo with
      | (w', .ok h) => attach w' (if cfg.cursorAtTruncated then h else fh.2)
      | (w', .error e) => (w', .error e)

/-- push the leader's entries beyond `ack` to a follower, as `followerController.append` takes them -/
def pushLoop (checkAlways : Bool) (leaderLog : List Entry) (t : Int) : Nat → Int → Node → Node × Int
  | 0, ack, f => (f, ack)
  | fuel + 1, ack, f =>
    let o := ack + 1
    match leaderLog[o.toNat]? with
    | none => (f, ack)
    | some e =>
      if o < 0 then (f, ack)
      else if t ≠ f.term ∧ (checkAlways ∨ f.status ≠ .follower) then (f, ack)   -- ErrInvalidTerm: the stream ends
      else
        let f := { f with status := .follower }
        if o ≤ (f.log.length : Int) - 1 then pushLoop checkAlways leaderLog t fuel o f     -- duplicate: acknowledged as is
        else if o = (f.log.length : Int) then pushLoop checkAlways leaderLog t fuel o { f with log := f.log ++ [e] }
        else (f, ack)                                                  -- the WAL refuses a gap

/-- one cursor of a leader -/
def pushCursor (cfg : Cfg) (w : World) (l : Nat) (c : Nat × Int) : World × (Nat × Int) :=
  let ln := getNode w l
  if w.cut.contains l || w.cut.contains c.1 || c.1 ≥ w.nodes.length then (w, c) else
  match toFollowerCtrl cfg (getNode w c.1) ln.term with
  | none => (w, c)
  | some f =>
    if f.status ≠ .fenced ∧ f.status ≠ .follower then (setNode w c.1 f, c)
    else
      let (f', ack) := pushLoop cfg.appendChecksTerm ln.log ln.term (ln.log.length + 1) c.2 f
      (setNode w c.1 f', (c.1, ack))

/-- the tracker's commit offset after the acknowledgements: the highest offset above the current one that
    `rf/2` cursors have acknowledged (offset by offset, as the acks arrive in order) -/
def quorumCommit (rf : Nat) (commit : Int) (head : Int) (cursors : List (Nat × Int)) : Int :=
  if rf / 2 = 0 then head
  else
    let cand := (List.range (head - commit).toNat).map fun (i : Nat) => commit + 1 + (i : Int)
    (cand.takeWhile fun o => decide ((cursors.filter fun c => decide (c.2 ≥ o)).length ≥ rf / 2)).getLast?.getD commit

/-- everything a leader's cursors can deliver is delivered and acknowledged -/
def settleLeader (cfg : Cfg) (w : World) (l : Nat) : World :=
  let ln := getNode w l
  if ln.ctrl ≠ .leaderC then w else
  let (w', cs) := ln.cursors.foldl (fun (acc : World × List (Nat × Int)) c =>
    let (w2, c2) := pushCursor cfg acc.1 l c
    (w2, acc.2 ++ [c2])) (w, [])
  let ln := getNode w' l
  let commit := if ln.status = .leader then quorumCommit ln.rf ln.commit ((ln.log.length : Int) - 1) cs else ln.commit
  setNode w' l { ln with cursors := cs, commit := commit }

def settle (cfg : Cfg) (w : World) : World :=
  (List.range w.nodes.length).foldl (settleLeader cfg) w

/-- the BecomeLeader RPC (followers in the order given) -/
def becomeLeader (cfg : Cfg) (w : World) (l : Nat) (t : Int) (rf : Nat) (fm : List (Nat × (Int × Int))) :
    World × Except Err Unit :=
  if l ≥ w.nodes.length then (w, .error .noSuchNode) else
  let n := toLeaderCtrl (getNode w l)
  let w := setNode w l n
  if n.status ≠ .fenced then (w, .error .invalidStatus)
  else if t ≠ n.term then (w, .error .invalidTerm)
  else
    let eh := headOf n.log
    let w := setNode w l { n with rf := rf, cursors := [], electionHead := eh }
    let rec attachAll (w : World) : List (Nat × (Int × Int)) → World × Except Err Unit
      | [] => (w, .ok ())
      | (f, fh) :: rest =>
        match addFollower cfg w l f fh eh with
        | (w', .ok ()) => attachAll w' rest
        | (w', .error e) => (w', .error e)
    match attachAll w fm with
    | (w', .error e) => (w', .error e)
    | (w', .ok ()) =>
      -- WaitForCommitOffset(election head): the whole log has to reach a quorum
      let w2 := settleLeader cfg w' l
      let ln := getNode w2 l
      let acked := (ln.cursors.filter fun c => decide (c.2 ≥ eh.2)).length
      if rf / 2 = 0 ∨ acked ≥ rf / 2 ∨ eh.2 ≤ n.commit then
        (settleLeader cfg (setNode w2 l { ln with status := .leader, commit := eh.2 }) l, .ok ())
      else (w2, .error .timeout)

/-- the AddFollower RPC -/
def addFollowerRpc (cfg : Cfg) (w : World) (l : Nat) (t : Int) (f : Nat) (fh : Int × Int) : World × Except Err Unit :=
  if l ≥ w.nodes.length then (w, .error .noSuchNode) else
  let ln := getNode w l
  if ln.ctrl ≠ .leaderC then (w, .error .notLeader)
  else if t ≠ ln.term then (w, .error .invalidTerm)
  else if ln.status ≠ .leader then (w, .error .invalidStatus)
  else if ln.cursors.any (·.1 = f) then (w, .ok ())
  else if ln.cursors.length + 1 = ln.rf then (w, .error .invalidStatus)
  else
    match addFollower cfg w l f fh ln.electionHead with
    | (w', .ok ()) => (settleLeader cfg w' l, .ok ())
    | r => r

/-- a client write on node `l`; `.error .timeout` = appended but not committed (no quorum reachable) -/
def write (cfg : Cfg) (w : World) (l : Nat) (id : Nat) : World × Except Err Int :=
  if l ≥ w.nodes.length then (w, .error .noSuchNode) else
  let ln := getNode w l
  if ln.ctrl ≠ .leaderC ∨ ln.status ≠ .leader then (w, .error .notLeader)
  else
    let o : Int := ln.log.length
    let w1 := settleLeader cfg (setNode w l { ln with log := ln.log ++ [{ term := ln.term, id := id }] }) l
    if (getNode w1 l).commit ≥ o then (w1, .ok o) else (w1, .error .timeout)

/-! ### the coordinator's election decision (`newTermQuorum`, `selectNewLeader`) -/

def better (a b : Int × Int) : Bool := decide (a.1 > b.1 ∨ (a.1 = b.1 ∧ a.2 > b.2))

/-- the responder with the highest head entry (term first, then offset); ties go to `want` if it is among
    the best, else to the first best one -/
def chooseLeader (want : Nat) (cands : List (Nat × (Int × Int))) : Option (Nat × (Int × Int)) :=
  match cands with
  | [] => none
  | c :: cs =>
    let first := match cands.find? (·.1 = want) with | some x => x | none => c
    some ((c :: cs).foldl (fun acc x => if better x.2 acc.2 then x else acc) first)

/-- `electLeader` of the shard controller, on settled states: new term to every node of the ensemble and
    to the nodes being removed; a majority of all of them has to answer; the leader is chosen among the
    answering members of the (new) ensemble; the other answering members become its followers.
    `majorityOverAll` = fact: the majority is counted over ensemble + removed nodes. -/
def elect (cfg : Cfg) (majorityOverAll : Bool) (w : World) (want : Nat) (t : Int) (members removed : List Nat) :
    World × Except Err Nat :=
  let all := members ++ removed.filter (fun r => !members.contains r)
  let (w1, answers) := all.foldl (fun (acc : World × List (Nat × (Int × Int))) i =>
    if acc.1.cut.contains i then acc else
    match newTerm acc.1 i t with
    | (w', .ok h) => (w', acc.2 ++ [(i, h)])
    | (w', .error _) => (w', acc.2)) (w, [])
  let needed := (if majorityOverAll then all.length else members.length) / 2 + 1
  if answers.length < needed then (w1, .error .timeout) else
  let cands := answers.filter fun a => members.contains a.1
  match chooseLeader want cands with
  | none => (w1, .error .timeout)
  | some best =>
    match becomeLeader cfg w1 best.1 t members.length (cands.filter (·.1 ≠ best.1)) with
    | (w2, .ok ()) => (w2, .ok best.1)
    | (w2, .error e) => (w2, .error e)

/-- a client write that has passed the leader's status check races with a NewTerm request for the same
    node. `locked` = fact: NewTerm waits for the append. Returns the head the node reports. -/
def raceWriteNewTerm (cfg : Cfg) (locked : Bool) (w : World) (l : Nat) (id : Nat) (t : Int) : World × Except Err (Int × Int) :=
  let ln := getNode w l
  if ln.ctrl ≠ .leaderC ∨ ln.status ≠ .leader then newTerm w l t
  else if locked then
    -- the append happens first; the head reported includes it
    newTerm (write cfg w l id).1 l t
  else
    -- the head is read first; the entry of the old term is appended afterwards
    match newTerm w l t with
    | (w', .ok h) =>
      let n := getNode w' l
      (setNode w' l { n with log := n.log ++ [{ term := ln.term, id := id }] }, .ok h)
    | r => r

/-- an entry of the leader `l` has been appended by the follower `f`, whose sync goroutine has not yet run,
    when a NewTerm request for `f` is served. `synced` = fact: NewTerm syncs the WAL before it reads the head.
    The acknowledgement of that entry does not reach the leader (the stream is closed by the new term).
    Returns the head the follower reports; "norace" (`none`) when the follower does not take the entry. -/
def raceAppendNewTerm (cfg : Cfg) (synced : Bool) (w : World) (l f : Nat) (id : Nat) (t : Int) :
    World × Option (Except Err (Int × Int)) :=
  let ln0 := getNode w l
  if ln0.ctrl ≠ .leaderC ∨ ln0.status ≠ .leader ∨ (getNode w f).ctrl ≠ .followerC then (w, none) else
  let w1 := (write cfg w l id).1
  let ln := getNode w1 l
  let fn := getNode w1 f
  let e : Entry := { term := ln.term, id := id }
  if fn.log.getLast? ≠ some e ∨ fn.term ≠ ln.term then
    -- the follower did not take it (cut off, or of another term): no race, the write stays
    (w1, none)
  else
    let cs := ln.cursors.map fun c => if c.1 = f then (c.1, c.2 - 1) else c
    let cm := quorumCommit ln0.rf ln0.commit ((ln.log.length : Int) - 1) cs
    let w2 := setNode w1 l { ln with cursors := cs, commit := cm }
    if synced then
      let r := newTerm w2 f t
      (r.1, some r.2)
    else
      match newTerm (setNode w2 f { fn with log := fn.log.dropLast }) f t with
      | (w', .ok h) =>
        let n := getNode w' f
        (setNode w' f { n with log := n.log ++ [e] }, some (.ok h))
      | (_, .error err) => (w2, some (.error err))

/-- an entry of the leader `l` has been appended by the follower `f`, whose sync goroutine has not yet run, when
    the stream between them breaks; the leader's cursor reconnects and delivers the entry again.
    `ackOnlySynced` = fact: the follower acknowledges a re-delivered entry at once only when it is among its synced
    entries (otherwise the sync goroutine acknowledges it after the sync). `some false` = the leader gets an
    acknowledgement for an entry the follower has not synced; `none` = the follower does not take the entry. -/
def raceAppendRedeliver (cfg : Cfg) (ackOnlySynced : Bool) (w : World) (l f : Nat) (id : Nat) : World × Option Bool :=
  let ln0 := getNode w l
  if ln0.ctrl ≠ .leaderC ∨ ln0.status ≠ .leader ∨ (getNode w f).ctrl ≠ .followerC then (w, none) else
  let w1 := (write cfg w l id).1
  let ln := getNode w1 l
  let fn := getNode w1 f
  let e : Entry := { term := ln.term, id := id }
  if fn.log.getLast? ≠ some e ∨ fn.term ≠ ln.term then (w1, none)
  else (w1, some ackOnlySynced)

/-- a process restart: the controllers are gone, the storage stays -/
def restart (w : World) (i : Nat) : World :=
  let n := getNode w i
  setNode w i { n with ctrl := .none, status := .notMember, cursors := [], rf := 0 }

end Oxia.Repl
