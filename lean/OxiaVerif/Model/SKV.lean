import OxiaVerif.Model.Key
/-!
M-SKV: the storage engine seen as an ordered map — an association list kept strictly ascending in
the slash order.  This is what Pebble is trusted to implement for a lawful comparer (C11); all
database models (M-Db) are built on it.  The read operations are written directly as the
"sorted reference" (filter / first / last over the ascending list).
-/
namespace Oxia.SKV
open Oxia.Key

abbrev Map (V : Type) := List (Key × V)

variable {V : Type}

def insert (k : Key) (v : V) : Map V → Map V
  | [] => [(k, v)]
  | (k', v') :: m =>
    match cmpSlash k k' with
    | .lt => (k, v) :: (k', v') :: m
    | .eq => (k, v) :: m
    | .gt => (k', v') :: insert k v m

def erase (k : Key) : Map V → Map V
  | [] => []
  | (k', v') :: m =>
    match cmpSlash k k' with
    | .lt => (k', v') :: m
    | .eq => m
    | .gt => (k', v') :: erase k m

def get? (k : Key) : Map V → Option V
  | [] => none
  | (k', v') :: m =>
    match cmpSlash k k' with
    | .lt => none
    | .eq => some v'
    | .gt => get? k m

def le (a b : Key) : Bool := cmpSlash a b != .gt
def lt (a b : Key) : Bool := cmpSlash a b == .lt

/-- smallest entry with key ≥ k -/
def ceiling (k : Key) (m : Map V) : Option (Key × V) := m.find? (fun p => le k p.1)
/-- smallest entry with key > k -/
def higher (k : Key) (m : Map V) : Option (Key × V) := m.find? (fun p => lt k p.1)
/-- greatest entry with key ≤ k -/
def floor (k : Key) (m : Map V) : Option (Key × V) := (m.filter (fun p => le p.1 k)).getLast?
/-- greatest entry with key < k -/
def lower (k : Key) (m : Map V) : Option (Key × V) := (m.filter (fun p => lt p.1 k)).getLast?

/-- entries with `lo ≤ key < hi`; an empty bound means unbounded on that side
    (the convention of `KeyRangeScan`/`RangeScan`/`DeleteRange` in `kv_pebble.go`). -/
def inRange (lo hi : Key) (k : Key) : Bool :=
  (lo.isEmpty || le lo k) && (hi.isEmpty || lt k hi)

def range (lo hi : Key) (m : Map V) : Map V := m.filter (fun p => inRange lo hi p.1)
def eraseRange (lo hi : Key) (m : Map V) : Map V := m.filter (fun p => !inRange lo hi p.1)

/-- merge of two ascending maps; on equal keys the left one wins -/
def merge : Map V → Map V → Map V
  | [], m => m
  | l, [] => l
  | (k, v) :: l, (k', v') :: m =>
    match cmpSlash k k' with
    | .lt => (k, v) :: merge l ((k', v') :: m)
    | .eq => (k, v) :: merge l m
    | .gt => (k', v') :: merge ((k, v) :: l) m
termination_by l m => l.length + m.length

def ofList (l : List (Key × V)) : Map V := l.foldl (fun m p => insert p.1 p.2 m) []

def keys (m : Map V) : List Key := m.map (·.1)

end Oxia.SKV
