/-!
M-Select: ensemble selection (`coordinator/selectors/ensemble/selector.go`), the single-server selector
chain (`coordinator/selectors/single/*`: anti-affinity → lowest load → final) and the node swap of the
balancer / shard controller (`balancer/scheduler.go: swapShard`, `shard_controller.go: replaceInList`).

The load-ratio order, the `ServerIdx` modulo tie-break and randomness are abstracted into an
arbitrary choice function `pick` that returns *some* member of the filtered candidate set, so floats,
map iteration order and randomness are quantified away.
-/
namespace Oxia.Select

abbrev Server := Nat
abbrev Label := Nat

structure Rule where
  labels : List Label
  strict : Bool
  deriving DecidableEq, Repr

structure Ctx where
  servers : List Server                       -- candidates (ids), as a set
  labelsOf : Server → List (Label × Nat)       -- server metadata: label ↦ value (none for servers without metadata)
  rules : List Rule                           -- anti-affinity rules of the namespace policy
  replicas : Nat

def valueOf (ctx : Ctx) (s : Server) (l : Label) : Option Nat := ((ctx.labelsOf s).find? (·.1 = l)).map (·.2)

/-- values of `label` among the already selected servers -/
def selectedValues (ctx : Ctx) (selected : List Server) (l : Label) : List Nat :=
  selected.filterMap (valueOf ctx · l)

/-- the candidates (of the grouping taken from `cands0`) whose value of `l` is not taken yet;
    servers without that label are in no group -/
def satisfied (ctx : Ctx) (cands0 selected : List Server) (l : Label) : List Server :=
  cands0.filter fun s =>
    match valueOf ctx s l with
    | some v => !(selectedValues ctx selected l).contains v
    | none => false

inductive Err | unsatisfiedAntiAffinity | unsupportedMode | unsatisfiedReplicas
  deriving DecidableEq, Repr

inductive AA
  | noFunctioning
  | error (e : Err)
  | one (s : Server)
  | multiple (cs : List Server)
  deriving DecidableEq, Repr

def inter (a b : List Server) : List Server := a.filter (b.contains ·)
def union (a b : List Server) : List Server := a ++ b.filter (fun x => !a.contains x)

/-- a label of the first rule (`affinityIdx == 0`): `firstUnion` = fact: its satisfied set is *added* to
    the running set (`candidates.Add`) -/
def aaStep0 (firstUnion : Bool) (ctx : Ctx) (cands0 selected cs : List Server) (l : Label) (strict : Bool) :
    Except Err (List Server) :=
  if (satisfied ctx cands0 selected l).isEmpty then
    .error (if strict then .unsatisfiedAntiAffinity else .unsupportedMode)
  else if firstUnion then .ok (union cs (satisfied ctx cands0 selected l))
  else .ok (if cs.isEmpty then satisfied ctx cands0 selected l else inter (satisfied ctx cands0 selected l) cs)

/-- a label of a later rule: intersected with the running set -/
def aaStepN (ctx : Ctx) (cands0 selected cs : List Server) (l : Label) (strict : Bool) : Except Err (List Server) :=
  if (inter (satisfied ctx cands0 selected l) cs).isEmpty then
    .error (if strict then .unsatisfiedAntiAffinity else .unsupportedMode)
  else .ok (inter (satisfied ctx cands0 selected l) cs)

/-- one `(rule index, label)` step of the loop in `serverAntiAffinitiesSelector.Select` -/
def aaStep (firstUnion : Bool) (ctx : Ctx) (cands0 selected : List Server) (acc : Except Err (List Server))
    (x : Nat × Label × Bool) : Except Err (List Server) :=
  match acc with
  | .error e => .error e
  | .ok cs => if x.1 = 0 then aaStep0 firstUnion ctx cands0 selected cs x.2.1 x.2.2
              else aaStepN ctx cands0 selected cs x.2.1 x.2.2

def ruleSteps (rules : List Rule) : List (Nat × Label × Bool) :=
  (rules.zipIdx).flatMap fun (r, i) => r.labels.map fun l => (i, l, r.strict)

/-- `serverAntiAffinitiesSelector.Select` -/
def antiAffinity (firstUnion : Bool) (ctx : Ctx) (cands0 selected : List Server) : AA :=
  if ctx.rules.isEmpty then .noFunctioning
  else match (ruleSteps ctx.rules).foldl (aaStep firstUnion ctx cands0 selected) (.ok []) with
    | .error e => .error e
    | .ok cs => match cs with
      | [c] => .one c
      | _ => .multiple cs

inductive Sel
  | ok (s : Server) (cands : List Server)     -- the chosen server and the candidate set left in the context
  | error (e : Err)
  | panic
  deriving DecidableEq, Repr

/-- the whole chain; `pick` stands for lowest-load / `ServerIdx` modulo / random -/
def selectOne (firstUnion refuses : Bool) (ctx : Ctx) (pick : List Server → Server) (cands0 cands selected : List Server) : Sel :=
  -- no candidate left: `refuses` = fact: the chain returns an error (it used to panic: defect D-31)
  let none : Sel := if refuses then .error .unsatisfiedReplicas else .panic
  match antiAffinity firstUnion ctx cands0 selected with
  | .error e => .error e
  | .one c => .ok c cands
  | .multiple cs => if cs.isEmpty then none else .ok (pick cs) cs
  | .noFunctioning => if cands.isEmpty then none else .ok (pick cands) cands

inductive Ens
  | ok (e : List Server)
  | error (e : Err)
  | panic
  deriving DecidableEq, Repr

def selectLoop (firstUnion refuses : Bool) (ctx : Ctx) (pick : List Server → Server) (cands0 : List Server) :
    Nat → List Server → List Server → Ens
  | 0, _, selected => .ok selected
  | n + 1, cands, selected =>
    match selectOne firstUnion refuses ctx pick cands0 cands selected with
    | .error e => .error e
    | .panic => .panic
    | .ok s cands' =>
      -- selected.Add(s); SetSelected: Candidates := Candidates \ selected
      let selected' := if selected.contains s then selected else selected ++ [s]
      selectLoop firstUnion refuses ctx pick cands0 n (cands'.filter (fun x => !selected'.contains x)) selected'

/-- `ensemble.Select` -/
def selectEnsemble (firstUnion refuses : Bool) (ctx : Ctx) (pick : List Server → Server) : Ens :=
  match selectLoop firstUnion refuses ctx pick ctx.servers ctx.replicas ctx.servers [] with
  | .ok e => if e.length ≠ ctx.replicas then .error .unsatisfiedReplicas else .ok e
  | r => r

/-- `swapShard`: the ensemble without `from` is "selected"; the target comes from the same chain -/
def swapTarget (firstUnion refuses : Bool) (ctx : Ctx) (pick : List Server → Server) (ensemble : List Server) (from_ : Server) : Sel :=
  let selected := ensemble.filter (· ≠ from_)
  let cands := ctx.servers.filter (fun x => !selected.contains x)
  selectOne firstUnion refuses ctx pick cands cands selected

/-- `replaceInList` -/
def replaceInList (l : List Server) (old new : Server) : List Server := l.filter (· ≠ old) ++ [new]

end Oxia.Select
