import OxiaVerif.Model.Key

/-!
M-Session: ephemeral records and sessions (`server/session_manager.go`, `server/session.go`, the session
part of `kv/db.go`), abstracted to what C14 talks about:

* `recs`     — the user records with their owner (`none` = plain record, `some s` = ephemeral of session s),
* `sessions` — the session records `__oxia/session/<id>` with their timeout,
* `shadows`  — the shadow keys `__oxia/session/<id>/<key>`,
* `timers`   — the timers the current leader runs (session ↦ deadline), `now` — its clock.

Maps are association lists without duplicate keys (insert = remove + cons). Versions, values, secondary
indexes and notifications are covered by M-Db (C12/C13/C15); this model is tied to the code by running
the same scripts on a real leader controller and projecting its database onto these four components.
-/
namespace Oxia.Session
open Oxia.Key

abbrev SId := Int

structure SS where
  recs : List (Key × Option SId)
  sessions : List (SId × Nat)
  shadows : List (SId × Key)
  timers : List (SId × Nat)
  now : Nat
  next : Int                      -- next log offset (a session's id is the offset of its creation)
  deriving Repr, DecidableEq

def SS.init : SS := { recs := [], sessions := [], shadows := [], timers := [], now := 0, next := 0 }

def ownerL (recs : List (Key × Option SId)) (k : Key) : Option (Option SId) := (recs.find? (·.1 = k)).map (·.2)
def owner (s : SS) (k : Key) : Option (Option SId) := ownerL s.recs k
def alive (s : SS) (sid : SId) : Bool := s.sessions.any (·.1 = sid)
def hasShadow (s : SS) (sid : SId) (k : Key) : Bool := s.shadows.contains (sid, k)

def setRec (recs : List (Key × Option SId)) (k : Key) (o : Option SId) : List (Key × Option SId) :=
  (k, o) :: recs.filter (·.1 ≠ k)
def delRec (recs : List (Key × Option SId)) (k : Key) : List (Key × Option SId) := recs.filter (·.1 ≠ k)

/-- `deleteShadow(batch, key, existingEntry)` -/
def dropShadow (sh : List (SId × Key)) (k : Key) (existing : Option (Option SId)) : List (SId × Key) :=
  match existing with
  | some (some old) => sh.filter (· ≠ (old, k))
  | _ => sh

inductive Status | ok | keyNotFound | sessionDoesNotExist
  deriving DecidableEq, Repr

/-- a put of `k`, plain (`sid = none`) or within a session; `shadowFirst` = the (seeded) variant that
    writes the new shadow before deleting the old one -/
def put (shadowFirst : Bool) (s : SS) (k : Key) (sid : Option SId) : SS × Status :=
  let s' := { s with next := s.next + 1 }
  match sid with
  | none =>
    ({ s' with recs := setRec s.recs k none, shadows := dropShadow s.shadows k (owner s k) }, .ok)
  | some id =>
    if alive s id then
      let sh := if shadowFirst then dropShadow ((id, k) :: s.shadows.filter (· ≠ (id, k))) k (owner s k)
                else (id, k) :: (dropShadow s.shadows k (owner s k)).filter (· ≠ (id, k))
      ({ s' with recs := setRec s.recs k (some id), shadows := sh }, .ok)
    else (s', .sessionDoesNotExist)

/-- one delete operation inside a write batch -/
def delCore (s : SS) (k : Key) : SS × Status :=
  match owner s k with
  | none => (s, .keyNotFound)
  | some o => ({ s with recs := delRec s.recs k, shadows := dropShadow s.shadows k (some o) }, .ok)

def delete (s : SS) (k : Key) : SS × Status :=
  ({ (delCore s k).1 with next := s.next + 1 }, (delCore s k).2)

def inRange (lo hi k : Key) : Bool := cmpSlash lo k ≠ .gt && cmpSlash k hi = .lt

/-- a range delete over user keys: every record in range goes, with its shadow -/
def deleteRange (s : SS) (lo hi : Key) : SS :=
  { s with next := s.next + 1,
           recs := s.recs.filter (fun r => !inRange lo hi r.1),
           shadows := s.shadows.filter (fun sh => !(inRange lo hi sh.2 && owner s sh.2 == some (some sh.1))) }

/-- `CreateSession`: the session record is written at the next offset, which becomes the id; the leader
    arms a timer -/
def createSession (s : SS) (timeout : Nat) : SS × SId :=
  ({ s with next := s.next + 1, sessions := (s.next, timeout) :: s.sessions,
            timers := (s.next, s.now + timeout) :: s.timers }, s.next)

/-- `session.delete`, first half: list the shadow keys of the session -/
def listOwned (s : SS) (sid : SId) : List Key := (s.shadows.filter (·.1 = sid)).map (·.2)

/-- `session.delete`, second half: one write that deletes the listed keys (unconditionally), the session
    record and the whole shadow range of the session -/
def cleanupWrite (s : SS) (sid : SId) (keys : List Key) : SS :=
  let afterDeletes : SS := keys.foldl (fun acc k => (delCore acc k).1) s
  { afterDeletes with next := s.next + 1,
                      sessions := afterDeletes.sessions.filter (·.1 ≠ sid),
                      shadows := afterDeletes.shadows.filter (·.1 ≠ sid) }

/-- close / expiry without anything interleaved between the listing and the write -/
def endSession (s : SS) (sid : SId) : SS :=
  let s1 := cleanupWrite s sid (listOwned s sid)
  { s1 with timers := s1.timers.filter (·.1 ≠ sid) }

def keepAlive (s : SS) (sid : SId) : SS × Bool :=
  match s.timers.find? (·.1 = sid) with
  | none => (s, false)
  | some _ =>
    let timeout := ((s.sessions.find? (·.1 = sid)).map (·.2)).getD 0
    ({ s with timers := (sid, s.now + timeout) :: s.timers.filter (·.1 ≠ sid) }, true)

/-- the sessions whose timer has fired at the current time, in id order -/
def expired (s : SS) : List SId := ((s.timers.filter (·.2 ≤ s.now)).map (·.1)).mergeSort (· ≤ ·)

/-- time passes; every fired timer ends its session -/
def advance (s : SS) (dt : Nat) : SS :=
  let s1 := { s with now := s.now + dt }
  (expired s1).foldl endSession s1

/-- a leader change: the new leader arms a fresh timer for every session in the database -/
def leaderChange (s : SS) : SS :=
  { s with timers := s.sessions.map fun p => (p.1, s.now + p.2) }

end Oxia.Session
