/-!
M-Shard: hash-range partitioning (`common/sharding/shards.go`), the coordinator's cluster status
under configuration changes (`coordinator/utils/cluster_updates.go`), the published assignments
(`coordinator.computeNewAssignments`) and the client's routing table
(`oxia/internal/shard_manager.go`, `shard_strategy_impl.go`).

`uint32` arithmetic of `GenerateShards` is explicit (`% 2^32`); the hash function is a parameter.
-/
namespace Oxia.Shard

def U32 : Nat := 4294967296
def MaxU32 : Nat := 4294967295

structure Shard where
  id : Int
  min : Nat
  max : Nat
  deriving DecidableEq, Repr, Inhabited

/-- `GenerateShards(baseId, numShards)`; `none` = division by zero (numShards = 0) -/
def generateShards (base : Int) (n : Nat) : Option (List Shard) :=
  if n = 0 then none
  else
    let bucket := (MaxU32 / n + 1) % U32
    some ((List.range n).map fun i =>
      let lower := (i * bucket) % U32
      let upper := if i = n - 1 then MaxU32 else (lower + bucket - 1) % U32
      { id := base + i, min := lower, max := upper })

/-- consecutive, non-empty ranges starting at `start` and ending at `2^32 - 1` -/
def Contig : Nat → List Shard → Prop
  | s, [] => s = MaxU32 + 1
  | s, sh :: rest => sh.min = s ∧ sh.min ≤ sh.max ∧ sh.max ≤ MaxU32 ∧ Contig (sh.max + 1) rest

/-- the hash space `[0, 2^32)` is covered exactly once -/
def Partition (l : List Shard) : Prop := Contig 0 l

instance decContig : (s : Nat) → (l : List Shard) → Decidable (Contig s l)
  | s, [] => by unfold Contig; infer_instance
  | s, sh :: rest => by
    unfold Contig
    have := decContig (sh.max + 1) rest
    infer_instance

instance (l : List Shard) : Decidable (Partition l) := decContig 0 l

def contains (s : Shard) (h : Nat) : Bool := s.min ≤ h && h ≤ s.max

/-- `shardStrategyImpl.Get` + `shardManagerImpl.Get`: the shards (in the iteration order of the Go
    map, which is arbitrary) whose range contains the hash code; `Get` returns the first -/
def route (shards : List Shard) (h : Nat) : Option Int := (shards.find? (contains · h)).map (·.id)

/-! ### the client's table -/

def overlap (a b : Shard) : Bool := a.min ≤ b.max && a.max ≥ b.min

/-- one iteration of `shardManagerImpl.update` -/
def applyUpdate (m : List Shard) (u : Shard) : List Shard :=
  if m.any (·.id = u.id) then
    m.map (fun s => if s.id = u.id then u else s)
  else
    m.filter (fun s => !overlap u s) ++ [u]

def update (m : List Shard) (ups : List Shard) : List Shard := ups.foldl applyUpdate m

/-! ### the coordinator's cluster status -/

inductive ShardStatus | unknown | steadyState | election | deleting
  deriving DecidableEq, Repr

structure ShardMeta where
  id : Int
  status : ShardStatus
  ensemble : List Nat
  min : Nat
  max : Nat
  deriving DecidableEq, Repr

structure NsStatus where
  name : Nat
  shards : List ShardMeta
  rf : Nat
  deriving DecidableEq, Repr

structure ClusterStatus where
  namespaces : List NsStatus
  gen : Int                  -- ShardIdGenerator
  serverIdx : Nat
  deriving Repr

structure NsConfig where
  name : Nat
  initialShardCount : Nat
  rf : Nat
  deriving DecidableEq, Repr

structure ClusterConfig where
  namespaces : List NsConfig
  servers : Nat              -- number of servers
  deriving Repr

/-- the ensemble supplier is an arbitrary function that may fail; it may depend on what it is asked for, on the
    status under construction and on which shard of the namespace (0, 1, ...) the ensemble is for: the real supplier
    looks at the cluster as it is at that moment -/
abbrev Supplier := NsConfig → ClusterStatus → Nat → Option (List Nat)

/-- create the shards of one new namespace; a shard whose ensemble selection fails is skipped
    (`continue`) — `skipFailed` is the fact read from the source -/
def newNamespace (sup : Supplier) (cfg : ClusterConfig) (st : ClusterStatus) (nc : NsConfig) : ClusterStatus :=
  match generateShards st.gen nc.initialShardCount with
  | none => st          -- (the Go code panics on a zero shard count; outside the property's quantifier)
  | some shards =>
    let (metas, idx) := shards.foldl (fun (acc : List ShardMeta × Nat) sh =>
      match sup nc { st with serverIdx := acc.2 } (sh.id - st.gen).toNat with
      | none => acc
      | some ens =>
        (acc.1 ++ [{ id := sh.id, status := .unknown, ensemble := ens, min := sh.min, max := sh.max }],
         if cfg.servers = 0 then acc.2 else (acc.2 + nc.rf) % cfg.servers)) ([], st.serverIdx)
    { namespaces := st.namespaces ++ [{ name := nc.name, shards := metas, rf := nc.rf }],
      gen := st.gen + nc.initialShardCount, serverIdx := idx }

/-- removed namespaces: keep the shards, mark them as being deleted -/
def markDeleting (p : NsStatus → Bool) (nss : List NsStatus) : List NsStatus :=
  nss.map fun ns =>
    if p ns = true then { ns with shards := ns.shards.map fun s => { s with status := .deleting } } else ns

/-- `ApplyClusterChanges` -/
def applyClusterChanges (sup : Supplier) (cfg : ClusterConfig) (st : ClusterStatus) : ClusterStatus :=
  -- new namespaces (those absent from the *current* status)
  let st1 := cfg.namespaces.foldl (fun acc nc =>
    if st.namespaces.any (·.name = nc.name) then acc else newNamespace sup cfg acc nc) st
  let removed : NsStatus → Bool := fun ns =>
    st.namespaces.any (·.name = ns.name) && !cfg.namespaces.any (·.name = ns.name)
  { st1 with namespaces := markDeleting removed st1.namespaces }

/-- `computeNewAssignments`: what is published for a namespace (shards not being deleted) -/
def published (ns : NsStatus) : List Shard :=
  (ns.shards.filter (·.status ≠ .deleting)).map fun s => { id := s.id, min := s.min, max := s.max }

end Oxia.Shard
