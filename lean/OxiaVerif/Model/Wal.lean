/-!
M-SegWal: the segmented write-ahead log of `server/wal` as an executable model, and M-ListWal, the
"simple list model" of property C09.

Offsets are `Int` (`-1` = `InvalidOffset`).  A record occupies `headerSize + size` bytes of a
segment of `segmentSize` bytes; the codec and the file system are abstracted away (C10 covers
them): an entry is `(offset, term, ts, size, id)` where `id` stands for the payload bytes.
-/
namespace Oxia.Wal

structure Entry where
  offset : Int
  term : Int
  ts : Int
  size : Nat      -- length of the marshalled entry (what the segment stores)
  id : Nat        -- identity of the payload
  deriving DecidableEq, Repr, Inhabited

structure Seg where
  base : Int
  ents : List Entry
  deriving DecidableEq, Repr, Inhabited

def Seg.last (s : Seg) : Int := s.base + s.ents.length - 1

structure Cfg where
  segmentSize : Nat
  headerSize : Nat
  /-- fact `truncateUpdatesOffsetsOnAllPaths`: `TruncateLog` stores the new last offsets also on the
      path that re-opens a read-only segment (false on the pinned tree: defect D-2) -/
  truncFix : Bool
  deriving Repr

def Seg.fileOffset (c : Cfg) (s : Seg) : Nat := (s.ents.map (fun e => c.headerSize + e.size)).sum

/-- read-only segments are kept ascending by base; `cur` is the read-write segment -/
structure SW where
  ro : List Seg
  cur : Seg
  first : Int
  appended : Int
  synced : Int
  deriving Repr, Inhabited

def SW.init : SW := { ro := [], cur := { base := 0, ents := [] }, first := -1, appended := -1, synced := -1 }

inductive Err | invalidOffset | invalidNext | emptyPayload | segmentFull | outOfBounds | notFound
  deriving DecidableEq, Repr

def Err.str : Err → String
  | .invalidOffset => "err:invalid-offset"
  | .invalidNext => "err:invalid-next"
  | .emptyPayload => "err:empty-payload"
  | .segmentFull => "err:segment-full"
  | .outOfBounds => "err:out-of-bounds"
  | .notFound => "err:not-found"

/-- `readWriteSegment.Append` -/
def Seg.append (c : Cfg) (s : Seg) (e : Entry) : Except Err Seg :=
  if e.size = 0 then .error .emptyPayload
  else if ¬ (s.fileOffset c + c.headerSize + e.size ≤ c.segmentSize) then .error .segmentFull
  else if e.offset ≠ s.last + 1 then .error .invalidNext
  else .ok { s with ents := s.ents ++ [e] }

/-- insert into the set of read-only segments (a tree keyed by base offset) -/
def insertSeg (s : Seg) : List Seg → List Seg
  | [] => [s]
  | t :: r => if s.base < t.base then s :: t :: r else if s.base = t.base then s :: r else t :: insertSeg s r

/-- "the wal was cleared and we're starting from a non-initial position" -/
def SW.restart (w : SW) (e : Entry) : SW :=
  if w.appended = -1 ∧ e.offset ≠ 0 ∧ w.cur.base = 0
  then { w with cur := { base := e.offset, ents := [] } } else w

def SW.finishAppend (w : SW) (cur' : Seg) (e : Entry) : SW :=
  { w with cur := cur', appended := e.offset, first := if w.first = -1 then e.offset else w.first }

/-- `wal.rolloverSegment` -/
def SW.rollover (w : SW) : SW :=
  { w with ro := insertSeg w.cur w.ro, cur := { base := w.appended + 1, ents := [] } }

def SW.appendCore (c : Cfg) (w : SW) (e : Entry) : Except Err SW :=
  match w.cur.append c e with
  | .ok cur' => .ok (w.finishAppend cur' e)
  | .error .segmentFull =>
    -- rolloverSegment, then try again
    match w.rollover.cur.append c e with
    | .ok cur' => .ok (w.rollover.finishAppend cur' e)
    | .error err => .error err
  | .error err => .error err

/-- `wal.appendAsync0` -/
def SW.appendAsync (c : Cfg) (w : SW) (e : Entry) : Except Err SW :=
  if e.offset < 0 then .error .invalidOffset
  else if w.appended ≠ -1 ∧ e.offset ≠ w.appended + 1 then .error .invalidNext
  else (w.restart e).appendCore c e

def SW.sync (w : SW) : SW := { w with synced := w.appended }

def SW.clear (_w : SW) : SW := SW.init

/-- `readWriteSegment.Truncate` -/
def Seg.truncate (s : Seg) (o : Int) : Except Err Seg :=
  if o < s.base ∨ o > s.last then .error .outOfBounds
  else .ok { s with ents := s.ents.take (o - s.base + 1).toNat }

/-- the loop of `TruncateLog` over the read-only segments, highest first (`ros` is reversed) -/
def truncLoop (c : Cfg) (w : SW) (o : Int) : List Seg → Except Err (SW × Int)
  | [] => .ok (SW.init, -1)            -- no segments left: Clear
  | s :: rest =>
    if o ≥ s.base then
      match s.truncate o with
      | .error e => .error e
      | .ok s' =>
        let w' := { w with ro := rest.reverse, cur := s' }
        if c.truncFix then .ok ({ w' with appended := o, synced := o }, o) else .ok (w', o)
    else truncLoop c w o rest

/-- `wal.TruncateLog`; returns the new state and the returned offset -/
def SW.truncate (c : Cfg) (w : SW) (o : Int) : Except Err (SW × Int) :=
  if o = -1 then .ok (SW.init, -1)
  else if w.appended = -1 then .ok (w, -1)
  else if o ≥ w.cur.base then
    match w.cur.truncate o with
    | .error e => .error e
    | .ok cur' => .ok ({ w with cur := cur', appended := o, synced := o }, o)
  else truncLoop c w o w.ro.reverse

/-- greatest base `≤ o` among the read-only segments -/
def floorBase (ro : List Seg) (o : Int) : Option Int :=
  ((ro.map (·.base)).filter (· ≤ o)).getLast?

/-- `readOnlySegmentsGroup.TrimSegments` -/
def trimSegments (ro : List Seg) (o : Int) : List Seg :=
  match floorBase ro ((floorBase ro o).getD o - 1) with
  | none => ro
  | some cutoff => ro.filter (fun s => s.base > cutoff)

/-- `wal.trim` -/
def SW.trim (w : SW) (o : Int) : SW :=
  if o ≤ w.first then w else { w with ro := trimSegments w.ro o, first := o }

/-- `wal.readAtIndex` -/
def SW.readAt (w : SW) (i : Int) : Except Err Entry :=
  if i ≥ w.cur.base then
    if i > w.cur.last then .error .outOfBounds
    else match w.cur.ents[(i - w.cur.base).toNat]? with
      | some e => .ok e
      | none => .error .outOfBounds
  else
    match (w.ro.filter (·.base ≤ i)).getLast? with
    | none => .error .outOfBounds
    | some s =>
      if i > s.last then .error .outOfBounds
      else match s.ents[(i - s.base).toNat]? with
        | some e => .ok e
        | none => .error .outOfBounds

/-- forward reader: `NewReader(after)` then `ReadNext` while `HasNext` -/
def SW.readFwd (w : SW) (after : Int) : Except Err (List Entry) :=
  if after + 1 < w.first then .error .notFound
  else
    let n := (w.synced - after).toNat
    (List.range n).mapM (fun (k : Nat) => w.readAt (after + 1 + (k : Int)))

/-- reverse reader: from `LastOffset()` down to `FirstOffset()` -/
def SW.readRev (w : SW) : Except Err (List Entry) :=
  if w.first = -1 then .ok []
  else if w.synced + 1 < w.first then
    -- `HasNext` compares with `!=`: with nothing synced yet and a log that starts at a non-zero
    -- offset the reader walks below the first offset and the read fails
    .error .outOfBounds
  else
    let n := (w.synced - w.first + 1).toNat
    (List.range n).mapM (fun (k : Nat) => w.readAt (w.synced - (k : Int)))

/-- `trimmer.binarySearch` (fuel = distance) -/
def binarySearch (w : SW) (cutoff : Int) : Nat → Int → Int → Except Err Int
  | 0, lo, _ => .ok lo
  | fuel + 1, lo, hi =>
    if lo < hi then
      let med := (lo + hi) / 2 + (if (lo + hi) % 2 > 0 then 1 else 0)
      match w.readAt med with
      | .error e => .error e
      | .ok e =>
        if cutoff < e.ts then binarySearch w cutoff fuel lo (med - 1)
        else binarySearch w cutoff fuel med hi
    else .ok lo

/-- `newTrimmer`: a zero retention means `DefaultRetention` (one hour) -/
def effRetention (retention : Int) : Int := if retention = 0 then 3600000 else retention

/-- `trimmer.doTrim` with the clock and the commit-offset provider as inputs -/
def SW.doTrim (w : SW) (now retention commit : Int) : Except Err SW :=
  if w.synced = -1 then .ok w
  else
    -- readAtOffset(first) = NewReader(first - 1).ReadNext()
    match w.readAt w.first with
    | .error e => .error e
    | .ok fe =>
      if now - effRetention retention < fe.ts then .ok w
      else match binarySearch w (now - effRetention retention) (w.synced - w.first + 1).toNat w.first w.synced with
        | .error e => .error e
        | .ok t => .ok (w.trim (if commit < t then commit else t))

/-- close + `newWal`/`recoverWal` (a clean restart: the mmap'ed segment content survives) -/
def SW.reopen (w : SW) : SW :=
  let all := insertSeg w.cur w.ro
  match all.getLast?, all.head? with
  | some lastS, some firstS =>
    let ro := all.dropLast
    let l := lastS.last
    { ro := ro, cur := lastS, appended := l, synced := l,
      first := if firstS.base = lastS.base then (if l ≥ 0 then lastS.base else -1) else firstS.base }
  | _, _ => w

/-! ### M-ListWal: the specification -/

/-- The simple list model: `ents` are the retained entries, contiguous from `base`;
    `first` is the reported first offset (`-1` when empty), `synced` the reported last one. -/
structure LW where
  base : Int
  ents : List Entry
  first : Int
  appended : Int
  synced : Int
  deriving Repr

def LW.init : LW := { base := 0, ents := [], first := -1, appended := -1, synced := -1 }

end Oxia.Wal
