import OxiaVerif.Props.C03
import OxiaVerif.Props.C05

/-!
C01 — acknowledged writes survive crashes, elections and reconfiguration.

What is proved here (on M-Repl, with the per-term logs `G` of C03 as the log-matching property):
* a write is acknowledged only when its offset is at or below the leader's quorum commit offset
  (`C01_ack_only_after_commit`);
* `C01_election_keeps_entry_same_term_partial`: an entry written and acknowledged in term `T` is in the log
  of the node the coordinator installs, whenever one of the candidates holds it and the winner's head entry
  is still of term `T` — the election step of the usual leader-completeness argument. **Partial**: the case
  in which the winner's head is of a later term needs the induction over terms (leader completeness for
  every intermediate leader), which is not done; the differential runs cover such histories.
* `C01_swap_election_loses_acknowledged_write`: the node-swap election as the coordinator runs it can
  install a leader without the acknowledged entries (known finding D-41).
-/
namespace Oxia.C01
open Oxia.Repl Oxia.C03

/-- **C01 (a)** a write is answered with success only if its offset is at or below the leader's commit offset -/
theorem C01_ack_only_after_commit (cfg : Cfg) (w : World) (l id : Nat) (o : Int)
    (h : (write cfg w l id).2 = .ok o) :
    o ≤ (getNode (write cfg w l id).1 l).commit ∧ o = ((getNode w l).log.length : Int) := by
  unfold write at h ⊢
  by_cases h1 : l ≥ w.nodes.length
  · simp [h1] at h
  · simp only [h1, if_false] at h ⊢
    by_cases h2 : (getNode w l).ctrl ≠ .leaderC ∨ (getNode w l).status ≠ .leader
    · simp [h2] at h
    · simp only [h2, if_false] at h ⊢
      by_cases h3 : (getNode (settleLeader cfg (setNode w l { getNode w l with log := (getNode w l).log ++ [{ term := (getNode w l).term, id := id }] }) l) l).commit ≥ ((getNode w l).log.length : Int)
      · simp only [h3, if_true, Except.ok.injEq] at h ⊢
        exact ⟨by rw [← h]; exact h3, h.symm⟩
      · simp [h3] at h

/-- **C01 (b), partial** the election step: candidate `M` holds the entry `e` of term `T` at offset `o`; the
    coordinator's winner `B` has a head not lower than `M`'s (C05) and that head is an entry of term `T`;
    both logs are cut from the per-term logs. Then `B` holds `e` at offset `o`. -/
theorem C01_election_keeps_entry_same_term_partial (G : Int → List Entry) (M B : List Entry) (o : Nat) (e : Entry)
    (hM : Conforms G M) (hB : Conforms G B) (hsM : TermsSorted M)
    (he : M[o]? = some e) (hBne : B ≠ [])
    (hwin : better (headOf M) (headOf B) = false)
    (hterm : (headOf B).1 = e.term) :
    B[o]? = some e := by
  obtain ⟨eb, heb, hhB⟩ := headOf_ne_nil B hBne
  have hBG := conforms_last hB eb heb hBne
  have hMne : M ≠ [] := by intro h; subst h; simp at he
  obtain ⟨em, hem, hhM⟩ := headOf_ne_nil M hMne
  rw [hhB] at hterm hwin
  rw [hhM] at hwin
  simp only [] at hterm
  have hoM : o < M.length := by
    rcases Nat.lt_or_ge o M.length with h | h
    · exact h
    · rw [List.getElem?_eq_none h] at he; cases he
  -- the head of M is of a term not below e's, the winner's head is of e's term and not lower than M's head
  have htm : e.term ≤ em.term := hsM o (M.length - 1) e em (by omega) he hem
  unfold better at hwin
  simp only [decide_eq_false_iff_not] at hwin
  have hem_eq : em.term = eb.term := by omega
  have hlen : M.length ≤ B.length := by omega
  -- M up to o and B are both prefixes of the log of term e.term
  have hMo := hM o e he
  have hB' : B = (G e.term).take B.length := by rw [← hterm]; exact hBG
  have : B.take (o + 1) = M.take (o + 1) := by
    rw [hMo]
    have := congrArg (List.take (o + 1)) hB'
    simp only [List.take_take] at this
    rw [Nat.min_eq_left (by omega)] at this
    exact this
  have hget := congrArg (fun l => l[o]?) this
  simp only [List.getElem?_take, Nat.lt_succ_self, if_true] at hget
  rw [hget]; exact he

/-- **known finding D-41** on the model: the acknowledged entries of term 1 are on n0 (unreachable) and n1
    (being removed); n1's answer counts for the fencing majority but n1 is no candidate; n2 wins with an empty
    log -/
theorem C01_swap_election_loses_acknowledged_write :
    (getNode C05.swapWorld 0).commit = 1 ∧
    (match (elect Cfg.good true C05.swapWorld 2 2 [0, 2, 3] [1]).2 with | .ok l => decide (l = 2) | .error _ => false) = true ∧
    (getNode (elect Cfg.good true C05.swapWorld 2 2 [0, 2, 3] [1]).1 2).log = [] := by decide

theorem C01_on_tree : Facts.becomeLeaderOnlyFromFencedSameTerm = true ∧ Facts.trackerCommitsAtRequiredAcks = true ∧
    Facts.walSyncCallbacksOnlyForFlushedEntries = true ∧ Facts.walReaderServesOnlySyncedEntries = true ∧
    Facts.newTermQuorumMajorityOverEnsembleAndRemoved = true ∧ Facts.selectNewLeaderTakesMaxTermThenOffset = true ∧
    Facts.truncateComparesWithFollowerTermEntry = true ∧ Facts.cursorStartsAtTruncatedHead = true ∧
    Facts.coordinatorPersistsTermBeforeNewTerm = true ∧ Facts.updateTermFlushes = true ∧
    Facts.newTermWaitsForInFlightAppends = true := by decide

end Oxia.C01
