import OxiaVerif.Props.C01

/-!
C02 — per-shard operations are linearizable; reads never see rolled-back data.

On M-Repl the log order is the linearization: a write takes effect at the offset it is logged at, exactly
once (C07), effects are applied in offset order (C08) and a read on a leader shows the effects of the
prefix up to its commit offset. Proved here: what a read shows is a prefix of the leader's log bounded by
the quorum commit offset, and grows only by appending (`C02_read_shows_committed_prefix`,
`C02_visible_grows_by_extension` for writes on the same leader). What the property demands beyond that —
that a later leader's log extends everything an earlier read has shown — does *not* hold for entries that a
leader only re-committed from older terms: `C02_recommitted_entry_rolled_back` is the counterexample on the
model (known finding D-40, reproduced on the implementation by the corpus script).
-/
namespace Oxia.C02
open Oxia.Repl

/-- what a read on a leader shows -/
def visible (n : Node) : List Entry := n.log.take (n.commit + 1).toNat

/-- **C02 (a)** a read shows a prefix of the leader's log, not beyond the commit offset -/
theorem C02_read_shows_committed_prefix (n : Node) :
    visible n <+: n.log ∧ ((visible n).length : Int) ≤ max 0 (n.commit + 1) := by
  refine ⟨List.take_prefix _ _, ?_⟩
  unfold visible
  simp only [List.length_take]
  omega

/-- **C02 (b)** on one leader, the effect of a later commit offset extends what was visible before -/
theorem C02_visible_grows_by_extension (log ext : List Entry) (c c' : Int) (hcc : c ≤ c') :
    log.take (c + 1).toNat <+: (log ++ ext).take (c' + 1).toNat := by
  have h1 : log.take (c + 1).toNat = (log ++ ext).take (min (c + 1).toNat log.length) := by
    rw [List.take_append_of_le_length (Nat.min_le_right _ _)]
    rw [List.take_eq_take_iff]
    omega
  rw [h1]
  have hle : min (c + 1).toNat log.length ≤ (c' + 1).toNat := by omega
  have := List.take_prefix (min (c + 1).toNat log.length) ((log ++ ext).take (c' + 1).toNat)
  simpa [List.take_take, Nat.min_eq_left hle] using this

/-- the D-40 history on the model: n0 (term 1) logs w100 without a quorum; n1 (term 2) logs w200 without a
    quorum; n0 is elected again (term 3, best head among {n0, n2}), re-commits w100 with n2 and shows it to
    a reader; then n1 is elected (term 4, head (2,0) beats (1,0)) and replaces it -/
def d40w0 : World := World.init 3
def d40w1 : World := (elect Cfg.good true d40w0 0 1 [0, 1, 2] []).1
def d40w2 : World := (write Cfg.good { d40w1 with cut := [1, 2] } 0 100).1
def d40w3 : World := (elect Cfg.good true { d40w2 with cut := [0] } 1 2 [0, 1, 2] []).1
def d40w4 : World := (write Cfg.good { d40w3 with cut := [0, 2] } 1 200).1
def d40w5 : World := (elect Cfg.good true { d40w4 with cut := [1] } 0 3 [0, 1, 2] []).1
def d40w6 : World := (elect Cfg.good true { d40w5 with cut := [0] } 1 4 [0, 1, 2] []).1

/-- **known finding D-40**: a read on the leader of term 3 shows write 100 (committed: n0 and n2 hold it);
    the leader of term 4 shows write 200 at the same offset instead -/
theorem C02_recommitted_entry_rolled_back :
    (getNode d40w5 0).status = .leader ∧ (visible (getNode d40w5 0)).map (·.id) = [100] ∧
    (getNode d40w5 2).log.map (·.id) = [100] ∧
    (getNode d40w6 1).status = .leader ∧ (getNode d40w6 1).term = 4 ∧
    (visible (getNode d40w6 1)).map (·.id) = [200] ∧ (getNode d40w6 2).log.map (·.id) = [200] := by decide

theorem C02_on_tree : Facts.becomeLeaderOnlyFromFencedSameTerm = true ∧ Facts.trackerCommitsAtRequiredAcks = true ∧
    Facts.leaderLiveUsesWrapperCallbackAndEntryArgs = true ∧ Facts.writeHoldsAppendLockAcrossAllocAndAppend = true ∧
    Facts.cursorStartsAtTruncatedHead = true ∧ Facts.versionIdPersistedAfterApply = true ∧
    Facts.selectNewLeaderTakesMaxTermThenOffset = true := by decide

end Oxia.C02
