import OxiaVerif.Lemmas.Repl
import OxiaVerif.Facts

/-!
C03 — replica logs never diverge at or below an acknowledged offset.

The follower's side of a replication stream (`followerController.append`, modelled by `pushLoop`) takes
entries of its own term only, acknowledges an offset it already has without looking at the entry, and
appends exactly the next offset. `C03_stream_keeps_acked_prefix_equal` shows that, started on a follower
whose log is *compatible* with the leader's (one is a prefix of the other — what the attach step has to
establish), the stream keeps the logs compatible, only ever extends the follower's log, and everything at
or below the acknowledged offset is the leader's entry, for every leader log, every starting point and
any number of re-deliveries. `C03_attach_compatible_partial` shows that the attach step
(`truncateFollowerIfNeeded`) establishes compatibility from the log-matching property **when the leader's
last entry at or below the follower's head term is of that very term (or there is none)**; in the remaining
case — the leader holds no entry of the follower's head term but entries of lower terms further up — the
statement is false of the model and of the code: `C03_truncation_keeps_foreign_entries` and
`C03_follower_diverges_below_acknowledged_offset` are the kernel-checked witnesses (known finding D-44,
replayed on the implementation by corpus/C03/d44-*.ops). `C03_duplicate_ack_needs_compatibility` is the
divergence that results from an incompatible start (known finding D-40 is another such case).
-/
namespace Oxia.C03
open Oxia.Repl

def Agree (F L : List Entry) (n : Nat) : Prop := F.take n = L.take n

/-- one log is a prefix of the other -/
def Compat (F L : List Entry) : Prop := Agree F L (min F.length L.length)

theorem Agree.mono {F L : List Entry} {n m : Nat} (h : Agree F L n) (hm : m ≤ n) : Agree F L m := by
  unfold Agree at *
  have := congrArg (List.take m) h
  simpa [List.take_take, Nat.min_eq_left hm] using this

/-- everything at or below the acknowledged offset is the leader's -/
structure Acked (F L : List Entry) (ack : Int) : Prop where
  ge : -1 ≤ ack
  inF : (ack + 1).toNat ≤ F.length
  inL : (ack + 1).toNat ≤ L.length
  eq : Agree F L (ack + 1).toNat

theorem take_succ_of_getElem? (L : List Entry) (o : Nat) (e : Entry) (h : L[o]? = some e) :
    L.take (o + 1) = L.take o ++ [e] := by
  rw [List.take_succ, h]; rfl

/-- **C03 (a)** the replication stream: from a compatible follower log, for every leader log, starting
    offset and fuel (= number of deliveries), the follower's log stays compatible with the leader's, is only
    extended, and is equal to the leader's up to the acknowledged offset, which never moves back -/
theorem C03_stream_keeps_acked_prefix_equal (L : List Entry) (t : Int) : ∀ (fuel : Nat) (ack : Int) (f : Node),
    t = f.term → Compat f.log L → Acked f.log L ack →
    Compat (pushLoop true L t fuel ack f).1.log L ∧
    Acked (pushLoop true L t fuel ack f).1.log L (pushLoop true L t fuel ack f).2 ∧
    ack ≤ (pushLoop true L t fuel ack f).2 ∧
    (∃ ext, (pushLoop true L t fuel ack f).1.log = f.log ++ ext) := by
  intro fuel
  induction fuel with
  | zero => intro ack f _ hc ha; exact ⟨hc, ha, Int.le_refl _, [], by simp [pushLoop]⟩
  | succ fuel ih =>
    intro ack f ht hc ha
    subst ht
    unfold pushLoop
    simp only []
    have hge := ha.ge
    have hnat : (ack + 1).toNat = (ack + 1).toNat := rfl
    cases hL : L[(ack + 1).toNat]? with
    | none => exact ⟨hc, ha, Int.le_refl _, [], by simp⟩
    | some e =>
      simp only []
      have hoL : (ack + 1).toNat < L.length := by
        rcases Nat.lt_or_ge (ack + 1).toNat L.length with h | h
        · exact h
        · rw [List.getElem?_eq_none h] at hL; cases hL
      have hneg : ¬ ack + 1 < 0 := by omega
      simp only [hneg, if_false]
      simp only [ne_eq, not_true_eq_false, false_and, if_false]
      by_cases hdup : ack + 1 ≤ (f.log.length : Int) - 1
      · -- a duplicate: the follower already has this offset; by compatibility it is the leader's entry
        simp only [hdup, if_true]
        have hoF : (ack + 1).toNat < f.log.length := by omega
        have hag : Agree f.log L ((ack + 1).toNat + 1) := hc.mono (by omega)
        have ha' : Acked f.log L (ack + 1) := by
          refine ⟨by omega, ?_, ?_, ?_⟩
          · have : (ack + 1 + 1).toNat = (ack + 1).toNat + 1 := by omega
            omega
          · have : (ack + 1 + 1).toNat = (ack + 1).toNat + 1 := by omega
            omega
          · have : (ack + 1 + 1).toNat = (ack + 1).toNat + 1 := by omega
            rw [this]; exact hag
        obtain ⟨i1, i2, i3, i4⟩ := ih (ack + 1) { f with status := .follower } rfl hc ha'
        exact ⟨i1, i2, by omega, i4⟩
      · simp only [hdup, if_false]
        by_cases hnext : ack + 1 = (f.log.length : Int)
        · -- the next entry: appended
          simp only [hnext, if_true]
          have hlen : (ack + 1).toNat = f.log.length := by omega
          have hFL : f.log = L.take f.log.length := by
            have := hc
            unfold Compat Agree at this
            have hmin : min f.log.length L.length = f.log.length := by omega
            rw [hmin] at this
            simpa using this
          have hnew : f.log ++ [e] = L.take (f.log.length + 1) := by
            rw [take_succ_of_getElem? L f.log.length e (by rw [← hlen]; exact hL), ← hFL]
          have hc' : Compat (f.log ++ [e]) L := by
            unfold Compat Agree
            have hmin : min (f.log ++ [e]).length L.length = f.log.length + 1 := by
              simp only [List.length_append, List.length_singleton]; omega
            rw [hmin, hnew]; simp [List.take_take]
          have ha' : Acked (f.log ++ [e]) L (f.log.length : Int) := by
            have hn : ((f.log.length : Int) + 1).toNat = f.log.length + 1 := by omega
            refine ⟨by omega, ?_, ?_, ?_⟩
            · rw [hn]; simp
            · rw [hn]; omega
            · rw [hn]; unfold Agree; rw [hnew]; simp [List.take_take]
          obtain ⟨i1, i2, i3, ext, i4⟩ := ih (f.log.length : Int) { f with status := .follower, log := f.log ++ [e] } rfl hc' ha'
          refine ⟨i1, i2, by omega, [e] ++ ext, ?_⟩
          rw [i4]; simp
        · simp only [hnext, if_false]
          exact ⟨hc, ha, Int.le_refl _, [], by simp⟩

/-- a follower of another term takes nothing from the stream -/
theorem C03_other_term_takes_nothing (L : List Entry) (t : Int) (fuel : Nat) (ack : Int) (f : Node) (h : t ≠ f.term) :
    pushLoop true L t fuel ack f = (f, ack) := pushLoop_other_term L t fuel ack f h

/-- necessity of compatibility: a follower that still holds an entry of a deposed leader at an offset the
    new leader also holds acknowledges it as a duplicate, and keeps the wrong entry -/
theorem C03_duplicate_ack_needs_compatibility :
    let L : List Entry := [⟨1, 0⟩, ⟨3, 7⟩]
    let f : Node := { term := 3, status := .fenced, ctrl := .followerC, log := [⟨1, 0⟩, ⟨2, 5⟩] }
    (pushLoop true L 3 5 0 f).2 = 1 ∧ (pushLoop true L 3 5 0 f).1.log = [⟨1, 0⟩, ⟨2, 5⟩] := by decide

/-! ### the attach step -/

/-- the logs of all nodes are cut from one log per term: whatever a node holds up to an entry of term `t` is
    the prefix of the log `G t` of that term's (unique) leader. This is the shape of the log-matching
    property that the attach decision needs. -/
def Conforms (G : Int → List Entry) (X : List Entry) : Prop :=
  ∀ i e, X[i]? = some e → X.take (i + 1) = (G e.term).take (i + 1)

def TermsNonneg (X : List Entry) : Prop := ∀ e ∈ X, 0 ≤ e.term

def TermsSorted (X : List Entry) : Prop :=
  ∀ (i j : Nat) (a b : Entry), i ≤ j → X[i]? = some a → X[j]? = some b → a.term ≤ b.term

theorem headOf_nil : headOf [] = (-1, -1) := rfl

theorem headOf_ne_nil (X : List Entry) (h : X ≠ []) :
    ∃ e, X[X.length - 1]? = some e ∧ headOf X = (e.term, (X.length : Int) - 1) := by
  unfold headOf
  cases hl : X.getLast? with
  | none => simp [List.getLast?_eq_none_iff] at hl; exact absurd hl h
  | some e =>
    refine ⟨e, ?_, rfl⟩
    rw [List.getLast?_eq_getElem?] at hl
    exact hl

theorem conforms_take {G : Int → List Entry} {X : List Entry} (h : Conforms G X) (m : Nat) : Conforms G (X.take m) := by
  intro i e he
  rw [List.getElem?_take] at he
  by_cases him : i < m
  · rw [if_pos him] at he
    rw [List.take_take, Nat.min_eq_left (by omega)]
    exact h i e he
  · rw [if_neg him] at he; cases he

/-- a log that conforms and ends with an entry of term `t` is a prefix of `G t` -/
theorem conforms_last {G : Int → List Entry} {X : List Entry} (hc : Conforms G X) (e : Entry)
    (he : X[X.length - 1]? = some e) (hne : X ≠ []) : X = (G e.term).take X.length := by
  have := hc (X.length - 1) e he
  have hl : X.length - 1 + 1 = X.length := by
    have : 0 < X.length := List.length_pos_iff.2 hne
    omega
  rw [hl] at this
  simpa using this

theorem lastLE_spec (t : Int) : ∀ (L : List Entry) (i : Nat) (acc : Int × Int),
    lastLE L t i acc = acc ∨
    ∃ (k : Nat) (e : Entry), lastLE L t i acc = (e.term, ((i + k : Nat) : Int)) ∧ L[k]? = some e ∧ e.term ≤ t := by
  intro L
  induction L with
  | nil => intro i acc; exact .inl rfl
  | cons a es ih =>
    intro i acc
    unfold lastLE
    rcases ih (i + 1) (if a.term ≤ t then (a.term, (i : Int)) else acc) with h | ⟨k, e, h1, h2, h3⟩
    · rw [h]
      by_cases ha : a.term ≤ t
      · rw [if_pos ha]; exact .inr ⟨0, a, by simp, by simp, ha⟩
      · rw [if_neg ha]; exact .inl rfl
    · right
      refine ⟨k + 1, e, ?_, by simpa using h2, h3⟩
      rw [h1]
      have : i + 1 + k = i + (k + 1) := by omega
      rw [this]

theorem highestOfTerm_spec (L : List Entry) (t : Int) :
    highestOfTerm L t = (-1, -1) ∨
    ∃ (k : Nat) (e : Entry), highestOfTerm L t = (e.term, (k : Int)) ∧ L[k]? = some e ∧ e.term ≤ t := by
  unfold highestOfTerm
  rcases lastLE_spec t L 0 (-1, -1) with h | ⟨k, e, h1, h2, h3⟩
  · exact .inl h
  · exact .inr ⟨k, e, by rw [h1]; simp, h2, h3⟩

theorem lastLE_mono (t : Int) : ∀ (L : List Entry) (i : Nat) (acc : Int × Int), acc.2 ≤ (i : Int) →
    acc.2 ≤ (lastLE L t i acc).2 := by
  intro L
  induction L with
  | nil => intro i acc _; exact Int.le_refl _
  | cons a es ih =>
    intro i acc hacc
    unfold lastLE
    by_cases ha : a.term ≤ t
    · rw [if_pos ha]
      have := ih (i + 1) (a.term, (i : Int)) (by simp; omega)
      simp only [] at this
      omega
    · rw [if_neg ha]
      exact ih (i + 1) acc (by omega)

/-- the scan answers with an offset at or above every entry whose term is at most `t` -/
theorem lastLE_ge (t : Int) : ∀ (L : List Entry) (i : Nat) (acc : Int × Int) (o : Nat) (e : Entry),
    L[o]? = some e → e.term ≤ t → ((i + o : Nat) : Int) ≤ (lastLE L t i acc).2 := by
  intro L
  induction L with
  | nil => intro i acc o e h; simp at h
  | cons a es ih =>
    intro i acc o e h he
    unfold lastLE
    cases o with
    | zero =>
      simp at h; subst h
      rw [if_pos he]
      have := lastLE_mono t es (i + 1) (a.term, (i : Int)) (by simp; omega)
      simpa using this
    | succ o =>
      have h' : es[o]? = some e := by simpa using h
      have := ih (i + 1) (if a.term ≤ t then (a.term, (i : Int)) else acc) o e h' he
      have h2 : i + 1 + o = i + (o + 1) := by omega
      rw [h2] at this; exact this

theorem highestOfTerm_ge (L : List Entry) (t : Int) (o : Nat) (e : Entry) (h : L[o]? = some e) (he : e.term ≤ t) :
    (o : Int) ≤ (highestOfTerm L t).2 := by
  have := lastLE_ge t L 0 (-1, -1) o e h he
  simpa [highestOfTerm] using this

/-- prefix of a prefix -/
theorem take_of_both (G X Y : List Entry) (n m : Nat) (hx : X = G.take n) (hy : Y.take m = G.take m) (hnm : n ≤ m) :
    X = Y.take n := by
  have := congrArg (List.take n) hy
  simp only [List.take_take, Nat.min_eq_left hnm] at this
  rw [this]; exact hx

theorem compat_acked_of_prefix (F L : List Entry) (h : F = L.take F.length) (hle : F.length ≤ L.length) :
    Compat F L ∧ Acked F L ((F.length : Int) - 1) := by
  have hn : ((F.length : Int) - 1 + 1).toNat = F.length := by omega
  refine ⟨?_, ⟨by omega, by rw [hn]; exact Nat.le_refl _, by rw [hn]; exact hle, ?_⟩⟩
  · unfold Compat Agree
    rw [Nat.min_eq_left hle]
    simpa using h
  · rw [hn]; unfold Agree; simpa using h

theorem plan_attach_ack (cfg : Cfg) (L : List Entry) (fh eh : Int × Int) (ack : Int)
    (h : plan cfg L fh eh = .attach ack) : ack = fh.2 := by
  unfold plan at h
  by_cases c1 : fh.1 = eh.1 ∧ fh.2 ≤ eh.2
  · rw [if_pos c1] at h; cases h; rfl
  · rw [if_neg c1] at h
    by_cases c2 : fh.1 > eh.1
    · rw [if_pos c2] at h; cases h
    · rw [if_neg c2] at h
      by_cases c3 : fh.1 = (highestOfTerm L fh.1).1 ∧ fh.2 ≤ (if cfg.truncCmpOk then (highestOfTerm L fh.1).2 else eh.2)
      · rw [if_pos c3] at h; cases h; rfl
      · rw [if_neg c3] at h; cases h

/-- the result of the attach decision, spelled out -/
def AttachOk (F L : List Entry) (p : Plan) : Prop :=
  (∀ ack, p = .attach ack → ack = (F.length : Int) - 1 ∧ Compat F L ∧ Acked F L ack) ∧
  (∀ k, p = .truncate k → Compat (F.take (k + 1).toNat) L ∧
    Acked (F.take (k + 1).toNat) L (((F.take (k + 1).toNat).length : Int) - 1))

theorem attachOk_attach (F L : List Entry) (h : Compat F L ∧ Acked F L ((F.length : Int) - 1)) :
    AttachOk F L (.attach ((F.length : Int) - 1)) :=
  ⟨fun ack he => (by cases he; exact ⟨rfl, h⟩), fun k he => (by cases he)⟩

theorem attachOk_truncate (F L : List Entry) (k : Int)
    (h : Compat (F.take (k + 1).toNat) L ∧ Acked (F.take (k + 1).toNat) L (((F.take (k + 1).toNat).length : Int) - 1)) :
    AttachOk F L (.truncate k) :=
  ⟨fun ack he => (by cases he), fun k' he => (by cases he; exact h)⟩

theorem attachOk_refuse (F L : List Entry) : AttachOk F L .refuse :=
  ⟨fun ack he => (by cases he), fun k he => (by cases he)⟩

/-- **C03 (b), partial, general form** (`eh` = the head of a prefix of the leader's log: the leader's head
    when it was elected) the attach decision of `truncateFollowerIfNeeded` (as found in the tree: facts)
    makes the follower's log compatible with the leader's and starts the cursor at an offset up to which the
    two logs are equal — given that both logs are cut from the per-term logs (`Conforms`, the log-matching
    property), that the reported head is the follower's true head (C04) and `eh` the leader's, and (`hcase`)
    that the entry `getHighestEntryOfTerm` finds is of the follower's head term or does not exist. Without
    `hcase` the statement is false: D-44 below. -/
theorem C03_attach_compatible_general (G : Int → List Entry) (L F : List Entry) (m : Nat)
    (hL : Conforms G L) (hF : Conforms G F) (hnF : TermsNonneg F)
    (hcase : (headOf F).1 = (headOf (L.take m)).1 ∧ (headOf F).2 ≤ (headOf (L.take m)).2 ∨
      (highestOfTerm L (headOf F).1).1 = (headOf F).1 ∨ highestOfTerm L (headOf F).1 = (-1, -1)) :
    AttachOk F L (plan Cfg.good L (headOf F) (headOf (L.take m))) := by
  have hemptyT : ∀ X : List Entry, Compat [] X ∧ Acked [] X (-1) := fun X =>
    ⟨by simp [Compat, Agree], ⟨by omega, by simp, by simp, by simp [Agree]⟩⟩
  have hB : Conforms G (L.take m) := conforms_take hL m
  by_cases hFe : F = []
  · -- an empty follower: attach at -1 or truncate to nothing
    subst hFe
    have hempty := hemptyT L
    refine ⟨fun ack he => ?_, fun k _ => ?_⟩
    · have := plan_attach_ack Cfg.good L (headOf []) (headOf (L.take m)) ack he
      have h1 : ack = -1 := by rw [this]; rfl
      subst h1
      exact ⟨by simp, hempty⟩
    · simp only [List.take_nil, List.length_nil]
      simpa using hempty
  · obtain ⟨ef, hef, hhF⟩ := headOf_ne_nil F hFe
    have hFG := conforms_last hF ef hef hFe
    have htF : 0 ≤ ef.term := hnF ef (List.mem_of_getElem? hef)
    have hFpos : 0 < F.length := List.length_pos_iff.2 hFe
    unfold plan
    rw [hhF] at hcase ⊢
    simp only [] at hcase ⊢
    by_cases h1 : ef.term = (headOf (L.take m)).1 ∧ (F.length : Int) - 1 ≤ (headOf (L.take m)).2
    · -- same term as the leader's election head, not longer
      rw [if_pos h1]
      obtain ⟨h1a, h1b⟩ := h1
      have hBe : L.take m ≠ [] := by
        intro hl; rw [hl] at h1a; simp [headOf_nil] at h1a; omega
      obtain ⟨el, hel, hhL⟩ := headOf_ne_nil (L.take m) hBe
      rw [hhL] at h1a h1b
      simp only [] at h1a h1b
      have hLG := conforms_last hB el hel hBe
      have hle : F.length ≤ (L.take m).length := by omega
      have hpre0 : F = (L.take m).take F.length := by
        rw [h1a] at hFG
        exact take_of_both (G el.term) F (L.take m) F.length (L.take m).length hFG (by rw [← hLG, List.take_length]) hle
      have hlm : (L.take m).length ≤ m ∧ (L.take m).length ≤ L.length := by
        rw [List.length_take]; omega
      have hpre : F = L.take F.length := by
        rw [List.take_take, Nat.min_eq_left (by omega)] at hpre0
        exact hpre0
      exact attachOk_attach F L (compat_acked_of_prefix F L hpre (by omega))
    · rw [if_neg h1]
      have hcase : (highestOfTerm L ef.term).1 = ef.term ∨ highestOfTerm L ef.term = (-1, -1) := by
        rcases hcase with h | h
        · exact absurd h h1
        · exact h
      by_cases h2 : ef.term > (headOf (L.take m)).1
      · rw [if_pos h2]; exact attachOk_refuse F L
      · rw [if_neg h2]
        rcases highestOfTerm_spec L ef.term with hnone | ⟨k, e, hk, hke, _⟩
        · -- the leader has no entry of that term: truncate to nothing
          rw [hnone]
          simp only []
          have hne : ¬ (ef.term = -1 ∧ (F.length : Int) - 1 ≤ if Cfg.good.truncCmpOk = true then -1 else (headOf (L.take m)).2) := by
            intro h; omega
          rw [if_neg hne]
          apply attachOk_truncate
          have : ((-1 : Int) + 1).toNat = 0 := rfl
          rw [this]
          simp only [List.take_zero, List.length_nil]
          simpa using hemptyT L
        · have hket : e.term = ef.term := by
            rcases hcase with hc | hc
            · rw [hk] at hc; exact hc
            · rw [hk] at hc
              have := congrArg Prod.snd hc
              simp only [] at this
              omega
          rw [hk, hket]
          simp only [Cfg.good, if_true, true_and]
          have hLk : L.take (k + 1) = (G ef.term).take (k + 1) := by
            have := hL k e hke; rw [hket] at this; exact this
          have hkL : k + 1 ≤ L.length := by
            have : k < L.length := by
              rcases Nat.lt_or_ge k L.length with h | h
              · exact h
              · rw [List.getElem?_eq_none h] at hke; cases hke
            omega
          by_cases h3 : (F.length : Int) - 1 ≤ (k : Int)
          · -- the follower's head is at or below the leader's last entry of that term
            rw [if_pos h3]
            have hle : F.length ≤ k + 1 := by omega
            have hpre : F = L.take F.length := take_of_both (G ef.term) F L F.length (k + 1) hFG hLk hle
            exact attachOk_attach F L (compat_acked_of_prefix F L hpre (by omega))
          · rw [if_neg h3]
            have hgt : k + 1 < F.length := by omega
            have hn : ((k : Int) + 1).toNat = k + 1 := by omega
            apply attachOk_truncate
            rw [hn]
            have hF' : F.take (k + 1) = L.take (F.take (k + 1)).length := by
              have hlen : (F.take (k + 1)).length = k + 1 := by simp; omega
              rw [hlen, hLk]
              have := congrArg (List.take (k + 1)) hFG
              simp only [List.take_take] at this
              rw [Nat.min_eq_left (by omega)] at this
              exact this
            have hlen : (F.take (k + 1)).length ≤ L.length := by simp; omega
            exact compat_acked_of_prefix _ L hF' hlen

/-- **C03 (b), partial** the attach decision at election time (`eh` = the leader's head) -/
theorem C03_attach_compatible_partial (G : Int → List Entry) (L F : List Entry)
    (hL : Conforms G L) (hF : Conforms G F) (hnF : TermsNonneg F)
    (hcase : (highestOfTerm L (headOf F).1).1 = (headOf F).1 ∨ highestOfTerm L (headOf F).1 = (-1, -1)) :
    AttachOk F L (plan Cfg.good L (headOf F) (headOf L)) := by
  have := C03_attach_compatible_general G L F L.length hL hF hnF (.inr hcase)
  rw [List.take_length] at this
  exact this

/-- **known finding D-44, the decision**: the leader holds no entry of the follower's head term (2) but
    entries of a lower term at higher offsets; `getHighestEntryOfTerm` answers with its last entry of term
    ≤ 2, which is offset 2 of term 1; the follower is cut *by offset* to 0..2 and keeps its own entries of
    term 2 at offsets 1 and 2; the cursor starts at 2 (everything up to there counts as acknowledged) and
    the stream appends offset 3 behind them -/
theorem C03_truncation_keeps_foreign_entries :
    let L : List Entry := [⟨1, 100⟩, ⟨1, 101⟩, ⟨1, 102⟩, ⟨3, 300⟩]
    let F : List Entry := [⟨1, 100⟩, ⟨2, 200⟩, ⟨2, 201⟩, ⟨2, 202⟩]
    plan Cfg.good L (headOf F) (headOf L) = .truncate 2 ∧
    (pushLoop true L 4 10 2 { term := 4, status := .follower, ctrl := .followerC, log := F.take 3 }).1.log
      = [⟨1, 100⟩, ⟨2, 200⟩, ⟨2, 201⟩, ⟨3, 300⟩] ∧
    (pushLoop true L 4 10 2 { term := 4, status := .follower, ctrl := .followerC, log := F.take 3 }).2 = 3 := by decide

/-- the D-44 history on the model: n0 (term 1) logs 101, 102 without a quorum; n1 (term 2, elected by
    {n1, n2} from the log [100]) logs 200, 201, 202 without a quorum; n0 wins term 3 among {n0, n2}
    (head (1,2) beats (1,0)), re-replicates its log and commits 300 with n2; in term 4 n1 joins -/
def d44w0 : World := World.init 3
def d44w1 : World := (write Cfg.good (elect Cfg.good true d44w0 0 1 [0, 1, 2] []).1 0 100).1
def d44w2 : World := (write Cfg.good (write Cfg.good { d44w1 with cut := [0] } 0 101).1 0 102).1
def d44w3 : World := (elect Cfg.good true d44w2 1 2 [0, 1, 2] []).1
def d44w4 : World := (write Cfg.good (write Cfg.good (write Cfg.good { d44w3 with cut := [0, 2] } 1 200).1 1 201).1 1 202).1
def d44w5 : World := (write Cfg.good (elect Cfg.good true { d44w4 with cut := [1] } 0 3 [0, 1, 2] []).1 0 300).1
def d44w6 : World := (elect Cfg.good true { d44w5 with cut := [] } 0 4 [0, 1, 2] []).1

/-- **known finding D-44**: after the election of term 4 the follower n1 is attached, acknowledged up to
    offset 3 (which is committed), and holds 200 and 201 where the leader holds 101 and 102 -/
theorem C03_follower_diverges_below_acknowledged_offset :
    (getNode d44w5 0).commit = 3 ∧ (getNode d44w5 2).log.map (·.id) = [100, 101, 102, 300] ∧
    (getNode d44w6 0).status = .leader ∧ (getNode d44w6 0).term = 4 ∧
    (getNode d44w6 0).log.map (·.id) = [100, 101, 102, 300] ∧
    (getNode d44w6 0).cursors = [(1, 3), (2, 3)] ∧
    (getNode d44w6 1).status = .follower ∧ (getNode d44w6 1).term = 4 ∧
    (getNode d44w6 1).log.map (·.id) = [100, 200, 201, 300] := by decide

/-- necessity (the seeded change): comparing the follower's offset with the leader's election head
    instead of the leader's last entry of the follower's term lets an uncommitted tail of an old term
    survive at offsets where the leader holds other entries -/
theorem C03_wrong_comparison_counterexample :
    let L : List Entry := [⟨4, 0⟩, ⟨4, 1⟩, ⟨5, 2⟩, ⟨5, 3⟩]
    let F : List Entry := [⟨4, 0⟩, ⟨4, 1⟩, ⟨4, 8⟩]
    plan ⟨true, false, true, true, true⟩ L (headOf F) (headOf L) = .attach 2 ∧
    plan Cfg.good L (headOf F) (headOf L) = .truncate 1 := by decide

theorem C03_on_tree : Facts.truncateComparesWithFollowerTermEntry = true ∧ Facts.cursorStartsAtTruncatedHead = true ∧
    Facts.followerTruncateOnlyWhenFenced = true ∧ Facts.followerAppendChecksTermAlways = true ∧
    Facts.lateRequestCannotConvertLeader = true ∧ Facts.snapshotChunkTermMustEqual = true ∧
    Facts.walReaderServesOnlySyncedEntries = true ∧ Facts.walSyncCallbacksOnlyForFlushedEntries = true ∧
    -- an entry counts as appended (and a re-delivery of it as a duplicate) only after the WAL has taken it
    Facts.followerCountsEntryAfterWalAppend = true ∧
    -- a re-delivered entry is acknowledged only once it is synced
    Facts.followerAcksDuplicateOnlyWhenSynced = true := by decide

end Oxia.C03
