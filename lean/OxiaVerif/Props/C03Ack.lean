/-!
C03 / C01, the follower's acknowledgements: "acknowledgement after WAL sync".

The follower's side of one replication stream after another, as far as acknowledgements go: `appended` is
`lastAppendedOffset`, `synced` is what the WAL reports as its last (synced) offset, `pending` the duplicates that
wait for the sync, `acks` what has been sent to the leader. Steps: an entry is delivered (new, duplicate, or with a
gap: refused), the sync routine runs one round, the stream breaks (and the next one starts).

* `C03_acks_only_for_synced_entries`: with the guard (fact `followerAcksDuplicateOnlyWhenSynced`) every
  acknowledgement ever sent is for an offset the WAL had synced when it was sent - for every sequence of
  deliveries, re-deliveries, sync rounds and broken streams;
* `C03_duplicate_acked_before_sync_without_guard`: without it, an entry delivered, the stream broken before the
  sync, the entry delivered again: acknowledged, not synced (genuine defect D-59, repaired).
-/
namespace Oxia.C03Ack

structure St where
  appended : Int := -1
  synced : Int := -1
  pending : List Int := []
  acks : List Int := []       -- most recent first
  /-- ghost: the synced offset at the moment each acknowledgement was sent -/
  ackedAt : List (Int × Int) := []
  deriving Repr, DecidableEq

inductive Op
  | deliver (o : Int)
  | syncRound
  | streamBreak
  deriving Repr

def newlySynced (s : St) : List Int := (List.range (s.appended - s.synced).toNat).map fun (k : Nat) => s.synced + 1 + (k : Int)

def step (guard : Bool) (s : St) : Op → St
  | .deliver o =>
    if o ≤ s.appended then
      if guard && decide (o > s.synced) then { s with pending := o :: s.pending }
      else { s with acks := o :: s.acks, ackedAt := (o, s.synced) :: s.ackedAt }
    else if o = s.appended + 1 then { s with appended := o }
    else s                                                     -- a gap: the WAL refuses, the stream ends
  | .syncRound =>
    let sent := s.pending ++ (newlySynced s).reverse
    { s with synced := s.appended, pending := [], acks := sent ++ s.acks,
             ackedAt := sent.map (fun o => (o, s.appended)) ++ s.ackedAt }
  | .streamBreak => { s with pending := [] }

def run (guard : Bool) (ops : List Op) : St := ops.foldl (step guard) {}

structure Inv (s : St) : Prop where
  sa : s.synced ≤ s.appended
  pend : ∀ p ∈ s.pending, p ≤ s.appended
  ok : ∀ x ∈ s.ackedAt, x.1 ≤ x.2

theorem newlySynced_le (s : St) : ∀ o ∈ newlySynced s, o ≤ s.appended := by
  intro o ho
  unfold newlySynced at ho
  simp at ho
  obtain ⟨k, hk, rfl⟩ := ho
  omega

theorem step_inv (s : St) (op : Op) (h : Inv s) : Inv (step true s op) := by
  obtain ⟨h1, h2, h3⟩ := h
  cases op with
  | deliver o =>
    unfold step
    by_cases ha : o ≤ s.appended
    · simp only [ha, if_true]
      by_cases hs : o > s.synced
      · simp only [Bool.true_and, hs, decide_true, if_true]
        exact ⟨h1, fun p hp => by simp at hp; rcases hp with rfl | hp; exact ha; exact h2 p hp, h3⟩
      · simp only [Bool.true_and, hs, decide_false, Bool.false_eq_true, if_false]
        exact ⟨h1, h2, fun x hx => by simp at hx; rcases hx with rfl | hx; (simp; omega); exact h3 x hx⟩
    · simp only [ha, if_false]
      by_cases hn : o = s.appended + 1
      · simp only [hn, if_true]
        exact ⟨by simp; omega, fun p hp => by have := h2 p hp; simp; omega, h3⟩
      · simp only [hn, if_false]; exact ⟨h1, h2, h3⟩
  | syncRound =>
    unfold step
    refine ⟨by simp, by simp, ?_⟩
    intro x hx
    simp only [List.mem_append, List.mem_map] at hx
    rcases hx with ⟨o, ho, rfl⟩ | hx
    · simp only [List.mem_reverse] at ho
      rcases ho with ho | ho
      · exact h2 o ho
      · exact newlySynced_le s o ho
    · exact h3 x hx
  | streamBreak => exact ⟨h1, by simp [step], h3⟩

/-- **Every acknowledgement is for a synced entry**: for every sequence of deliveries (new entries, duplicates,
    gaps), sync rounds and broken streams, each acknowledgement was sent for an offset at or below what the WAL had
    synced at that moment. -/
theorem C03_acks_only_for_synced_entries (ops : List Op) : ∀ x ∈ (run true ops).ackedAt, x.1 ≤ x.2 := by
  have : ∀ (l : List Op) (s : St), Inv s → Inv (l.foldl (step true) s) := by
    intro l
    induction l with
    | nil => intro s h; exact h
    | cons op rest ih => intro s h; exact ih _ (step_inv s op h)
  exact (this ops {} ⟨by decide, by simp, by simp⟩).ok

/-- the ghost list records exactly the acknowledgements sent -/
theorem ackedAt_acks (guard : Bool) (ops : List Op) : (run guard ops).ackedAt.map (·.1) = (run guard ops).acks := by
  have : ∀ (l : List Op) (s : St), s.ackedAt.map (·.1) = s.acks →
      (l.foldl (step guard) s).ackedAt.map (·.1) = (l.foldl (step guard) s).acks := by
    intro l
    induction l with
    | nil => intro s h; exact h
    | cons op rest ih =>
      intro s h
      apply ih
      cases op with
      | deliver o =>
        unfold step
        by_cases ha : o ≤ s.appended
        · simp only [ha, if_true]
          by_cases hg : (guard && decide (o > s.synced)) = true
          · simp only [hg, if_true]; exact h
          · simp only [hg]; simp [h]
        · simp only [ha, if_false]
          by_cases hn : o = s.appended + 1
          · simp only [hn, if_true]; exact h
          · simp only [hn, if_false]; exact h
      | syncRound => unfold step; simp [h, List.map_map, Function.comp_def]
      | streamBreak => exact h
  exact this ops {} rfl

/-- **Without the guard**: entry 0 delivered, the stream broken before the sync, entry 0 delivered again: it is
    acknowledged while nothing is synced. With the guard the same run sends nothing until the sync round, then two
    acknowledgements (one per delivery). -/
theorem C03_duplicate_acked_before_sync_without_guard :
    (run false [.deliver 0, .streamBreak, .deliver 0]).ackedAt = [(0, -1)] ∧
    (run true [.deliver 0, .streamBreak, .deliver 0]).acks = [] ∧
    (run true [.deliver 0, .streamBreak, .deliver 0, .syncRound]).ackedAt = [(0, 0), (0, 0)] ∧
    (run true [.deliver 0, .deliver 0, .syncRound, .deliver 1, .syncRound, .deliver 0]).acks = [0, 1, 0, 0] := by decide

end Oxia.C03Ack
