import OxiaVerif.Lemmas.Repl
import OxiaVerif.Facts

/-!
C04 — a fenced node makes no progress in older terms and reports its true head.

On M-Repl: a successful NewTerm leaves the node fenced in the new term with its log untouched and reports
the end of that log; a fenced node refuses client writes; a follower takes appends and truncations only
from the leader of its own term; a leader controller is not turned into a follower by a request of another
term; and a client write that has passed the status check is in the log before the head is read (fact:
NewTerm takes the append lock), so the reported head is final.
-/
namespace Oxia.C04
open Oxia.Repl

/-- **C04 (a)** NewTerm: the node is fenced in the new term, its log is untouched, the head it reports is
    the end of its log, and it never goes to a lower term -/
theorem C04_newterm_fences (w : World) (i : Nat) (t : Int) (h : Int × Int) (hi : i < w.nodes.length)
    (hok : (newTerm w i t).2 = .ok h) :
    (getNode (newTerm w i t).1 i).term = t ∧ (getNode (newTerm w i t).1 i).status = .fenced ∧
    (getNode (newTerm w i t).1 i).log = (getNode w i).log ∧ h = headOf (getNode w i).log ∧
    (getNode w i).term ≤ t ∧ (getNode (newTerm w i t).1 i).cursors = [] ∨
    ((getNode (newTerm w i t).1 i).term = t ∧ (getNode (newTerm w i t).1 i).status = .fenced ∧
     (getNode (newTerm w i t).1 i).log = (getNode w i).log ∧ h = headOf (getNode w i).log ∧ (getNode w i).term ≤ t) := by
  unfold newTerm at hok ⊢
  have hnl : ¬ i ≥ w.nodes.length := by omega
  simp only [hnl, if_false] at hok ⊢
  cases hc : (getNode w i).ctrl with
  | followerC =>
    simp only [hc] at hok ⊢
    by_cases hlt : t < (getNode w i).term
    · simp [hlt] at hok
    · simp only [hlt, if_false] at hok ⊢
      simp only [Except.ok.injEq] at hok
      right
      rw [getNode_setNode_same w i _ hi]
      exact ⟨rfl, rfl, rfl, hok.symm, by omega⟩
  | none =>
    simp only [hc] at hok ⊢
    have ht := toLeaderCtrl_term (getNode w i)
    have hl := toLeaderCtrl_log (getNode w i)
    by_cases hlt : t < (toLeaderCtrl (getNode w i)).term
    · simp [hlt] at hok
    · simp only [hlt, if_false] at hok ⊢
      by_cases hst : t = (toLeaderCtrl (getNode w i)).term ∧ (toLeaderCtrl (getNode w i)).status ≠ .fenced
      · simp [hst] at hok
      · simp only [hst, if_false] at hok ⊢
        simp only [Except.ok.injEq] at hok
        left
        rw [getNode_setNode_same w i _ hi]
        exact ⟨rfl, rfl, hl, by rw [← hl]; exact hok.symm, by rw [ht] at hlt; omega, rfl⟩
  | leaderC =>
    simp only [hc] at hok ⊢
    have ht := toLeaderCtrl_term (getNode w i)
    have hl := toLeaderCtrl_log (getNode w i)
    by_cases hlt : t < (toLeaderCtrl (getNode w i)).term
    · simp [hlt] at hok
    · simp only [hlt, if_false] at hok ⊢
      by_cases hst : t = (toLeaderCtrl (getNode w i)).term ∧ (toLeaderCtrl (getNode w i)).status ≠ .fenced
      · simp [hst] at hok
      · simp only [hst, if_false] at hok ⊢
        simp only [Except.ok.injEq] at hok
        left
        rw [getNode_setNode_same w i _ hi]
        exact ⟨rfl, rfl, hl, by rw [← hl]; exact hok.symm, by rw [ht] at hlt; omega, rfl⟩

/-- **C04 (b)** a lower term is always refused -/
theorem C04_lower_term_refused (w : World) (i : Nat) (t : Int) (hi : i < w.nodes.length)
    (hlt : t < (getNode w i).term) : (newTerm w i t).2 = .error .invalidTerm := by
  unfold newTerm
  have hnl : ¬ i ≥ w.nodes.length := by omega
  simp only [hnl, if_false]
  cases hc : (getNode w i).ctrl with
  | followerC => simp [hlt]
  | none => simp only []; rw [toLeaderCtrl_term]; simp [hlt]
  | leaderC => simp only []; rw [toLeaderCtrl_term]; simp [hlt]

/-- **C04 (c)** a node that is not leader (in particular a fenced one) refuses client writes and nothing changes -/
theorem C04_fenced_refuses_writes (cfg : Cfg) (w : World) (i id : Nat) (hi : i < w.nodes.length)
    (hs : (getNode w i).status ≠ .leader) : write cfg w i id = (w, .error .notLeader) := by
  unfold write
  have hnl : ¬ i ≥ w.nodes.length := by omega
  simp [hnl, hs]

/-- **C04 (d)** appends of a leader of another term are neither stored nor acknowledged -/
theorem C04_no_append_from_other_term (L : List Entry) (t : Int) (fuel : Nat) (ack : Int) (f : Node) (h : t ≠ f.term) :
    pushLoop true L t fuel ack f = (f, ack) := pushLoop_other_term L t fuel ack f h

/-- **C04 (e)** a truncation of another term does not touch the log -/
theorem C04_no_truncate_from_other_term (w : World) (f : Nat) (t upTo : Int) (hf : f < w.nodes.length)
    (h : t ≠ (getNode w f).term) :
    (getNode (truncateFollower Cfg.good w f t upTo).1 f).log = (getNode w f).log ∧
    ∃ e, (truncateFollower Cfg.good w f t upTo).2 = .error e := by
  unfold truncateFollower
  have hnl : ¬ f ≥ w.nodes.length := by omega
  simp only [hnl, if_false]
  cases hc : toFollowerCtrl Cfg.good (getNode w f) t with
  | none => exact ⟨rfl, _, rfl⟩
  | some n =>
    have hterm := toFollowerCtrl_term _ _ _ _ hc
    have hlog := toFollowerCtrl_log _ _ _ _ hc
    simp only [Cfg.good, true_or, and_true]
    by_cases hs : n.status ≠ .fenced
    · rw [if_pos hs]
      rw [getNode_setNode_same w f _ hf]
      exact ⟨hlog, _, rfl⟩
    · rw [if_neg hs]
      have ht : t ≠ n.term := by rw [hterm]; exact h
      rw [if_pos ht]
      rw [getNode_setNode_same w f _ hf]
      exact ⟨hlog, _, rfl⟩

/-- **C04 (f)** a late request of another term cannot turn a leader controller into a follower -/
theorem C04_late_request_cannot_convert (n : Node) (t : Int) (hc : n.ctrl = .leaderC) (ht : 0 ≤ t) (hne : t ≠ n.term) :
    toFollowerCtrl Cfg.good n t = none := toFollowerCtrl_guard n t hc ht hne

/-- **C04 (g)** the head reported to a NewTerm request that races with a client write is the end of the log
    (NewTerm waits for the append: fact) -/
theorem C04_reported_head_is_final (cfg : Cfg) (w : World) (l id : Nat) (t : Int) (h : Int × Int)
    (hl : l < w.nodes.length) (hok : (raceWriteNewTerm cfg true w l id t).2 = .ok h) :
    h = headOf (getNode (raceWriteNewTerm cfg true w l id t).1 l).log := by
  unfold raceWriteNewTerm at hok ⊢
  by_cases hc : (getNode w l).ctrl ≠ .leaderC ∨ (getNode w l).status ≠ .leader
  · simp only [hc, if_true] at hok ⊢
    rcases C04_newterm_fences w l t h hl hok with ⟨_, _, h3, h4, _⟩ | ⟨_, _, h3, h4, _⟩ <;> rw [h3, h4]
  · simp only [hc, if_false, if_true] at hok ⊢
    have hl' : l < (write cfg w l id).1.nodes.length := by
      unfold write
      have hnl : ¬ l ≥ w.nodes.length := by omega
      simp only [hnl, if_false, hc, if_false]
      split <;> simp [settleLeader_length, setNode_length, hl]
    rcases C04_newterm_fences _ l t h hl' hok with ⟨_, _, h3, h4, _⟩ | ⟨_, _, h3, h4, _⟩ <;> rw [h3, h4]

/-- necessity (the defect this check found, D-42, repaired): without the lock the log grows after the head
    was reported -/
example :
    let w : World := { nodes := [{ ctrl := .leaderC, term := 1, status := .leader, log := [⟨1, 0⟩], rf := 1, commit := 0 }] }
    (match (raceWriteNewTerm Cfg.good false w 0 7 2).2 with | .ok h => decide (h = (1, 0)) | .error _ => false) = true ∧
    headOf (getNode (raceWriteNewTerm Cfg.good false w 0 7 2).1 0).log = (1, 1) := by decide

/-- **C04 (h)** the same for a follower that is fenced while an appended entry waits for its sync goroutine:
    with the WAL synced before the head is read (fact), the reported head is the end of the log -/
theorem C04_follower_reported_head_is_final (cfg : Cfg) (w : World) (l f id : Nat) (t : Int) (h : Int × Int)
    (hok : (raceAppendNewTerm cfg true w l f id t).2 = some (.ok h)) :
    h = headOf (getNode (raceAppendNewTerm cfg true w l f id t).1 f).log := by
  unfold raceAppendNewTerm at hok ⊢
  by_cases hc : (getNode w l).ctrl ≠ .leaderC ∨ (getNode w l).status ≠ .leader ∨ (getNode w f).ctrl ≠ .followerC
  · rw [if_pos hc] at hok; cases hok
  · rw [if_neg hc] at hok ⊢
    simp only [] at hok ⊢
    by_cases hc2 : (getNode (write cfg w l id).1 f).log.getLast? ≠ some { term := (getNode (write cfg w l id).1 l).term, id := id } ∨
        (getNode (write cfg w l id).1 f).term ≠ (getNode (write cfg w l id).1 l).term
    · rw [if_pos hc2] at hok; cases hok
    · rw [if_neg hc2] at hok ⊢
      simp only [if_true, Option.some.injEq] at hok ⊢
      generalize hw2 : setNode (write cfg w l id).1 l _ = w2 at hok ⊢
      have hf : f < w2.nodes.length := by
        apply Classical.byContradiction
        intro hno
        unfold newTerm at hok
        rw [if_pos (by omega)] at hok
        cases hok
      rcases C04_newterm_fences w2 f t h hf hok with ⟨_, _, h3, h4, _⟩ | ⟨_, _, h3, h4, _⟩ <;> rw [h3, h4]

/-- necessity (the defect this check found, D-48, repaired): without the sync the entry becomes visible after
    the head was reported -/
theorem C04_follower_head_lags_without_sync :
    let w : World := { nodes := [
      { ctrl := .leaderC, term := 1, status := .leader, log := [⟨1, 0⟩], rf := 3, commit := 0, cursors := [(1, 0), (2, 0)] },
      { ctrl := .followerC, term := 1, status := .follower, log := [⟨1, 0⟩] },
      { ctrl := .followerC, term := 1, status := .follower, log := [⟨1, 0⟩] }] }
    (match (raceAppendNewTerm Cfg.good false w 0 1 7 2).2 with | some (.ok h) => decide (h = (1, 0)) | _ => false) = true ∧
    headOf (getNode (raceAppendNewTerm Cfg.good false w 0 1 7 2).1 1).log = (1, 1) := by decide

theorem C04_on_tree : Facts.newTermRejectsLowerAndPersistsFirst = true ∧ Facts.newTermWaitsForInFlightAppends = true ∧
    Facts.writeChecksLeaderStatusBeforeAlloc = true ∧ Facts.writeHoldsAppendLockAcrossAllocAndAppend = true ∧
    Facts.followerAppendChecksTermAlways = true ∧ Facts.followerTruncateOnlyWhenFenced = true ∧
    Facts.snapshotChunkTermMustEqual = true ∧ Facts.lateRequestCannotConvertLeader = true ∧
    Facts.becomeLeaderOnlyFromFencedSameTerm = true ∧ Facts.followerNewTermSyncsWalBeforeHead = true ∧
    Facts.leaderNewTermSyncsWalBeforeHead = true := by decide

end Oxia.C04
