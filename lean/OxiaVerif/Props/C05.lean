import OxiaVerif.Props.C04

/-!
C05 — election safety: one leader per term, durable monotonic terms, best log wins.

* the term of a node never decreases (every RPC of M-Repl; NewTerm is the only one that changes it, and
  only upwards); durability across restarts is a regenerated fact (the term is written and flushed before
  it is adopted) plus the crash runs of the harness;
* `BecomeLeader` succeeds only on a node fenced in that very term;
* the coordinator's choice (`chooseLeader`, tied to `selectNewLeader` by a fact and by differential runs) is
  a responder whose head entry is maximal among the responders that belong to the ensemble, and an election
  needs answers from a majority of the ensemble plus the nodes being removed;
* the coordinator writes the new term to the metadata store before it sends it (fact).
-/
namespace Oxia.C05
open Oxia.Repl

theorem better_irrefl (a : Int × Int) : better a a = false := by
  unfold better; simp

theorem better_asymm (a b : Int × Int) (h : better a b = true) : better b a = false := by
  unfold better at *
  simp only [decide_eq_true_eq, decide_eq_false_iff_not] at *
  omega

/-- "not higher than" is transitive -/
theorem nb_trans (a b c : Int × Int) (h1 : better a b = false) (h2 : better b c = false) : better a c = false := by
  unfold better at *
  simp only [decide_eq_false_iff_not] at *
  omega

theorem fold_max (cs : List (Nat × (Int × Int))) : ∀ (init : Nat × (Int × Int)),
    (cs.foldl (fun acc x => if better x.2 acc.2 then x else acc) init = init ∨
      cs.foldl (fun acc x => if better x.2 acc.2 then x else acc) init ∈ cs) ∧
    better init.2 (cs.foldl (fun acc x => if better x.2 acc.2 then x else acc) init).2 = false ∧
    ∀ x ∈ cs, better x.2 (cs.foldl (fun acc x => if better x.2 acc.2 then x else acc) init).2 = false := by
  induction cs with
  | nil => intro init; simp [better_irrefl]
  | cons c rest ih =>
    intro init
    simp only [List.foldl_cons]
    obtain ⟨h1, h2, h3⟩ := ih (if better c.2 init.2 then c else init)
    -- init and c are both not higher than the new accumulator
    have hi : better init.2 (if better c.2 init.2 then c else init).2 = false := by
      by_cases hb : better c.2 init.2 = true
      · simp only [hb, if_true]; exact better_asymm _ _ hb
      · simp only [hb]; exact better_irrefl _
    have hc : better c.2 (if better c.2 init.2 then c else init).2 = false := by
      by_cases hb : better c.2 init.2 = true
      · simp only [hb, if_true]; exact better_irrefl _
      · simp only [hb]; simpa using hb
    refine ⟨?_, nb_trans _ _ _ hi h2, ?_⟩
    · rcases h1 with h1 | h1
      · rw [h1]
        by_cases hb : better c.2 init.2 = true
        · simp only [hb, if_true]; exact .inr List.mem_cons_self
        · simp only [hb]; exact .inl (by simp)
      · exact .inr (List.mem_cons_of_mem _ h1)
    · intro x hx
      simp only [List.mem_cons] at hx
      rcases hx with hx | hx
      · rw [hx]; exact nb_trans _ _ _ hc h2
      · exact h3 x hx

/-- **C05 (a)** best log wins: the node the coordinator installs is one of the candidates, and no candidate
    has a higher head entry (term first, then offset) -/
theorem C05_best_log_wins (want : Nat) (cands : List (Nat × (Int × Int))) (best : Nat × (Int × Int))
    (h : chooseLeader want cands = some best) :
    best ∈ cands ∧ ∀ x ∈ cands, better x.2 best.2 = false := by
  unfold chooseLeader at h
  cases cands with
  | nil => cases h
  | cons c cs =>
    simp only [Option.some.injEq] at h
    have hfirst : (match (c :: cs).find? (·.1 = want) with | some x => x | none => c) ∈ c :: cs := by
      cases hf : (c :: cs).find? (·.1 = want) with
      | none => exact List.mem_cons_self
      | some x => exact List.mem_of_find?_eq_some hf
    have hm := fold_max (c :: cs) (match (c :: cs).find? (·.1 = want) with | some x => x | none => c)
    subst h
    refine ⟨?_, hm.2.2⟩
    rcases hm.1 with h1 | h1
    · exact h1 ▸ hfirst
    · exact h1

/-- **C05 (b)** only a node that is fenced in term `t` becomes leader of term `t` -/
theorem C05_become_leader_needs_fenced_same_term (cfg : Cfg) (w : World) (l : Nat) (t : Int) (rf : Nat)
    (fm : List (Nat × (Int × Int))) (hl : l < w.nodes.length)
    (hok : (becomeLeader cfg w l t rf fm).2 = .ok ()) :
    (toLeaderCtrl (getNode w l)).status = .fenced ∧ (getNode w l).term = t := by
  unfold becomeLeader at hok
  have hnl : ¬ l ≥ w.nodes.length := by omega
  simp only [hnl, if_false] at hok
  by_cases h1 : (toLeaderCtrl (getNode w l)).status ≠ .fenced
  · simp [h1] at hok
  · by_cases h2 : t ≠ (toLeaderCtrl (getNode w l)).term
    · simp [h1, h2] at hok
    · refine ⟨by simpa using h1, ?_⟩
      rw [toLeaderCtrl_term] at h2
      simpa [eq_comm] using h2

/-- **C05 (c)** the term of a node never decreases by a NewTerm request, whatever its outcome -/
theorem C05_term_monotone_newterm (w : World) (i j : Nat) (t : Int) (hi : i < w.nodes.length) :
    (getNode w j).term ≤ (getNode (newTerm w i t).1 j).term := by
  by_cases hij : i = j
  · subst hij
    cases hr : (newTerm w i t).2 with
    | ok h =>
      rcases C04.C04_newterm_fences w i t h hi hr with ⟨h1, _, _, _, h5, _⟩ | ⟨h1, _, _, _, h5⟩ <;> rw [h1] <;> exact h5
    | error e =>
      -- refused: only the controller slot may have been created, the term is the stored one
      unfold newTerm
      have hnl : ¬ i ≥ w.nodes.length := by omega
      simp only [hnl, if_false]
      cases hc : (getNode w i).ctrl with
      | followerC =>
        simp only []
        split
        · exact Int.le_refl _
        · rw [getNode_setNode_same w i _ hi]; show _ ≤ t; omega
      | none =>
        simp only []
        split
        · rw [getNode_setNode_same w i _ hi, toLeaderCtrl_term]; exact Int.le_refl _
        · split
          · rw [getNode_setNode_same w i _ hi, toLeaderCtrl_term]; exact Int.le_refl _
          · rw [getNode_setNode_same w i _ hi]; show _ ≤ t
            rename_i h1 _
            rw [toLeaderCtrl_term] at h1; omega
      | leaderC =>
        simp only []
        split
        · rw [getNode_setNode_same w i _ hi, toLeaderCtrl_term]; exact Int.le_refl _
        · split
          · rw [getNode_setNode_same w i _ hi, toLeaderCtrl_term]; exact Int.le_refl _
          · rw [getNode_setNode_same w i _ hi]; show _ ≤ t
            rename_i h1 _
            rw [toLeaderCtrl_term] at h1; omega
  · -- another node is not touched
    have : getNode (newTerm w i t).1 j = getNode w j := by
      unfold newTerm
      have hnl : ¬ i ≥ w.nodes.length := by omega
      simp only [hnl, if_false]
      cases (getNode w i).ctrl <;> simp only [] <;> (repeat' split) <;> first | rfl | exact getNode_setNode_ne w i j _ hij
    rw [this]; exact Int.le_refl _

/-- the streams and truncations never change a node's term -/
theorem C05_term_unchanged_by_stream (ca : Bool) (L : List Entry) (t : Int) (fuel : Nat) (ack : Int) (f : Node) :
    (pushLoop ca L t fuel ack f).1.term = f.term := pushLoop_term ca L t fuel ack f

def swapNode0 : Node := { ctrl := .leaderC, term := 1, status := .leader, log := [⟨1, 100⟩, ⟨1, 101⟩], rf := 3, commit := 1, cursors := [(1, 1), (2, -1)] }
def swapNode1 : Node := { ctrl := .followerC, term := 1, status := .follower, log := [⟨1, 100⟩, ⟨1, 101⟩] }
def swapNode2 : Node := { ctrl := .followerC, term := 1, status := .fenced, log := [] }
def swapWorld : World := { nodes := [swapNode0, swapNode1, swapNode2, {}], cut := [0] }

/-- the node-swap election of known finding D-41, on the model: the removed node n1 holds the acknowledged
    entries, is counted in the fencing majority, but cannot be chosen; the elected leader's log is empty -/
theorem C05_swap_election_counterexample :
    (match (elect Cfg.good true swapWorld 2 2 [0, 2, 3] [1]).2 with | .ok l => decide (l = 2) | .error _ => false) = true ∧
    (getNode (elect Cfg.good true swapWorld 2 2 [0, 2, 3] [1]).1 2).log = [] := by decide

theorem C05_on_tree : Facts.coordinatorPersistsTermBeforeNewTerm = true ∧ Facts.newTermQuorumMajorityOverEnsembleAndRemoved = true ∧
    Facts.selectNewLeaderTakesMaxTermThenOffset = true ∧ Facts.newTermRejectsLowerAndPersistsFirst = true ∧
    Facts.updateTermFlushes = true ∧ Facts.becomeLeaderOnlyFromFencedSameTerm = true ∧
    Facts.lateRequestCannotConvertLeader = true ∧ Facts.snapshotChunkTermMustEqual = true := by decide

end Oxia.C05
