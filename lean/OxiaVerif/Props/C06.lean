import OxiaVerif.Props.C17
import OxiaVerif.Facts

/-!
C06 — replicas are deterministic state machines over the committed log.

In M-Db every effect of an entry is a function of (request, offset, timestamp, prior database), so two
replicas that apply the same entries through the same function agree by construction; what has to be
shown is that the *routes* do not matter:

* a restart (or a role change, which re-opens the database) and the installation of a snapshot rebuild
  the in-memory part of the database — the version-id counter — from what the last committed batch
  persisted; `C06_restart_transparent` shows that this gives back exactly the database that was running,
  after every successful write, and `C06_any_split_same_state` lifts it to every way of cutting the
  application of a log into live application, restarts and snapshot installs;
* every route calls the same function with the entry's own offset and timestamp and the same callback
  chain, and restores the notifications flag of the term: regenerated facts (`C06_on_tree`).
-/
namespace Oxia.C06
open Oxia.Key Oxia.Db Oxia.SKV Oxia.C17

theorem notificationKey_ne_lastVersionId (o : Int) : notificationKey o ≠ lastVersionIdKey := by
  intro h
  have h2 : (notificationKey o).take 8 = lastVersionIdKey.take 8 := by rw [h]
  have h3 : (notificationKey o).take 8 = (str "__oxia/notifications/").take 8 := by
    unfold notificationKey
    rw [List.take_append_of_le_length (by decide)]
  rw [h3] at h2
  revert h2
  decide

/-- the in-memory version counter is what the store says -/
def Consistent (db : Db) (parse : Key → Int) : Prop :=
  (match readAsciiLong db lastVersionIdKey with | some v => parse v | none => -1) = db.tracker

theorem reopen_of_consistent (db : Db) (parse : Key → Int) (h : Consistent db parse) : reopen db parse = db := by
  unfold reopen
  unfold Consistent at h
  cases db with
  | mk st t n =>
    simp only [Db.mk.injEq, true_and, and_true]
    exact h

theorem consistent_empty (parse : Key → Int) : Consistent Db.empty parse := by
  simp [Consistent, readAsciiLong, Db.empty, SKV.get?]

/-- after a successful write the persisted last-version-id is the in-memory counter, and the store is sorted -/
theorem processWrite_consistent (db : Db) (req : WriteReq) (offset : Int) (ts : Nat) (resp : WriteResp)
    (parse : Key → Int) (hp : ∀ n : Int, parse (fmtInt n) = n)
    (hs : Sorted db.store) (h : (processWrite db req offset ts).2 = .ok resp) :
    Sorted (processWrite db req offset ts).1.store ∧ Consistent (processWrite db req offset ts).1 parse := by
  unfold processWrite at h ⊢
  simp only at h ⊢
  cases h1 : foldOps (fun b r => applyPut b r ts) { store := db.store, tracker := db.tracker, notifs := [] } req.puts [] with
  | error e => simp [h1] at h
  | ok p1 =>
    obtain ⟨b1, puts⟩ := p1
    simp only [h1] at h ⊢
    cases h2 : foldOps applyDelete b1 req.dels [] with
    | error e => simp [h2] at h
    | ok p2 =>
      obtain ⟨b2, dels⟩ := p2
      simp only [h2] at h ⊢
      cases h3 : foldOps applyDeleteRange b2 req.ranges [] with
      | error e => simp [h3] at h
      | ok p3 =>
        obtain ⟨b3, ranges⟩ := p3
        simp only [h3] at h ⊢
        have s1 := foldOps_sorted _ (fun b b' x r hb hx => applyPut_sorted hb hx) _ _ _ _ _ hs h1
        have s2 := foldOps_sorted _ (fun b b' x r hb hx => applyDelete_sorted hb hx) _ _ _ _ _ s1 h2
        have s3 := foldOps_sorted _ (fun b b' x r hb hx => applyDeleteRange_sorted hb hx) _ _ _ _ _ s2 h3
        have s4a : Sorted (SKV.insert commitOffsetKey (internalEntry (fmtInt offset) ts) b3.store) := insert_sorted s3
        have s4 : Sorted (SKV.insert lastVersionIdKey (internalEntry (fmtInt b3.tracker) ts)
            (SKV.insert commitOffsetKey (internalEntry (fmtInt offset) ts) b3.store)) := insert_sorted s4a
        have hget : SKV.get? lastVersionIdKey (SKV.insert lastVersionIdKey (internalEntry (fmtInt b3.tracker) ts)
            (SKV.insert commitOffsetKey (internalEntry (fmtInt offset) ts) b3.store)) =
            some (internalEntry (fmtInt b3.tracker) ts) := by
          rw [get?_insert s4a]; simp
        cases hen : db.notificationsEnabled with
        | false =>
          simp only [Bool.false_eq_true, if_false]
          refine ⟨s4, ?_⟩
          unfold Consistent readAsciiLong
          simp only []
          rw [hget]
          simp only [internalEntry, hp]
        | true =>
          simp only [if_true]
          refine ⟨insert_sorted s4, ?_⟩
          have hne : lastVersionIdKey ≠ notificationKey offset := fun e => notificationKey_ne_lastVersionId offset e.symm
          unfold Consistent readAsciiLong
          simp only []
          rw [get?_insert s4, if_neg hne, hget]
          simp only [internalEntry, hp]

/-- **C06 (a)** a restart right after a committed write gives back the running database -/
theorem C06_restart_transparent (db : Db) (req : WriteReq) (offset : Int) (ts : Nat) (resp : WriteResp)
    (parse : Key → Int) (hp : ∀ n : Int, parse (fmtInt n) = n)
    (hs : Sorted db.store) (h : (processWrite db req offset ts).2 = .ok resp) :
    reopen (processWrite db req offset ts).1 parse = (processWrite db req offset ts).1 :=
  reopen_of_consistent _ _ (processWrite_consistent db req offset ts resp parse hp hs h).2

/-! ### every way of splitting the application of a log -/

structure LogEntry where
  req : WriteReq
  offset : Int
  ts : Nat

inductive Step
  | apply (e : LogEntry)      -- live on a leader, follower apply, leader replay: the same function (facts)
  | restart                   -- the process restarts / the role changes: the database is re-opened
  | snapshot                  -- the database is replaced by a snapshot of a replica in the same state

/-- `none` = an entry could not be applied (an infrastructure error, outside the property) -/
def runSteps (parse : Key → Int) : Db → List Step → Option Db
  | db, [] => some db
  | db, .apply e :: r =>
    match (processWrite db e.req e.offset e.ts).2 with
    | .ok _ => runSteps parse (processWrite db e.req e.offset e.ts).1 r
    | .error _ => none
  | db, .restart :: r => runSteps parse (reopen db parse) r
  | db, .snapshot :: r => runSteps parse (reopen db parse) r

def entriesOf : List Step → List Step
  | [] => []
  | .apply e :: r => .apply e :: entriesOf r
  | _ :: r => entriesOf r

/-- **C06 (b)** for every log and every way of splitting its application across live application, replay,
    restarts and snapshot installs, the resulting database (records, versions, modification counts,
    timestamps, session ownership, index entries, sequence keys, notification batches, version counter)
    is the one obtained by applying the entries in one go -/
theorem C06_any_split_same_state (parse : Key → Int) (hp : ∀ n : Int, parse (fmtInt n) = n) (steps : List Step) :
    ∀ db : Db, Sorted db.store → Consistent db parse →
      runSteps parse db steps = runSteps parse db (entriesOf steps) := by
  induction steps with
  | nil => intro db _ _; rfl
  | cons st rest ih =>
    intro db hs hc
    cases st with
    | apply e =>
      simp only [runSteps, entriesOf]
      cases hr : (processWrite db e.req e.offset e.ts).2 with
      | error err => rfl
      | ok resp =>
        simp only []
        obtain ⟨s', c'⟩ := processWrite_consistent db e.req e.offset e.ts resp parse hp hs hr
        exact ih _ s' c'
    | restart =>
      simp only [runSteps, entriesOf]
      rw [reopen_of_consistent db parse hc]
      exact ih db hs hc
    | snapshot =>
      simp only [runSteps, entriesOf]
      rw [reopen_of_consistent db parse hc]
      exact ih db hs hc

/-- in particular two replicas that went through different routes over the same entries agree -/
theorem C06_two_replicas_agree (parse : Key → Int) (hp : ∀ n : Int, parse (fmtInt n) = n)
    (a b : List Step) (hab : entriesOf a = entriesOf b) :
    runSteps parse Db.empty a = runSteps parse Db.empty b := by
  rw [C06_any_split_same_state parse hp a Db.empty (by simp [Db.empty, Sorted]) (consistent_empty parse),
      C06_any_split_same_state parse hp b Db.empty (by simp [Db.empty, Sorted]) (consistent_empty parse), hab]

/-- necessity: if the counter were persisted before the puts of the request advanced it (the seeded
    change), a restart would hand out version ids a second time -/
example : ¬ Consistent { store := [(lastVersionIdKey, internalEntry (fmtInt 3) 0)], tracker := 5, notificationsEnabled := true }
    (fun _ => 3) := by
  unfold Consistent readAsciiLong
  decide

/-! ### the tie to the tree -/

theorem C06_on_tree : Facts.processWriteSingleBatchCommit = true ∧ Facts.versionIdPersistedAfterApply = true ∧
    Facts.leaderLiveUsesWrapperCallbackAndEntryArgs = true ∧ Facts.followerApplyUsesWrapperCallbackAndEntryArgs = true ∧
    Facts.leaderReplayUsesWrapperCallbackAndEntryArgs = true ∧ Facts.followerRestartRestoresNotificationsFlag = true ∧
    Facts.newTermSetsNotificationsFlag = true ∧ Facts.followerApplyResetsPooledEntry = true ∧
    Facts.snapshotInstallReopensDatabase = true := by decide

end Oxia.C06
