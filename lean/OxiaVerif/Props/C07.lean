import OxiaVerif.Props.C06

/-!
C07 — log application is crash-atomic, exactly-once and in order.

A replica's database is written one batch per log entry (effects + commit offset + version counter in the
same batch: fact), Pebble runs without its own WAL, and a crash throws away whatever was not flushed, i.e.
the database falls back to the state after some *whole* number of entries (assumption on Pebble: a flush
is atomic and covers whole batches). The replay then reads the commit offset `c` stored in that database
and applies the log entries with a greater offset, in log order.

* `C07_commit_offset_is_last_applied`: the stored commit offset is the offset of the last applied entry;
* `C07_replay_exactly_once_in_order`: from the state after any `k` entries, the replay applies exactly the
  entries `k, k+1, …` once each, in order, and ends in the state of the whole log — for every `k`, i.e.
  every crash point, and again after every further crash (`C07_repeated_crashes`);
* the commit offset of a crashed database is never ahead of the log it is replayed from
  (`C07_commit_not_ahead_of_log`).
-/
namespace Oxia.C07
open Oxia.Key Oxia.Db Oxia.SKV Oxia.C17 Oxia.C06

theorem notificationKey_ne_commitOffset (o : Int) : notificationKey o ≠ commitOffsetKey := by
  intro h
  have h2 : (notificationKey o).take 8 = commitOffsetKey.take 8 := by rw [h]
  have h3 : (notificationKey o).take 8 = (str "__oxia/notifications/").take 8 := by
    unfold notificationKey
    rw [List.take_append_of_le_length (by decide)]
  rw [h3] at h2
  revert h2
  decide

theorem lastVersionId_ne_commitOffset : lastVersionIdKey ≠ commitOffsetKey := by decide

/-- `db.ReadCommitOffset` -/
def readCommit (db : Db) (parse : Key → Int) : Int :=
  match readAsciiLong db commitOffsetKey with
  | some v => parse v
  | none => -1

/-- **C07 (a)** after a successful write the database says that its commit offset is the entry's offset -/
theorem C07_commit_offset_is_last_applied (db : Db) (req : WriteReq) (offset : Int) (ts : Nat) (resp : WriteResp)
    (parse : Key → Int) (hp : ∀ n : Int, parse (fmtInt n) = n)
    (hs : Sorted db.store) (h : (processWrite db req offset ts).2 = .ok resp) :
    readCommit (processWrite db req offset ts).1 parse = offset := by
  unfold processWrite at h ⊢
  simp only at h ⊢
  cases h1 : foldOps (fun b r => applyPut b r ts) { store := db.store, tracker := db.tracker, notifs := [] } req.puts [] with
  | error e => simp [h1] at h
  | ok p1 =>
    obtain ⟨b1, puts⟩ := p1
    simp only [h1] at h ⊢
    cases h2 : foldOps applyDelete b1 req.dels [] with
    | error e => simp [h2] at h
    | ok p2 =>
      obtain ⟨b2, dels⟩ := p2
      simp only [h2] at h ⊢
      cases h3 : foldOps applyDeleteRange b2 req.ranges [] with
      | error e => simp [h3] at h
      | ok p3 =>
        obtain ⟨b3, ranges⟩ := p3
        simp only [h3] at h ⊢
        have s1 := foldOps_sorted _ (fun b b' x r hb hx => applyPut_sorted hb hx) _ _ _ _ _ hs h1
        have s2 := foldOps_sorted _ (fun b b' x r hb hx => applyDelete_sorted hb hx) _ _ _ _ _ s1 h2
        have s3 := foldOps_sorted _ (fun b b' x r hb hx => applyDeleteRange_sorted hb hx) _ _ _ _ _ s2 h3
        have s4a : Sorted (SKV.insert commitOffsetKey (internalEntry (fmtInt offset) ts) b3.store) := insert_sorted s3
        have s4 : Sorted (SKV.insert lastVersionIdKey (internalEntry (fmtInt b3.tracker) ts)
            (SKV.insert commitOffsetKey (internalEntry (fmtInt offset) ts) b3.store)) := insert_sorted s4a
        have hget : SKV.get? commitOffsetKey (SKV.insert lastVersionIdKey (internalEntry (fmtInt b3.tracker) ts)
            (SKV.insert commitOffsetKey (internalEntry (fmtInt offset) ts) b3.store)) =
            some (internalEntry (fmtInt offset) ts) := by
          rw [get?_insert s4a, if_neg (fun e => lastVersionId_ne_commitOffset e.symm), get?_insert s3]; simp
        cases hen : db.notificationsEnabled with
        | false =>
          simp only [Bool.false_eq_true, if_false]
          unfold readCommit readAsciiLong
          simp only []
          rw [hget]
          simp only [internalEntry, hp]
        | true =>
          simp only [if_true]
          have hne : commitOffsetKey ≠ notificationKey offset := fun e => notificationKey_ne_commitOffset offset e.symm
          unfold readCommit readAsciiLong
          simp only []
          rw [get?_insert s4, if_neg hne, hget]
          simp only [internalEntry, hp]

/-! ### the log and its replay -/

/-- applying a list of entries in order; `none` = an entry cannot be applied (outside the property) -/
def applyAll : Db → List LogEntry → Option Db
  | db, [] => some db
  | db, e :: r =>
    match (processWrite db e.req e.offset e.ts).2 with
    | .ok _ => applyAll (processWrite db e.req e.offset e.ts).1 r
    | .error _ => none

/-- the replay of `leaderController.applyAllEntriesIntoDB` / `followerController.processCommittedEntries`:
    read the commit offset from the database, then apply the entries after it in log order -/
def replay (parse : Key → Int) (db : Db) (log : List LogEntry) : Option Db :=
  applyAll db (log.filter fun e => decide (e.offset > readCommit db parse))

/-- the log holds the offsets `first, first+1, …` (what the WAL guarantees: C09) -/
def Contiguous : Int → List LogEntry → Prop
  | _, [] => True
  | o, e :: r => e.offset = o ∧ Contiguous (o + 1) r

theorem filter_gt_of_contiguous (c : Int) : ∀ (log : List LogEntry) (o : Int), Contiguous o log → c < o →
    log.filter (fun e => decide (e.offset > c)) = log := by
  intro log
  induction log with
  | nil => intro o _ _; rfl
  | cons e r ih =>
    intro o hc hlt
    obtain ⟨h1, h2⟩ := hc
    have : e.offset > c := by omega
    simp only [List.filter_cons, this, decide_true, if_true]
    rw [ih (o + 1) h2 (by omega)]

structure Good (parse : Key → Int) (db : Db) (next : Int) : Prop where
  sorted : Sorted db.store
  consistent : Consistent db parse
  commit : readCommit db parse = next - 1

theorem applyAll_append (db : Db) (a b : List LogEntry) :
    applyAll db (a ++ b) = (applyAll db a).bind fun d => applyAll d b := by
  induction a generalizing db with
  | nil => rfl
  | cons e r ih =>
    simp only [List.cons_append, applyAll]
    cases (processWrite db e.req e.offset e.ts).2 with
    | error _ => rfl
    | ok _ => exact ih _

/-- the state after a prefix of a contiguous log is good: sorted, its version counter and its commit offset
    are those of the last applied entry -/
theorem good_after_prefix (parse : Key → Int) (hp : ∀ n : Int, parse (fmtInt n) = n) :
    ∀ (pre : List LogEntry) (db : Db) (o : Int), Good parse db o → Contiguous o pre →
      ∀ d, applyAll db pre = some d → Good parse d (o + pre.length) := by
  intro pre
  induction pre with
  | nil =>
    intro db o hg _ d hd
    simp only [applyAll, Option.some.injEq] at hd
    subst hd
    simpa using hg
  | cons e r ih =>
    intro db o hg hc d hd
    obtain ⟨h1, h2⟩ := hc
    simp only [applyAll] at hd
    cases hr : (processWrite db e.req e.offset e.ts).2 with
    | error err => rw [hr] at hd; cases hd
    | ok resp =>
      rw [hr] at hd
      simp only [] at hd
      obtain ⟨s', c'⟩ := processWrite_consistent db e.req e.offset e.ts resp parse hp hg.sorted hr
      have hco := C07_commit_offset_is_last_applied db e.req e.offset e.ts resp parse hp hg.sorted hr
      have hg' : Good parse (processWrite db e.req e.offset e.ts).1 (o + 1) := ⟨s', c', by rw [hco, h1]; omega⟩
      have := ih _ (o + 1) hg' h2 d hd
      simp only [List.length_cons]
      have he : o + ((r.length + 1 : Nat) : Int) = o + 1 + (r.length : Int) := by omega
      rw [he]
      exact this

/-- **C07 (b)** crash atomicity + exactly-once + order: whatever prefix of the log the crashed database
    holds (`pre`, any length), the replay applies exactly the remaining entries (`post`), each once, in log
    order — it skips precisely the entries the database already contains — and ends in the state of the
    whole log -/
theorem C07_replay_exactly_once_in_order (parse : Key → Int) (hp : ∀ n : Int, parse (fmtInt n) = n)
    (pre post : List LogEntry) (hc : Contiguous 0 (pre ++ post)) (crashed : Db)
    (hcr : applyAll Db.empty pre = some crashed) :
    (pre ++ post).filter (fun e => decide (e.offset > readCommit crashed parse)) = post ∧
    replay parse crashed (pre ++ post) = applyAll Db.empty (pre ++ post) := by
  have hg0 : Good parse Db.empty 0 := ⟨by simp [Db.empty, Sorted], consistent_empty parse, by
    simp [readCommit, readAsciiLong, Db.empty, SKV.get?]⟩
  have hsplit : ∀ (l : List LogEntry) (o : Int), Contiguous o (l ++ post) → Contiguous o l ∧ Contiguous (o + l.length) post := by
    intro l
    induction l with
    | nil => intro o h; exact ⟨trivial, by simpa using h⟩
    | cons e r ih =>
      intro o h
      obtain ⟨h1, h2⟩ := h
      obtain ⟨i1, i2⟩ := ih (o + 1) h2
      refine ⟨⟨h1, i1⟩, ?_⟩
      simp only [List.length_cons]
      have he : o + ((r.length + 1 : Nat) : Int) = o + 1 + (r.length : Int) := by omega
      rw [he]; exact i2
  obtain ⟨hcpre, hcpost⟩ := hsplit pre 0 hc
  have hg := good_after_prefix parse hp pre Db.empty 0 hg0 hcpre crashed hcr
  have hcommit : readCommit crashed parse = (pre.length : Int) - 1 := by have := hg.commit; omega
  -- entries of the prefix are at or below the commit offset, the others above
  have hpre : ∀ (l : List LogEntry) (o : Int), Contiguous o l → o + l.length - 1 ≤ readCommit crashed parse →
      l.filter (fun e => decide (e.offset > readCommit crashed parse)) = [] := by
    intro l
    induction l with
    | nil => intro o _ _; rfl
    | cons e r ih =>
      intro o h hle
      obtain ⟨h1, h2⟩ := h
      simp only [List.length_cons] at hle
      have : ¬ e.offset > readCommit crashed parse := by omega
      simp only [List.filter_cons, this, decide_false, Bool.false_eq_true, if_false]
      exact ih (o + 1) h2 (by omega)
  have hfilter : (pre ++ post).filter (fun e => decide (e.offset > readCommit crashed parse)) = post := by
    rw [List.filter_append, hpre pre 0 hcpre (by omega),
      filter_gt_of_contiguous _ post _ hcpost (by omega)]
    rfl
  refine ⟨hfilter, ?_⟩
  unfold replay
  rw [hfilter, applyAll_append, hcr]
  rfl

/-- **C07 (c)** the commit offset of the crashed database is never ahead of the log: it is the offset of an
    entry of the log (or -1) -/
theorem C07_commit_not_ahead_of_log (parse : Key → Int) (hp : ∀ n : Int, parse (fmtInt n) = n)
    (pre post : List LogEntry) (hc : Contiguous 0 (pre ++ post)) (crashed : Db)
    (hcr : applyAll Db.empty pre = some crashed) :
    readCommit crashed parse = (pre.length : Int) - 1 ∧ readCommit crashed parse < ((pre ++ post).length : Int) := by
  have hg0 : Good parse Db.empty 0 := ⟨by simp [Db.empty, Sorted], consistent_empty parse, by
    simp [readCommit, readAsciiLong, Db.empty, SKV.get?]⟩
  have hcpre : Contiguous 0 pre := by
    have : ∀ (l : List LogEntry) (o : Int), Contiguous o (l ++ post) → Contiguous o l := by
      intro l
      induction l with
      | nil => intro o _; trivial
      | cons e r ih => intro o h; exact ⟨h.1, ih (o + 1) h.2⟩
    exact this pre 0 hc
  have hg := good_after_prefix parse hp pre Db.empty 0 hg0 hcpre crashed hcr
  have := hg.commit
  simp only [List.length_append]
  omega

/-- **C07 (d)** a second crash during or after the replay is just another prefix: the statement composes -/
theorem C07_repeated_crashes (parse : Key → Int) (hp : ∀ n : Int, parse (fmtInt n) = n)
    (a b c : List LogEntry) (hc : Contiguous 0 (a ++ b ++ c)) (d1 d2 : Db)
    (h1 : applyAll Db.empty a = some d1) (h2 : applyAll d1 b = some d2) :
    replay parse d2 (a ++ b ++ c) = applyAll Db.empty (a ++ b ++ c) := by
  have hab : applyAll Db.empty (a ++ b) = some d2 := by rw [applyAll_append, h1]; exact h2
  exact (C07_replay_exactly_once_in_order parse hp (a ++ b) c hc d2 hab).2

theorem C07_on_tree : Facts.processWriteSingleBatchCommit = true ∧ Facts.versionIdPersistedAfterApply = true ∧
    Facts.leaderReplayStartsAfterDbCommitOffset = true ∧ Facts.followerApplyStartsAfterCommitOffset = true ∧
    Facts.leaderReplayUsesWrapperCallbackAndEntryArgs = true ∧ Facts.followerApplyUsesWrapperCallbackAndEntryArgs = true ∧
    Facts.followerApplyResetsPooledEntry = true ∧ Facts.pebbleRunsWithoutItsOwnWal = true ∧
    Facts.walReaderServesOnlySyncedEntries = true ∧ Facts.trackerCompletesWaitersUnderLock = true ∧
    -- a new leader applies its log only after the whole of it is quorum-committed (an election that fails leaves the database alone)
    Facts.becomeLeaderOnlyFromFencedSameTerm = true := by decide

end Oxia.C07
