/-!
C07, the trimmer and the replay: "replay resumes at exactly c+1", where c is the commit offset stored in the
database *after the crash*, i.e. the one of its last flush.

A node, as far as this is concerned: the offsets its log holds (`first..last`), the commit offset its controller
holds in memory (`commit`), the commit offset of the database's last flush (`flushed`: what a crash falls back to).
Steps: an entry is appended, the commit offset advances, the database is flushed, the trimmer drops a prefix of the
log up to a bound (whole segments: anything up to the bound), the node crashes.

* `C07_replay_possible_with_durable_bound`: when the trimmer is bounded by the *flushed* commit offset, in every
  reachable state the log still holds the entry after the flushed commit offset (`first ≤ flushed + 1`), so the
  replay after a crash can resume there;
* `C07_replay_gap_with_in_memory_bound`: bounded by the commit offset in memory - what the code does (known
  finding D-60; reproduced on real controllers by `c.trimcrash`) - it need not: kernel-checked run.
-/
namespace Oxia.C07Trim

structure St where
  first : Int := 0
  last : Int := -1
  commit : Int := -1
  flushed : Int := -1
  deriving Repr, DecidableEq

inductive Op
  | append
  | commitTo (c : Int)      -- the commit offset the controller learns (clamped to what the log holds)
  | flush
  | trim (upTo : Int)       -- the trimmer drops everything below `upTo`, clamped to its bound
  | crash
  deriving Repr

/-- `durableBound` = the trimmer is bounded by the commit offset of the last flush; otherwise by the one in memory -/
def step (durableBound : Bool) (s : St) : Op → St
  | .append => { s with last := s.last + 1 }
  | .commitTo c => { s with commit := max s.commit (min c s.last) }
  | .flush => { s with flushed := s.commit }
  | .trim upTo =>
    let bound := if durableBound then s.flushed else s.commit
    { s with first := max s.first (min upTo bound) }
  | .crash => { s with commit := s.flushed }

def run (durableBound : Bool) (ops : List Op) : St := ops.foldl (step durableBound) {}

structure Inv (s : St) : Prop where
  fc : s.flushed ≤ s.commit
  cl : s.commit ≤ s.last
  ff : s.first ≤ s.flushed + 1

theorem step_inv (s : St) (op : Op) (h : Inv s) : Inv (step true s op) := by
  obtain ⟨h1, h2, h3⟩ := h
  cases op with
  | append => exact ⟨h1, by simp [step]; omega, h3⟩
  | commitTo c => exact ⟨by simp [step]; omega, by simp [step]; omega, h3⟩
  | flush => exact ⟨by simp [step], h2, by simp [step]; omega⟩
  | trim u => exact ⟨h1, h2, by simp [step]; omega⟩
  | crash => exact ⟨by simp [step], by simp [step]; omega, h3⟩

/-- **With a durable bound the replay can always resume**: in every reachable state - in particular right after a
    crash, when the commit offset is the flushed one - the log holds the entry that follows it (or the log ends
    there). -/
theorem C07_replay_possible_with_durable_bound (ops : List Op) :
    (run true ops).first ≤ (run true ops).flushed + 1 ∧ (run true ops).flushed ≤ (run true ops).commit := by
  have : ∀ (l : List Op) (s : St), Inv s → Inv (l.foldl (step true) s) := by
    intro l
    induction l with
    | nil => intro s h; exact h
    | cons op rest ih => intro s h; exact ih _ (step_inv s op h)
  have h := this ops {} ⟨by decide, by decide, by decide⟩
  exact ⟨h.ff, h.fc⟩

/-- **With the bound in memory it cannot**: twenty entries appended and committed, nothing flushed, the trimmer
    drops the first twelve, a crash: the database is at -1, the log starts at 12. -/
theorem C07_replay_gap_with_in_memory_bound :
    let s := run false ((List.replicate 20 Op.append) ++ [.commitTo 19, .trim 12, .crash])
    s.commit = -1 ∧ s.first = 12 ∧ ¬ (s.first ≤ s.flushed + 1) := by decide

end Oxia.C07Trim
