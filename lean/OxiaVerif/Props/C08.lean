import OxiaVerif.Lemmas.Ack
import OxiaVerif.Facts

/-!
C08 — the leader's write pipeline is order-preserving and does not fail spuriously.

* the quorum-ack tracker: for every sequence of head advances, cursor attachments, acknowledgements (in
  any cross-cursor order, with duplicates) and waits, the commit offset only moves forward, one offset at
  a time, never passes the head, every offset at or below it has been acknowledged by at least RF/2
  distinct cursors, and the next offset has not — i.e. it *equals* the highest offset whose whole prefix
  is on the leader and acknowledged by a quorum;
* waiting writes complete in offset order, each exactly once;
* the pipeline: with the offset allocation and the WAL append in one critical section (fact), for every
  interleaving of writers the WAL receives contiguous offsets and rejects none.
-/
namespace Oxia.C08
open Oxia.Ack

macro "triv" : tactic => `(tactic| first | rfl | trivial)

/-! ### the ghost state: how far each cursor has acknowledged -/

structure GS where
  t : Tracker
  acked : List Int          -- per cursor index: everything up to here has been acknowledged
  deriving Repr

/-- the ghost update of an acknowledgement -/
def ackGhost (acked : List Int) (idx : Nat) (o : Int) : List Int :=
  match acked[idx]? with
  | some a => if o ≤ a then acked else acked.set idx o
  | none => acked

/-- an acknowledgement is *valid* when the cursor exists, acknowledges in order (duplicates and
    re-deliveries allowed) and only entries the leader has -/
def ValidAck (g : GS) (idx : Nat) (o : Int) : Prop :=
  ∃ a, g.acked[idx]? = some a ∧ o ≤ a + 1 ∧ o ≤ g.t.head ∧ idx < 16

structure Inv (c0 : Int) (g : GS) : Prop where
  req_pos : 0 < g.t.required
  commit_le_head : g.t.commit ≤ g.t.head
  c0_le : c0 ≤ g.t.commit
  keys : ∀ o, (lookL g.t.tracker o).isSome = true ↔ (g.t.commit < o ∧ o ≤ g.t.head)
  bits : ∀ o b, lookL g.t.tracker o = some b →
    b.Nodup ∧ (∀ idx, idx ∈ b ↔ ∃ a, g.acked[idx]? = some a ∧ o ≤ a) ∧ b.length < g.t.required
  committed : ∀ o, c0 < o → o ≤ g.t.commit → Quorum g.acked g.t.required o
  noPanic : g.t.panicked = false
  acked_le : ∀ (j : Nat) (a : Int), g.acked[j]? = some a → a ≤ g.t.head

theorem getElemOpt_set_ne (l : List Int) (i j : Nat) (v : Int) (h : i ≠ j) : (l.set i v)[j]? = l[j]? := by
  simp [List.getElem?_set, h]

theorem getElemOpt_set_self (l : List Int) (i : Nat) (v a : Int) (h : l[i]? = some a) : (l.set i v)[i]? = some v := by
  have hlt : i < l.length := by
    rcases Nat.lt_or_ge i l.length with h' | h'
    · exact h'
    · rw [List.getElem?_eq_none h'] at h; cases h
  simp [List.getElem?_set, hlt]

/-- acknowledging more never loses an acknowledgement -/
theorem ackGhost_mono (acked : List Int) (idx : Nat) (o : Int) (j : Nat) (a : Int) (h : acked[j]? = some a) :
    ∃ a', (ackGhost acked idx o)[j]? = some a' ∧ a ≤ a' := by
  unfold ackGhost
  cases hi : acked[idx]? with
  | none => exact ⟨a, h, Int.le_refl _⟩
  | some ai =>
    simp only []
    split
    · exact ⟨a, h, Int.le_refl _⟩
    · next hlt =>
      by_cases hij : idx = j
      · subst hij
        rw [hi] at h; cases h
        exact ⟨o, getElemOpt_set_self _ _ _ _ hi, by omega⟩
      · exact ⟨a, by rw [getElemOpt_set_ne _ _ _ _ hij]; exact h, Int.le_refl _⟩

theorem ackGhost_le (acked : List Int) (idx : Nat) (o H : Int)
    (h : ∀ (j : Nat) (a : Int), acked[j]? = some a → a ≤ H) (ho : o ≤ H) :
    ∀ (j : Nat) (a : Int), (ackGhost acked idx o)[j]? = some a → a ≤ H := by
  intro j a hj
  unfold ackGhost at hj
  cases hi : acked[idx]? with
  | none => rw [hi] at hj; exact h j a hj
  | some ai =>
    rw [hi] at hj
    simp only [] at hj
    split at hj
    · exact h j a hj
    · by_cases hij : idx = j
      · subst hij
        rw [getElemOpt_set_self _ _ _ _ hi] at hj
        cases hj; exact ho
      · rw [getElemOpt_set_ne _ _ _ _ hij] at hj
        exact h j a hj

theorem ackGhost_length (acked : List Int) (idx : Nat) (o : Int) : (ackGhost acked idx o).length = acked.length := by
  unfold ackGhost
  cases acked[idx]? with
  | none => rfl
  | some a => simp only []; split <;> simp

theorem quorum_mono {acked acked' : List Int} {req : Nat} {o : Int}
    (hm : ∀ (j : Nat) (a : Int), acked[j]? = some a → ∃ a' : Int, acked'[j]? = some a' ∧ a ≤ a') (h : Quorum acked req o) :
    Quorum acked' req o := by
  obtain ⟨S, h1, h2, h3⟩ := h
  refine ⟨S, h1, h2, fun idx hi => ?_⟩
  obtain ⟨a, ha, hoa⟩ := h3 idx hi
  obtain ⟨a', ha', hle⟩ := hm idx a ha
  exact ⟨a', ha', by omega⟩

theorem notifyCommit_fields (t : Tracker) (c : Int) :
    (notifyCommit t c).commit = c ∧ (notifyCommit t c).head = t.head ∧ (notifyCommit t c).tracker = t.tracker ∧
    (notifyCommit t c).rf = t.rf ∧ (notifyCommit t c).panicked = t.panicked ∧ (notifyCommit t c).cursorGen = t.cursorGen := by
  simp [notifyCommit]

theorem required_notify (t : Tracker) (c : Int) : (notifyCommit t c).required = t.required := by
  simp [Tracker.required, notifyCommit]

/-- membership in the cursor set of an entry, before and after the ghost update, for entries other than
    the acknowledged one -/
theorem ghost_other (acked : List Int) (idx : Nat) (o a : Int) (ha : acked[idx]? = some a) (hoa : o ≤ a + 1)
    (o' : Int) (hne : o' ≠ o) (j : Nat) :
    (∃ x, (ackGhost acked idx o)[j]? = some x ∧ o' ≤ x) ↔ (∃ x, acked[j]? = some x ∧ o' ≤ x) := by
  unfold ackGhost
  rw [ha]
  simp only []
  split
  · exact Iff.rfl
  · next hlt =>
    by_cases hij : idx = j
    · subst hij
      rw [getElemOpt_set_self _ _ _ _ ha, ha]
      constructor
      · rintro ⟨x, hx, hle⟩; cases hx; exact ⟨a, rfl, by omega⟩
      · rintro ⟨x, hx, hle⟩; cases hx; exact ⟨o, rfl, by omega⟩
    · rw [getElemOpt_set_ne _ _ _ _ hij]

theorem ack_inv (c0 : Int) (g : GS) (idx : Nat) (o : Int) (hI : Inv c0 g) (hv : ValidAck g idx o) :
    Inv c0 ⟨ack g.t idx o, ackGhost g.acked idx o⟩ ∧ g.t.commit ≤ (ack g.t idx o).commit ∧
      (ack g.t idx o).commit ≤ g.t.commit + 1 ∧ (ack g.t idx o).head = g.t.head ∧ (ack g.t idx o).rf = g.t.rf ∧
      (ack g.t idx o).cursorGen = g.t.cursorGen := by
  obtain ⟨a, ha, hoa, hoh, h16⟩ := hv
  have hmono := ackGhost_mono g.acked idx o
  have hle' := ackGhost_le g.acked idx o g.t.head hI.acked_le hoh
  cases hf : g.t.tracker.find? (·.1 = o) with
  | none =>
    have hack : ack g.t idx o = g.t := by unfold ack; rw [hf]
    rw [hack]
    have hnone := find?_none_lookL hf
    -- `o` is not tracked: it is at or below the commit offset
    have hoc : o ≤ g.t.commit := by
      have := (hI.keys o)
      rw [hnone] at this
      simp only [Option.isSome_none, Bool.false_eq_true, false_iff, not_and, Int.not_le] at this
      by_cases h : g.t.commit < o
      · have := this h; omega
      · omega
    refine ⟨⟨hI.req_pos, hI.commit_le_head, hI.c0_le, hI.keys, ?_, ?_, hI.noPanic, hle'⟩, Int.le_refl _, by omega, rfl, rfl, rfl⟩
    · intro o' b hb
      obtain ⟨h1, h2, h3⟩ := hI.bits o' b hb
      refine ⟨h1, fun j => ?_, h3⟩
      have hk := (hI.keys o').1 (by rw [hb]; rfl)
      rw [h2 j]
      exact (ghost_other g.acked idx o a ha hoa o' (by omega) j).symm
    · intro o' h1 h2
      exact quorum_mono hmono (hI.committed o' h1 h2)
  | some e =>
    obtain ⟨he1, hlook⟩ := find?_lookL hf
    obtain ⟨hnd, hmem, hlen⟩ := hI.bits o e.2 hlook
    have hk := (hI.keys o).1 (by rw [hlook]; rfl)
    by_cases hin : idx ∈ e.2
    · -- a duplicate: nothing changes
      obtain ⟨a', ha', hoa'⟩ := (hmem idx).1 hin
      rw [ha] at ha'; cases ha'
      have hg : ackGhost g.acked idx o = g.acked := by unfold ackGhost; rw [ha]; simp [hoa']
      have hcont : e.2.contains idx = true := by simpa using hin
      have hne : ¬ e.2.length = g.t.required := by omega
      have hack : ack g.t idx o = { g.t with tracker := g.t.tracker.map fun x => if x.1 = o then (o, e.2) else x } := by
        unfold ack; rw [hf]; simp [hin, hne, Nat.not_le.2 h16]
      rw [hack, hg]
      have hl : ∀ o', lookL (g.t.tracker.map fun x => if x.1 = o then (o, e.2) else x) o' = lookL g.t.tracker o' := by
        intro o'
        rw [lookL_map_replace]
        by_cases h : o' = o
        · subst h; simp [hlook]
        · simp [h]
      refine ⟨⟨hI.req_pos, hI.commit_le_head, hI.c0_le, ?_, ?_, hI.committed, hI.noPanic, hI.acked_le⟩, Int.le_refl _, (by show g.t.commit ≤ g.t.commit + 1; omega), rfl, rfl, rfl⟩
      · intro o'; simp only [hl]; exact hI.keys o'
      · intro o' b hb; simp only [hl] at hb; exact hI.bits o' b hb
    · -- a new acknowledgement of `o` by this cursor: `o = a + 1`
      have hao : a < o := by
        by_cases h : a < o
        · exact h
        · exact absurd ((hmem idx).2 ⟨a, ha, by omega⟩) hin
      have hg : ackGhost g.acked idx o = g.acked.set idx o := by
        unfold ackGhost; rw [ha]; simp [Int.not_le.2 hao]
      have hcont : e.2.contains idx = false := by simpa using hin
      -- the new cursor set of `o`
      have hnd' : (e.2 ++ [idx]).Nodup := by
        rw [List.nodup_append]
        exact ⟨hnd, by simp, by intro x hx y hy; simp at hy; subst hy; intro h; subst h; exact hin hx⟩
      have hmem' : ∀ j, j ∈ e.2 ++ [idx] ↔ ∃ x, (g.acked.set idx o)[j]? = some x ∧ o ≤ x := by
        intro j
        by_cases hij : idx = j
        · subst hij
          rw [getElemOpt_set_self _ _ _ _ ha]
          simp
        · rw [getElemOpt_set_ne _ _ _ _ hij]
          simp only [List.mem_append, List.mem_singleton]
          rw [hmem j]
          constructor
          · rintro (h | h)
            · exact h
            · exact absurd h.symm hij
          · intro h; exact .inl h
      have hother : ∀ o' b, o' ≠ o → lookL g.t.tracker o' = some b →
          b.Nodup ∧ (∀ j, j ∈ b ↔ ∃ x, (g.acked.set idx o)[j]? = some x ∧ o' ≤ x) ∧ b.length < g.t.required := by
        intro o' b hne hb
        obtain ⟨h1, h2, h3⟩ := hI.bits o' b hb
        refine ⟨h1, fun j => ?_, h3⟩
        rw [h2 j, ← hg]
        exact (ghost_other g.acked idx o a ha hoa o' hne j).symm
      have hmono' : ∀ (j : Nat) (x : Int), g.acked[j]? = some x → ∃ x' : Int, (g.acked.set idx o)[j]? = some x' ∧ x ≤ x' := by
        rw [← hg]; exact hmono
      have hle2 : ∀ (j : Nat) (x : Int), (g.acked.set idx o)[j]? = some x → x ≤ g.t.head := by
        rw [← hg]; exact hle'
      by_cases hq : (e.2 ++ [idx]).length = g.t.required
      · -- the entry reaches the quorum: it must be the first tracked one
        have hfirst : o = g.t.commit + 1 := by
          by_cases hlt : g.t.commit + 1 < o
          · exfalso
            have hsome := (hI.keys (g.t.commit + 1)).2 ⟨by omega, by omega⟩
            cases hl1 : lookL g.t.tracker (g.t.commit + 1) with
            | none => rw [hl1] at hsome; cases hsome
            | some b1 =>
              obtain ⟨_, hm1, hlen1⟩ := hI.bits _ b1 hl1
              have hsub : ∀ j ∈ e.2 ++ [idx], j ∈ b1 := by
                intro j hj
                simp only [List.mem_append, List.mem_singleton] at hj
                rcases hj with hj | hj
                · obtain ⟨x, hx, hle⟩ := (hmem j).1 hj
                  exact (hm1 j).2 ⟨x, hx, by omega⟩
                · subst hj; exact (hm1 j).2 ⟨a, ha, by omega⟩
              have := List.Nodup.length_le_of_subset hnd' hsub
              omega
          · omega
        have hack : ack g.t idx o = notifyCommit { g.t with tracker := g.t.tracker.filter (·.1 ≠ o) } o := by
          unfold ack; rw [hf]; simp only [Nat.not_le.2 h16, if_false, hcont]
          simp only [Bool.false_eq_true, if_false, hq, if_true]
        rw [hack, hg]
        obtain ⟨n1, n2, n3, n4, n5, n6⟩ := notifyCommit_fields { g.t with tracker := g.t.tracker.filter (·.1 ≠ o) } o
        have hreq : (notifyCommit { g.t with tracker := g.t.tracker.filter (·.1 ≠ o) } o).required = g.t.required := by
          rw [required_notify]; rfl
        refine ⟨⟨by rw [hreq]; exact hI.req_pos, by rw [n1, n2]; exact hoh, by rw [n1]; have := hI.c0_le; omega,
          ?_, ?_, ?_, by rw [n5]; exact hI.noPanic, by rw [n2]; exact hle2⟩, by rw [n1]; omega, by rw [n1]; omega, n2, n4, n6⟩
        · intro o'
          rw [n1, n2, n3]
          show (lookL (g.t.tracker.filter (·.1 ≠ o)) o').isSome = true ↔ _
          rw [lookL_filter_ne]
          by_cases h : o' = o
          · subst h; simp
          · simp only [h, if_false]
            rw [hI.keys o']
            show (g.t.commit < o' ∧ o' ≤ g.t.head) ↔ (o < o' ∧ o' ≤ g.t.head)
            constructor
            · rintro ⟨h1, h2⟩; exact ⟨by omega, h2⟩
            · rintro ⟨h1, h2⟩; exact ⟨by omega, h2⟩
        · intro o' b hb
          rw [n3] at hb
          have hb' : lookL (g.t.tracker.filter (·.1 ≠ o)) o' = some b := hb
          rw [lookL_filter_ne] at hb'
          by_cases h : o' = o
          · simp [h] at hb'
          · simp only [h, if_false] at hb'
            rw [hreq]
            exact hother o' b h hb'
        · intro o' h1 h2
          rw [n1] at h2
          rw [hreq]
          by_cases h : o' = o
          · subst h
            exact ⟨e.2 ++ [idx], hnd', by omega, fun j hj => (hmem' j).1 hj⟩
          · exact quorum_mono hmono' (hI.committed o' h1 (by omega))
      · have hack : ack g.t idx o =
            { g.t with tracker := g.t.tracker.map fun x => if x.1 = o then (o, e.2 ++ [idx]) else x } := by
          unfold ack; rw [hf]; simp only [Nat.not_le.2 h16, if_false, hcont]
          simp only [Bool.false_eq_true, if_false, hq]
        rw [hack, hg]
        refine ⟨⟨hI.req_pos, hI.commit_le_head, hI.c0_le, ?_, ?_, ?_, hI.noPanic, hle2⟩, Int.le_refl _,
          (by show g.t.commit ≤ g.t.commit + 1; omega), rfl, rfl, rfl⟩
        · intro o'
          show (lookL (g.t.tracker.map fun x => if x.1 = o then (o, e.2 ++ [idx]) else x) o').isSome = true ↔ _
          rw [lookL_map_replace]
          by_cases h : o' = o
          · subst h; simp only [if_true, hlook, Option.map_some, Option.isSome_some, true_iff]; exact hk
          · simp only [h, if_false]; exact hI.keys o'
        · intro o' b hb
          have hb' : lookL (g.t.tracker.map fun x => if x.1 = o then (o, e.2 ++ [idx]) else x) o' = some b := hb
          rw [lookL_map_replace] at hb'
          by_cases h : o' = o
          · subst h
            simp only [if_true, hlook, Option.map_some, Option.some.injEq] at hb'
            subst hb'
            refine ⟨hnd', hmem', ?_⟩
            show (e.2 ++ [idx]).length < g.t.required
            simp only [List.length_append, List.length_singleton] at hq ⊢
            omega
          · simp only [h, if_false] at hb'
            exact hother o' b h hb'
        · intro o' h1 h2
          exact quorum_mono hmono' (hI.committed o' h1 h2)

theorem advanceHead_inv (c0 : Int) (g : GS) (h : Int) (hI : Inv c0 g) (hv : h ≤ g.t.head + 1) :
    Inv c0 ⟨advanceHead g.t h, g.acked⟩ ∧ (advanceHead g.t h).commit = g.t.commit ∧
      g.t.head ≤ (advanceHead g.t h).head ∧ (advanceHead g.t h).rf = g.t.rf ∧
      (advanceHead g.t h).cursorGen = g.t.cursorGen := by
  unfold advanceHead
  by_cases hle : h ≤ g.t.head
  · simp only [hle, if_true]
    exact ⟨hI, by triv, Int.le_refl _, by triv, by triv⟩
  · have hreq : ¬ g.t.required = 0 := by have := hI.req_pos; omega
    simp only [hle, if_false, hreq]
    have hh : h = g.t.head + 1 := by omega
    refine ⟨⟨hI.req_pos, (by show g.t.commit ≤ h; have := hI.commit_le_head; omega), hI.c0_le, ?_, ?_, hI.committed,
      hI.noPanic, ?_⟩, by triv, (by show g.t.head ≤ h; omega), by triv, by triv⟩
    · intro o
      show (lookL (g.t.tracker ++ [(h, [])]) o).isSome = true ↔ (g.t.commit < o ∧ o ≤ h)
      rw [lookL_append_single]
      cases hl : lookL g.t.tracker o with
      | some x =>
        have := (hI.keys o).1 (by rw [hl]; rfl)
        simp only [Option.isSome_some, true_iff]
        exact ⟨this.1, by omega⟩
      | none =>
        have hk := hI.keys o
        rw [hl] at hk
        simp only [Option.isSome_none, Bool.false_eq_true, false_iff, not_and, Int.not_le] at hk
        simp only []
        by_cases ho : o = h
        · subst ho
          simp only [if_true, Option.isSome_some, true_iff]
          have := hI.commit_le_head
          exact ⟨by omega, Int.le_refl _⟩
        · simp only [ho, if_false, Option.isSome_none, Bool.false_eq_true, false_iff, not_and, Int.not_le]
          intro h1
          have := hk h1
          omega
    · intro o b hb
      have hb' : lookL (g.t.tracker ++ [(h, [])]) o = some b := hb
      rw [lookL_append_single] at hb'
      cases hl : lookL g.t.tracker o with
      | some x =>
        rw [hl] at hb'
        simp only [Option.some.injEq] at hb'
        subst hb'
        exact hI.bits o x hl
      | none =>
        rw [hl] at hb'
        simp only [] at hb'
        by_cases ho : o = h
        · subst ho
          simp only [if_true, Option.some.injEq] at hb'
          subst hb'
          refine ⟨List.nodup_nil, fun idx => ?_, hI.req_pos⟩
          simp only [List.not_mem_nil, false_iff, not_exists, not_and, Int.not_le]
          intro a ha
          have := hI.acked_le idx a ha
          omega
        · simp [ho] at hb'
    · intro j a ha
      have := hI.acked_le j a ha
      show a ≤ h
      omega

theorem waitAsync_inv (c0 : Int) (g : GS) (o : Int) (id : Nat) (hI : Inv c0 g) :
    Inv c0 ⟨waitAsync g.t o id, g.acked⟩ ∧ (waitAsync g.t o id).commit = g.t.commit ∧
      (waitAsync g.t o id).head = g.t.head ∧ (waitAsync g.t o id).rf = g.t.rf ∧
      (waitAsync g.t o id).cursorGen = g.t.cursorGen := by
  unfold waitAsync
  split
  · refine ⟨⟨hI.req_pos, hI.commit_le_head, hI.c0_le, hI.keys, hI.bits, hI.committed, hI.noPanic, hI.acked_le⟩, ?_, ?_, ?_, ?_⟩ <;>
      first | rfl | trivial
  · refine ⟨⟨hI.req_pos, hI.commit_le_head, hI.c0_le, hI.keys, hI.bits, hI.committed, hI.noPanic, hI.acked_le⟩, ?_, ?_, ?_, ?_⟩ <;>
      first | rfl | trivial

/-- the ghost side of the loop in `NewCursorAcker` -/
def ghostRange (acked : List Int) (idx : Nat) (from_ : Int) : Nat → List Int
  | 0 => acked
  | n + 1 => ghostRange (ackGhost acked idx from_) idx (from_ + 1) n

theorem ackRange_inv (c0 : Int) (idx : Nat) (h16 : idx < 16) : ∀ (n : Nat) (g : GS) (from_ : Int),
    Inv c0 g → g.acked[idx]? = some (from_ - 1) → from_ - 1 + n ≤ g.t.head →
    Inv c0 ⟨ackRange g.t idx from_ n, ghostRange g.acked idx from_ n⟩ ∧
      g.t.commit ≤ (ackRange g.t idx from_ n).commit ∧ (ackRange g.t idx from_ n).head = g.t.head ∧
      (ackRange g.t idx from_ n).rf = g.t.rf ∧ (ackRange g.t idx from_ n).cursorGen = g.t.cursorGen ∧
      (ghostRange g.acked idx from_ n).length = g.acked.length := by
  intro n
  induction n with
  | zero =>
    intro g from_ hI _ _
    exact ⟨hI, Int.le_refl _, rfl, rfl, rfl, rfl⟩
  | succ n ih =>
    intro g from_ hI ha hle
    simp only [ackRange, ghostRange]
    have hv : ValidAck g idx from_ := ⟨from_ - 1, ha, by omega, by omega, h16⟩
    obtain ⟨hI', hc1, _, hh, hrf, hcg⟩ := ack_inv c0 g idx from_ hI hv
    have ha' : (ackGhost g.acked idx from_)[idx]? = some (from_ + 1 - 1) := by
      unfold ackGhost; rw [ha]
      have : ¬ from_ ≤ from_ - 1 := by omega
      simp only [this, if_false]
      rw [getElemOpt_set_self _ _ _ _ ha]
      congr 1; omega
    have := ih ⟨ack g.t idx from_, ackGhost g.acked idx from_⟩ (from_ + 1) hI' ha'
      (by show from_ + 1 - 1 + ↑n ≤ (ack g.t idx from_).head; rw [hh]; omega)
    obtain ⟨i1, i2, i3, i4, i5, i6⟩ := this
    refine ⟨i1, ?_, ?_, ?_, ?_, ?_⟩
    · exact Int.le_trans hc1 i2
    · rw [i3, hh]
    · rw [i4, hrf]
    · rw [i5, hcg]
    · rw [i6]; exact ackGhost_length _ _ _

/-- the ghost state after `NewCursorAcker(a)`: the new cursor has acknowledged everything up to `a` -/
def newCursorGhost (g : GS) (a : Int) : List Int :=
  ghostRange (g.acked ++ [min a g.t.commit]) g.t.cursorGen (g.t.commit + 1) (a - g.t.commit).toNat

theorem getElemOpt_append_last (l : List Int) (v : Int) : (l ++ [v])[l.length]? = some v := by simp

theorem newCursor_inv (c0 : Int) (g : GS) (a : Int) (hI : Inv c0 g) (hlen : g.acked.length = g.t.cursorGen)
    (h16 : g.t.rf ≤ 17) (t' : Tracker) (i : Nat) (hok : newCursor g.t a = .ok (t', i)) :
    Inv c0 ⟨t', newCursorGhost g a⟩ ∧ g.t.commit ≤ t'.commit ∧ t'.head = g.t.head ∧ t'.rf = g.t.rf ∧
      (newCursorGhost g a).length = t'.cursorGen := by
  unfold newCursor at hok
  by_cases h1 : g.t.cursorGen + 1 ≥ g.t.rf
  · simp [h1] at hok
  · by_cases h2 : a > g.t.head
    · simp [h1, h2] at hok
    · simp only [h1, h2, if_false, Except.ok.injEq, Prod.mk.injEq] at hok
      obtain ⟨ht, _⟩ := hok
      subst ht
      -- the new cursor joins with "acknowledged up to min a commit"
      let g0 : GS := ⟨g.t, g.acked ++ [min a g.t.commit]⟩
      have hI0 : Inv c0 g0 := by
        refine ⟨hI.req_pos, hI.commit_le_head, hI.c0_le, hI.keys, ?_, ?_, hI.noPanic, ?_⟩
        · intro o b hb
          obtain ⟨b1, b2, b3⟩ := hI.bits o b hb
          have hk := (hI.keys o).1 (by rw [hb]; rfl)
          refine ⟨b1, fun j => ?_, b3⟩
          rw [b2 j]
          show (∃ x, g.acked[j]? = some x ∧ o ≤ x) ↔ (∃ x, (g.acked ++ [min a g.t.commit])[j]? = some x ∧ o ≤ x)
          by_cases hj : j < g.acked.length
          · rw [List.getElem?_append_left hj]
          · constructor
            · rintro ⟨x, hx, _⟩
              rw [List.getElem?_eq_none (by omega)] at hx; cases hx
            · rintro ⟨x, hx, hox⟩
              rw [List.getElem?_append_right (by omega)] at hx
              by_cases hj0 : j - g.acked.length = 0
              · rw [hj0] at hx
                simp only [List.getElem?_cons_zero, Option.some.injEq] at hx
                omega
              · have : (([min a g.t.commit] : List Int))[j - g.acked.length]? = none := by
                  apply List.getElem?_eq_none; simp; omega
                rw [this] at hx; cases hx
        · intro o h1 h2
          refine quorum_mono (fun j x hx => ⟨x, ?_, Int.le_refl _⟩) (hI.committed o h1 h2)
          show (g.acked ++ [min a g.t.commit])[j]? = some x
          have hj : j < g.acked.length := by
            rcases Nat.lt_or_ge j g.acked.length with h | h
            · exact h
            · rw [List.getElem?_eq_none h] at hx; cases hx
          rw [List.getElem?_append_left hj]; exact hx
        · intro j x hx
          have hx' : (g.acked ++ [min a g.t.commit])[j]? = some x := hx
          by_cases hj : j < g.acked.length
          · rw [List.getElem?_append_left hj] at hx'; exact hI.acked_le j x hx'
          · rw [List.getElem?_append_right (by omega)] at hx'
            by_cases hj0 : j - g.acked.length = 0
            · rw [hj0] at hx'
              simp only [List.getElem?_cons_zero, Option.some.injEq] at hx'
              have := hI.commit_le_head
              show x ≤ g.t.head
              omega
            · have : (([min a g.t.commit] : List Int))[j - g.acked.length]? = none := by
                apply List.getElem?_eq_none; simp; omega
              rw [this] at hx'; cases hx'
      by_cases hac : a ≤ g.t.commit
      · -- nothing to acknowledge
        have hn : (a - g.t.commit).toNat = 0 := by omega
        simp only [newCursorGhost, hn, ackRange, ghostRange]
        refine ⟨?_, Int.le_refl _, by triv, by triv, by simp [hlen]⟩
        exact ⟨hI0.req_pos, hI0.commit_le_head, hI0.c0_le, hI0.keys, hI0.bits, hI0.committed, hI0.noPanic, hI0.acked_le⟩
      · have hmin : min a g.t.commit = g.t.commit := by omega
        have hidx : g.t.cursorGen < 16 := by omega
        have ha0 : g0.acked[g.t.cursorGen]? = some (g.t.commit + 1 - 1) := by
          show (g.acked ++ [min a g.t.commit])[g.t.cursorGen]? = _
          rw [← hlen, getElemOpt_append_last, hmin]; congr 1; omega
        have := ackRange_inv c0 g.t.cursorGen hidx (a - g.t.commit).toNat g0 (g.t.commit + 1) hI0 ha0
          (by show g.t.commit + 1 - 1 + ↑(a - g.t.commit).toNat ≤ g.t.head; omega)
        obtain ⟨i1, i2, i3, i4, i5, i6⟩ := this
        refine ⟨?_, i2, i3, i4, ?_⟩
        · exact ⟨i1.req_pos, i1.commit_le_head, i1.c0_le, i1.keys, i1.bits, i1.committed, i1.noPanic, i1.acked_le⟩
        · show (ghostRange (g.acked ++ [min a g.t.commit]) g.t.cursorGen (g.t.commit + 1) (a - g.t.commit).toNat).length = _
          rw [i6]
          show (g.acked ++ [min a g.t.commit]).length = g.t.cursorGen + 1
          simp [hlen]

/-! ### runs of the tracker -/

inductive TEv
  | advanceHead (h : Int)
  | ack (idx : Nat) (o : Int)
  | newCursor (a : Int)
  | wait (o : Int) (id : Nat)
  deriving DecidableEq, Repr

def gstep (g : GS) : TEv → GS
  | .advanceHead h => ⟨advanceHead g.t h, g.acked⟩
  | .ack idx o => ⟨ack g.t idx o, ackGhost g.acked idx o⟩
  | .newCursor a =>
    match newCursor g.t a with
    | .ok (t', _) => ⟨t', newCursorGhost g a⟩
    | .error _ => g
  | .wait o id => ⟨waitAsync g.t o id, g.acked⟩

/-- what the environment may do: the head advances one entry at a time (the sync callbacks run in
    append order), cursors acknowledge in order (with duplicates) and only entries the leader has -/
def ValidEv (g : GS) : TEv → Prop
  | .advanceHead h => h ≤ g.t.head + 1
  | .ack idx o => ValidAck g idx o
  | .newCursor _ => True
  | .wait _ _ => True

def ValidRun : GS → List TEv → Prop
  | _, [] => True
  | g, e :: rest => ValidEv g e ∧ ValidRun (gstep g e) rest

structure Inv' (c0 : Int) (g : GS) : Prop where
  inv : Inv c0 g
  len : g.acked.length = g.t.cursorGen
  rf_le : g.t.rf ≤ 17

theorem gstep_inv (c0 : Int) (g : GS) (e : TEv) (hI : Inv' c0 g) (hv : ValidEv g e) :
    Inv' c0 (gstep g e) ∧ g.t.commit ≤ (gstep g e).t.commit := by
  cases e with
  | advanceHead h =>
    obtain ⟨h1, h2, _, h4, h5⟩ := advanceHead_inv c0 g h hI.inv hv
    exact ⟨⟨h1, by show g.acked.length = (advanceHead g.t h).cursorGen; rw [h5]; exact hI.len, by show (advanceHead g.t h).rf ≤ 17; rw [h4]; exact hI.rf_le⟩,
      by show g.t.commit ≤ (advanceHead g.t h).commit; rw [h2]; exact Int.le_refl _⟩
  | ack idx o =>
    obtain ⟨h1, h2, _, _, h5, h6⟩ := ack_inv c0 g idx o hI.inv hv
    exact ⟨⟨h1, by show (ackGhost g.acked idx o).length = (ack g.t idx o).cursorGen; rw [ackGhost_length, h6]; exact hI.len,
      by show (ack g.t idx o).rf ≤ 17; rw [h5]; exact hI.rf_le⟩, h2⟩
  | newCursor a =>
    simp only [gstep]
    cases hn : newCursor g.t a with
    | error e => exact ⟨hI, Int.le_refl _⟩
    | ok r =>
      obtain ⟨t', i⟩ := r
      obtain ⟨h1, h2, _, h4, h5⟩ := newCursor_inv c0 g a hI.inv hI.len hI.rf_le t' i hn
      exact ⟨⟨h1, h5, by show t'.rf ≤ 17; rw [h4]; exact hI.rf_le⟩, h2⟩
  | wait o id =>
    obtain ⟨h1, h2, _, h4, h5⟩ := waitAsync_inv c0 g o id hI.inv
    exact ⟨⟨h1, by show g.acked.length = (waitAsync g.t o id).cursorGen; rw [h5]; exact hI.len, by show (waitAsync g.t o id).rf ≤ 17; rw [h4]; exact hI.rf_le⟩,
      by show g.t.commit ≤ (waitAsync g.t o id).commit; rw [h2]; exact Int.le_refl _⟩

def grun (g : GS) (evs : List TEv) : GS := evs.foldl gstep g

theorem grun_inv (c0 : Int) (evs : List TEv) : ∀ (g : GS), Inv' c0 g → ValidRun g evs →
    Inv' c0 (grun g evs) ∧ g.t.commit ≤ (grun g evs).t.commit := by
  induction evs with
  | nil => intro g h _; exact ⟨h, Int.le_refl _⟩
  | cons e rest ih =>
    intro g hI hv
    obtain ⟨h1, h2⟩ := gstep_inv c0 g e hI hv.1
    obtain ⟨h3, h4⟩ := ih (gstep g e) h1 hv.2
    exact ⟨h3, Int.le_trans h2 h4⟩

/-! #### the initial state -/

theorem init_look (c0 : Int) (o : Int) : ∀ n : Nat,
    lookL ((List.range n).map fun (i : Nat) => (c0 + 1 + (i : Int), ([] : List Nat))) o =
      if c0 < o ∧ o ≤ c0 + n then some [] else none := by
  intro n
  induction n with
  | zero =>
    have : ¬ (c0 < o ∧ o ≤ c0 + ((0 : Nat) : Int)) := by omega
    simp [lookL, this]
  | succ n ih =>
    have hc : ((n + 1 : Nat) : Int) = (n : Int) + 1 := by omega
    rw [List.range_succ, List.map_append, List.map_singleton, lookL_append_single, ih, hc]
    by_cases h1 : c0 < o ∧ o ≤ c0 + n
    · have h3 : c0 < o ∧ o ≤ c0 + ((n : Int) + 1) := ⟨h1.1, by omega⟩
      rw [if_pos h1, if_pos h3]
    · rw [if_neg h1]
      by_cases h2 : o = c0 + 1 + n
      · have h3 : c0 < o ∧ o ≤ c0 + ((n : Int) + 1) := ⟨by omega, by omega⟩
        rw [if_pos h3]; simp only []; rw [if_pos h2]
      · have h3 : ¬ (c0 < o ∧ o ≤ c0 + ((n : Int) + 1)) := by omega
        rw [if_neg h3]; simp only []; rw [if_neg h2]

theorem init_inv (rf : Nat) (h0 c0 : Int) (hrf : 2 ≤ rf) (hrf' : rf ≤ 17) (hc : c0 ≤ h0) :
    Inv' c0 ⟨Tracker.new rf h0 c0, []⟩ := by
  have hlook : ∀ o, lookL (Tracker.new rf h0 c0).tracker o = if c0 < o ∧ o ≤ h0 then some [] else none := by
    intro o
    show lookL ((List.range (h0 - c0).toNat).map fun (i : Nat) => (c0 + 1 + (i : Int), ([] : List Nat))) o = _
    rw [init_look]
    have : c0 + ((h0 - c0).toNat : Int) = h0 := by omega
    rw [this]
  have hreq : 0 < (Tracker.new rf h0 c0).required := by
    show 0 < rf / 2
    omega
  refine ⟨⟨hreq, hc, Int.le_refl _, ?_, ?_, ?_, rfl, ?_⟩, rfl, hrf'⟩
  · intro o
    rw [hlook]
    show _ ↔ (c0 < o ∧ o ≤ h0)
    by_cases h : c0 < o ∧ o ≤ h0 <;> simp [h]
  · intro o b hb
    rw [hlook] at hb
    by_cases h : c0 < o ∧ o ≤ h0
    · simp only [h, and_self, if_true, Option.some.injEq] at hb
      subst hb
      exact ⟨List.nodup_nil, fun idx => by simp, hreq⟩
    · simp [h] at hb
  · intro o h1 h2
    have h2' : o ≤ c0 := h2
    omega
  · intro j a ha
    simp at ha

/-- **C08 (a)** the commit offset of the quorum-ack tracker, for every valid run (any interleaving of
    head advances, cursor attachments, acknowledgements in any cross-cursor order with duplicates, and
    waits), RF 2..17:
    * never moves backwards (see `C08_commit_monotone`) and never passes the head,
    * every offset above the initial commit offset and at or below it has been acknowledged by at least
      RF/2 distinct cursors,
    * and the next offset has not (so it *is* the highest such offset),
    * the bitset never overflows. -/
theorem C08_commit_offset_is_quorum_prefix (rf : Nat) (h0 c0 : Int) (hrf : 2 ≤ rf) (hrf' : rf ≤ 17) (hc : c0 ≤ h0)
    (evs : List TEv) (hv : ValidRun ⟨Tracker.new rf h0 c0, []⟩ evs) :
    ∀ g, g = grun ⟨Tracker.new rf h0 c0, []⟩ evs →
    c0 ≤ g.t.commit ∧ g.t.commit ≤ g.t.head ∧
    (∀ o, c0 < o → o ≤ g.t.commit → Quorum g.acked g.t.required o) ∧
    (g.t.commit < g.t.head → ¬ Quorum g.acked g.t.required (g.t.commit + 1)) ∧
    g.t.panicked = false := by
  intro g hg
  obtain ⟨hI, hmono⟩ := grun_inv c0 evs _ (init_inv rf h0 c0 hrf hrf' hc) hv
  rw [← hg] at hI hmono
  have hmono : c0 ≤ g.t.commit := hmono
  refine ⟨hmono, hI.inv.commit_le_head, hI.inv.committed, ?_, hI.inv.noPanic⟩
  intro hlt hq
  have hsome := (hI.inv.keys (g.t.commit + 1)).2 ⟨by omega, by omega⟩
  cases hl : lookL g.t.tracker (g.t.commit + 1) with
  | none => rw [hl] at hsome; cases hsome
  | some b =>
    obtain ⟨_, hm, hlen⟩ := hI.inv.bits _ b hl
    obtain ⟨S, hS1, hS2, hS3⟩ := hq
    have := List.Nodup.length_le_of_subset hS1 (fun j hj => (hm j).2 (hS3 j hj))
    omega

/-- the commit offset never moves backwards, at any step of any valid run -/
theorem C08_commit_monotone (rf : Nat) (h0 c0 : Int) (hrf : 2 ≤ rf) (hrf' : rf ≤ 17) (hc : c0 ≤ h0)
    (evs : List TEv) (e : TEv) (hv : ValidRun ⟨Tracker.new rf h0 c0, []⟩ (evs ++ [e])) :
    (grun ⟨Tracker.new rf h0 c0, []⟩ evs).t.commit ≤ (grun ⟨Tracker.new rf h0 c0, []⟩ (evs ++ [e])).t.commit := by
  have hsplit : ∀ (g : GS) (l : List TEv), ValidRun g (l ++ [e]) → ValidRun g l ∧ ValidEv (grun g l) e := by
    intro g l
    induction l generalizing g with
    | nil => intro h; exact ⟨trivial, h.1⟩
    | cons x xs ih =>
      intro h
      obtain ⟨h1, h2⟩ := ih (gstep g x) h.2
      exact ⟨⟨h.1, h1⟩, h2⟩
  obtain ⟨hv1, hv2⟩ := hsplit _ evs hv
  obtain ⟨hI, _⟩ := grun_inv c0 evs _ (init_inv rf h0 c0 hrf hrf' hc) hv1
  have := (gstep_inv c0 _ e hI hv2).2
  simpa [grun, List.foldl_append] using this

/-- necessity of the in-order hypothesis: acknowledgements out of order would move the commit offset backwards -/
example : ((ack (ack (advanceHead (advanceHead (Tracker.new 3 (-1) (-1)) 0) 1) 0 1) 0 0).commit,
           (ack (advanceHead (advanceHead (Tracker.new 3 (-1) (-1)) 0) 1) 0 1).commit) = (0, 1) := by decide

/-- an acknowledgement that overtakes the leader's own head advance is dropped: the entry then stays
    uncommitted although the leader and a follower have it (see DESIGN.md, finding D-33) -/
example : (advanceHead (ack (advanceHead (Tracker.new 3 (-1) (-1)) 0) 0 1) 1).commit = -1 ∧
          (ack (advanceHead (ack (advanceHead (Tracker.new 3 (-1) (-1)) 0) 0 1) 1) 0 1).commit = 1 := by decide

/-! ### waiting writes -/

theorem drain_split (c : Int) (w : List (Int × Nat)) :
    (drainWaiting c w).2 ++ (drainWaiting c w).1.map (·.2) = w.map (·.2) ∧
    (∀ x ∈ w, x.2 ∈ (drainWaiting c w).2 → x.1 ≤ c ∨ ∃ y ∈ w, y.2 = x.2 ∧ y.1 ≤ c) := by
  induction w with
  | nil => simp [drainWaiting]
  | cons x rest ih =>
    obtain ⟨m, id⟩ := x
    by_cases h : m > c
    · simp [drainWaiting, h]
    · have hle : m ≤ c := by omega
      simp only [drainWaiting, h, if_false, List.map_cons, List.cons_append]
      refine ⟨by rw [ih.1], ?_⟩
      intro y hy hyd
      simp only [List.mem_cons] at hy hyd
      rcases hyd with hyd | hyd
      · exact .inr ⟨(m, id), by simp, hyd.symm, hle⟩
      · rcases hy with hy | hy
        · subst hy; exact .inl hle
        · rcases ih.2 y hy hyd with h1 | ⟨z, hz, hz2, hz3⟩
          · exact .inl h1
          · exact .inr ⟨z, List.mem_cons_of_mem _ hz, hz2, hz3⟩

/-- ids that have completed followed by ids still waiting -/
def accountedW (t : Tracker) : List Nat := t.completed ++ t.waiting.map (·.2)

theorem notifyCommit_accounted (t : Tracker) (c : Int) : accountedW (notifyCommit t c) = accountedW t := by
  simp only [accountedW, notifyCommit, List.append_assoc]
  rw [(drain_split c t.waiting).1]

theorem ack_accounted (t : Tracker) (idx : Nat) (o : Int) : accountedW (ack t idx o) = accountedW t := by
  unfold ack
  split
  · rfl
  · split
    · rfl
    · simp only []
      split <;> split <;> first | rfl | (rw [notifyCommit_accounted]; rfl)

theorem ackRange_accounted (idx : Nat) : ∀ (n : Nat) (t : Tracker) (f : Int), accountedW (ackRange t idx f n) = accountedW t := by
  intro n
  induction n with
  | zero => intro t f; rfl
  | succ n ih => intro t f; simp only [ackRange]; rw [ih, ack_accounted]

theorem advanceHead_accounted (t : Tracker) (h : Int) : accountedW (advanceHead t h) = accountedW t := by
  unfold advanceHead
  split
  · rfl
  · split
    · rw [notifyCommit_accounted]; rfl
    · rfl

/-- a tracker run without ghost state or validity requirement -/
def tstep (t : Tracker) : TEv → Tracker
  | .advanceHead h => advanceHead t h
  | .ack idx o => ack t idx o
  | .newCursor a => match newCursor t a with
    | .ok (t', _) => t'
    | .error _ => t
  | .wait o id => waitAsync t o id

def waitIds : List TEv → List Nat
  | [] => []
  | .wait _ id :: r => id :: waitIds r
  | _ :: r => waitIds r

theorem newCursor_accounted (t : Tracker) (a : Int) (t' : Tracker) (i : Nat) (hn : newCursor t a = .ok (t', i)) :
    accountedW t' = accountedW t := by
  unfold newCursor at hn
  split at hn
  · cases hn
  · split at hn
    · cases hn
    · simp only [Except.ok.injEq, Prod.mk.injEq] at hn
      rw [← hn.1]
      exact ackRange_accounted t.cursorGen (a - t.commit).toNat t (t.commit + 1)

theorem tstep_accounted (t : Tracker) (e : TEv) : (accountedW (tstep t e)).Perm (accountedW t ++ waitIds [e]) := by
  cases e with
  | advanceHead h => simp [tstep, waitIds, advanceHead_accounted]
  | ack idx o => simp [tstep, waitIds, ack_accounted]
  | newCursor a =>
    simp only [tstep, waitIds, List.append_nil]
    cases hn : newCursor t a with
    | error e => exact List.Perm.refl _
    | ok r =>
      obtain ⟨t', i⟩ := r
      simp only []
      rw [newCursor_accounted t a t' i hn]
  | wait o id =>
    simp only [tstep, waitIds]
    by_cases h : t.required = 0 ∨ t.commit ≥ o
    · have : waitAsync t o id = { t with completed := t.completed ++ [id] } := by unfold waitAsync; rw [if_pos h]
      rw [this]
      show (t.completed ++ [id] ++ t.waiting.map (·.2)).Perm (t.completed ++ t.waiting.map (·.2) ++ [id])
      rw [List.append_assoc, List.append_assoc]
      exact List.Perm.append_left _ (by simpa using (List.perm_append_comm (l₁ := [id]) (l₂ := t.waiting.map (·.2))))
    · have : waitAsync t o id = { t with waiting := t.waiting ++ [(o, id)] } := by unfold waitAsync; rw [if_neg h]
      rw [this]
      show (t.completed ++ (t.waiting ++ [(o, id)]).map (·.2)).Perm (t.completed ++ t.waiting.map (·.2) ++ [id])
      simp

theorem waitIds_append (a b : List TEv) : waitIds (a ++ b) = waitIds a ++ waitIds b := by
  induction a with
  | nil => rfl
  | cons e r ih => cases e <;> simp [waitIds, ih]

/-- **C08 (b)** every waiting write is accounted for exactly once, whatever happens: after any sequence of
    events on the tracker (valid or not), the callbacks completed so far together with those still
    waiting are a permutation of the callbacks registered — none is lost, none completes twice. -/
theorem C08_waiters_complete_exactly_once (t0 : Tracker) (evs : List TEv) :
    (accountedW (evs.foldl tstep t0)).Perm (accountedW t0 ++ waitIds evs) := by
  induction evs generalizing t0 with
  | nil => simp [waitIds]
  | cons e r ih =>
    simp only [List.foldl_cons]
    refine (ih (tstep t0 e)).trans ?_
    have := tstep_accounted t0 e
    have h2 : waitIds (e :: r) = waitIds [e] ++ waitIds r := by
      have := waitIds_append [e] r; simpa using this
    rw [h2, ← List.append_assoc]
    exact List.Perm.append_right _ this

/-- a write completes only once its offset is committed: what `notifyCommitOffsetAdvanced` completes is at
    or below the new commit offset, and the waiting list is consumed from the front, i.e. in registration
    (= offset) order -/
theorem C08_completion_order (c : Int) (w : List (Int × Nat)) :
    ∃ k, (drainWaiting c w).2 = (w.take k).map (·.2) ∧ (drainWaiting c w).1 = w.drop k ∧
      (∀ x ∈ w.take k, x.1 ≤ c) := by
  induction w with
  | nil => exact ⟨0, by simp [drainWaiting]⟩
  | cons x rest ih =>
    obtain ⟨m, id⟩ := x
    by_cases h : m > c
    · exact ⟨0, by simp [drainWaiting, h]⟩
    · obtain ⟨k, h1, h2, h3⟩ := ih
      refine ⟨k + 1, by simp [drainWaiting, h, h1], by simp [drainWaiting, h, h2], ?_⟩
      intro y hy
      simp only [List.take_succ_cons, List.mem_cons] at hy
      rcases hy with hy | hy
      · subst hy; show m ≤ c; omega
      · exact h3 y hy

/-! ### the write pipeline -/

theorem notifyCommit_next (t : Tracker) (c : Int) : (notifyCommit t c).next = t.next := rfl

theorem ack_next (t : Tracker) (idx : Nat) (o : Int) : (ack t idx o).next = t.next := by
  unfold ack
  split
  · rfl
  · split
    · rfl
    · simp only []
      split <;> split <;> rfl

theorem ackRange_next (idx : Nat) : ∀ (n : Nat) (t : Tracker) (f : Int), (ackRange t idx f n).next = t.next := by
  intro n
  induction n with
  | zero => intro t f; rfl
  | succ n ih => intro t f; simp only [ackRange]; rw [ih, ack_next]

theorem advanceHead_next (t : Tracker) (h : Int) : (advanceHead t h).next = t.next := by
  unfold advanceHead
  split
  · rfl
  · split <;> rfl

theorem waitAsync_next (t : Tracker) (o : Int) (id : Nat) : (waitAsync t o id).next = t.next := by
  unfold waitAsync; split <;> rfl

theorem syncCallbacks_next : ∀ (l : List (Int × Nat)) (t : Tracker), (syncCallbacks t l).next = t.next := by
  intro l
  induction l with
  | nil => intro t; rfl
  | cons x rest ih =>
    intro t
    obtain ⟨o, w⟩ := x
    simp only [syncCallbacks]
    rw [ih, waitAsync_next, advanceHead_next]

/-- events of a pipeline in which allocation and append are one critical section -/
def Atomic : PEv → Prop
  | .alloc _ => False
  | .append _ => False
  | _ => True

structure PInv (h0 : Int) (p : Pipe) : Prop where
  next_eq : p.t.next = p.walLast
  failed_nil : p.failed = []
  last : p.walLast = h0 + p.appended.length
  contiguous : p.appended.map (·.1) = (List.range p.appended.length).map fun (i : Nat) => h0 + 1 + (i : Int)

theorem pstep_inv (h0 : Int) (p : Pipe) (e : PEv) (ha : Atomic e) (hI : PInv h0 p) : PInv h0 (pstep p e) := by
  cases e with
  | alloc w => exact absurd ha (by simp [Atomic])
  | append w => exact absurd ha (by simp [Atomic])
  | write w =>
    simp only [pstep, nextOffset, appendWal]
    have hne : ¬ (p.walLast ≠ -1 ∧ p.t.next + 1 ≠ p.walLast + 1) := by
      rw [hI.next_eq]; omega
    simp only [hne, if_false]
    refine ⟨by show p.t.next + 1 = p.t.next + 1; rfl, hI.failed_nil, ?_, ?_⟩
    · show p.t.next + 1 = h0 + ((p.appended ++ [(p.t.next + 1, w)]).length : Int)
      rw [hI.next_eq, hI.last]; simp; omega
    · show (p.appended ++ [(p.t.next + 1, w)]).map (·.1) = _
      rw [List.map_append, hI.contiguous]
      simp only [List.map_cons, List.map_nil, List.length_append, List.length_singleton, List.range_succ, List.map_append]
      rw [hI.next_eq, hI.last]
      congr 2; omega
  | sync =>
    simp only [pstep]
    exact ⟨by show (syncCallbacks p.t p.pendingSync).next = p.walLast; rw [syncCallbacks_next]; exact hI.next_eq,
      hI.failed_nil, hI.last, hI.contiguous⟩
  | ack idx o =>
    simp only [pstep]
    exact ⟨by show (ack p.t idx o).next = p.walLast; rw [ack_next]; exact hI.next_eq, hI.failed_nil, hI.last, hI.contiguous⟩
  | newCursor a =>
    simp only [pstep]
    cases hn : newCursor p.t a with
    | error e => exact hI
    | ok r =>
      obtain ⟨t', i⟩ := r
      simp only []
      have : t'.next = p.t.next := by
        unfold newCursor at hn
        split at hn
        · cases hn
        · split at hn
          · cases hn
          · simp only [Except.ok.injEq, Prod.mk.injEq] at hn
            rw [← hn.1]
            show (ackRange p.t p.t.cursorGen (p.t.commit + 1) (a - p.t.commit).toNat).next = _
            rw [ackRange_next]
      exact ⟨by show t'.next = p.walLast; rw [this]; exact hI.next_eq, hI.failed_nil, hI.last, hI.contiguous⟩

/-- **C08 (c)** with the offset allocation and the WAL append in one critical section (the fact read from
    `leaderController.write`), for every interleaving of any number of writers with sync completions,
    acknowledgements and cursor attachments: no append is rejected, every writer gets a distinct offset,
    and the WAL receives the offsets `head+1, head+2, …` contiguously, in allocation order. -/
theorem C08_pipeline_contiguous (rf : Nat) (h0 c0 : Int) (evs : List PEv) (ha : ∀ e ∈ evs, Atomic e) :
    (prun (Pipe.new rf h0 c0) evs).failed = [] ∧
    (prun (Pipe.new rf h0 c0) evs).appended.map (·.1) =
      (List.range (prun (Pipe.new rf h0 c0) evs).appended.length).map (fun (i : Nat) => h0 + 1 + (i : Int)) := by
  have h0I : PInv h0 (Pipe.new rf h0 c0) := ⟨rfl, rfl, by simp [Pipe.new], by simp [Pipe.new]⟩
  suffices h : ∀ p, PInv h0 p → PInv h0 (prun p evs) from ⟨(h _ h0I).failed_nil, (h _ h0I).contiguous⟩
  induction evs with
  | nil => intro p hp; exact hp
  | cons e r ih =>
    intro p hp
    exact ih (fun x hx => ha x (List.mem_cons_of_mem _ hx)) _ (pstep_inv h0 p e (ha e List.mem_cons_self) hp)

/-- necessity (the defect this check found, D-1, repaired): with allocation and append as separate steps
    two writers can reach the WAL in the wrong order; the second is rejected, and so is every later write -/
example : (prun (Pipe.new 1 0 0) [.alloc 1, .alloc 2, .append 2, .append 1, .write 3, .write 4]).failed = [2, 3, 4] := by decide

/-! ### the tie to the tree -/

theorem C08_on_tree : Facts.writeHoldsAppendLockAcrossAllocAndAppend = true ∧ Facts.writeChecksLeaderStatusBeforeAlloc = true ∧
    Facts.trackerCommitsAtRequiredAcks = true ∧ Facts.walRejectsNonContiguousOffsets = true ∧
    Facts.walSyncCallbacksOnlyForFlushedEntries = true ∧
    Facts.trackerCompletesWaitersUnderLock = true ∧ Facts.walSyncToleratesRollover = true ∧
    Facts.walRolloverFlushesSegment = true := by decide

end Oxia.C08
