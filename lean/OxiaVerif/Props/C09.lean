import OxiaVerif.Lemmas.Wal
import OxiaVerif.Facts

/-!
# C09 — The WAL is a faithful, contiguous, durable sequence

`SW` (M-SegWal) is the executable model of `server/wal` that the correspondence check runs against
the real WAL on generated operation sequences (segment sizes 64 B … 64 KiB, entries sized to land
on, before and after segment boundaries).  The theorems below relate it to the list view
`SW.ents` for **every** operation sequence and every segment/entry size.

Scope (stated, not hidden):
* proved: structural invariant for every reachable state; append = "add exactly this entry at the
  end", accepted exactly at `last+1`; truncate reports/stores the new last offset on all paths (needs
  the `truncFix` fact; counterexample without it = defect D-2); trim drops only whole read-only
  segments from the front, never moves the first offset above the commit offset, never backwards;
* `C09_refines_list_partial`: reads (`readAt`, forward/reverse readers) are tied to the list view
  only through the correspondence check, not by a theorem yet; the age clause of trimming
  (monotone timestamps) likewise.
* hypothesis `Fits`: an entry (header + marshalled size) fits an empty segment.  Oversized entries
  make the real WAL roll over an empty segment onto itself; they are excluded from the generator and
  from the theorem (64 MiB default segments vs. the gRPC message limit).
-/
namespace Oxia.C09
open Oxia.Wal

/-- operations of the WAL API (errors leave the state unchanged) -/
inductive Op
  | append (e : Entry)
  | sync
  | clear
  | truncate (o : Int)
  | trim (now commit : Int)
  | rawTrim (o : Int)

def step (c : Cfg) (ret : Int) (w : SW) : Op → SW
  | .append e => match w.appendAsync c e with | .ok w' => w' | .error _ => w
  | .sync => w.sync
  | .clear => w.clear
  | .truncate o => if -1 ≤ o then (match w.truncate c o with | .ok (w', _) => w' | .error _ => w) else w
  | .trim now commit => match w.doTrim now ret commit with | .ok w' => w' | .error _ => w
  | .rawTrim o => w.trim o

def run (c : Cfg) (ret : Int) (ops : List Op) : SW := ops.foldl (step c ret) SW.init

/-- Every reachable state satisfies the structural invariant (all operation sequences, all sizes). -/
theorem C09_reachable_inv (c : Cfg) (hfix : c.truncFix = true) (ret : Int) (ops : List Op) :
    Wal.Inv (run c ret ops) := by
  unfold run
  suffices h : ∀ w, Wal.Inv w → Wal.Inv (ops.foldl (step c ret) w) from h _ Inv_init
  induction ops with
  | nil => intro w hw; exact hw
  | cons op ops ih =>
    intro w hw
    apply ih
    cases op with
    | append e =>
      simp only [step]
      cases h : w.appendAsync c e with
      | ok w' => exact (appendAsync_ok hw h).2.1
      | error _ => exact hw
    | sync => exact sync_inv hw
    | clear => exact clear_inv w
    | truncate o =>
      simp only [step]
      split
      · rename_i ho
        cases h : w.truncate c o with
        | ok p => obtain ⟨w', r⟩ := p; exact (truncate_ok hw hfix ho h).1
        | error _ => exact hw
      · exact hw
    | trim now commit =>
      simp only [step]
      cases h : w.doTrim now ret commit with
      | ok w' => exact doTrim_inv hw h
      | error _ => exact hw
    | rawTrim o => exact trim_inv o hw

/-- **append is exact**: in every reachable state a successful append adds exactly that entry
    (offset, term, timestamp, payload identity, size) at the end of the log and nothing else changes
    in the log; what was synced stays synced. -/
theorem C09_append_exact (c : Cfg) (hfix : c.truncFix = true) (ret : Int) (ops : List Op) (e : Entry) (w' : SW)
    (h : (run c ret ops).appendAsync c e = .ok w') :
    w'.ents = (run c ret ops).ents ++ [e] ∧ w'.appended = e.offset ∧ w'.synced = (run c ret ops).synced :=
  let r := appendAsync_ok (C09_reachable_inv c hfix ret ops) h
  ⟨r.1, r.2.2.1, r.2.2.2.2.2⟩

/-- **next append exactly at last+1**: accepted there (for an entry that fits), rejected anywhere else. -/
theorem C09_append_accept_iff (c : Cfg) (hfix : c.truncFix = true) (ret : Int) (ops : List Op) (e : Entry)
    (hs : e.size ≠ 0) (hf : Fits c e) (hne : (run c ret ops).appended ≠ -1) :
    (∃ w', (run c ret ops).appendAsync c e = .ok w') ↔ e.offset = (run c ret ops).appended + 1 := by
  constructor
  · rintro ⟨w', h⟩
    exact (appendAsync_ok (C09_reachable_inv c hfix ret ops) h).2.2.2.2.1 hne
  · intro h
    exact appendAsync_accepts (C09_reachable_inv c hfix ret ops) hs hf (.inr ⟨hne, h⟩)

/-- an empty log accepts any non-negative first offset -/
theorem C09_append_accept_empty (c : Cfg) (hfix : c.truncFix = true) (ret : Int) (ops : List Op) (e : Entry)
    (hs : e.size ≠ 0) (hf : Fits c e) (he : (run c ret ops).appended = -1) (h0 : 0 ≤ e.offset) :
    ∃ w', (run c ret ops).appendAsync c e = .ok w' :=
  appendAsync_accepts (C09_reachable_inv c hfix ret ops) hs hf (.inl ⟨he, h0⟩)

/-- **truncate reports correctly**: the returned offset is the requested one (or `-1` when nothing at
    or below it is retained), and it is the offset the WAL then reports and appends after. -/
theorem C09_truncate_reports_last (c : Cfg) (hfix : c.truncFix = true) (ret : Int) (ops : List Op) (o r : Int)
    (w' : SW) (ho : -1 ≤ o) (hne : (run c ret ops).appended ≠ -1)
    (h : (run c ret ops).truncate c o = .ok (w', r)) :
    (r = o ∨ r = -1) ∧ w'.appended = r ∧ w'.synced = r :=
  let t := truncate_ok (C09_reachable_inv c hfix ret ops) hfix ho h
  ⟨t.2.2.2, t.2.1, t.2.2.1 hne⟩

/-- without the stores on the read-only-segment path the last offset stays stale (defect D-2) -/
theorem C09_truncate_counterexample_without_fix :
    ∃ (c : Cfg) (w w' : SW), c.truncFix = false ∧ w.truncate c 0 = .ok (w', 0) ∧ w'.synced ≠ 0 := by
  obtain ⟨w', h1, h2, _⟩ := truncate_stale_without_fix
  exact ⟨_, _, w', rfl, h1, by rw [h2]; decide⟩

/-- **trim bounds**: a trimming round never moves the first offset above the commit offset, never
    backwards, never touches the current segment or the last offsets, and what it drops is a prefix
    of whole read-only segments. -/
theorem C09_trim_bounds (c : Cfg) (ret : Int) (ops : List Op) (now commit : Int) (w' : SW)
    (h : (run c ret ops).doTrim now ret commit = .ok w') :
    w'.first ≤ max (run c ret ops).first commit ∧ (run c ret ops).first ≤ w'.first ∧
    w'.cur = (run c ret ops).cur ∧ w'.appended = (run c ret ops).appended ∧ w'.synced = (run c ret ops).synced :=
  doTrim_bound h

theorem C09_trim_whole_segment_prefix (c : Cfg) (hfix : c.truncFix = true) (ret : Int) (ops : List Op) (o : Int) :
    ∃ dropped, (run c ret ops).ro = dropped ++ ((run c ret ops).trim o).ro := by
  have hi := C09_reachable_inv c hfix ret ops
  unfold SW.trim
  split
  · exact ⟨[], by simp⟩
  · exact trimSegments_suffix _ _ o hi.ro

/-- sync makes everything appended visible as synced and changes nothing else -/
theorem C09_sync (w : SW) : w.sync.synced = w.appended ∧ w.sync.ents = w.ents := ⟨rfl, rfl⟩

theorem C09_clear (w : SW) : w.clear.ents = [] ∧ w.clear.appended = -1 ∧ w.clear.first = -1 := ⟨rfl, rfl, rfl⟩

-- non-vacuity: a concrete three-entry history over two segments reaches a state with the invariant,
-- a rollover, and an accepted next offset
example :
    let c : Cfg := { segmentSize := 40, headerSize := 12, truncFix := true }
    let e (o : Int) : Entry := { offset := o, term := 1, ts := 0, size := 8, id := 7 }
    let w := run c 100 [.append (e 0), .append (e 1), .append (e 2), .sync]
    w.ro.length = 1 ∧ w.appended = 2 ∧ w.synced = 2 ∧ w.ents.length = 3 := by decide

end Oxia.C09
