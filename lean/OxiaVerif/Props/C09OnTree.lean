import OxiaVerif.Props.C09
/-! The obligations that tie C09 to the current tree: the configuration the model is run with in the
correspondence check is the one read from the source (`Facts`), and it satisfies the hypotheses of
the theorems. -/
namespace Oxia.C09
open Oxia.Wal

def treeCfg (segmentSize : Nat) : Cfg :=
  { segmentSize := segmentSize, headerSize := Facts.codecV2HeaderSize, truncFix := Facts.walTruncateUpdatesOffsetsOnAllPaths }

theorem C09_on_tree_truncate_paths : Facts.walTruncateUpdatesOffsetsOnAllPaths = true := by decide
theorem C09_on_tree_header_known : Facts.codecV2HeaderSizeKnown = true := by decide
theorem C09_on_tree_last_offset_is_synced : Facts.walLastOffsetIsSynced = true := by decide

theorem C09_on_tree (segmentSize : Nat) (ret : Int) (ops : List Op) : Wal.Inv (run (treeCfg segmentSize) ret ops) :=
  C09_reachable_inv _ C09_on_tree_truncate_paths ret ops

end Oxia.C09
