import OxiaVerif.Model.Codec
import OxiaVerif.Facts

/-!
# C10 — WAL recovery after crash or corruption yields a clean prefix or an error

Theorems about M-Codec (`Codec.readHeader`, `readRecord`, `recoverIndex`: the model of
`ReadHeaderWithValidation`, `ReadRecordWithValidation`, `RecoverIndex` of both on-disk formats, tied
to the real codecs by byte-level differential runs on damaged segment images).

Proved here, for **every** buffer content, length (< 2^32), start offset and commit offset:
* recovery and record reads never panic (given the two facts read from the source: the bound check is
  overflow-free and the remaining length is checked before the size field is read);
* with either fact false there is a concrete buffer on which the model panics (these are the witnesses
  of defect D-3 that the harness replays on the real code);
* what recovery returns is a *clean prefix*: every returned index entry is the start of a record
  that passes header validation (hence CRC validation in format v2), the entries are contiguous from
  the start offset, and `newFileOffset` is the end of the last one.
`_partial`: "every synced entry is among the recovered ones" and "nothing fabricated" are checked on the
real code by the property oracle of the harness (original image vs. recovered records), not by a
theorem yet; CRC collision resistance is out of scope (a checksum cannot detect everything).
-/
namespace Oxia.C10
open Oxia.Codec

def Safe (c : Cfg) : Prop := c.overflowSafe = true ∧ c.readGuarded = true

theorem readInt_some {buf : List Nat} {off : Nat} (h : off + 4 ≤ buf.length) : ∃ x, readInt buf off = some x := by
  unfold readInt; simp [h]

theorem tooBig_false {c : Cfg} (h1 : c.overflowSafe = true) {actual x : Nat} (h : tooBig c actual x = false) :
    c.header ≤ actual ∧ x ≤ actual - c.header := by
  unfold tooBig at h
  simp [h1] at h
  omega

theorem readV2Rest_never_panics (crc : Crc) (buf : List Nat) (start x : Nat) (hlen : buf.length < U32)
    (hb : 12 ≤ buf.length - start ∧ x ≤ buf.length - start - 12) (hs : start < buf.length) :
    readV2Rest crc buf start x ≠ .panic := by
  unfold readV2Rest
  obtain ⟨p, hp⟩ := readInt_some (buf := buf) (off := start + 4) (by omega)
  obtain ⟨q, hq⟩ := readInt_some (buf := buf) (off := start + 8) (by omega)
  rw [hp, hq]
  simp only
  have hmod : (start + 12 + x) % U32 = start + 12 + x := Nat.mod_eq_of_lt (by unfold U32 at *; omega)
  rw [hmod]
  have : ¬ ((decide (start + 12 > start + 12 + x) || decide (start + 12 + x > buf.length)) = true) := by
    simp; omega
  simp only [this]
  simp only [Bool.false_eq_true, if_false]
  split <;> simp

theorem readV2Rest_ok {crc : Crc} {buf : List Nat} {start x : Nat} {h : Header}
    (hok : readV2Rest crc buf start x = .ok h) : h.payloadSize = x := by
  unfold readV2Rest at hok
  cases hp : readInt buf (start + 4) <;> cases hq : readInt buf (start + 8) <;> rw [hp, hq] at hok <;>
    simp only at hok
  all_goals try (simp at hok)
  split at hok
  · simp at hok
  · split at hok
    · simp at hok; subst hok; rfl
    · simp at hok

theorem readAfterSize_never_panics (c : Cfg) (h1 : c.overflowSafe = true) (crc : Crc) (buf : List Nat)
    (start x : Nat) (hlen : buf.length < U32) (hs : start < buf.length) :
    readAfterSize c crc buf start x ≠ .panic := by
  unfold readAfterSize
  split
  · simp
  · cases htb : tooBig c (buf.length - start) x with
    | true => simp
    | false =>
      simp only [Bool.false_eq_true, if_false]
      split
      · simp
      · rename_i hv2
        have hh : c.header = 12 := by unfold Cfg.header; simp at hv2; simp [hv2]
        have hb := tooBig_false h1 htb
        rw [hh] at hb
        exact readV2Rest_never_panics crc buf start x hlen hb hs

theorem readAfterSize_ok_bounds {c : Cfg} (h1 : c.overflowSafe = true) {crc : Crc} {buf : List Nat}
    {start x : Nat} {h : Header} (hok : readAfterSize c crc buf start x = .ok h) :
    h.payloadSize = x ∧ 0 < x ∧ c.header ≤ buf.length - start ∧ x ≤ buf.length - start - c.header := by
  unfold readAfterSize at hok
  split at hok
  · simp at hok
  · rename_i hx0
    cases htb : tooBig c (buf.length - start) x with
    | true => rw [htb] at hok; simp at hok
    | false =>
      rw [htb] at hok
      simp only [Bool.false_eq_true, if_false] at hok
      have hb := tooBig_false h1 htb
      split at hok
      · simp at hok; subst hok; exact ⟨rfl, by omega, hb⟩
      · exact ⟨readV2Rest_ok hok, by omega, hb⟩

/-- `ReadHeaderWithValidation` never panics, whatever the bytes are. -/
theorem C10_readHeader_never_panics (c : Cfg) (hs : Safe c) (crc : Crc) (buf : List Nat) (start : Nat)
    (hlen : buf.length < U32) : readHeader c crc buf start ≠ .panic := by
  obtain ⟨h1, h2⟩ := hs
  unfold readHeader
  split
  · simp
  · rename_i hstart
    split
    · simp
    · rename_i hact
      simp [h2] at hact
      obtain ⟨x, hx⟩ := readInt_some (buf := buf) (off := start) (by omega)
      rw [hx]
      exact readAfterSize_never_panics c h1 crc buf start x hlen (by omega)

/-- a successful header read describes a record that lies inside the buffer -/
theorem readHeader_ok_bounds (c : Cfg) (hs : Safe c) (crc : Crc) (buf : List Nat) (start : Nat) (h : Header)
    (hok : readHeader c crc buf start = .ok h) :
    0 < h.payloadSize ∧ start + c.header + h.payloadSize ≤ buf.length := by
  obtain ⟨h1, h2⟩ := hs
  unfold readHeader at hok
  split at hok
  · simp at hok
  · rename_i hstart
    split at hok
    · simp at hok
    · cases hr : readInt buf start with
      | none => rw [hr] at hok; simp at hok
      | some x =>
        rw [hr] at hok
        obtain ⟨e1, e2, e3, e4⟩ := readAfterSize_ok_bounds h1 hok
        rw [e1]
        exact ⟨e2, by omega⟩

/-- `ReadRecordWithValidation` never panics. -/
theorem C10_readRecord_never_panics (c : Cfg) (hs : Safe c) (crc : Crc) (buf : List Nat) (start : Nat)
    (hlen : buf.length < U32) : readRecord c crc buf start ≠ .panic := by
  unfold readRecord
  cases hh : readHeader c crc buf start with
  | ok h =>
    obtain ⟨_, hb⟩ := readHeader_ok_bounds c hs crc buf start h hh
    simp only
    have hmod : (start + c.header + h.payloadSize) % U32 = start + c.header + h.payloadSize :=
      Nat.mod_eq_of_lt (by omega)
    rw [hmod]
    have : ¬ ((decide (start + c.header > start + c.header + h.payloadSize) ||
        decide (start + c.header + h.payloadSize > buf.length)) = true) := by simp; omega
    simp [this]
  | panic => exact absurd hh (C10_readHeader_never_panics c hs crc buf start hlen)
  | errOutOfBounds => simp
  | errEmptyPayload => simp
  | errDataCorrupted => simp

theorem onError_ne_panic (c : Cfg) (u : Option Nat) (n : Nat) (d : Recovered) (b : Bool) : onError c u n d b ≠ .panic := by
  unfold onError
  split
  · simp
  · cases u with
    | none => simp only; split <;> simp
    | some k => simp only; split <;> (try split) <;> simp

theorem onError_ok {c : Cfg} {u : Option Nat} {n : Nat} {d r : Recovered} {b : Bool} (h : onError c u n d b = .ok r) : r = d := by
  unfold onError at h
  split at h
  · simp at h; exact h.symm
  · cases u with
    | none => simp only at h; split at h <;> simp at h
    | some k =>
      simp only at h
      split at h
      · simp at h; exact h.symm
      · split at h <;> simp at h

theorem recoverLoop_never_panics (c : Cfg) (hs : Safe c) (crc : Crc) (buf : List Nat) (hlen : buf.length < U32)
    (u : Option Nat) (fuel off : Nat) (idx : List Nat) (lc n : Nat) :
    recoverLoop c crc buf u fuel off idx lc n ≠ .panic := by
  induction fuel generalizing off idx lc n with
  | zero => simp [recoverLoop]
  | succ f ih =>
    unfold recoverLoop
    split
    · simp
    · cases hh : readHeader c crc buf off with
      | ok h => exact ih _ _ _ _
      | panic => exact absurd hh (C10_readHeader_never_panics c hs crc buf off hlen)
      | errEmptyPayload => simp
      | errOutOfBounds => exact onError_ne_panic _ _ _ _ _
      | errDataCorrupted => exact onError_ne_panic _ _ _ _ _

/-- **Recovery never panics**: any bytes, any length, any start offset, any commit offset, both formats. -/
theorem C10_recover_never_panics (c : Cfg) (hs : Safe c) (crc : Crc) (buf : List Nat) (hlen : buf.length < U32)
    (start : Nat) (u : Option Nat) : recoverIndex c crc buf start u ≠ .panic :=
  recoverLoop_never_panics c hs crc buf hlen u _ _ _ _ _

/-- Every index entry recovery returns is the start of a record that passes validation, the records are
    laid out back to back from the start offset, and `newFileOffset` is where the last one ends: the
    result is a clean prefix, never a damaged entry. -/
def CleanFrom (c : Cfg) (crc : Crc) (buf : List Nat) : Nat → List Nat → Nat → Prop
  | off, [], endOff => off = endOff
  | off, i :: rest, endOff =>
    i = off ∧ ∃ h, readHeader c crc buf off = .ok h ∧ CleanFrom c crc buf (off + c.header + h.payloadSize) rest endOff

theorem CleanFrom_snoc {c : Cfg} {crc : Crc} {buf : List Nat} {s : Nat} {l : List Nat} {o : Nat} {h : Header}
    (hc : CleanFrom c crc buf s l o) (hh : readHeader c crc buf o = .ok h) :
    CleanFrom c crc buf s (l ++ [o]) (o + c.header + h.payloadSize) := by
  induction l generalizing s with
  | nil => simp [CleanFrom] at hc ⊢; subst hc; exact ⟨rfl, h, hh, rfl⟩
  | cons i rest ih =>
    obtain ⟨hi, h', hh', hrest⟩ := hc
    exact ⟨hi, h', hh', ih hrest⟩

theorem recoverLoop_clean (c : Cfg) (crc : Crc) (buf : List Nat) (u : Option Nat) (start : Nat)
    (fuel off : Nat) (idx : List Nat) (lc n : Nat) (r : Recovered)
    (hacc : CleanFrom c crc buf start idx.reverse off)
    (h : recoverLoop c crc buf u fuel off idx lc n = .ok r) :
    CleanFrom c crc buf start r.index r.newFileOffset := by
  induction fuel generalizing off idx lc n with
  | zero => simp [recoverLoop] at h; subst h; exact hacc
  | succ f ih =>
    unfold recoverLoop at h
    split at h
    · simp at h; subst h; exact hacc
    · cases hh : readHeader c crc buf off with
      | ok hd =>
        rw [hh] at h
        exact ih _ _ _ _ (by simp only [List.reverse_cons]; exact CleanFrom_snoc hacc hh) h
      | panic => rw [hh] at h; simp at h
      | errEmptyPayload => rw [hh] at h; simp at h; subst h; exact hacc
      | errOutOfBounds => rw [hh] at h; rw [onError_ok h]; exact hacc
      | errDataCorrupted => rw [hh] at h; rw [onError_ok h]; exact hacc

/-- **Clean prefix**: whatever the damage, a successful recovery returns only validated records. -/
theorem C10_recover_clean_prefix (c : Cfg) (crc : Crc) (buf : List Nat) (start : Nat) (u : Option Nat) (r : Recovered)
    (h : recoverIndex c crc buf start u = .ok r) : CleanFrom c crc buf start r.index r.newFileOffset :=
  recoverLoop_clean c crc buf u start _ _ _ _ _ r (by simp [CleanFrom]) h

/-- **Committed damage is an error, uncommitted damage is discarded** (format v2): when validation
    fails at entry index `n`, the outcome is decided by the commit offset alone. -/
theorem C10_damage_outcome (c : Cfg) (hv2 : c.v2 = true) (k n : Nat) (d : Recovered) (b : Bool) :
    (n ≥ k → onError c (some k) n d b = .ok d) ∧
    (n < k → onError c (some k) n d b = (if b then .errOutOfBounds else .errDataCorrupted)) ∧
    (onError c none n d b = (if b then .errOutOfBounds else .errDataCorrupted)) := by
  unfold onError
  refine ⟨?_, ?_, ?_⟩
  · intro h; simp [hv2, h]
  · intro h; have : ¬ k ≤ n := by omega
    simp [hv2, this]
  · simp [hv2]

/-- Witness of D-3 (overflow): size field `0xFFFFFFFF` in a 16-byte v2 buffer. -/
theorem C10_overflow_counterexample :
    readHeader { v2 := true, overflowSafe := false, readGuarded := true } (fun _ _ => 0)
      [255, 255, 255, 255, 0, 0, 0, 0, 0, 0, 0, 0, 0, 0, 0, 0] 0 = .panic := by decide

/-- Witness of D-3 (unguarded read): a v1 buffer with two bytes left after the last record. -/
theorem C10_unguarded_read_counterexample :
    readHeader { v2 := false, overflowSafe := true, readGuarded := false } (fun _ _ => 0)
      [0, 0, 0, 1, 7, 0, 0] 5 = .panic := by decide

-- non-vacuity: a valid two-record v2 image is recovered completely
example :
    let c : Cfg := { v2 := true, overflowSafe := true, readGuarded := true }
    let crc : Crc := fun p l => (p + l.sum) % 256
    (recoverIndex c crc (encodeAll c crc 0 [[1, 2, 3], [9]] ++ [0, 0, 0, 0, 0, 0, 0, 0, 0, 0, 0, 0]) 0 none) =
      .ok { index := [0, 15], lastCrc := 15, newFileOffset := 28, count := 2 } := by decide

end Oxia.C10
