import OxiaVerif.Props.C10

/-!
C10, the index files of read-only segments (`ReadIndex`, `newReadOnlySegment`, `readOnlySegment.Read`).

The quantifier of the property includes "every byte position and value of a corruption in ... index files,
for both on-disk formats" and "recovery never panics". The model (`Codec.readIndexFile`, `openReadOnly`,
`roRead`) is run against the real code on index files and txn files as bytes (`cx.openro`).

* with the two guards of `ROCfg` (facts), opening a read-only segment and reading from it never panics,
  whatever the two files hold;
* without them it does (kernel-checked witnesses: an index file shorter than the checksum; an empty v1 index;
  an index that is rebuilt from a txn file whose first record is gone) - genuine defect D-56, repaired;
* a v2 index file that is intact is taken as it is; one that fails its checksum - or is too short to have
  one - is replaced by what `RecoverIndex` finds in the txn file, so every entry of the index the segment then
  works with is the start of a validated record, the records back to back from the start of the file
  (`CleanFrom`): the damaged index file has no influence on what is served.
-/
namespace Oxia.C10
open Oxia.Codec

def ROSafe (ro : ROCfg) : Prop := ro.lenGuard = true ∧ ro.emptyGuard = true

theorem cast_ne_panic {α β : Type} (r : Res α) (hr : r ≠ .panic) (hok : ∀ a, r ≠ .ok a) : (r.cast (.panic : Res β)) ≠ .panic := by
  cases r with
  | ok a => exact absurd rfl (hok a)
  | panic => exact absurd rfl hr
  | errOutOfBounds => simp [Res.cast]
  | errEmptyPayload => simp [Res.cast]
  | errDataCorrupted => simp [Res.cast]

theorem readIndexFile_never_panics (c : Cfg) (ro : ROCfg) (hl : ro.lenGuard = true) (crc : Crc) (file : List Nat) :
    readIndexFile c ro crc file ≠ .panic := by
  unfold readIndexFile
  split
  · simp
  · split
    · simp
    · rename_i hlen
      simp [hl] at hlen
      obtain ⟨x, hx⟩ := readInt_some (buf := file) (off := 0) (by omega)
      rw [hx]
      simp only
      split <;> simp

theorem finishReadOnly_never_panics (c : Cfg) (hs : Safe c) (ro : ROCfg) (he : ro.emptyGuard = true) (crc : Crc)
    (idx txn : List Nat) (hlen : txn.length < U32) : finishReadOnly c ro crc idx txn ≠ .panic := by
  unfold finishReadOnly
  simp only
  by_cases hn : idx.length / 4 = 0
  · simp [hn, he]
  · simp only [hn, if_false]
    obtain ⟨fo, hfo⟩ := readInt_some (buf := idx) (off := (idx.length / 4 - 1) * 4) (by omega)
    rw [hfo]
    simp only
    cases hh : readHeader c crc txn fo with
    | ok h => simp
    | panic => exact absurd hh (C10_readHeader_never_panics c hs crc txn fo hlen)
    | errOutOfBounds => simp [Res.cast]
    | errEmptyPayload => simp [Res.cast]
    | errDataCorrupted => simp [Res.cast]

/-- **Opening a read-only segment never panics**: any index file, any txn file, both formats. -/
theorem C10_open_readonly_never_panics (c : Cfg) (hs : Safe c) (ro : ROCfg) (hro : ROSafe ro) (crc : Crc)
    (idxFile txn : List Nat) (hlen : txn.length < U32) : openReadOnly c ro crc idxFile txn ≠ .panic := by
  unfold openReadOnly
  cases hi : readIndexFile c ro crc idxFile with
  | ok idx => exact finishReadOnly_never_panics c hs ro hro.2 crc idx txn hlen
  | panic => exact absurd hi (readIndexFile_never_panics c ro hro.1 crc idxFile)
  | errOutOfBounds => simp [Res.cast]
  | errEmptyPayload => simp [Res.cast]
  | errDataCorrupted =>
    simp only
    cases hr : recoverIndex c crc txn 0 none with
    | ok r => exact finishReadOnly_never_panics c hs ro hro.2 crc _ txn hlen
    | panic => exact absurd hr (C10_recover_never_panics c hs crc txn hlen 0 none)
    | errOutOfBounds => simp [Res.cast]
    | errEmptyPayload => simp [Res.cast]
    | errDataCorrupted => simp [Res.cast]

theorem finishReadOnly_ok {c : Cfg} {ro : ROCfg} {crc : Crc} {idx txn : List Nat} {s : ROSeg}
    (h : finishReadOnly c ro crc idx txn = .ok s) : s.idx = idx ∧ s.count = idx.length / 4 := by
  unfold finishReadOnly at h
  simp only at h
  split at h
  · split at h <;> simp at h
  · cases hfo : readInt idx ((idx.length / 4 - 1) * 4) with
    | none => rw [hfo] at h; simp at h
    | some fo =>
      rw [hfo] at h
      simp only at h
      cases hh : readHeader c crc txn fo with
      | ok hd => rw [hh] at h; simp at h; subst h; exact ⟨rfl, rfl⟩
      | panic => rw [hh] at h; simp [Res.cast] at h
      | errOutOfBounds => rw [hh] at h; simp [Res.cast] at h
      | errEmptyPayload => rw [hh] at h; simp [Res.cast] at h
      | errDataCorrupted => rw [hh] at h; simp [Res.cast] at h

/-- what an opened segment works with: the index that was read or rebuilt, `count` = its number of entries -/
theorem openReadOnly_ok_count {c : Cfg} {ro : ROCfg} {crc : Crc} {idxFile txn : List Nat} {s : ROSeg}
    (h : openReadOnly c ro crc idxFile txn = .ok s) : s.count = s.idx.length / 4 := by
  unfold openReadOnly at h
  cases hi : readIndexFile c ro crc idxFile with
  | ok idx => rw [hi] at h; obtain ⟨h1, h2⟩ := finishReadOnly_ok h; rw [h2, h1]
  | panic => rw [hi] at h; simp [Res.cast] at h
  | errOutOfBounds => rw [hi] at h; simp [Res.cast] at h
  | errEmptyPayload => rw [hi] at h; simp [Res.cast] at h
  | errDataCorrupted =>
    rw [hi] at h
    simp only at h
    cases hr : recoverIndex c crc txn 0 none with
    | ok r => rw [hr] at h; obtain ⟨h1, h2⟩ := finishReadOnly_ok h; rw [h2, h1]
    | panic => rw [hr] at h; simp [Res.cast] at h
    | errOutOfBounds => rw [hr] at h; simp [Res.cast] at h
    | errEmptyPayload => rw [hr] at h; simp [Res.cast] at h
    | errDataCorrupted => rw [hr] at h; simp [Res.cast] at h

/-- **Reading from an opened read-only segment never panics**, whatever the index holds. -/
theorem C10_readonly_read_never_panics (c : Cfg) (hs : Safe c) (ro : ROCfg) (crc : Crc) (idxFile txn : List Nat)
    (hlen : txn.length < U32) (s : ROSeg) (h : openReadOnly c ro crc idxFile txn = .ok s) (k : Nat) :
    roRead c crc s txn k ≠ .panic := by
  have hc := openReadOnly_ok_count h
  unfold roRead
  split
  · simp
  · rename_i hk
    obtain ⟨fo, hfo⟩ := readInt_some (buf := s.idx) (off := k * 4) (by omega)
    rw [hfo]
    exact C10_readRecord_never_panics c hs crc txn fo hlen

/-- **A damaged v2 index file is rebuilt from the txn file**: when the checksum of the index file fails (or the
    file is too short to hold one), the segment opens exactly as it would on the index `RecoverIndex` finds, and
    every entry of that index is the start of a validated record, the records back to back from the start. -/
theorem C10_damaged_index_is_rebuilt (c : Cfg) (ro : ROCfg) (crc : Crc) (idxFile txn : List Nat)
    (hbad : readIndexFile c ro crc idxFile = .errDataCorrupted) (s : ROSeg)
    (h : openReadOnly c ro crc idxFile txn = .ok s) :
    ∃ r, recoverIndex c crc txn 0 none = .ok r ∧ s.idx = indexBytes r.index ∧
      CleanFrom c crc txn 0 r.index r.newFileOffset := by
  unfold openReadOnly at h
  rw [hbad] at h
  simp only at h
  cases hr : recoverIndex c crc txn 0 none with
  | ok r =>
    rw [hr] at h
    exact ⟨r, rfl, (finishReadOnly_ok h).1, C10_recover_clean_prefix c crc txn 0 none r hr⟩
  | panic => rw [hr] at h; simp [Res.cast] at h
  | errOutOfBounds => rw [hr] at h; simp [Res.cast] at h
  | errEmptyPayload => rw [hr] at h; simp [Res.cast] at h
  | errDataCorrupted => rw [hr] at h; simp [Res.cast] at h

/-- with the length guard, every v2 index file that is too short for its checksum counts as damaged -/
theorem C10_short_index_counts_as_damaged (c : Cfg) (hv2 : c.v2 = true) (ro : ROCfg) (hl : ro.lenGuard = true)
    (crc : Crc) (file : List Nat) (hshort : file.length < 4) : readIndexFile c ro crc file = .errDataCorrupted := by
  unfold readIndexFile
  simp [hv2, hl, hshort]

theorem readInt_putInt (x : Nat) (hx : x < U32) (rest : List Nat) : readInt (putInt x ++ rest) 0 = some x := by
  unfold readInt putInt U32 at *
  simp
  omega

/-- **An intact v2 index file is taken as it is**: what `WriteIndex` stores (the checksum of the index, then the
    index) reads back as the index. -/
theorem C10_intact_index_is_kept (c : Cfg) (hv2 : c.v2 = true) (ro : ROCfg) (crc : Crc) (idx : List Nat)
    (hcrc : crc 0 idx < U32) : readIndexFile c ro crc (putInt (crc 0 idx) ++ idx) = .ok idx := by
  unfold readIndexFile
  have hlen : ¬ ((putInt (crc 0 idx) ++ idx).length < 4) := by simp [putInt]
  have hdrop : (putInt (crc 0 idx) ++ idx).drop 4 = idx := by simp [putInt]
  have hlen' : ¬ ((ro.lenGuard && decide ((putInt (crc 0 idx) ++ idx).length < 4)) = true) := by
    have : decide ((putInt (crc 0 idx) ++ idx).length < 4) = false := by simpa using hlen
    rw [this]; simp
  simp only [hv2, Bool.not_true, Bool.false_eq_true, if_false, hlen']
  rw [readInt_putInt _ hcrc, hdrop]
  simp

/-! ### without the guards (the code before the repair of D-56) -/

def roUnguarded : ROCfg := { lenGuard := false, emptyGuard := false }
def roGuarded : ROCfg := { lenGuard := true, emptyGuard := true }
def v2cfg : Cfg := { v2 := true, overflowSafe := true, readGuarded := true }
def v1cfg : Cfg := { v2 := false, overflowSafe := true, readGuarded := true }

/-- one record with payload [7] behind a v2 header, and zeroes -/
def roTxn : List Nat := encodeAll v2cfg oxiaCrc 0 [[7]] ++ [0, 0, 0, 0, 0, 0, 0, 0, 0, 0, 0, 0, 0]

/-- a v2 index file of three bytes, an empty v1 index file: the unguarded code panics, the guarded code rebuilds
    the v2 index (and serves the record) and refuses the empty v1 index -/
theorem C10_short_index_panics_without_guard :
    openReadOnly v2cfg roUnguarded oxiaCrc [0, 0, 0] roTxn = .panic ∧
    openReadOnly v2cfg roUnguarded oxiaCrc [] roTxn = .panic ∧
    openReadOnly v1cfg roUnguarded oxiaCrc [] [0, 0, 0, 1, 7, 0, 0, 0, 0] = .panic ∧
    (match openReadOnly v2cfg roGuarded oxiaCrc [0, 0, 0] roTxn with
     | .ok s => s.count == 1 && roRead v2cfg oxiaCrc s roTxn 0 == .ok [7]
     | _ => false) = true ∧
    openReadOnly v1cfg roGuarded oxiaCrc [] [0, 0, 0, 1, 7, 0, 0, 0, 0] = .errDataCorrupted := by
  refine ⟨?_, ?_, ?_, ?_, ?_⟩ <;> decide

/-- an index file that fails its checksum over a txn file whose first record header is zeroed: the rebuilt index
    is empty; the unguarded code panics on it, the guarded code reports corruption -/
theorem C10_empty_rebuilt_index_panics_without_guard :
    openReadOnly v2cfg roGuarded oxiaCrc [1, 2, 3, 4, 0, 0, 0, 0] (List.replicate 30 0) = .errDataCorrupted ∧
    openReadOnly v2cfg { lenGuard := true, emptyGuard := false } oxiaCrc [1, 2, 3, 4, 0, 0, 0, 0] (List.replicate 30 0) = .panic := by
  refine ⟨?_, ?_⟩ <;> decide

/-- the facts as regenerated from the tree: both guards are there -/
theorem C10_index_on_tree : Facts.readIndexChecksLength = true ∧ Facts.readOnlySegmentRefusesEmptyIndex = true := by decide

/-- the file of the current segment is given its size whenever it is shorter than the segment: the mapping never
    reaches behind the end of the file (a crash between the creation of the file and the write that extends it
    leaves such a file; genuine defect D-58, repaired) -/
theorem C10_segment_file_size_on_tree : Facts.walSegmentFileSizeEnsured = true := by decide

end Oxia.C10
