import OxiaVerif.Props.C10
namespace Oxia.C10
open Oxia.Codec

def treeCfg (v2 : Bool) : Cfg :=
  { v2 := v2, overflowSafe := Facts.codecSizeCheckOverflowSafe, readGuarded := Facts.codecReadIntGuarded }

theorem C10_on_tree_facts : Facts.codecSizeCheckOverflowSafe = true ∧ Facts.codecReadIntGuarded = true := by decide
theorem C10_on_tree_safe (v2 : Bool) : Safe (treeCfg v2) := ⟨C10_on_tree_facts.1, C10_on_tree_facts.2⟩
/-- what is reported as synced has been covered by an msync: the sync goroutine flushes the current segment,
    a rollover flushes the segment it leaves (fixed D-45), and `LastOffset` is the synced offset -/
theorem C10_on_tree_synced_is_flushed : Facts.walRolloverFlushesSegment = true ∧ Facts.walLastOffsetIsSynced = true ∧
    Facts.walSyncCallbacksOnlyForFlushedEntries = true := by decide

/-- the log is terminated after every appended record (fixed D-51: what a recovery had discarded behind the
    end of the log was walked into again after the next append) -/
theorem C10_on_tree_append_terminates_log : Facts.walAppendTerminatesLog = true := by decide
theorem C10_on_tree_header_sizes : Facts.codecV2HeaderSize = 12 ∧ Facts.codecV1HeaderSize = 4 := by decide

/-- on the current tree recovery never panics, in both formats -/
theorem C10_on_tree (v2 : Bool) (crc : Crc) (buf : List Nat) (hlen : buf.length < U32) (start : Nat) (u : Option Nat) :
    recoverIndex (treeCfg v2) crc buf start u ≠ .panic :=
  C10_recover_never_panics _ (C10_on_tree_safe v2) crc buf hlen start u

end Oxia.C10
