import OxiaVerif.Props.C10

/-!
C10, round trip and crash: "Reopening a WAL after a crash returns a log that contains every entry that had been
synced, followed by at most a prefix of the unsynced tail, each entry bit-identical to what was appended.
Arbitrary damage ... in the uncommitted tail is discarded."

The segment image is `encodeAll ps ++ tail`: the records of the synced entries `ps` as `WriteRecord` lays them
out, followed by *any* bytes (`tail`: unsynced records, torn pages, zeroes, garbage).

* `readHeader_encoded`, `readRecord_encoded`: the record written at an offset reads back as written;
* `recoverLoop_skip`: the recovery loop walks over the written records exactly (one index entry per record, the
  crc chain of `WriteRecord`), whatever follows them;
* `C10_recover_round_trip`: when the records are followed by the end of the log (a cleared size field or the
  end of the buffer) recovery returns exactly their offsets, their number, the last crc and the end offset;
* `C10_crash_keeps_synced_entries`: for **any** tail whatsoever and any commit offset at or below the number of
  synced entries, recovery succeeds, and the index it returns starts with the offsets of the synced entries
  (what follows is a clean prefix by `C10_recover_clean_prefix`);
* `C10_entries_read_back_identical`: every one of those offsets reads back the payload that was appended.

The checksum stays a parameter; only `crc a b < 2^32` is used (it is stored in four bytes).
-/
namespace Oxia.C10
open Oxia.Codec

theorem getD_append_right (pre rest : List Nat) (i : Nat) : (pre ++ rest).getD (pre.length + i) 0 = rest.getD i 0 := by
  simp [List.getD_eq_getElem?_getD, List.getElem?_append_right]

theorem readInt_append (pre rest : List Nat) (off : Nat) : readInt (pre ++ rest) (pre.length + off) = readInt rest off := by
  unfold readInt
  have h1 := getD_append_right pre rest off
  have h2 := getD_append_right pre rest (off + 1)
  have h3 := getD_append_right pre rest (off + 2)
  have h4 := getD_append_right pre rest (off + 3)
  simp only [List.length_append]
  simp only [← Nat.add_assoc] at h2 h3 h4
  rw [h1, h2, h3, h4]
  by_cases h : off + 4 ≤ rest.length
  · have : pre.length + off + 4 ≤ pre.length + rest.length := by omega
    simp [h, this]
  · have : ¬ pre.length + off + 4 ≤ pre.length + rest.length := by omega
    simp [h, this]

theorem readInt_putInt_zero (x : Nat) (hx : x < U32) (rest : List Nat) : readInt (putInt x ++ rest) 0 = some x := by
  unfold readInt putInt U32 at *
  simp
  omega

theorem putInt_length (x : Nat) : (putInt x).length = 4 := by simp [putInt]

theorem readInt_putInt_at (x : Nat) (hx : x < U32) (a rest : List Nat) :
    readInt (a ++ (putInt x ++ rest)) a.length = some x := by
  have := readInt_append a (putInt x ++ rest) 0
  simp only [Nat.add_zero] at this
  rw [this]
  exact readInt_putInt_zero x hx rest

/-- the bytes of one record -/
def recBytes (c : Cfg) (crc : Crc) (prev : Nat) (p : List Nat) : List Nat := (encodeRecord c crc prev p).1

theorem recBytes_length (c : Cfg) (crc : Crc) (prev : Nat) (p : List Nat) :
    (recBytes c crc prev p).length = c.header + p.length := by
  unfold recBytes encodeRecord Cfg.header
  by_cases h : c.v2 = true <;> simp [h, putInt] <;> omega


/-- the checksum fits the four bytes it is stored in -/
def CrcFits (crc : Crc) : Prop := ∀ a b, crc a b < U32

def v2safe : Cfg := { v2 := true, overflowSafe := true, readGuarded := true }

/-- **A written record reads back**: at the offset where `WriteRecord` put it, whatever precedes and follows. -/
theorem readHeader_encoded (c : Cfg) (hs : Safe c) (crc : Crc) (hcrc : CrcFits crc) (pre rest p : List Nat) (prev : Nat)
    (hp : p ≠ []) (hprev : prev < U32) (hlen : (pre ++ (recBytes c crc prev p ++ rest)).length < U32) :
    readHeader c crc (pre ++ (recBytes c crc prev p ++ rest)) pre.length =
      .ok { payloadSize := p.length, previousCrc := if c.v2 then prev else 0, payloadCrc := if c.v2 then crc prev p else 0 } := by
  obtain ⟨h1, h2⟩ := hs
  have hplen : 0 < p.length := List.length_pos_iff.mpr hp
  have hrl := recBytes_length c crc prev p
  have hlen' : pre.length + (c.header + p.length + rest.length) < U32 := by
    simpa [List.length_append, hrl, Nat.add_assoc] using hlen
  have hpl : p.length < U32 := by omega
  unfold readHeader
  have hstart : ¬ pre.length ≥ (pre ++ (recBytes c crc prev p ++ rest)).length := by
    simp [List.length_append, hrl]; unfold Cfg.header; split <;> omega
  have hguard : ¬ ((c.readGuarded && decide ((pre ++ (recBytes c crc prev p ++ rest)).length - pre.length < 4)) = true) := by
    simp [List.length_append, hrl]; intro _; unfold Cfg.header; split <;> omega
  simp only [hstart, if_false, hguard]
  by_cases hv : c.v2 = true
  · -- v2
    have hrb : recBytes c crc prev p = putInt p.length ++ (putInt prev ++ (putInt (crc prev p) ++ p)) := by
      unfold recBytes encodeRecord; simp [hv]
    rw [hrb]
    have e0 : readInt (pre ++ (putInt p.length ++ (putInt prev ++ (putInt (crc prev p) ++ p)) ++ rest)) pre.length = some p.length := by
      have := readInt_putInt_at p.length hpl pre ((putInt prev ++ (putInt (crc prev p) ++ p)) ++ rest)
      simpa [List.append_assoc] using this
    rw [e0]
    simp only
    unfold readAfterSize
    have hne : ¬ p.length = 0 := by omega
    simp only [hne, if_false]
    have htb : tooBig c ((pre ++ (putInt p.length ++ (putInt prev ++ (putInt (crc prev p) ++ p)) ++ rest)).length - pre.length) p.length = false := by
      unfold tooBig Cfg.header
      simp [h1, hv, putInt]
      try omega
    simp only [htb, Bool.false_eq_true, if_false, hv, Bool.not_true]
    unfold readV2Rest
    have e4 : readInt (pre ++ (putInt p.length ++ (putInt prev ++ (putInt (crc prev p) ++ p)) ++ rest)) (pre.length + 4) = some prev := by
      have := readInt_putInt_at prev hprev (pre ++ putInt p.length) ((putInt (crc prev p) ++ p) ++ rest)
      simpa [List.append_assoc, putInt_length] using this
    have e8 : readInt (pre ++ (putInt p.length ++ (putInt prev ++ (putInt (crc prev p) ++ p)) ++ rest)) (pre.length + 8) = some (crc prev p) := by
      have := readInt_putInt_at (crc prev p) (hcrc prev p) (pre ++ putInt p.length ++ putInt prev) (p ++ rest)
      simpa [List.append_assoc, putInt_length, Nat.add_assoc] using this
    rw [e4, e8]
    simp only
    have hmod : (pre.length + 12 + p.length) % U32 = pre.length + 12 + p.length := Nat.mod_eq_of_lt (by unfold Cfg.header at hlen'; simp [hv] at hlen'; omega)
    rw [hmod]
    have hb : ¬ ((decide (pre.length + 12 > pre.length + 12 + p.length) ||
        decide (pre.length + 12 + p.length > (pre ++ (putInt p.length ++ (putInt prev ++ (putInt (crc prev p) ++ p)) ++ rest)).length)) = true) := by
      simp [putInt]; omega
    simp only [hb, Bool.false_eq_true, if_false]
    have hslice : ((pre ++ (putInt p.length ++ (putInt prev ++ (putInt (crc prev p) ++ p)) ++ rest)).drop (pre.length + 12)).take p.length = p := by
      have : pre ++ (putInt p.length ++ (putInt prev ++ (putInt (crc prev p) ++ p)) ++ rest) =
          (pre ++ putInt p.length ++ putInt prev ++ putInt (crc prev p)) ++ (p ++ rest) := by simp [List.append_assoc]
      rw [this]
      have hl : (pre ++ putInt p.length ++ putInt prev ++ putInt (crc prev p)).length = pre.length + 12 := by simp [putInt]
      rw [← hl, List.drop_left]
      simp
    rw [hslice]
    simp
  · -- v1
    have hv' : c.v2 = false := by simpa using hv
    have hrb : recBytes c crc prev p = putInt p.length ++ p := by
      unfold recBytes encodeRecord; simp [hv']
    rw [hrb]
    have e0 : readInt (pre ++ (putInt p.length ++ p ++ rest)) pre.length = some p.length := by
      have := readInt_putInt_at p.length hpl pre (p ++ rest)
      simpa [List.append_assoc] using this
    rw [e0]
    simp only
    unfold readAfterSize
    have hne : ¬ p.length = 0 := by omega
    simp only [hne, if_false]
    have htb : tooBig c ((pre ++ (putInt p.length ++ p ++ rest)).length - pre.length) p.length = false := by
      unfold tooBig Cfg.header
      simp [h1, hv', putInt]
      try omega
    simp only [htb, Bool.false_eq_true, if_false, hv', Bool.not_false, if_true]


/-- **and its payload is returned bit-identical** -/
theorem readRecord_encoded (c : Cfg) (hs : Safe c) (crc : Crc) (hcrc : CrcFits crc) (pre rest p : List Nat) (prev : Nat)
    (hp : p ≠ []) (hprev : prev < U32) (hlen : (pre ++ (recBytes c crc prev p ++ rest)).length < U32) :
    readRecord c crc (pre ++ (recBytes c crc prev p ++ rest)) pre.length = .ok p := by
  unfold readRecord
  rw [readHeader_encoded c hs crc hcrc pre rest p prev hp hprev hlen]
  simp only
  have hrl := recBytes_length c crc prev p
  have hlen' : pre.length + (c.header + p.length + rest.length) < U32 := by
    simpa [List.length_append, hrl, Nat.add_assoc] using hlen
  have hmod : (pre.length + c.header + p.length) % U32 = pre.length + c.header + p.length := Nat.mod_eq_of_lt (by omega)
  rw [hmod]
  have hb : ¬ ((decide (pre.length + c.header > pre.length + c.header + p.length) ||
      decide (pre.length + c.header + p.length > (pre ++ (recBytes c crc prev p ++ rest)).length)) = true) := by
    simp [List.length_append, hrl]; omega
  simp only [hb, Bool.false_eq_true, if_false]
  congr 1
  -- the slice behind the header is the payload
  have hsplit : recBytes c crc prev p = (recBytes c crc prev p).take c.header ++ p := by
    unfold recBytes encodeRecord Cfg.header
    by_cases hv : c.v2 = true <;> simp [hv, putInt]
  have htl : ((recBytes c crc prev p).take c.header).length = c.header := by
    rw [List.length_take, hrl]; omega
  have : pre ++ (recBytes c crc prev p ++ rest) = (pre ++ (recBytes c crc prev p).take c.header) ++ (p ++ rest) := by
    conv => lhs; rw [hsplit]
    simp [List.append_assoc]
  rw [this]
  have hl : (pre ++ (recBytes c crc prev p).take c.header).length = pre.length + c.header := by
    rw [List.length_append, htl]
  rw [← hl, List.drop_left]
  simp

def nextCrc (c : Cfg) (crc : Crc) (prev : Nat) (p : List Nat) : Nat := if c.v2 then crc prev p else prev

def chainCrc (c : Cfg) (crc : Crc) (prev : Nat) (ps : List (List Nat)) : Nat := ps.foldl (nextCrc c crc) prev

/-- the file offsets of the records of `ps` written back to back from `off` -/
def offsetsFrom (c : Cfg) : Nat → List (List Nat) → List Nat
  | _, [] => []
  | off, p :: ps => off :: offsetsFrom c (off + c.header + p.length) ps

theorem encodeAll_cons (c : Cfg) (crc : Crc) (prev : Nat) (p : List Nat) (ps : List (List Nat)) :
    encodeAll c crc prev (p :: ps) = recBytes c crc prev p ++ encodeAll c crc (nextCrc c crc prev p) ps := by
  unfold recBytes nextCrc
  simp only [encodeAll]
  unfold encodeRecord
  by_cases hv : c.v2 = true <;> simp [hv]

theorem nextCrc_lt (c : Cfg) (crc : Crc) (hcrc : CrcFits crc) (prev : Nat) (hprev : prev < U32) (p : List Nat) :
    nextCrc c crc prev p < U32 := by
  unfold nextCrc; split
  · exact hcrc _ _
  · exact hprev

/-- one turn of the recovery loop over a written record -/
theorem recoverLoop_step (c : Cfg) (hs : Safe c) (crc : Crc) (hcrc : CrcFits crc) (u : Option Nat) (pre rest p : List Nat)
    (prev : Nat) (hp : p ≠ []) (hprev : prev < U32) (hlen : (pre ++ (recBytes c crc prev p ++ rest)).length < U32)
    (fuel : Nat) (idx : List Nat) (lc n : Nat) :
    recoverLoop c crc (pre ++ (recBytes c crc prev p ++ rest)) u (fuel + 1) pre.length idx lc n =
      recoverLoop c crc (pre ++ (recBytes c crc prev p ++ rest)) u fuel (pre.length + c.header + p.length) (pre.length :: idx)
        (if c.v2 then crc prev p else lc) (n + 1) := by
  have hrl := recBytes_length c crc prev p
  have hplen : 0 < p.length := List.length_pos_iff.mpr hp
  conv => lhs; unfold recoverLoop
  have hcc : canContinue c pre.length (pre ++ (recBytes c crc prev p ++ rest)).length = true := by
    unfold canContinue Cfg.header at *
    by_cases hv : c.v2 = true <;> simp [hv, List.length_append, hrl] at * <;> omega
  simp only [hcc, Bool.not_true, Bool.false_eq_true, if_false]
  rw [readHeader_encoded c hs crc hcrc pre rest p prev hp hprev hlen]
  simp only
  by_cases hv : c.v2 = true <;> simp [hv]


theorem encodeAll_length (c : Cfg) (crc : Crc) (prev : Nat) (ps : List (List Nat)) :
    (encodeAll c crc prev ps).length = (ps.map fun p => c.header + p.length).sum := by
  induction ps generalizing prev with
  | nil => simp [encodeAll]
  | cons p ps ih => rw [encodeAll_cons, List.length_append, recBytes_length, ih]; simp

/-- **The recovery loop walks over the written records exactly**, whatever follows them: one index entry per
    record at its offset, the crc chain of `WriteRecord`, the count. -/
theorem recoverLoop_skip (c : Cfg) (hs : Safe c) (crc : Crc) (hcrc : CrcFits crc) (u : Option Nat) (rest : List Nat)
    (ps : List (List Nat)) : ∀ (pre : List Nat) (prev : Nat) (fuel : Nat) (idx : List Nat) (lc n : Nat),
    (∀ p ∈ ps, p ≠ []) → prev < U32 → (pre ++ (encodeAll c crc prev ps ++ rest)).length < U32 → (c.v2 = true → lc = prev) →
    recoverLoop c crc (pre ++ (encodeAll c crc prev ps ++ rest)) u (fuel + ps.length) pre.length idx lc n =
      recoverLoop c crc (pre ++ (encodeAll c crc prev ps ++ rest)) u fuel (pre.length + (encodeAll c crc prev ps).length)
        ((offsetsFrom c pre.length ps).reverse ++ idx) (if c.v2 then chainCrc c crc prev ps else lc) (n + ps.length) := by
  induction ps with
  | nil =>
    intro pre prev fuel idx lc n _ _ _ hinv
    simp only [encodeAll, List.length_nil, Nat.add_zero, offsetsFrom, List.reverse_nil, List.nil_append, chainCrc, List.foldl_nil]
    by_cases hv : c.v2 = true
    · simp [hv, hinv hv]
    · simp [hv]
  | cons p ps ih =>
    intro pre prev fuel idx lc n hne hprev hlen hinv
    have hp : p ≠ [] := hne p List.mem_cons_self
    have hne' : ∀ q ∈ ps, q ≠ [] := fun q hq => hne q (List.mem_cons_of_mem _ hq)
    rw [encodeAll_cons] at hlen ⊢
    have hbuf : pre ++ (recBytes c crc prev p ++ encodeAll c crc (nextCrc c crc prev p) ps ++ rest) =
        pre ++ (recBytes c crc prev p ++ (encodeAll c crc (nextCrc c crc prev p) ps ++ rest)) := by simp [List.append_assoc]
    rw [hbuf] at hlen ⊢
    have hfuel : fuel + (p :: ps).length = (fuel + ps.length) + 1 := by simp; omega
    rw [hfuel, recoverLoop_step c hs crc hcrc u pre _ p prev hp hprev hlen]
    -- regroup the buffer: the record joins the prefix
    have hbuf2 : pre ++ (recBytes c crc prev p ++ (encodeAll c crc (nextCrc c crc prev p) ps ++ rest)) =
        (pre ++ recBytes c crc prev p) ++ (encodeAll c crc (nextCrc c crc prev p) ps ++ rest) := by simp [List.append_assoc]
    have hpl : (pre ++ recBytes c crc prev p).length = pre.length + c.header + p.length := by
      rw [List.length_append, recBytes_length]; omega
    rw [hbuf2] at hlen ⊢
    rw [← hpl]
    have hinv' : c.v2 = true → (if c.v2 then crc prev p else lc) = nextCrc c crc prev p := by
      intro hv; simp [hv, nextCrc]
    rw [ih (pre ++ recBytes c crc prev p) (nextCrc c crc prev p) fuel (pre.length :: idx) _ (n + 1) hne'
      (nextCrc_lt c crc hcrc prev hprev p) hlen hinv']
    have hoff : offsetsFrom c pre.length (p :: ps) = pre.length :: offsetsFrom c (pre ++ recBytes c crc prev p).length ps := by
      rw [hpl]; rfl
    rw [hoff]
    have hlen2 : (pre ++ recBytes c crc prev p).length + (encodeAll c crc (nextCrc c crc prev p) ps).length =
        pre.length + (recBytes c crc prev p ++ encodeAll c crc (nextCrc c crc prev p) ps).length := by
      simp [List.length_append]; omega
    rw [hlen2]
    have hchain : chainCrc c crc prev (p :: ps) = chainCrc c crc (nextCrc c crc prev p) ps := by simp [chainCrc]
    rw [hchain]
    have hn : n + 1 + ps.length = n + (p :: ps).length := by simp; omega
    rw [hn]
    by_cases hv : c.v2 = true
    · simp [hv]
    · simp [hv]


/-- above the commit offset (or in format v1) the loop never ends in an error -/
theorem recoverLoop_ok_above_commit (c : Cfg) (hs : Safe c) (crc : Crc) (buf : List Nat) (hlen : buf.length < U32)
    (k : Nat) (fuel : Nat) : ∀ (off : Nat) (idx : List Nat) (lc n : Nat), k ≤ n →
    ∃ r, recoverLoop c crc buf (some k) fuel off idx lc n = .ok r := by
  induction fuel with
  | zero => intro off idx lc n _; exact ⟨_, rfl⟩
  | succ f ih =>
    intro off idx lc n hk
    unfold recoverLoop
    split
    · exact ⟨_, rfl⟩
    · cases hh : readHeader c crc buf off with
      | ok h => exact ih _ _ _ _ (by omega)
      | panic => exact absurd hh (C10_readHeader_never_panics c hs crc buf off hlen)
      | errEmptyPayload => exact ⟨_, rfl⟩
      | errOutOfBounds =>
        simp only
        unfold onError
        by_cases hv : c.v2 = true
        · simp [hv, hk]
        · simp [hv]
      | errDataCorrupted =>
        simp only
        unfold onError
        by_cases hv : c.v2 = true
        · simp [hv, hk]
        · simp [hv]

/-- what the loop returns extends what it has collected -/
theorem recoverLoop_extends (c : Cfg) (crc : Crc) (buf : List Nat) (u : Option Nat) (fuel : Nat) :
    ∀ (off : Nat) (idx : List Nat) (lc n : Nat) (r : Recovered), recoverLoop c crc buf u fuel off idx lc n = .ok r →
    ∃ more, r.index = idx.reverse ++ more ∧ r.count = n + more.length := by
  induction fuel with
  | zero => intro off idx lc n r h; simp [recoverLoop] at h; subst h; exact ⟨[], by simp⟩
  | succ f ih =>
    intro off idx lc n r h
    unfold recoverLoop at h
    split at h
    · simp at h; subst h; exact ⟨[], by simp⟩
    · cases hh : readHeader c crc buf off with
      | ok hd =>
        rw [hh] at h
        obtain ⟨more, h1, h2⟩ := ih _ _ _ _ r h
        exact ⟨off :: more, by simp [h1], by simp [h2]; omega⟩
      | panic => rw [hh] at h; simp at h
      | errEmptyPayload => rw [hh] at h; simp at h; subst h; exact ⟨[], by simp⟩
      | errOutOfBounds => rw [hh] at h; rw [onError_ok h]; exact ⟨[], by simp⟩
      | errDataCorrupted => rw [hh] at h; rw [onError_ok h]; exact ⟨[], by simp⟩

theorem encodeAll_count_le (c : Cfg) (crc : Crc) (prev : Nat) (ps : List (List Nat)) : ps.length ≤ (encodeAll c crc prev ps).length := by
  induction ps generalizing prev with
  | nil => simp
  | cons p ps ih =>
    rw [encodeAll_cons, List.length_append, recBytes_length]
    have := ih (nextCrc c crc prev p)
    have : 4 ≤ c.header := by unfold Cfg.header; split <;> omega
    simp; omega

/-- **Crash: the synced entries survive whatever the unsynced tail looks like.** The image holds the records of
    the synced entries `ps` followed by *any* bytes; the commit offset is at or below the synced entries
    (`k ≤ ps.length`: entries from index `k` on are uncommitted). Recovery succeeds, and its index starts with the
    offsets of the synced entries; what follows is a clean prefix of validated records
    (`C10_recover_clean_prefix`). -/
theorem C10_crash_keeps_synced_entries (c : Cfg) (hs : Safe c) (crc : Crc) (hcrc : CrcFits crc) (ps : List (List Nat))
    (hne : ∀ p ∈ ps, p ≠ []) (tail : List Nat) (hlen : (encodeAll c crc 0 ps ++ tail).length < U32)
    (k : Nat) (hk : k ≤ ps.length) :
    ∃ r more, recoverIndex c crc (encodeAll c crc 0 ps ++ tail) 0 (some k) = .ok r ∧
      r.index = offsetsFrom c 0 ps ++ more ∧ r.count = ps.length + more.length := by
  unfold recoverIndex
  have hcount : ps.length ≤ (encodeAll c crc 0 ps ++ tail).length := by
    rw [List.length_append]; have := encodeAll_count_le c crc 0 ps; omega
  obtain ⟨fuel, hfuel⟩ : ∃ fuel, (encodeAll c crc 0 ps ++ tail).length + 1 = fuel + ps.length :=
    ⟨(encodeAll c crc 0 ps ++ tail).length + 1 - ps.length, by omega⟩
  rw [hfuel]
  have hskip := recoverLoop_skip c hs crc hcrc (some k) tail ps [] 0 fuel [] 0 0 hne (by unfold U32; omega)
    (by simpa using hlen) (fun _ => rfl)
  simp only [List.nil_append, List.length_nil, Nat.zero_add, List.append_nil] at hskip
  rw [hskip]
  obtain ⟨r, hr⟩ := recoverLoop_ok_above_commit c hs crc (encodeAll c crc 0 ps ++ tail) hlen k fuel
    (encodeAll c crc 0 ps).length (offsetsFrom c 0 ps).reverse (if c.v2 then chainCrc c crc 0 ps else 0) ps.length hk
  obtain ⟨more, h1, h2⟩ := recoverLoop_extends c crc _ _ _ _ _ _ _ r hr
  exact ⟨r, more, hr, by simpa using h1, h2⟩

/-- the records are followed by the end of the log: fewer than four bytes, or a cleared size field -/
def TailEnds (tail : List Nat) : Prop := tail.length < 4 ∨ tail.take 4 = [0, 0, 0, 0]

theorem readInt_zero_of_take (tail : List Nat) (h : tail.take 4 = [0, 0, 0, 0]) : readInt tail 0 = some 0 := by
  match tail, h with
  | a :: b :: c :: d :: rest, h =>
    simp at h
    obtain ⟨h1, h2, h3, h4⟩ := h
    subst h1; subst h2; subst h3; subst h4
    simp [readInt]

theorem recoverLoop_at_end (c : Cfg) (hs : Safe c) (crc : Crc) (u : Option Nat) (pre tail : List Nat) (ht : TailEnds tail)
    (fuel : Nat) (idx : List Nat) (lc n : Nat) :
    recoverLoop c crc (pre ++ tail) u fuel pre.length idx lc n =
      .ok { index := idx.reverse, lastCrc := lc, newFileOffset := pre.length, count := n } := by
  obtain ⟨h1, h2⟩ := hs
  cases fuel with
  | zero => rfl
  | succ f =>
    unfold recoverLoop
    split
    · rfl
    · rename_i hcc
      simp only [Bool.not_eq_true] at hcc
      rcases ht with ht | ht
      · -- fewer than four bytes left
        by_cases hv : c.v2 = true
        · unfold canContinue at hcc; simp [hv, List.length_append] at hcc; omega
        · have hv' : c.v2 = false := by simpa using hv
          unfold canContinue at hcc; simp [hv', List.length_append] at hcc
          have hrh : readHeader c crc (pre ++ tail) pre.length = .errOutOfBounds := by
            unfold readHeader
            split
            · rfl
            · split
              · rfl
              · rename_i hg
                simp [h2, List.length_append] at hg
                omega
          rw [hrh]
          simp [onError, hv']
      · have hl4 : 4 ≤ tail.length := by
          have := congrArg List.length ht
          simp [List.length_take] at this; omega
        have hrh : readHeader c crc (pre ++ tail) pre.length = .errEmptyPayload := by
          have hz := readInt_append pre tail 0
          simp only [Nat.add_zero] at hz
          unfold readHeader
          split
          · rename_i hge
            simp [List.length_append] at hge
            omega
          · split
            · rename_i hg
              simp [List.length_append] at hg
              omega
            · rw [hz, readInt_zero_of_take tail ht]
              simp [readAfterSize]
        rw [hrh]

/-- **Round trip**: records followed by the end of the log are recovered exactly: their offsets, their number,
    the crc of the last one, the offset where the next record goes. -/
theorem C10_recover_round_trip (c : Cfg) (hs : Safe c) (crc : Crc) (hcrc : CrcFits crc) (ps : List (List Nat))
    (hne : ∀ p ∈ ps, p ≠ []) (tail : List Nat) (ht : TailEnds tail) (hlen : (encodeAll c crc 0 ps ++ tail).length < U32)
    (u : Option Nat) :
    recoverIndex c crc (encodeAll c crc 0 ps ++ tail) 0 u =
      .ok { index := offsetsFrom c 0 ps, lastCrc := if c.v2 then chainCrc c crc 0 ps else 0,
            newFileOffset := (encodeAll c crc 0 ps).length, count := ps.length } := by
  unfold recoverIndex
  have hcount : ps.length ≤ (encodeAll c crc 0 ps ++ tail).length := by
    rw [List.length_append]; have := encodeAll_count_le c crc 0 ps; omega
  obtain ⟨fuel, hfuel⟩ : ∃ fuel, (encodeAll c crc 0 ps ++ tail).length + 1 = fuel + ps.length :=
    ⟨(encodeAll c crc 0 ps ++ tail).length + 1 - ps.length, by omega⟩
  rw [hfuel]
  have hskip := recoverLoop_skip c hs crc hcrc u tail ps [] 0 fuel [] 0 0 hne (by unfold U32; omega)
    (by simpa using hlen) (fun _ => rfl)
  simp only [List.nil_append, List.length_nil, Nat.zero_add, List.append_nil] at hskip
  rw [hskip, recoverLoop_at_end c hs crc u (encodeAll c crc 0 ps) tail ht]
  simp

/-- **Bit-identical**: every offset of that index reads back the payload that was appended, whatever follows the
    records. -/
theorem C10_entries_read_back_identical (c : Cfg) (hs : Safe c) (crc : Crc) (hcrc : CrcFits crc) (rest : List Nat)
    (ps : List (List Nat)) : ∀ (pre : List Nat) (prev : Nat), (∀ p ∈ ps, p ≠ []) → prev < U32 →
    (pre ++ (encodeAll c crc prev ps ++ rest)).length < U32 →
    ∀ (k o : Nat) (p : List Nat), (offsetsFrom c pre.length ps)[k]? = some o → ps[k]? = some p →
      readRecord c crc (pre ++ (encodeAll c crc prev ps ++ rest)) o = .ok p := by
  induction ps with
  | nil => intro pre prev _ _ _ k o p h1 _; simp [offsetsFrom] at h1
  | cons q qs ih =>
    intro pre prev hne hprev hlen k o p h1 h2
    have hq : q ≠ [] := hne q List.mem_cons_self
    rw [encodeAll_cons] at hlen ⊢
    have hbuf : pre ++ (recBytes c crc prev q ++ encodeAll c crc (nextCrc c crc prev q) qs ++ rest) =
        pre ++ (recBytes c crc prev q ++ (encodeAll c crc (nextCrc c crc prev q) qs ++ rest)) := by simp [List.append_assoc]
    rw [hbuf] at hlen ⊢
    cases k with
    | zero =>
      simp [offsetsFrom] at h1 h2
      subst h1; subst h2
      exact readRecord_encoded c hs crc hcrc pre _ q prev hq hprev hlen
    | succ j =>
      simp only [offsetsFrom, List.getElem?_cons_succ] at h1 h2
      have hbuf2 : pre ++ (recBytes c crc prev q ++ (encodeAll c crc (nextCrc c crc prev q) qs ++ rest)) =
          (pre ++ recBytes c crc prev q) ++ (encodeAll c crc (nextCrc c crc prev q) qs ++ rest) := by simp [List.append_assoc]
      have hpl : (pre ++ recBytes c crc prev q).length = pre.length + c.header + q.length := by
        rw [List.length_append, recBytes_length]; omega
      rw [hbuf2] at hlen ⊢
      rw [← hpl] at h1
      exact ih (pre ++ recBytes c crc prev q) (nextCrc c crc prev q) (fun x hx => hne x (List.mem_cons_of_mem _ hx))
        (nextCrc_lt c crc hcrc prev hprev q) hlen j o p h1 h2

/-- the hypotheses can be met: two records and a torn third one, commit offset 1; the real checksum fits -/
theorem C10_crash_demo :
    recoverIndex v2safe oxiaCrc (encodeAll v2safe oxiaCrc 0 [[1, 2, 3], [9]] ++ [0, 0, 0, 2, 9, 9, 9, 9, 1, 1, 1, 1, 7, 7]) 0 (some 1) =
      .ok { index := [0, 15], lastCrc := chainCrc v2safe oxiaCrc 0 [[1, 2, 3], [9]], newFileOffset := 28, count := 2 } ∧
    offsetsFrom v2safe 0 [[1, 2, 3], [9]] = [0, 15] := by decide

end Oxia.C10
