import OxiaVerif.Lemmas.Key
import OxiaVerif.Props.C11Defs
import OxiaVerif.Facts

/-!
# C11 — Key order is a strict total order and the storage engine honours it

The order laws are proved for `cmpSlash` (the model of `compare.CompareWithSlash`, tied to the Go
function by the correspondence check on generated pairs).  The engine is trusted to be a correct
ordered map *for a comparer that satisfies Pebble's comparer contract*; the contract
(abbreviated key, separator, successor) is proved here for the wiring that the extractor reads from
`OxiaSlashSpanComparer` in `server/kv/kv_pebble.go`.
-/
namespace Oxia.C11
open Oxia.Key

/-- consistent with key equality -/
theorem C11_eq_iff (a b : Key) : cmpSlash a b = .eq ↔ a = b := by
  rw [cmpSlash_eq_cmpSegs, cmpSegs_eq_iff]
  exact ⟨segs_injective, fun h => by rw [h]⟩

/-- antisymmetric / total: the two directions always agree -/
theorem C11_antisymm (a b : Key) : cmpSlash b a = (cmpSlash a b).swap := by
  rw [cmpSlash_eq_cmpSegs, cmpSlash_eq_cmpSegs, cmpSegs_swap]

/-- transitive -/
theorem C11_trans (a b c : Key) (h1 : cmpSlash a b = .lt) (h2 : cmpSlash b c = .lt) :
    cmpSlash a c = .lt := by
  rw [cmpSlash_eq_cmpSegs] at *
  exact cmpSegs_trans h1 h2

theorem C11_irrefl (a : Key) : cmpSlash a a ≠ .lt := by
  rw [(C11_eq_iff a a).2 rfl]; simp

/-- trichotomy, as one statement -/
theorem C11_total (a b : Key) : cmpSlash a b = .lt ∨ a = b ∨ cmpSlash b a = .lt := by
  cases h : cmpSlash a b with
  | lt => exact .inl rfl
  | eq => exact .inr (.inl ((C11_eq_iff a b).1 h))
  | gt => right; right; rw [C11_antisymm a b, h]; rfl

theorem C11_le_trans (a b c : Key) (h1 : cmpSlash a b ≠ .gt) (h2 : cmpSlash b c = .lt) :
    cmpSlash a c = .lt := by
  cases h : cmpSlash a b with
  | lt => exact C11_trans a b c h h2
  | eq => rw [(C11_eq_iff a b).1 h]; exact h2
  | gt => exact absurd h h1

/-! ## the comparer contract -/

/-- Pebble's contract for `Separator`: for `a < b` the key stored in the index block satisfies
    `a ≤ sep < b` in the comparer's order. -/
def SeparatorContract (c : ComparerCfg) : Prop :=
  ∀ a b : Key, IsBytes a → IsBytes b → cmpOf c.cmp a b = .lt →
    let s := effectiveSeparator (cmpOf c.cmp) (sepOf c.sep) a b
    cmpOf c.cmp a s ≠ .gt ∧ cmpOf c.cmp s b = .lt

/-- Pebble's contract for `Successor`: `a ≤ succ a`. -/
def SuccessorContract (c : ComparerCfg) : Prop :=
  ∀ a : Key, IsBytes a → cmpOf c.cmp a (effectiveSuccessor (cmpOf c.cmp) (succOf c.succ) a) ≠ .gt

/-- Pebble's contract for `AbbreviatedKey`: `abbrev a < abbrev b → a < b`. -/
def AbbreviatedKeyContract (c : ComparerCfg) : Prop :=
  ∀ a b : Key, IsBytes a → IsBytes b → abbrevOf c.abbr a < abbrevOf c.abbr b →
    cmpOf c.cmp a b = .lt

/-- The wirings for which the contract is proved: slash order with order-agnostic
    separator/successor and the slash-aware abbreviated key. -/
def Lawful (c : ComparerCfg) : Bool :=
  c.cmp == .slash && c.sep == .identity && c.succ == .identity && c.abbr == .disableSlash

theorem cmpSlash_noslash {a b : Key} (ha : splitSlash a = none) (hb : splitSlash b = none) :
    cmpSlash a b = cmpBytes a b := by
  rw [cmpSlash_eq_cmpSegs, segs_splitSlash_none ha, segs_splitSlash_none hb]; simp [cmpSegs]

theorem cmpSlash_noslash_slash {a b : Key} (ha : splitSlash a = none) {p} (hb : splitSlash b = some p) :
    cmpSlash a b = .lt := by
  obtain ⟨s, r⟩ := p
  rw [cmpSlash_eq_cmpSegs, segs_splitSlash_none ha, segs_splitSlash_some hb]
  obtain ⟨y, ys, hy⟩ := segs_length_two_of_split hb
  rw [hy]; simp [cmpSegs]

theorem C11_abbreviated_key_contract (c : ComparerCfg) (h : Lawful c = true) :
    AbbreviatedKeyContract c := by
  simp [Lawful] at h
  obtain ⟨⟨⟨h1, _⟩, _⟩, h4⟩ := h
  intro a b ha hb hlt
  rw [h1]; rw [h4] at hlt
  simp only [cmpOf, abbrevOf, abbrevKey] at *
  cases hsa : splitSlash a with
  | some p =>
    rw [hsa] at hlt
    cases hsb : splitSlash b with
    | some q => rw [hsb] at hlt; simp at hlt
    | none =>
      rw [hsb] at hlt; simp only at hlt
      have := abbrevN_lt 8 b hb
      simp [abbrevBytewise, maxUint64] at *; omega
  | none =>
    rw [hsa] at hlt
    cases hsb : splitSlash b with
    | some q => exact cmpSlash_noslash_slash hsa hsb
    | none =>
      rw [hsb] at hlt; simp only at hlt
      rw [cmpSlash_noslash hsa hsb]
      exact abbrevN_lt_cmp 8 a b ha hb hlt

theorem effectiveSeparator_id (cmp : Key → Key → Ordering) (a b : Key) :
    effectiveSeparator cmp idSeparator a b = a := by
  unfold effectiveSeparator idSeparator; simp

theorem effectiveSuccessor_id (cmp : Key → Key → Ordering) (a : Key) :
    effectiveSuccessor cmp idSuccessor a = a := by
  unfold effectiveSuccessor idSuccessor; simp

theorem C11_separator_contract (c : ComparerCfg) (h : Lawful c = true) : SeparatorContract c := by
  simp [Lawful] at h
  obtain ⟨⟨⟨h1, h2⟩, _⟩, _⟩ := h
  intro a b _ _ hlt
  rw [h1] at hlt ⊢; rw [h2]
  simp only [cmpOf, sepOf] at *
  rw [effectiveSeparator_id]
  have hrefl : cmpSlash a a = .eq := (C11_eq_iff a a).2 rfl
  simp [hrefl, hlt]

theorem C11_successor_contract (c : ComparerCfg) (h : Lawful c = true) : SuccessorContract c := by
  simp [Lawful] at h
  obtain ⟨⟨⟨h1, _⟩, h3⟩, _⟩ := h
  intro a _
  rw [h1, h3]
  simp only [cmpOf, succOf]
  rw [effectiveSuccessor_id]
  have hrefl : cmpSlash a a = .eq := (C11_eq_iff a a).2 rfl
  simp [hrefl]

/-- The bytewise separator does **not** satisfy the contract under the slash order:
    between `"p.x"` and `"p0"` it yields `"p/"`, which Pebble accepts (shorter, after `a`)
    but which sorts after `"p0"`.  (This was the wiring of the pinned tree, defect D-6.) -/
theorem C11_bytewise_separator_counterexample :
    ¬ SeparatorContract { cmp := .slash, sep := .bytewise, succ := .bytewise, abbr := .disableSlash } := by
  intro h
  have := h [112, 46, 120] [112, 48] (by decide) (by decide) (by decide)
  revert this
  decide

/-- the full comparer contract for a wiring -/
def ComparerContract (c : ComparerCfg) : Prop :=
  SeparatorContract c ∧ SuccessorContract c ∧ AbbreviatedKeyContract c

theorem C11_comparer_contract (c : ComparerCfg) (h : Lawful c = true) : ComparerContract c :=
  ⟨C11_separator_contract c h, C11_successor_contract c h, C11_abbreviated_key_contract c h⟩

-- non-vacuity: a lawful wiring exists, and keys with `IsBytes` exist
example : Lawful { cmp := .slash, sep := .identity, succ := .identity, abbr := .disableSlash } = true := by decide
example : IsBytes [112, 47, 120] ∧ cmpSlash [112, 46, 120] [112, 48] = .lt := by decide

end Oxia.C11
