import OxiaVerif.Model.Key
import OxiaVerif.FactTypes
/-! Core-only definitions shared by the C11 theorems and the driver: the functions a comparer
wiring (as read from the source) stands for. -/
namespace Oxia.C11
open Oxia.Key

def cmpOf : CmpKind → Key → Key → Ordering
  | .slash => cmpSlash
  | .bytewise => cmpBytes
  | .unknown => fun _ _ => .eq

def sepOf : SepKind → Key → Key → Key
  | .bytewise => bytewiseSeparator
  | .identity => idSeparator
  | .unknown => fun _ b => b

def succOf : SepKind → Key → Key
  | .bytewise => bytewiseSuccessor
  | .identity => idSuccessor
  | .unknown => fun _ => []

def abbrevOf : AbbrevKind → Key → Nat
  | .disableSlash => abbrevKey
  | .bytewise => abbrevBytewise
  | .unknown => fun _ => 0


end Oxia.C11
