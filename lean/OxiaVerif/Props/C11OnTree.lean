import OxiaVerif.Props.C11
/-! The obligation that ties C11 to the current tree: the comparer wiring read from
`server/kv/kv_pebble.go` is one for which the contract is proved. -/
namespace Oxia.C11
theorem C11_on_tree : ComparerContract Facts.comparer :=
  C11_comparer_contract Facts.comparer (by decide)
end Oxia.C11
