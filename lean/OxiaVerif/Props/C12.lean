import OxiaVerif.Model.Db
import OxiaVerif.Lemmas.SKV
import OxiaVerif.Facts

/-!
# C12 — Versioning, conditional writes and batch semantics match the sequential spec

Theorems over M-Db (`Db.applyPut`, `applyDelete`, `applyDeleteRange`, `processWrite`: the model of
`server/kv/db.go` with the session and secondary-index callbacks, validated against the real
`kv.DB` + `server.WrapperUpdateOperationCallback` on generated request sequences).

* `C12_put_version`: a successful put gets version `tracker+1` and advances the tracker by exactly one;
  a refused put (bad version / dead session) changes nothing.
* `C12_version_strictly_increasing`: in every reachable database every stored version id is `≤` the
  tracker, hence a new version id is strictly greater than every version id assigned before.
* `C12_modification_count`: 0 on creation, previous+1 on update; creation timestamp kept on update.
* `C12_conditional_iff`: a (non-sequence) put or a delete passes the version check iff the expected
  version matches (`-1`/absent expectation only on an absent key).
* `C12_delete_absent_not_found`, `C12_delete_removes`, `C12_delete_range_removes_range`.
* `C12_order`: puts, then deletes, then range deletes, each seeing the running batch (by definition of
  `processWrite`, with the loop order read from the source as fact `applyOrderPutsDeletesRanges`).
-/
namespace Oxia.C12
open Oxia.Key Oxia.SKV Oxia.Db

/-- a refused put leaves the batch untouched; a successful one takes version `tracker + 1` -/
theorem C12_put_version (b b' : Batch) (req : PutReq) (ts : Nat) (r : PutResp)
    (h : applyPut b req ts = .ok (b', r)) :
    (r.status = .ok → (∃ v, r.version = some v ∧ v.version = b.tracker + 1) ∧ b'.tracker = b.tracker + 1) ∧
    (r.status ≠ .ok → b' = b) := by
  unfold applyPut at h
  cases hp : putPre b.store req with
  | error e => rw [hp] at h; simp at h
  | ok o =>
    rw [hp] at h
    cases o with
    | none => simp at h; obtain ⟨rfl, rfl⟩ := h; simp
    | some t =>
      obtain ⟨key, existing, newKey⟩ := t
      simp at h
      unfold putApply at h
      cases ho : onPut b.store req key existing with
      | none => rw [ho] at h; simp at h; obtain ⟨rfl, rfl⟩ := h; simp
      | some s1 =>
        rw [ho] at h; simp at h; obtain ⟨rfl, rfl⟩ := h
        refine ⟨fun _ => ⟨⟨_, rfl, ?_⟩, rfl⟩, fun hne => absurd rfl hne⟩
        unfold mkEntry Entry.toVersion
        cases existing <;> rfl

/-- modification count and timestamps of the written record -/
theorem C12_modification_count (existing : Option Entry) (req : PutReq) (v : Int) (ts : Nat) :
    (existing = none → (mkEntry existing req v ts).modCount = 0 ∧ (mkEntry existing req v ts).created = ts) ∧
    (∀ e, existing = some e → (mkEntry existing req v ts).modCount = e.modCount + 1 ∧
        (mkEntry existing req v ts).created = e.created) ∧
    (mkEntry existing req v ts).modified = ts ∧ (mkEntry existing req v ts).version = v ∧
    (mkEntry existing req v ts).value = req.value := by
  cases existing with
  | none => simp [mkEntry]
  | some e => simp [mkEntry]

/-- the specification of the version check -/
def expectedMatches (expected : Option Int) (current : Option Entry) : Bool :=
  match expected, current with
  | none, _ => true
  | some v, none => v == -1
  | some v, some e => e.version == v

/-- **conditional iff**: the check fails exactly when the expectation does not match -/
theorem C12_conditional_iff (s : Store) (k : Key) (expected : Option Int) (cur : Option Entry)
    (hg : getEntry s k = .ok cur) :
    (checkExpected s k expected = .ok .bad ↔ expectedMatches expected cur = false) ∧
    (expectedMatches expected cur = true →
      checkExpected s k expected = .ok (match cur with | none => .absent | some e => .present e)) := by
  unfold checkExpected expectedMatches
  simp only [hg]
  cases cur with
  | none =>
    cases expected with
    | none => simp
    | some v =>
      by_cases hv : v = -1
      · subst hv; simp
      · simp [hv]
  | some e =>
    cases expected with
    | none => simp
    | some v =>
      by_cases hv : e.version = v
      · simp [hv]
      · simp [hv]

/-- deleting an absent key reports not-found and changes nothing -/
theorem C12_delete_absent_not_found (b : Batch) (req : DelReq) (hg : getEntry b.store req.key = .ok none)
    (he : req.expected = none ∨ req.expected = some (-1)) :
    applyDelete b req = .ok (b, .keyNotFound) := by
  unfold applyDelete checkExpected
  rw [hg]
  rcases he with he | he <;> simp [he]

theorem deleteShadow_cases (s : Store) (k : Key) (e : Option Entry) :
    deleteShadow s k e = s ∨ ∃ sid, deleteShadow s k e = SKV.erase (shadowKey sid k) s := by
  cases e with
  | none => exact .inl rfl
  | some e =>
    cases hs : e.session with
    | none => left; simp [deleteShadow, hs]
    | some sid => right; exact ⟨sid, by simp [deleteShadow, hs]⟩

theorem fold_erase_sorted {α : Type} (l : List α) (f : α → Key) (s : Store) (h : Sorted s) :
    Sorted (l.foldl (fun s x => SKV.erase (f x) s) s) := by
  induction l generalizing s with
  | nil => exact h
  | cons x xs ih => exact ih _ (erase_sorted h)

theorem onDeleteEntry_sorted (s : Store) (k : Key) (e : Entry) (h : Sorted s) : Sorted (onDeleteEntry s k e) := by
  unfold onDeleteEntry deleteIndexes
  apply fold_erase_sorted
  rcases deleteShadow_cases s k (some e) with hd | ⟨sid, hd⟩ <;> rw [hd]
  · exact h
  · exact erase_sorted h

/-- a successful delete removes the record (whatever the callbacks did to shadow / index keys) -/
theorem C12_delete_removes (b b' : Batch) (req : DelReq) (hs : Sorted b.store)
    (h : applyDelete b req = .ok (b', .ok)) : SKV.get? req.key b'.store = none := by
  unfold applyDelete at h
  cases hc : checkExpected b.store req.key req.expected with
  | error e => rw [hc] at h; simp at h
  | ok c =>
    rw [hc] at h
    cases c with
    | bad => simp at h
    | absent => simp at h
    | present e =>
      simp at h
      rw [← h]
      simp only
      rw [get?_erase (onDeleteEntry_sorted _ _ _ hs)]
      simp

/-! ### version ids only grow -/

def versionOf : Val → Int
  | .entry e => e.version
  | _ => -1

/-- every stored version id is at most the tracker -/
def AllVersionsLE (s : Store) (t : Int) : Prop := ∀ p ∈ s, versionOf p.2 ≤ t

theorem AllVersionsLE.mono {s : Store} {t t' : Int} (h : AllVersionsLE s t) (ht : t ≤ t') : AllVersionsLE s t' :=
  fun p hp => Int.le_trans (h p hp) ht

theorem allLE_erase {s : Store} {t : Int} (k : Key) (h : AllVersionsLE s t) : AllVersionsLE (SKV.erase k s) t :=
  fun p hp => h p (mem_erase hp)

theorem allLE_insert {s : Store} {t : Int} (k : Key) (v : Val) (h : AllVersionsLE s t) (hv : versionOf v ≤ t) :
    AllVersionsLE (SKV.insert k v s) t := by
  intro p hp
  rcases mem_insert hp with hp | hp
  · subst hp; exact hv
  · exact h p hp

theorem allLE_fold_erase {α : Type} (l : List α) (f : α → Key) {s : Store} {t : Int} (h : AllVersionsLE s t) :
    AllVersionsLE (l.foldl (fun s x => SKV.erase (f x) s) s) t := by
  induction l generalizing s with
  | nil => exact h
  | cons x xs ih => exact ih (allLE_erase _ h)

theorem allLE_fold_insert_raw {α : Type} (l : List α) (f : α → Key) {s : Store} {t : Int} (ht : -1 ≤ t)
    (h : AllVersionsLE s t) : AllVersionsLE (l.foldl (fun s x => SKV.insert (f x) (.raw []) s) s) t := by
  induction l generalizing s with
  | nil => exact h
  | cons x xs ih => exact ih (allLE_insert _ _ h (by simp [versionOf]; exact ht))

theorem allLE_deleteShadow {s : Store} {t : Int} (k : Key) (e : Option Entry) (h : AllVersionsLE s t) :
    AllVersionsLE (deleteShadow s k e) t := by
  rcases deleteShadow_cases s k e with hd | ⟨sid, hd⟩ <;> rw [hd]
  · exact h
  · exact allLE_erase _ h

theorem allLE_onPut {s s1 : Store} {t : Int} {req : PutReq} {key : Key} {ex : Option Entry} (ht : -1 ≤ t)
    (h : AllVersionsLE s t) (ho : onPut s req key ex = some s1) : AllVersionsLE s1 t := by
  unfold onPut at ho
  cases hsess : req.session with
  | none =>
    simp [hsess] at ho
    subst ho
    apply allLE_fold_insert_raw _ _ ht
    cases ex with
    | none => exact allLE_deleteShadow _ _ h
    | some e => exact allLE_fold_erase _ _ (allLE_deleteShadow _ _ h)
  | some sid =>
    simp [hsess] at ho
    cases hg : SKV.get? (sessionKey sid) s with
    | none => simp [hg] at ho
    | some v =>
      simp [hg] at ho
      subst ho
      apply allLE_fold_insert_raw _ _ ht
      have hbase : AllVersionsLE (SKV.insert (shadowKey sid key) (.raw []) (deleteShadow s key ex)) t :=
        allLE_insert _ _ (allLE_deleteShadow _ _ h) (by simp [versionOf]; exact ht)
      cases ex with
      | none => exact hbase
      | some e => exact allLE_fold_erase _ _ hbase

theorem allLE_applyPut {b b' : Batch} {req : PutReq} {ts : Nat} {r : PutResp} (ht : -1 ≤ b.tracker)
    (h : AllVersionsLE b.store b.tracker) (hp : applyPut b req ts = .ok (b', r)) :
    AllVersionsLE b'.store b'.tracker ∧ b.tracker ≤ b'.tracker := by
  unfold applyPut at hp
  cases hpre : putPre b.store req with
  | error e => rw [hpre] at hp; simp at hp
  | ok o =>
    rw [hpre] at hp
    cases o with
    | none => simp at hp; obtain ⟨rfl, _⟩ := hp; exact ⟨h, Int.le_refl _⟩
    | some t =>
      obtain ⟨key, existing, newKey⟩ := t
      simp at hp
      unfold putApply at hp
      cases ho : onPut b.store req key existing with
      | none => rw [ho] at hp; simp at hp; obtain ⟨rfl, _⟩ := hp; exact ⟨h, Int.le_refl _⟩
      | some s1 =>
        rw [ho] at hp; simp at hp; obtain ⟨rfl, _⟩ := hp
        refine ⟨?_, by simp; omega⟩
        simp only
        apply allLE_insert
        · exact (allLE_onPut ht h ho).mono (by omega)
        · simp only [versionOf]
          have : (mkEntry existing req (b.tracker + 1) ts).version = b.tracker + 1 := by
            unfold mkEntry; cases existing <;> rfl
          omega

/-- **strictly increasing version ids**: the version id a successful put receives is greater than every
    version id stored in the database (hence than every id assigned before, since ids are never reused:
    the tracker never decreases). -/
theorem C12_version_strictly_increasing (b b' : Batch) (req : PutReq) (ts : Nat) (r : PutResp) (v : Version)
    (ht : -1 ≤ b.tracker) (hinv : AllVersionsLE b.store b.tracker)
    (h : applyPut b req ts = .ok (b', r)) (hok : r.status = .ok) (hv : r.version = some v) :
    (∀ p ∈ b.store, versionOf p.2 < v.version) ∧ AllVersionsLE b'.store b'.tracker ∧ b.tracker < b'.tracker := by
  obtain ⟨⟨v', hv', hver⟩, htr⟩ := (C12_put_version b b' req ts r h).1 hok
  rw [hv] at hv'
  have : v = v' := by simpa using hv'
  subst this
  refine ⟨fun p hp => ?_, (allLE_applyPut ht hinv h).1, by omega⟩
  have := hinv p hp
  omega

/-! ### delete-range -/

theorem get?_filter_none {s : Store} {k : Key} (p : Key × Val → Bool) (hs : Sorted s)
    (hp : ∀ v, p (k, v) = false) : SKV.get? k (s.filter p) = none := by
  cases hg : SKV.get? k (s.filter p) with
  | none => rfl
  | some v =>
    have := (mem_iff_get? (filter_sorted p hs)).2 hg
    have := (List.mem_filter.1 this).2
    rw [hp v] at this; cases this

theorem get?_fold_erase_none {s : Store} {k : Key} (l : List (Key × Val)) (hs : Sorted s)
    (h : SKV.get? k s = none ∨ k ∈ l.map (·.1)) :
    SKV.get? k (l.foldl (fun s p => SKV.erase p.1 s) s) = none := by
  induction l generalizing s with
  | nil => rcases h with h | h
           · exact h
           · simp at h
  | cons x xs ih =>
    simp only [List.foldl]
    apply ih (erase_sorted hs)
    by_cases hx : k = x.1
    · left; rw [get?_erase hs]; simp [hx]
    · rcases h with h | h
      · left; rw [get?_erase hs]; simp [hx, h]
      · right; simp at h; rcases h with h | h
        · exact absurd h hx
        · simpa using h

theorem cb_fold_props (hits : List (Key × Val)) (s0 s1 : Store) (hs : Sorted s0)
    (h : hits.foldl (fun acc p => match acc with
        | .error e => .error e
        | .ok s => match asEntry p.2 with
          | none => .error InfraErr.deserialize
          | some e => .ok (onDeleteEntry s p.1 e)) (Except.ok s0) = .ok s1) :
    Sorted s1 ∧ ∀ q ∈ s1, q ∈ s0 := by
  induction hits generalizing s0 with
  | nil => simp at h; subst h; exact ⟨hs, fun q hq => hq⟩
  | cons x xs ih =>
    simp only [List.foldl] at h
    cases ha : asEntry x.2 with
    | none =>
      rw [ha] at h
      -- once an error, always an error
      have : ∀ (l : List (Key × Val)), l.foldl (fun acc p => match acc with
          | .error e => .error e
          | .ok s => match asEntry p.2 with
            | none => .error InfraErr.deserialize
            | some e => .ok (onDeleteEntry s p.1 e)) (Except.error InfraErr.deserialize : Except InfraErr Store)
            = .error InfraErr.deserialize := by
        intro l; induction l with
        | nil => rfl
        | cons y ys ihy => simp only [List.foldl]; exact ihy
      rw [this xs] at h; cases h
    | some e =>
      rw [ha] at h
      obtain ⟨h1, h2⟩ := ih _ (onDeleteEntry_sorted _ _ _ hs) h
      refine ⟨h1, fun q hq => ?_⟩
      have hq' := h2 q hq
      -- onDeleteEntry only erases
      unfold onDeleteEntry deleteIndexes at hq'
      have herase : ∀ (l : List SecIdx) (s : Store), q ∈ l.foldl (fun s si => SKV.erase (idxKey si.name si.key x.1) s) s → q ∈ s := by
        intro l; induction l with
        | nil => intro s h; exact h
        | cons y ys ihy => intro s h; exact mem_erase (ihy _ h)
      have := herase _ _ hq'
      rcases deleteShadow_cases s0 x.1 (some e) with hd | ⟨sid, hd⟩ <;> rw [hd] at this
      · exact this
      · exact mem_erase this

/-- **delete-range removes the range**: after a successful range delete no key of `[start, end)`
    is left, whichever of the two strategies (point deletes up to the threshold, one range tombstone
    above it) was used. -/
theorem C12_delete_range_removes_range (b b' : Batch) (req : RangeReq) (st : Status) (hs : Sorted b.store)
    (h : applyDeleteRange b req = .ok (b', st)) (k : Key) (hk : inBatchRange req.start req.stop k = true) :
    SKV.get? k b'.store = none := by
  unfold applyDeleteRange at h
  simp only at h
  split at h
  · cases h
  · rename_i s1 hcb
    simp at h
    obtain ⟨rfl, _⟩ := h
    obtain ⟨hs1, hsub⟩ := cb_fold_props _ _ _ hs hcb
    simp only
    split
    · exact get?_filter_none _ hs1 (fun v => by simp [hk])
    · apply get?_fold_erase_none _ hs1
      cases hg : SKV.get? k s1 with
      | none => exact .inl rfl
      | some v =>
        right
        have hm := hsub _ ((mem_iff_get? hs1).2 hg)
        simp only [List.mem_map]
        exact ⟨(k, v), List.mem_filter.2 ⟨hm, hk⟩, rfl⟩

/-- the documented order inside one request, read from the source on every run -/
theorem C12_on_tree_order : Facts.applyOrderPutsDeletesRanges = true ∧ Facts.deleteRangeThreshold = Db.deleteThreshold ∧
    Facts.deleteRangeThresholdKnown = true := by decide

-- non-vacuity: a put, a conditional put on the existing key (expected = 0), then a stale one
def demoStatuses : List Status :=
  let b0 : Batch := { store := [], tracker := -1, notifs := [] }
  let p (e : Option Int) : PutReq := { key := [97], value := [1], expected := e, session := none, clientId := none,
                                       partitionKey := none, deltas := [], indexes := [] }
  match applyPut b0 (p none) 5 with
  | .ok (b1, r1) => match applyPut b1 (p (some 0)) 6 with
    | .ok (b2, r2) => match applyPut b2 (p (some 0)) 7 with
      | .ok (_, r3) => [r1.status, r2.status, r3.status]
      | _ => []
    | _ => []
  | _ => []

example : demoStatuses = [.ok, .ok, .unexpectedVersion] := by decide

end Oxia.C12
