import OxiaVerif.Props.C12

/-!
# C13 — Every request accepted into the log can be applied by every replica

`Db.processWrite` returns `.error` exactly where `ProcessWrite` returns an error (correspondence-checked,
including which error).  The full statement — *for every request the protobuf type admits, the result
is a per-operation status* — is

    def C13_full_statement := ∀ db req o ts, ∃ r, (processWrite db req o ts).2 = .ok r

It is **false** on the current tree (`C13_counterexample_*`, defects D-5 and D-15, recorded as known
findings).  Proved instead (`_partial`): a non-sequence put and a delete never fail on a key whose
current value is a storage entry, whatever options they carry (expected version, session, client
identity, partition key, secondary indexes: dead sessions and stale versions are *statuses*), and an
operation answered with a non-OK status has no side effect.
-/
namespace Oxia.C13
open Oxia.Key Oxia.SKV Oxia.Db

def C13_full_statement : Prop :=
  ∀ (db : Db) (req : WriteReq) (o : Int) (ts : Nat), ∃ r, (processWrite db req o ts).2 = .ok r

/-- a put without sequence deltas is always answered with a status -/
theorem C13_put_total_partial (b : Batch) (req : PutReq) (ts : Nat) (cur : Option Entry)
    (hd : req.deltas = []) (hg : getEntry b.store req.key = .ok cur) :
    ∃ b' r, applyPut b req ts = .ok (b', r) := by
  have hc : ∃ c, checkExpected b.store req.key req.expected = .ok c := by
    unfold checkExpected
    simp only [hg]
    cases cur with
    | none => simp only; split <;> exact ⟨_, rfl⟩
    | some e =>
      simp only
      cases req.expected with
      | none => exact ⟨_, rfl⟩
      | some v => simp only; split <;> exact ⟨_, rfl⟩
  have hpre : ∃ o, putPre b.store req = .ok o := by
    obtain ⟨c, hc⟩ := hc
    unfold putPre
    simp only [hd, List.length_nil, Nat.lt_irrefl, if_false, hc]
    cases c <;> exact ⟨_, rfl⟩
  obtain ⟨o, ho⟩ := hpre
  unfold applyPut
  rw [ho]
  cases o with
  | none => exact ⟨_, _, rfl⟩
  | some t => obtain ⟨k, e, nk⟩ := t; exact ⟨_, _, rfl⟩

/-- a delete is always answered with a status -/
theorem C13_delete_total_partial (b : Batch) (req : DelReq) (cur : Option Entry)
    (hg : getEntry b.store req.key = .ok cur) : ∃ b' st, applyDelete b req = .ok (b', st) := by
  have hc : ∃ c, checkExpected b.store req.key req.expected = .ok c := by
    unfold checkExpected
    simp only [hg]
    cases cur with
    | none => simp only; split <;> exact ⟨_, rfl⟩
    | some e =>
      simp only
      cases req.expected with
      | none => exact ⟨_, rfl⟩
      | some v => simp only; split <;> exact ⟨_, rfl⟩
  obtain ⟨c, hc⟩ := hc
  unfold applyDelete
  rw [hc]
  cases c <;> exact ⟨_, _, rfl⟩

/-- an operation answered with a non-OK status leaves map, version counter and notifications unchanged -/
theorem C13_no_side_effect_on_rejected_put (b b' : Batch) (req : PutReq) (ts : Nat) (r : PutResp)
    (h : applyPut b req ts = .ok (b', r)) (hr : r.status ≠ .ok) : b' = b :=
  (C12.C12_put_version b b' req ts r h).2 hr

theorem C13_no_side_effect_on_rejected_delete (b b' : Batch) (req : DelReq) (st : Status)
    (h : applyDelete b req = .ok (b', st)) (hr : st ≠ .ok) : b' = b := by
  unfold applyDelete at h
  cases hc : checkExpected b.store req.key req.expected with
  | error e => rw [hc] at h; simp at h
  | ok c =>
    rw [hc] at h
    cases c with
    | bad => simp at h; exact h.1.symm
    | absent => simp at h; exact h.1.symm
    | present e => simp at h; exact absurd h.2.symm hr

/-! ### counterexamples to the full statement (defect D-5; replayed on the real code from `corpus/C13`) -/

def seqPut (pk : Option Key) (deltas : List Nat) : PutReq :=
  { key := [112], value := [1], expected := none, session := none, clientId := none, partitionKey := pk,
    deltas := deltas, indexes := [] }

def errOf {α : Type} : Except InfraErr α → Option InfraErr
  | .error e => some e
  | .ok _ => none

theorem C13_counterexample_missing_partition_key :
    errOf (processWrite Db.empty { puts := [seqPut none [1]], dels := [], ranges := [] } 1 1).2 = some .missingPartitionKey := by
  decide

theorem C13_counterexample_zero_delta :
    errOf (processWrite Db.empty { puts := [seqPut (some [107]) [0, 1]], dels := [], ranges := [] } 1 1).2 = some .sequenceDeltaIsZero := by
  decide

theorem C13_full_statement_is_false : ¬ C13_full_statement := by
  intro h
  obtain ⟨r, hr⟩ := h Db.empty { puts := [seqPut none [1]], dels := [], ranges := [] } 1 1
  have := C13_counterexample_missing_partition_key
  rw [hr] at this
  cases this

-- non-vacuity of the partial theorems: the hypotheses hold on the empty store for any key
example (k : Key) : getEntry ([] : Store) k = .ok none := rfl

end Oxia.C13
