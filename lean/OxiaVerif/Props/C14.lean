import OxiaVerif.Model.Session
import OxiaVerif.Facts

/-!
C14 — ephemeral records live and die with their session, and only they do.

Invariant of M-Session (`Inv`): the shadow keys are exactly the (session, key) pairs of the ephemeral
records, and every ephemeral record's session exists. It is preserved by every client operation and by
session creation, close and expiry; from it:
* a session's end removes exactly the records it owns at that moment, the session and its shadows, and
  touches nothing else (`C14_end_session_exact`);
* ownership follows the last writer (`C14_ownership_follows_last_writer`);
* a write naming a dead session is rejected and changes nothing (`C14_dead_session_rejected`);
* a session is ended by the clock only after a full timeout without heartbeat on the current leader, and a
  leader change re-arms every session of the database with a full timeout (`C14_expiry_*`).
The close is modelled in its two real steps (list, then write); the theorem covers the case with nothing
in between, and `C14_close_race_counterexample` is the history the real code fails on (known finding).
-/
namespace Oxia.C14
open Oxia.Key Oxia.Session

macro "triv" : tactic => `(tactic| first | rfl | trivial)

/-! ### lookups -/

theorem ownerL_cons (r : Key × Option SId) (recs : List (Key × Option SId)) (k : Key) :
    ownerL (r :: recs) k = if r.1 = k then some r.2 else ownerL recs k := by
  unfold ownerL
  simp only [List.find?_cons]
  by_cases h : r.1 = k <;> simp [h]

theorem ownerL_filter (recs : List (Key × Option SId)) (q : Key → Bool) (k : Key) :
    ownerL (recs.filter fun r => q r.1) k = if q k then ownerL recs k else none := by
  induction recs with
  | nil => simp [ownerL]
  | cons r rest ih =>
    by_cases hq : q r.1 = true
    · have hf : (r :: rest).filter (fun r => q r.1) = r :: rest.filter (fun r => q r.1) := by simp [hq]
      rw [hf, ownerL_cons, ownerL_cons, ih]
      by_cases hk : r.1 = k
      · subst hk; simp [hq]
      · simp [hk]
    · have hf : (r :: rest).filter (fun r => q r.1) = rest.filter (fun r => q r.1) := by simp [hq]
      rw [hf, ownerL_cons, ih]
      by_cases hk : r.1 = k
      · subst hk; simp [hq]
      · simp [hk]

theorem ownerL_delRec (recs : List (Key × Option SId)) (k k' : Key) :
    ownerL (delRec recs k) k' = if k' = k then none else ownerL recs k' := by
  have := ownerL_filter recs (fun x => decide (x ≠ k)) k'
  unfold delRec
  rw [this]
  by_cases h : k' = k <;> simp [h]

theorem ownerL_setRec (recs : List (Key × Option SId)) (k : Key) (o : Option SId) (k' : Key) :
    ownerL (setRec recs k o) k' = if k' = k then some o else ownerL recs k' := by
  unfold setRec
  rw [ownerL_cons]
  have := ownerL_delRec recs k k'
  unfold delRec at this
  rw [this]
  by_cases h : k' = k
  · subst h; simp
  · have : ¬ k = k' := fun e => h e.symm
    simp [h, this]

theorem mem_dropShadow (sh : List (SId × Key)) (k : Key) (ex : Option (Option SId)) (x : SId × Key) :
    x ∈ dropShadow sh k ex ↔ x ∈ sh ∧ ¬ (∃ old, ex = some (some old) ∧ x = (old, k)) := by
  unfold dropShadow
  cases ex with
  | none => simp
  | some o =>
    cases o with
    | none => simp
    | some old =>
      simp only [List.mem_filter, ne_eq, decide_not, Bool.not_eq_eq_eq_not, Bool.not_true,
        decide_eq_false_iff_not, Option.some.injEq, exists_eq_left']

/-! ### the invariant -/

structure Inv (s : SS) : Prop where
  shadow_iff : ∀ sid k, (sid, k) ∈ s.shadows ↔ owner s k = some (some sid)
  owner_alive : ∀ sid k, owner s k = some (some sid) → alive s sid = true

theorem inv_init : Inv SS.init := ⟨by simp [SS.init, owner, ownerL], by simp [SS.init, owner, ownerL]⟩

/-- **C14 (a)** a put — plain, or within a live session — keeps the invariant; afterwards the record is
    owned by the writer, and nobody else holds a shadow for it (ownership follows the last writer) -/
theorem put_inv (s : SS) (k : Key) (sid : Option SId) (h : Inv s) : Inv (put false s k sid).1 := by
  unfold put
  cases sid with
  | none =>
    simp only []
    constructor
    · intro sd k'
      show (sd, k') ∈ dropShadow s.shadows k (owner s k) ↔ ownerL (setRec s.recs k none) k' = some (some sd)
      rw [mem_dropShadow, ownerL_setRec, h.shadow_iff]
      by_cases hk : k' = k
      · subst hk
        simp only [if_true]
        constructor
        · rintro ⟨ho, hn⟩; exact absurd ⟨sd, ho, rfl⟩ hn
        · intro hc; simp at hc
      · simp only [hk, if_false]
        constructor
        · exact fun x => x.1
        · intro ho
          refine ⟨ho, ?_⟩
          rintro ⟨old, _, he⟩
          exact hk (by simpa using (Prod.mk.inj he).2)
    · intro sd k' ho
      have ho' : ownerL (setRec s.recs k none) k' = some (some sd) := ho
      rw [ownerL_setRec] at ho'
      by_cases hk : k' = k
      · simp [hk] at ho'
      · simp only [hk, if_false] at ho'
        exact h.owner_alive sd k' ho'
  | some id =>
    simp only []
    by_cases ha : alive s id = true
    · simp only [ha, if_true, Bool.false_eq_true, if_false]
      constructor
      · intro sd k'
        show (sd, k') ∈ (id, k) :: (dropShadow s.shadows k (owner s k)).filter (· ≠ (id, k)) ↔
          ownerL (setRec s.recs k (some id)) k' = some (some sd)
        rw [ownerL_setRec]
        simp only [List.mem_cons, List.mem_filter, mem_dropShadow, h.shadow_iff]
        by_cases hk : k' = k
        · subst hk
          simp only [if_true, Option.some.injEq]
          constructor
          · rintro (h1 | ⟨⟨h1, h2⟩, h3⟩)
            · exact (Prod.mk.inj h1).1.symm
            · exact absurd ⟨sd, h1, rfl⟩ h2
          · intro he; subst he; exact .inl rfl
        · simp only [hk, if_false]
          constructor
          · rintro (h1 | ⟨⟨h1, _⟩, _⟩)
            · exact absurd (Prod.mk.inj h1).2 hk
            · exact h1
          · intro ho
            refine .inr ⟨⟨ho, ?_⟩, ?_⟩
            · rintro ⟨old, _, he⟩; exact hk (Prod.mk.inj he).2
            · simp only [ne_eq, decide_not, Bool.not_eq_eq_eq_not, Bool.not_true, decide_eq_false_iff_not]
              intro he; exact hk (Prod.mk.inj he).2
      · intro sd k' ho
        have ho' : ownerL (setRec s.recs k (some id)) k' = some (some sd) := ho
        rw [ownerL_setRec] at ho'
        show alive s sd = true
        by_cases hk : k' = k
        · simp only [hk, if_true, Option.some.injEq] at ho'
          subst ho'; exact ha
        · simp only [hk, if_false] at ho'
          exact h.owner_alive sd k' ho'
    · simp only [ha, Bool.false_eq_true, if_false]
      exact ⟨h.shadow_iff, h.owner_alive⟩

/-- **C14 (b)** ownership follows the last writer: after a successful put the record belongs to the writer
    (or to nobody for a plain put) and no other session holds a shadow for it -/
theorem C14_ownership_follows_last_writer (s : SS) (k : Key) (sid : Option SId) (h : Inv s)
    (hok : (put false s k sid).2 = .ok) :
    owner (put false s k sid).1 k = some sid ∧
    ∀ other, (other, k) ∈ (put false s k sid).1.shadows → some other = sid := by
  have hI := put_inv s k sid h
  have ho : owner (put false s k sid).1 k = some sid := by
    unfold put at hok ⊢
    cases sid with
    | none => simp only []; show ownerL (setRec s.recs k none) k = _; rw [ownerL_setRec]; simp
    | some id =>
      simp only [] at hok ⊢
      by_cases ha : alive s id = true
      · simp only [ha, if_true]; show ownerL (setRec s.recs k (some id)) k = _; rw [ownerL_setRec]; simp
      · simp [ha] at hok
  refine ⟨ho, fun other hm => ?_⟩
  have := (hI.shadow_iff other k).1 hm
  rw [ho] at this
  cases sid with
  | none => simp at this
  | some id => simp only [Option.some.injEq] at this; rw [this]

/-- **C14 (c)** a write naming a session that does not exist is rejected and changes nothing but the log offset -/
theorem C14_dead_session_rejected (s : SS) (k : Key) (id : SId) (hd : alive s id = false) :
    (put false s k (some id)).2 = .sessionDoesNotExist ∧
    (put false s k (some id)).1 = { s with next := s.next + 1 } := by
  unfold put; simp [hd]

theorem delCore_spec (s : SS) (k : Key) :
    (∀ k', owner (delCore s k).1 k' = if k' = k then none else owner s k') ∧
    (∀ x, x ∈ (delCore s k).1.shadows ↔ x ∈ s.shadows ∧ ¬ (x.2 = k ∧ owner s k = some (some x.1))) ∧
    (delCore s k).1.sessions = s.sessions ∧ (delCore s k).1.timers = s.timers ∧ (delCore s k).1.now = s.now ∧
    (delCore s k).1.next = s.next := by
  unfold delCore
  cases ho : owner s k with
  | none =>
    simp only []
    refine ⟨fun k' => ?_, fun x => ?_, by triv, by triv, by triv, by triv⟩
    · by_cases h : k' = k
      · subst h; simp [ho]
      · simp [h]
    · simp
  | some o =>
    simp only []
    refine ⟨fun k' => ?_, fun x => ?_, by triv, by triv, by triv, by triv⟩
    · show ownerL (delRec s.recs k) k' = _
      rw [ownerL_delRec]; rfl
    · show x ∈ dropShadow s.shadows k (some o) ↔ _
      rw [mem_dropShadow]
      constructor
      · rintro ⟨h1, h2⟩
        refine ⟨h1, ?_⟩
        rintro ⟨h3, h4⟩
        simp only [Option.some.injEq] at h4
        exact h2 ⟨x.1, by rw [h4], by rw [← h3]⟩
      · rintro ⟨h1, h2⟩
        refine ⟨h1, ?_⟩
        rintro ⟨old, h3, h4⟩
        simp only [Option.some.injEq] at h3
        apply h2
        rw [h4]
        exact ⟨rfl, by rw [h3]⟩

/-- a delete keeps the invariant -/
theorem delete_inv (s : SS) (k : Key) (h : Inv s) : Inv (delete s k).1 := by
  obtain ⟨h1, h2, h3, _⟩ := delCore_spec s k
  constructor
  · intro sd k'
    show (sd, k') ∈ (delCore s k).1.shadows ↔ owner (delCore s k).1 k' = some (some sd)
    rw [h2, h1, h.shadow_iff]
    by_cases hk : k' = k
    · subst hk
      simp only [if_true]
      constructor
      · rintro ⟨ho, hn⟩; exact absurd ⟨by triv, ho⟩ hn
      · intro hc; simp at hc
    · simp only [hk, if_false, false_and, not_false_eq_true, and_true]
  · intro sd k' ho
    have ho' : owner (delCore s k).1 k' = some (some sd) := ho
    rw [h1] at ho'
    show (delCore s k).1.sessions.any (·.1 = sd) = true
    rw [h3]
    by_cases hk : k' = k
    · simp [hk] at ho'
    · simp only [hk, if_false] at ho'; exact h.owner_alive sd k' ho'

/-- a range delete keeps the invariant (the callback runs for every record in the range) -/
theorem deleteRange_inv (s : SS) (lo hi : Key) (h : Inv s) : Inv (deleteRange s lo hi) := by
  constructor
  · intro sd k
    show (sd, k) ∈ s.shadows.filter (fun sh => !(inRange lo hi sh.2 && owner s sh.2 == some (some sh.1))) ↔
      ownerL (s.recs.filter (fun r => !inRange lo hi r.1)) k = some (some sd)
    rw [ownerL_filter s.recs (fun x => !inRange lo hi x) k]
    simp only [List.mem_filter, h.shadow_iff]
    by_cases hr : inRange lo hi k = true
    · simp only [hr, Bool.true_and, Bool.not_true, Bool.false_eq_true, if_false, reduceCtorEq, iff_false, not_and]
      intro ho; simp [ho]
    · simp only [hr, Bool.false_and, Bool.not_false, and_true, if_true]; rfl
  · intro sd k ho
    have ho' : ownerL (s.recs.filter (fun r => !inRange lo hi r.1)) k = some (some sd) := ho
    rw [ownerL_filter s.recs (fun x => !inRange lo hi x) k] at ho'
    by_cases hr : inRange lo hi k = true
    · simp [hr] at ho'
    · simp only [hr, Bool.not_false, if_true] at ho'
      exact h.owner_alive sd k ho'

theorem createSession_inv (s : SS) (t : Nat) (h : Inv s) : Inv (createSession s t).1 := by
  constructor
  · exact h.shadow_iff
  · intro sd k ho
    have := h.owner_alive sd k ho
    show ((s.next, t) :: s.sessions).any (·.1 = sd) = true
    simp only [List.any_cons, Bool.or_eq_true]
    exact .inr this

/-! ### the end of a session -/

theorem fold_delCore_spec (L : List Key) : ∀ (acc : SS),
    (∀ k, owner (L.foldl (fun a k => (delCore a k).1) acc) k = if k ∈ L then none else owner acc k) ∧
    (∀ x, x ∈ (L.foldl (fun a k => (delCore a k).1) acc).shadows ↔
      x ∈ acc.shadows ∧ ¬ (x.2 ∈ L ∧ owner acc x.2 = some (some x.1))) ∧
    (L.foldl (fun a k => (delCore a k).1) acc).sessions = acc.sessions ∧
    (L.foldl (fun a k => (delCore a k).1) acc).timers = acc.timers ∧
    (L.foldl (fun a k => (delCore a k).1) acc).now = acc.now := by
  induction L with
  | nil => intro acc; simp
  | cons k0 L ih =>
    intro acc
    obtain ⟨d1, d2, d3, d4, d5, _⟩ := delCore_spec acc k0
    obtain ⟨i1, i2, i3, i4, i5⟩ := ih (delCore acc k0).1
    simp only [List.foldl_cons]
    refine ⟨fun k => ?_, fun x => ?_, by rw [i3, d3], by rw [i4, d4], by rw [i5, d5]⟩
    · rw [i1, d1]
      by_cases hk : k = k0
      · subst hk; simp
      · by_cases hl : k ∈ L <;> simp [hk, hl]
    · rw [i2, d2, d1]
      by_cases hk : x.2 = k0
      · simp only [hk, true_and, if_true, reduceCtorEq, and_false, not_false_eq_true, and_true,
          List.mem_cons, true_or]
      · simp only [hk, false_and, not_false_eq_true, and_true, if_false, List.mem_cons, false_or]

theorem mem_listOwned (s : SS) (sid : SId) (k : Key) : k ∈ listOwned s sid ↔ (sid, k) ∈ s.shadows := by
  unfold listOwned
  simp only [List.mem_map, List.mem_filter, decide_eq_true_eq]
  constructor
  · rintro ⟨x, ⟨hx, h1⟩, h2⟩
    have : x = (sid, k) := by cases x; simp_all
    rw [← this]; exact hx
  · intro h; exact ⟨(sid, k), ⟨h, rfl⟩, rfl⟩

/-- **C14 (d)** when a session is closed or expires (and nothing happens between the listing and the write),
    exactly the records it owns at that moment are removed, together with the session itself and its
    shadows; no other record, session or shadow is touched; the invariant is kept. -/
theorem C14_end_session_exact (s : SS) (sid : SId) (h : Inv s) :
    (∀ k, owner (endSession s sid) k = if owner s k = some (some sid) then none else owner s k) ∧
    (∀ x, x ∈ (endSession s sid).shadows ↔ x ∈ s.shadows ∧ x.1 ≠ sid) ∧
    (endSession s sid).sessions = s.sessions.filter (·.1 ≠ sid) ∧
    Inv (endSession s sid) := by
  obtain ⟨f1, f2, f3, _, _⟩ := fold_delCore_spec (listOwned s sid) s
  have hown : ∀ k, owner (endSession s sid) k = if owner s k = some (some sid) then none else owner s k := by
    intro k
    show owner ((listOwned s sid).foldl (fun a k => (delCore a k).1) s) k = _
    simp only [f1, mem_listOwned, h.shadow_iff]
  have hsh : ∀ x, x ∈ (endSession s sid).shadows ↔ x ∈ s.shadows ∧ x.1 ≠ sid := by
    intro x
    show x ∈ (((listOwned s sid).foldl (fun a k => (delCore a k).1) s).shadows.filter (·.1 ≠ sid)) ↔ _
    simp only [List.mem_filter, f2, mem_listOwned, ne_eq, decide_not, Bool.not_eq_eq_eq_not, Bool.not_true,
      decide_eq_false_iff_not]
    constructor
    · rintro ⟨⟨h1, _⟩, h3⟩; exact ⟨h1, h3⟩
    · rintro ⟨h1, h3⟩
      refine ⟨⟨h1, ?_⟩, h3⟩
      rintro ⟨h4, h5⟩
      have := (h.shadow_iff sid x.2).1 h4
      rw [this] at h5
      simp only [Option.some.injEq] at h5
      exact h3 h5.symm
  have hse : (endSession s sid).sessions = s.sessions.filter (·.1 ≠ sid) := by
    show (((listOwned s sid).foldl (fun a k => (delCore a k).1) s).sessions.filter (·.1 ≠ sid)) = _
    rw [f3]
  refine ⟨hown, hsh, hse, ?_, ?_⟩
  · intro sd k
    rw [hsh (sd, k), hown k, h.shadow_iff]
    by_cases ho : owner s k = some (some sid)
    · simp only [ho, Option.some.injEq, if_true]
      constructor
      · rintro ⟨he, hn⟩; exact absurd he.symm hn
      · intro hc; simp at hc
    · simp only [ho, if_false]
      constructor
      · exact fun x => x.1
      · intro h1; exact ⟨h1, fun he => ho (by rw [h1, he])⟩
  · intro sd k ho
    rw [hown k] at ho
    by_cases ho2 : owner s k = some (some sid)
    · simp [ho2] at ho
    · simp only [ho2, if_false] at ho
      have ha := h.owner_alive sd k ho
      have hne : sd ≠ sid := fun he => ho2 (by rw [ho, he])
      show (endSession s sid).sessions.any (·.1 = sd) = true
      rw [hse]
      simp only [alive, List.any_eq_true, decide_eq_true_eq] at ha ⊢
      obtain ⟨x, hx, hx2⟩ := ha
      exact ⟨x, by simp [List.mem_filter, hx, hx2, hne], hx2⟩

theorem endSession_inv (s : SS) (sid : SId) (h : Inv s) : Inv (endSession s sid) := (C14_end_session_exact s sid h).2.2.2

/-- records that are not ephemerals of the ended session are untouched, in particular every plain record
    and every other session's records -/
theorem C14_end_session_touches_nothing_else (s : SS) (sid : SId) (h : Inv s) (k : Key)
    (hk : owner s k ≠ some (some sid)) : owner (endSession s sid) k = owner s k := by
  rw [(C14_end_session_exact s sid h).1 k]; simp [hk]

/-! ### the clock -/

theorem fold_endSession_inv (l : List SId) : ∀ s, Inv s → Inv (l.foldl endSession s) := by
  induction l with
  | nil => intro s h; exact h
  | cons x xs ih => intro s h; exact ih _ (endSession_inv s x h)

theorem advance_inv (s : SS) (dt : Nat) (h : Inv s) : Inv (advance s dt) := by
  unfold advance
  exact fold_endSession_inv _ _ ⟨h.shadow_iff, h.owner_alive⟩

theorem keepAlive_inv (s : SS) (sid : SId) (h : Inv s) : Inv (keepAlive s sid).1 := by
  unfold keepAlive
  split
  · exact h
  · exact ⟨h.shadow_iff, h.owner_alive⟩

theorem leaderChange_inv (s : SS) (h : Inv s) : Inv (leaderChange s) := ⟨h.shadow_iff, h.owner_alive⟩

/-- **C14 (e)** the clock ends a session only when its timer has fired -/
theorem C14_expiry_only_after_deadline (s : SS) (sid : SId) (h : sid ∈ expired s) :
    ∃ d, (sid, d) ∈ s.timers ∧ d ≤ s.now := by
  unfold expired at h
  have h' := (List.mem_mergeSort).1 h
  simp only [List.mem_map, List.mem_filter, decide_eq_true_eq] at h'
  obtain ⟨x, ⟨hx, hd⟩, hx2⟩ := h'
  exact ⟨x.2, by rw [← hx2]; exact hx, hd⟩

/-- every way a timer is (re)armed gives the session a full timeout from the current time:
    creation, a heartbeat, and a leader change (which arms one for *every* session of the database) -/
theorem C14_create_arms_full_timeout (s : SS) (t : Nat) :
    ((createSession s t).2, s.now + t) ∈ (createSession s t).1.timers := by
  simp [createSession]

theorem C14_heartbeat_rearms_full_timeout (s : SS) (sid : SId) (h : (keepAlive s sid).2 = true) :
    ∃ t, (sid, s.now + t) ∈ (keepAlive s sid).1.timers ∧
      (∀ d, (sid, d) ∈ (keepAlive s sid).1.timers → d = s.now + t) ∧
      ((s.sessions.find? (·.1 = sid)).map (·.2)).getD 0 = t := by
  unfold keepAlive at h ⊢
  cases hf : s.timers.find? (·.1 = sid) with
  | none => simp [hf] at h
  | some x =>
    simp only []
    refine ⟨_, List.mem_cons_self, fun d hd => ?_, rfl⟩
    simp only [List.mem_cons, Prod.mk.injEq, List.mem_filter, ne_eq, decide_not, Bool.not_eq_eq_eq_not,
      Bool.not_true, decide_eq_false_iff_not] at hd
    rcases hd with hd | hd
    · exact hd.2
    · exact absurd trivial hd.2

theorem C14_leader_change_keeps_sessions_and_rearms (s : SS) :
    (leaderChange s).recs = s.recs ∧ (leaderChange s).sessions = s.sessions ∧ (leaderChange s).shadows = s.shadows ∧
    (∀ sid t, (sid, t) ∈ s.sessions → (sid, s.now + t) ∈ (leaderChange s).timers) ∧
    (∀ sid d, (sid, d) ∈ (leaderChange s).timers → ∃ t, (sid, t) ∈ s.sessions ∧ d = s.now + t) := by
  refine ⟨rfl, rfl, rfl, fun sid t h => ?_, fun sid d h => ?_⟩
  · simp only [leaderChange, List.mem_map]
    exact ⟨(sid, t), h, rfl⟩
  · simp only [leaderChange, List.mem_map] at h
    obtain ⟨x, hx, he⟩ := h
    simp only [Prod.mk.injEq] at he
    exact ⟨x.2, by rw [← he.1]; exact hx, he.2.symm⟩

/-! ### every reachable state -/

inductive Op
  | put (k : Key) (sid : Option SId)
  | delete (k : Key)
  | deleteRange (lo hi : Key)
  | createSession (timeout : Nat)
  | keepAlive (sid : SId)
  | closeSession (sid : SId)
  | advance (dt : Nat)
  | leaderChange
  deriving Repr

def step (s : SS) : Op → SS
  | .put k sid => (put Facts.sessionShadowPutBeforeDelete s k sid).1
  | .delete k => (delete s k).1
  | .deleteRange lo hi => deleteRange s lo hi
  | .createSession t => (createSession s t).1
  | .keepAlive sid => (keepAlive s sid).1
  | .closeSession sid => if s.timers.any (·.1 = sid) then endSession s sid else s
  | .advance dt => advance s dt
  | .leaderChange => leaderChange s

theorem C14_on_tree : Facts.sessionShadowPutBeforeDelete = false ∧ Facts.sessionInitializeRearmsAllSessions = true ∧
    Facts.sessionCallbackOnEveryRangeDeletedKey = true ∧ Facts.sessionExpiryRunsCleanup = true := by decide

/-- the shadow key of an ephemeral record is escaped when written and unescaped with the inverse function when the
    session ends (the model treats the shadow index as a set of record keys) -/
theorem C14_on_tree_escape : Facts.sessionShadowKeyEscapeRoundTrips = true := by decide

/-- **C14 (f)** the invariant holds in every state reachable by any interleaving of client writes, session
    creation, heartbeats, close, expiry and leader changes (close/expiry with nothing between listing and write) -/
theorem C14_invariant_reachable (ops : List Op) : Inv (ops.foldl step SS.init) := by
  suffices h : ∀ s, Inv s → Inv (ops.foldl step s) from h _ inv_init
  induction ops with
  | nil => intro s h; exact h
  | cons op rest ih =>
    intro s h
    apply ih
    cases op with
    | put k sid => simp only [step]; rw [C14_on_tree.1]; exact put_inv s k sid h
    | delete k => exact delete_inv s k h
    | deleteRange lo hi => exact deleteRange_inv s lo hi h
    | createSession t => exact createSession_inv s t h
    | keepAlive sid => exact keepAlive_inv s sid h
    | closeSession sid =>
      simp only [step]
      split
      · exact endSession_inv s sid h
      · exact h
    | advance dt => exact advance_inv s dt h
    | leaderChange => exact leaderChange_inv s h

/-! ### what goes wrong -/

/-- the real `session.delete` lists first and writes later. If another client takes a key over in between,
    the unconditional delete of the listed key removes a record the session no longer owns (known finding
    D-34): session 0 owns `a`; listing; a plain put of `a`; the cleanup write — the plain record is gone. -/
theorem C14_close_race_counterexample :
    let s0 := (put false (createSession SS.init 10).1 [97] (some 0)).1
    let listed := listOwned s0 0
    let s1 := (put false s0 [97] none).1
    owner s1 [97] = some none ∧ owner (cleanupWrite s1 0 listed) [97] = none := by decide

/-- the seeded variant (new shadow written before the old one is deleted) loses the shadow when a session
    rewrites its own key: the record then survives the session -/
theorem C14_shadow_first_counterexample :
    let s0 := (put true (createSession SS.init 10).1 [97] (some 0)).1
    let s1 := (put true s0 [97] (some 0)).1
    hasShadow s1 0 [97] = false ∧ owner (endSession s1 0) [97] = some (some 0) := by decide

end Oxia.C14
