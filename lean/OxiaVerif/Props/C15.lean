import OxiaVerif.Model.Db
import OxiaVerif.Lemmas.SKV
import OxiaVerif.Facts

/-!
# C15 — Secondary indexes mirror live records exactly; queries stay inside one index

Model: `Db.onPut` / `onDeleteEntry` (index entries written and removed together with the record, in the
same batch), `Db.indexList`, `Db.indexGetKeys` (the iterator loop of `doSecondaryGet`), tied to
`server/secondary_indexes.go` by differential runs (programs with 2–4 order-adjacent index names,
records moved between indexes, comparison gets at and beyond both edges of every index).

Proved:
* `C15_get_stays_in_index`: with the two facts read from `doSecondaryGet` (positions outside
  `__oxia/idx/<name>/` are rejected; running off the key space means not-found) every record a
  comparison get returns comes from an index key of the requested index — for every store, every
  key and all five comparison types.  Counterexample without the first fact: defect D-21.
* `C15_path_escape_roundtrip`: the primary key stored in an index key is recovered exactly
  (`url.PathUnescape ∘ url.PathEscape = id`), for every byte string.
`_partial`: exactness of the index content ("entries = pairs declared by the live records") is checked on
the real code by the harness oracle after every write; it is not a theorem yet.
-/
namespace Oxia.C15
open Oxia.Key Oxia.SKV Oxia.Db

/-- what it means that a `(pk, sk)` answer comes from an entry of index `name` -/
def FromIndex (keys : Array Key) (name pk sk : Key) : Prop :=
  ∃ k ∈ keys.toList, (idxRangePrefix name []).isPrefixOf k = true ∧
    ∃ epk, parseIdxKey k = some (sk, epk) ∧ pathUnescape epk = some pk

theorem idxGetLoop_stays (keys : Array Key) (name key : Key) (c : Cmp) (fuel : Nat) (i : Int) (pk0 sk0 pk sk : Key)
    (h0 : pk0 = [] ∨ FromIndex keys name pk0 sk0)
    (h : idxGetLoop true true keys name key c fuel i pk0 sk0 = .found pk sk) :
    FromIndex keys name pk sk := by
  induction fuel generalizing i pk0 sk0 with
  | zero =>
    unfold idxGetLoop at h
    split at h
    · simp at h
    · simp at h
      obtain ⟨rfl, rfl⟩ := h
      rcases h0 with h0 | h0
      · rename_i hne; simp [h0] at hne
      · exact h0
  | succ f ih =>
    unfold idxGetLoop at h
    split at h
    · simp at h
    · rename_i hin
      simp only [Bool.true_and] at h
      split at h
      · -- outside the index
        split at h
        · exact ih _ _ _ (.inl rfl) h
        · simp at h
      · rename_i hpre
        simp at hpre
        have hmem : keys[i.toNat]! ∈ keys.toList := by
          have hlt : i.toNat < keys.size := by omega
          simp [getElem!_pos, hlt]
        -- the parse of the current key
        cases hp : parseIdxKey keys[i.toNat]! with
        | none =>
          rw [hp] at h
          simp only at h
          -- pk' = [] in every branch
          cases c <;> simp at h
          all_goals first
            | exact ih _ _ _ (.inl rfl) h
            | (split at h <;> first | exact ih _ _ _ (.inl rfl) h | simp at h)
        | some p =>
          obtain ⟨sk', epk⟩ := p
          rw [hp] at h
          simp only at h
          cases hu : pathUnescape epk with
          | none => rw [hu] at h; simp at h
          | some pk' =>
            rw [hu] at h
            simp only [Option.map_some] at h
            have hfrom : FromIndex keys name pk' sk' := ⟨_, hmem, by simpa using hpre, epk, hp, hu⟩
            cases c <;> simp only at h
            · -- equal
              split at h
              · simp at h
              · simp at h; obtain ⟨rfl, rfl⟩ := h; exact hfrom
            · -- floor
              split at h
              · exact ih _ _ _ (.inr hfrom) h
              · simp at h; obtain ⟨rfl, rfl⟩ := h; exact hfrom
            · -- ceiling
              split at h
              · simp at h
              · simp at h; obtain ⟨rfl, rfl⟩ := h; exact hfrom
            · -- lower
              split at h
              · exact ih _ _ _ (.inr hfrom) h
              · split at h
                · simp at h
                · simp at h; obtain ⟨rfl, rfl⟩ := h; exact hfrom
            · -- higher
              split at h
              · exact ih _ _ _ (.inr hfrom) h
              · split at h
                · simp at h
                · simp at h; obtain ⟨rfl, rfl⟩ := h; exact hfrom

/-- **queries stay inside one index** -/
theorem C15_get_stays_in_index (db : Db) (name key : Key) (c : Cmp) (pk sk : Key)
    (h : indexGetKeys true true db name key c = .found pk sk) :
    FromIndex (SKV.keys db.store).toArray name pk sk := by
  unfold indexGetKeys at h
  exact idxGetLoop_stays _ _ _ _ _ _ _ _ _ _ (.inl rfl) h

/-- on the current tree both facts hold -/
theorem C15_on_tree : Facts.secondaryGetChecksIndexName = true ∧ Facts.secondaryGetEndOfKeySpaceSafe = true ∧
    Facts.secondaryIndexRegexAllowsEmptyKey = true := by decide

/-- an index entry with an empty secondary key is stored by the write path; it parses again (fixed D-52:
    with `[^\x01]+` in the regular expression the list / range-scan iterator panicked on it) -/
theorem C15_empty_secondary_key_parses :
    parseIdxKey (idxKey [105] [] [120]) = some ([], pathEscape [120]) := by decide

/-- without the index-name check a CEILING past the last entry of index `i` returns a record of `j`
    (defect D-21; the same witness is replayed on the real code from `corpus/C15`) -/
theorem C15_counterexample_without_check :
    let db : Db := { store := [(idxKey [105] [98] [120], .raw []), (idxKey [106] [97] [121], .raw [])],
                     tracker := 1, notificationsEnabled := false }
    indexGetKeys false true db [105] [99] .ceiling = .found [121] [97] := by decide

/-! ### the primary key survives the index key encoding -/

theorem unhex_hexDigitUpper (d : Nat) (h : d < 16) : unhex (hexDigitUpper d) = some d := by
  unfold unhex hexDigitUpper
  by_cases h10 : d < 10
  · simp [h10]; omega
  · simp [h10]
    have h1 : ¬ (55 + d ≤ 57) := by omega
    have h2 : ¬ (97 ≤ 55 + d) := by omega
    simp [h1, h2]
    omega

theorem pathSafe_ne_percent (b : Nat) (h : pathSafe b = true) : b ≠ 37 := by
  intro hb; subst hb; simp [pathSafe] at h

theorem pu_pct (a b x y : Nat) (rest r : Key) (hx : unhex a = some x) (hy : unhex b = some y)
    (hr : pathUnescape rest = some r) : pathUnescape (37 :: a :: b :: rest) = some ((x * 16 + y) :: r) := by
  rw [pathUnescape]; simp [hx, hy, hr]

theorem pu_other (c : Nat) (rest : Key) (h : c ≠ 37) :
    pathUnescape (c :: rest) = (pathUnescape rest).map (c :: ·) := by
  rw [pathUnescape] <;> intros <;> simp_all

/-- `url.PathUnescape (url.PathEscape k) = k` for every byte string -/
theorem C15_path_escape_roundtrip (k : Key) (hb : ∀ x ∈ k, x < 256) : pathUnescape (pathEscape k) = some k := by
  induction k with
  | nil => simp [pathEscape, pathUnescape]
  | cons b bs ih =>
    have ihb := ih (fun x hx => hb x (by simp [hx]))
    have hbb : b < 256 := hb b (by simp)
    unfold pathEscape at *
    simp only [List.flatMap_cons]
    by_cases hs : pathSafe b = true
    · simp only [hs, if_true, List.singleton_append]
      rw [pu_other _ _ (pathSafe_ne_percent b hs), ihb]; rfl
    · simp only [hs, Bool.false_eq_true, if_false]
      simp only [List.cons_append, List.nil_append]
      rw [pu_pct _ _ _ _ _ _ (unhex_hexDigitUpper (b / 16) (by omega)) (unhex_hexDigitUpper (b % 16) (by omega)) ihb]
      simp
      omega

-- non-vacuity: the index key of a record parses back to its secondary key and escaped primary key
example : parseIdxKey (idxKey [105] [97, 47, 98] [47, 120]) = some ([97, 47, 98], pathEscape [47, 120]) := by decide

end Oxia.C15
