import OxiaVerif.Model.Db
import OxiaVerif.Model.OverrideChannel
import OxiaVerif.Facts

/-!
# C16 — Sequence keys are fresh, strictly increasing and computed exactly

Model: `Db.generateKey` / `genKeyLoop` / `lastSequenceParts` (`server/kv/db_sequences.go`), tied to the code by
differential runs (several sequence puts per batch, mixed with plain puts and deletes of the current
maximum, deltas up to 2^64-1, neighbouring keys under the prefix), and `OverrideChannel` for the
subscriber side (`common/channel/override_channel.go`, tied by a fact about the shape of `WriteLast`).

Proved:
* `C16_key_arithmetic`: the generated key is the prefix followed, for each delta, by `-` and the
  20-digit decimal of (existing suffix, or 0 where there is none) + delta, computed in `uint64`.
* `C16_first_delta_must_be_positive`.
* `C16_subscriber_sees_latest`: for every interleaving of writer steps and receiver steps, once a
  `WriteLast(v)` call has returned, `v` (or a later value) is what the subscriber has received last
  or will receive next — given the fact that the inner `default:` of `WriteLast` continues the loop.
  `C16_counterexample_inner_default_returns`: without that fact a value is lost.
`_partial` / known findings: "strictly greater than every existing key of the prefix" and "never
overwrites" do **not** hold on the current tree when suffix + delta exceeds 2^64-1 (D-17) or when a
non-sequence key lives under the prefix and sorts above the sequence keys (D-29): the harness
oracle reports both as known findings with replays; that numeric order equals key order for
fixed-width decimals is covered by the C11 order laws plus correspondence, not by a theorem here.
Liveness ("eventually") is proved in its safety form only; fair scheduling is assumed.
-/
namespace Oxia.C16
open Oxia.Key Oxia.Db

def U64 : Nat := 18446744073709551616

/-- `vals` are the suffix values the new key is computed from: the numeric suffixes of the currently
    highest key of the prefix (position by position), and 0 where it has none -/
def LastVals (parts : List Key) : Nat → List Nat → List Nat → Prop
  | _, [], [] => True
  | idx, _ :: ds, v :: vs =>
    (if h : idx < parts.length then scanUint parts[idx] else some 0) = some v ∧ LastVals parts (idx + 1) ds vs
  | _, _, _ => False

/-- the expected suffixes: `-%020d` of `(last + delta) mod 2^64` -/
def suffixes : List Nat → List Nat → Key
  | l :: ls, d :: ds => [dash] ++ fmt020d ((l + d) % U64) ++ suffixes ls ds
  | _, _ => []

theorem genKeyLoop_spec (parts : List Key) (idx : Nat) (ds : List Nat) (acc : Key) (vals : List Nat)
    (hv : LastVals parts idx ds vals) (h0 : idx = 0 → ds.head? ≠ some 0) :
    genKeyLoop parts idx ds acc = .ok (acc ++ suffixes vals ds) := by
  induction ds generalizing idx acc vals with
  | nil =>
    cases vals with
    | nil => simp [genKeyLoop, suffixes]
    | cons v vs => simp [LastVals] at hv
  | cons d ds ih =>
    cases vals with
    | nil => simp [LastVals] at hv
    | cons v vs =>
      obtain ⟨hl, hrest⟩ := hv
      unfold genKeyLoop
      have hne : ¬ (idx = 0 ∧ d = 0) := by
        intro ⟨hi, hd⟩; exact h0 hi (by simp [hd])
      simp only [hne, if_false, hl]
      rw [ih (idx + 1) _ vs hrest (by omega)]
      simp [suffixes, U64, List.append_assoc]

/-- **exact computation** of the generated key -/
theorem C16_key_arithmetic (parts : List Key) (deltas : List Nat) (pfx : Key) (vals : List Nat)
    (hv : LastVals parts 0 deltas vals) (h0 : deltas.head? ≠ some 0) :
    genKeyLoop parts 0 deltas pfx = .ok (pfx ++ suffixes vals deltas) :=
  genKeyLoop_spec parts 0 deltas pfx vals hv (fun _ => h0)

theorem C16_first_delta_must_be_positive (parts : List Key) (ds : List Nat) (pfx : Key) :
    genKeyLoop parts 0 (0 :: ds) pfx = .error .sequenceDeltaIsZero := by
  simp [genKeyLoop]

/-! ### the subscriber side -/

open Oxia.OverrideChannel in
/-- the property of a state: no call in progress ⇒ the last completed value is the one visible -/
def Good (s : St) : Prop := s.pc = .idle → s.written = [] ∨ latestVisible s = s.written.getLast?

open Oxia.OverrideChannel in
theorem step_good (s : St) (a : Act) (hs : Good s) : Good (step true s a) := by
  intro hidle
  cases a with
  | call v =>
    simp only [step] at hidle ⊢
    split at hidle
    · simp at hidle
    · rename_i hne; simp only [hne, if_false]; exact hs hidle
  | writerStep =>
    simp only [step] at hidle ⊢
    cases hpc : s.pc with
    | idle => simp only [hpc] at hidle ⊢; exact hs hpc
    | trySend =>
      simp only [hpc] at hidle ⊢
      cases hb : s.buf with
      | none => right; simp [latestVisible]
      | some x => simp [hb] at hidle
    | tryDrain =>
      simp only [hpc] at hidle ⊢
      cases hb : s.buf with
      | none => simp [hb] at hidle
      | some x => simp [hb] at hidle
  | recv =>
    simp only [step] at hidle ⊢
    cases hb : s.buf with
    | none => simp only [hb] at hidle ⊢; exact hs hidle
    | some x =>
      simp only [hb] at hidle ⊢
      rcases hs hidle with h | h
      · exact .inl h
      · right
        simp [latestVisible, hb] at h ⊢
        exact h

open Oxia.OverrideChannel in
/-- **the subscriber sees the latest key**: for every interleaving of writer steps and receiver steps,
    whenever no `WriteLast` call is in progress, the value of the last completed call is what the
    subscriber has received last or will receive next. -/
theorem C16_subscriber_sees_latest (acts : List Act) : Good (run true acts) := by
  unfold run
  suffices h : ∀ (s : St), Good s → Good (acts.foldl (step true) s) from h init (fun _ => .inl rfl)
  induction acts with
  | nil => intro s hs; exact hs
  | cons a as ih => intro s hs; exact ih _ (step_good s a hs)

open Oxia.OverrideChannel in
/-- if the inner `default:` returned instead of continuing, a value would be lost: buffer full,
    writer fails to send, receiver drains, writer finds nothing to drain and gives up -/
theorem C16_counterexample_inner_default_returns :
    let s := run false [.call 1, .writerStep, .call 2, .writerStep, .recv, .writerStep]
    s.pc = .idle ∧ s.written.getLast? = some 2 ∧ latestVisible s = some 1 := by decide

/-- the shape of `WriteLast` on the current tree -/
theorem C16_on_tree : Facts.overrideChannelInnerDefaultContinues = true ∧
    Facts.sequenceUpdateOnlyOnSuccess = true ∧ Facts.sequenceSubscriptionInitialValueDoesNotOverride = true := by decide

-- non-vacuity: a schedule in which the receiver runs between the failed send and the drain
example : (Oxia.OverrideChannel.run true [.call 1, .writerStep, .call 2, .writerStep, .recv, .writerStep, .writerStep]).written = [1, 2] := by decide
example : (match genKeyLoop [str "00000000000000000007"] 0 [3, 1] (str "p") with | .ok k => k | .error _ => []) =
    str "p-00000000000000000010-00000000000000000001" := by decide

end Oxia.C16
