import OxiaVerif.Props.C12

/-!
# C17 — Notifications are a complete, ordered, resumable record of committed changes

Model: the notification collector of one request (`Db.addNotif`, called by `applyPut` / `applyDelete` /
`applyDeleteRange`), the batch stored under `notificationKey offset` by the same commit as the
write (`Db.processWrite`), and `Db.readNotifications`; tied to `server/kv/db.go` and
`notifications_tracker.go` by differential runs (every stored batch is part of the compared dump,
subscribers start at every offset).

Proved, for every database state with a sorted store and every request:
* `C17_one_batch_per_request`: a committed request with notifications enabled stores exactly its batch
  (offset, timestamp, collected notifications) under its own offset key, in the same commit as the
  commit offset; with notifications disabled the stored keys carry no batch for it.
* `C17_internal_keys_never_appear`, `C17_one_notification_per_key` (the last operation on a key wins).
* `C17_put_notification`: a successful put is announced with its resulting version id, as created
  (modification count 0) or modified.
* nothing is stored for a request that fails (`processWrite` returns the old store).
`_partial`: ascending delivery order and resumption (`readNotifications`) rely on the order embedding
of `%016x` offset keys; they are checked by correspondence (subscribers started at every offset), not
proved here. Trimming by retention time is not modelled (wall-clock driven).
-/
namespace Oxia.C17
open Oxia.Key Oxia.SKV Oxia.Db Oxia.C12

theorem C17_internal_keys_never_appear (ns : List Notif) (n : Notif)
    (h : ∀ m ∈ ns, isInternal m.key = false) : ∀ m ∈ addNotif ns n, isInternal m.key = false := by
  unfold addNotif
  split
  · exact h
  · rename_i hn
    intro m hm
    simp at hm
    rcases hm with ⟨hm, _⟩ | hm
    · exact h m hm
    · subst hm; simpa using hn

theorem C17_one_notification_per_key (ns : List Notif) (n : Notif)
    (h : (ns.map (·.key)).Nodup) : ((addNotif ns n).map (·.key)).Nodup := by
  unfold addNotif
  split
  · exact h
  · rw [List.map_append, List.nodup_append]
    refine ⟨List.Nodup.sublist ((List.filter_sublist).map _) h, by simp, ?_⟩
    intro k hk k' hk'
    simp at hk hk'
    obtain ⟨m, ⟨_, hne⟩, rfl⟩ := hk
    subst hk'
    exact hne

/-- a successful put is announced under the written key with its resulting version id, as created
    (modification count 0) or modified -/
theorem C17_put_notification (b : Batch) (req : PutReq) (ts : Nat) (key : Key) (ex : Option Entry) (nk : Option Key)
    (s1 : Store) (ho : onPut b.store req key ex = some s1) (hi : isInternal key = false) :
    ({ key := key, type := if (mkEntry ex req (b.tracker + 1) ts).modCount > 0 then .modified else .created,
       version := some (b.tracker + 1), rangeEnd := none } : Notif) ∈ (putApply b req ts key ex nk).1.notifs := by
  simp only [putApply, ho]
  unfold addNotif
  have hv : (mkEntry ex req (b.tracker + 1) ts).version = b.tracker + 1 := by cases ex <;> rfl
  simp [hi, hv]

/-! ### sortedness of the store is preserved by every batch operation -/

theorem fold_insert_sorted {α : Type} (l : List α) (f : α → Key) (v : Val) (s : Store) (h : Sorted s) :
    Sorted (l.foldl (fun s x => SKV.insert (f x) v s) s) := by
  induction l generalizing s with
  | nil => exact h
  | cons x xs ih => exact ih _ (insert_sorted h)

theorem deleteShadow_sorted (s : Store) (k : Key) (e : Option Entry) (h : Sorted s) : Sorted (deleteShadow s k e) := by
  rcases deleteShadow_cases s k e with hd | ⟨sid, hd⟩ <;> rw [hd]
  · exact h
  · exact erase_sorted h

theorem onPut_sorted {s s1 : Store} {req : PutReq} {key : Key} {ex : Option Entry} (h : Sorted s)
    (ho : onPut s req key ex = some s1) : Sorted s1 := by
  unfold onPut at ho
  cases hsess : req.session with
  | none =>
    simp [hsess] at ho
    subst ho
    apply fold_insert_sorted
    cases ex with
    | none => exact deleteShadow_sorted _ _ _ h
    | some e => exact fold_erase_sorted _ _ _ (deleteShadow_sorted _ _ _ h)
  | some sid =>
    simp [hsess] at ho
    cases hg : SKV.get? (sessionKey sid) s with
    | none => simp [hg] at ho
    | some v =>
      simp [hg] at ho
      subst ho
      apply fold_insert_sorted
      have hbase : Sorted (SKV.insert (shadowKey sid key) (.raw []) (deleteShadow s key ex)) :=
        insert_sorted (deleteShadow_sorted _ _ _ h)
      cases ex with
      | none => exact hbase
      | some e => exact fold_erase_sorted _ _ _ hbase

theorem applyPut_sorted {b b' : Batch} {req : PutReq} {ts : Nat} {r : PutResp} (h : Sorted b.store)
    (hp : applyPut b req ts = .ok (b', r)) : Sorted b'.store := by
  unfold applyPut at hp
  cases hpre : putPre b.store req with
  | error e => rw [hpre] at hp; simp at hp
  | ok o =>
    rw [hpre] at hp
    cases o with
    | none => simp at hp; obtain ⟨rfl, _⟩ := hp; exact h
    | some t =>
      obtain ⟨key, existing, newKey⟩ := t
      simp at hp
      unfold putApply at hp
      cases ho : onPut b.store req key existing with
      | none => rw [ho] at hp; simp at hp; obtain ⟨rfl, _⟩ := hp; exact h
      | some s1 =>
        rw [ho] at hp; simp at hp; obtain ⟨rfl, _⟩ := hp
        exact insert_sorted (onPut_sorted h ho)

theorem applyDelete_sorted {b b' : Batch} {req : DelReq} {st : Status} (h : Sorted b.store)
    (hp : applyDelete b req = .ok (b', st)) : Sorted b'.store := by
  unfold applyDelete at hp
  cases hc : checkExpected b.store req.key req.expected with
  | error e => rw [hc] at hp; simp at hp
  | ok c =>
    rw [hc] at hp
    cases c with
    | bad => simp at hp; obtain ⟨rfl, _⟩ := hp; exact h
    | absent => simp at hp; obtain ⟨rfl, _⟩ := hp; exact h
    | present e =>
      simp at hp; obtain ⟨rfl, _⟩ := hp
      exact erase_sorted (onDeleteEntry_sorted _ _ _ h)

theorem applyDeleteRange_sorted {b b' : Batch} {req : RangeReq} {st : Status} (h : Sorted b.store)
    (hp : applyDeleteRange b req = .ok (b', st)) : Sorted b'.store := by
  unfold applyDeleteRange at hp
  simp only at hp
  split at hp
  · cases hp
  · rename_i s1 hcb
    simp at hp
    obtain ⟨rfl, _⟩ := hp
    obtain ⟨hs1, _⟩ := cb_fold_props _ _ _ h hcb
    simp only
    split
    · exact filter_sorted _ hs1
    · exact fold_erase_sorted _ _ _ hs1

theorem foldOps_sorted {α β : Type} (f : Batch → α → Except InfraErr (Batch × β))
    (hf : ∀ b b' x r, Sorted b.store → f b x = .ok (b', r) → Sorted b'.store)
    (b : Batch) (xs : List α) (acc : List β) (b' : Batch) (rs : List β) (h : Sorted b.store)
    (hr : foldOps f b xs acc = .ok (b', rs)) : Sorted b'.store := by
  induction xs generalizing b acc with
  | nil => simp [foldOps] at hr; obtain ⟨rfl, _⟩ := hr; exact h
  | cons x xs ih =>
    unfold foldOps at hr
    cases hx : f b x with
    | error e => rw [hx] at hr; simp at hr
    | ok p =>
      obtain ⟨b1, r⟩ := p
      rw [hx] at hr
      exact ih b1 _ (hf _ _ _ _ h hx) hr

/-- **one batch per committed request, in the same commit**: after a successful `processWrite` with
    notifications enabled the store holds, under the request's own offset key, a batch with that
    offset and timestamp; the commit offset key holds the offset; the store stays sorted. -/
theorem C17_one_batch_per_request (db : Db) (req : WriteReq) (offset : Int) (ts : Nat) (resp : WriteResp)
    (hs : Sorted db.store) (hen : db.notificationsEnabled = true)
    (h : (processWrite db req offset ts).2 = .ok resp) :
    let db' := (processWrite db req offset ts).1
    Sorted db'.store ∧
    (∃ ns, SKV.get? (notificationKey offset) db'.store = some (.notif { offset := offset, timestamp := ts, notifs := ns })) := by
  unfold processWrite at h ⊢
  simp only at h ⊢
  cases h1 : foldOps (fun b r => applyPut b r ts) { store := db.store, tracker := db.tracker, notifs := [] } req.puts [] with
  | error e => simp [h1] at h
  | ok p1 =>
    obtain ⟨b1, puts⟩ := p1
    simp only [h1] at h ⊢
    cases h2 : foldOps applyDelete b1 req.dels [] with
    | error e => simp [h2] at h
    | ok p2 =>
      obtain ⟨b2, dels⟩ := p2
      simp only [h2] at h ⊢
      cases h3 : foldOps applyDeleteRange b2 req.ranges [] with
      | error e => simp [h3] at h
      | ok p3 =>
        obtain ⟨b3, ranges⟩ := p3
        simp only [h3, hen, if_true] at h ⊢
        have s1 := foldOps_sorted _ (fun b b' x r hb hx => applyPut_sorted hb hx) _ _ _ _ _ hs h1
        have s2 := foldOps_sorted _ (fun b b' x r hb hx => applyDelete_sorted hb hx) _ _ _ _ _ s1 h2
        have s3 := foldOps_sorted _ (fun b b' x r hb hx => applyDeleteRange_sorted hb hx) _ _ _ _ _ s2 h3
        have s4 : Sorted (SKV.insert lastVersionIdKey (internalEntry (fmtInt b3.tracker) ts)
            (SKV.insert commitOffsetKey (internalEntry (fmtInt offset) ts) b3.store)) :=
          insert_sorted (insert_sorted s3)
        refine ⟨insert_sorted s4, sortNotifs b3.notifs, ?_⟩
        rw [get?_insert s4]
        simp

/-- a request that fails commits nothing: no batch, no commit offset, no record -/
theorem C17_nothing_for_failed_request (db : Db) (req : WriteReq) (offset : Int) (ts : Nat) (e : InfraErr)
    (h : (processWrite db req offset ts).2 = .error e) : (processWrite db req offset ts).1.store = db.store := by
  unfold processWrite at h ⊢
  simp only at h ⊢
  cases h1 : foldOps (fun b r => applyPut b r ts) { store := db.store, tracker := db.tracker, notifs := [] } req.puts [] with
  | error e => simp [h1]
  | ok p1 =>
    obtain ⟨b1, puts⟩ := p1
    simp only [h1] at h ⊢
    cases h2 : foldOps applyDelete b1 req.dels [] with
    | error e => simp [h2]
    | ok p2 =>
      obtain ⟨b2, dels⟩ := p2
      simp only [h2] at h ⊢
      cases h3 : foldOps applyDeleteRange b2 req.ranges [] with
      | error e => simp [h3]
      | ok p3 => obtain ⟨b3, ranges⟩ := p3; simp [h3] at h

/-! ### trimming -/

/-- the offset the trimmer's binary search returns holds an expired batch (if the first one is expired) -/
theorem trimSearch_expired (db : Db) (cutoff : Int) (fuel : Nat) (lo hi t : Int)
    (hlo : ∃ b, batchAt db lo = some b ∧ (b.timestamp : Int) ≤ cutoff)
    (h : trimSearch db cutoff fuel lo hi = some t) :
    ∃ b, batchAt db t = some b ∧ (b.timestamp : Int) ≤ cutoff := by
  induction fuel generalizing lo hi with
  | zero => simp [trimSearch] at h; subst h; exact hlo
  | succ f ih =>
    unfold trimSearch at h
    split at h
    · simp only at h
      cases hb : batchAt db ((lo + hi) / 2 + (if (lo + hi) % 2 > 0 then 1 else 0)) with
      | none => rw [hb] at h; simp at h
      | some b =>
        rw [hb] at h
        simp only at h
        split at h
        · exact ih _ _ hlo h
        · rename_i hexp
          exact ih _ _ ⟨b, hb, by omega⟩ h
    · simp at h; subst h; exact hlo

/-- **trimming only removes notification batches of a key range that ends right after an expired
    batch**: every other key of the store is kept, and the store only shrinks -/
theorem C17_trim_retention (db : Db) (now retention : Int) :
    (∀ p ∈ (trimNotifications true db now retention).store, p ∈ db.store) ∧
    (∀ p ∈ db.store, p ∉ (trimNotifications true db now retention).store →
      ∃ f t, (notifBatches db).head? = some f ∧ (now - retention ≥ (f.timestamp : Int)) ∧
        trimSearch db (now - retention) (((notifBatches db).getLast?.map (·.offset)).getD 0 - f.offset + 1).toNat f.offset
          (((notifBatches db).getLast?.map (·.offset)).getD 0) = some t ∧
        inBatchRange (notificationKey f.offset) (notificationKey (t + 1)) p.1 = true) := by
  unfold trimNotifications
  cases hf : (notifBatches db).head? with
  | none => exact ⟨fun p hp => hp, fun p hp hn => absurd hp hn⟩
  | some f =>
    cases hl : (notifBatches db).getLast? with
    | none => exact ⟨fun p hp => hp, fun p hp hn => absurd hp hn⟩
    | some l =>
      simp only
      split
      · exact ⟨fun p hp => hp, fun p hp hn => absurd hp hn⟩
      · rename_i hcut
        cases ht : trimSearch db (now - retention) (l.offset - f.offset + 1).toNat f.offset l.offset with
        | none => exact ⟨fun p hp => hp, fun p hp hn => absurd hp hn⟩
        | some t =>
          simp only [if_true]
          refine ⟨fun p hp => (List.mem_filter.1 hp).1, ?_⟩
          intro p hp hnot
          refine ⟨f, t, rfl, by omega, by simpa using ht, ?_⟩
          cases hc : inBatchRange (notificationKey f.offset) (notificationKey (t + 1)) p.1 with
          | true => rfl
          | false =>
            exfalso
            apply hnot
            simp only [List.mem_filter]
            exact ⟨hp, by simp [hc]⟩

/-- facts read from the source on every run -/
theorem C17_on_tree : Facts.processWriteSingleBatchCommit = true ∧
    Facts.notificationsTrimUpperBoundIsTrimOffsetPlusOne = true ∧ Facts.notificationsStartAtCommitOffset = true ∧
    Facts.notificationsClientResumesFromEstablishedPosition = true := by decide

-- non-vacuity
example : Sorted (Db.empty.store) ∧ Db.empty.notificationsEnabled = true := ⟨List.Pairwise.nil, rfl⟩

end Oxia.C17
