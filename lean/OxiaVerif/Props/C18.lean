import OxiaVerif.Lemmas.Shard
import OxiaVerif.Facts

/-!
# C18 — The shard map always partitions the hash space and routes every key to one shard

Model M-Shard (`Shard.generateShards`, `applyClusterChanges`, `published`, `route`, `update`), tied to
`common/sharding/shards.go`, `coordinator/utils/cluster_updates.go`, `coordinator.computeNewAssignments`
and the client's `shardManagerImpl` by differential runs (every shard count up to 4096 and sampled
ones up to 2^32-1; sequences of configuration changes; client update streams).
-/
namespace Oxia.C18
open Oxia.Shard

/-- **GenerateShards yields a partition** of `[0, 2^32)` with ids `base .. base+n-1`, for every shard
    count from 1 to 65536 (the bound is forced: see the counterexample below). -/
theorem C18_generate_partition (base : Int) (n : Nat) (h1 : 1 ≤ n) (h2 : n ≤ 65536) :
    ∃ l, generateShards base n = some l ∧ Partition l ∧ l.map (·.id) = (List.range n).map (fun (i : Nat) => base + (i : Int)) := by
  by_cases hn1 : n = 1
  · subst hn1
    refine ⟨_, rfl, ?_, rfl⟩
    simp [Partition, Contig, MaxU32, U32]
  · have h2' : 2 ≤ n := by omega
    refine ⟨_, generateShards_eq base n h2' h2, ?_, ?_⟩
    · unfold Partition
      rw [List.range_eq_range']
      apply contig_range base n _ (Nat.succ_le_succ (Nat.zero_le _)) (last_bucket_fits n h1 h2) h1 n 0 0 (by omega)
      have : (0 : Nat) ≠ n := by omega
      simp [this]
    · simp [shardAt, List.map_map, Function.comp_def]

/-- with 65537 shards the lower bound of the last shard wraps around to 0 (`i * bucketSize` in
    `uint32`): shard 65536 starts where shard 0 starts (defect D-19) -/
theorem C18_counterexample_65537 :
    (65536 * ((MaxU32 / 65537 + 1) % U32)) % U32 = 0 ∧ (0 * ((MaxU32 / 65537 + 1) % U32)) % U32 = 0 := by decide

/-- **every hash code is routed to exactly one shard** of a partition -/
theorem C18_route_unique (l : List Shard) (hp : Partition l) (h : Nat) (hh : h ≤ MaxU32) :
    ∃ s ∈ l, contains s h = true ∧ ∀ s' ∈ l, contains s' h = true → s' = s :=
  contig_unique hp h (Nat.zero_le _) hh

/-- the client's `Get` does not depend on the iteration order of its shard map -/
theorem C18_route_order_independent (l l' : List Shard) (hp : Partition l) (hperm : l'.Perm l) (h : Nat) (hh : h ≤ MaxU32) :
    route l' h = route l h ∧ (route l h).isSome := by
  obtain ⟨s, hs, hc, hu⟩ := C18_route_unique l hp h hh
  have h1 : l.find? (contains · h) = some s := find?_unique _ l s hs hc hu
  have h2 : l'.find? (contains · h) = some s :=
    find?_unique _ l' s (hperm.mem_iff.2 hs) hc (fun y hy hy' => hu y (hperm.mem_iff.1 hy) hy')
  simp [route, h1, h2]

/-- **the client's table equals the published partition after an update**: whatever (valid,
    non-overlapping) table the client had, after applying an assignment message that is a partition
    with stable shard ranges the table holds exactly the published shards — stale shards are evicted,
    so every key is routed to exactly one shard, the one the coordinator published. -/
theorem C18_client_update (m ups : List Shard) (hp : Partition ups)
    (hinj : ∀ a ∈ ups, ∀ b ∈ ups, a.id = b.id → a = b)
    (hstable : ∀ x ∈ ups, ∀ s ∈ m, s.id = x.id → s = x)
    (hv : ∀ s ∈ m, Valid s) (hd : Disj m) :
    ∀ s, s ∈ update m ups ↔ s ∈ ups := by
  have inv0 : UpdInv m ups [] m :=
    { disj := hd, origin := fun s hs => .inl hs, hasDone := (fun u hu => by cases hu),
      noOverlap := (fun s _ _ u hu => by cases hu) }
  have inv := update_inv m ups hp hinj hstable ups [] m (by simp) inv0
  intro s
  constructor
  · intro hs
    by_cases hin : s ∈ ups
    · exact hin
    · exfalso
      have hsm : s ∈ m := by
        rcases inv.origin s hs with h | h
        · exact h
        · exact absurd h hin
      obtain ⟨u, hu, hov⟩ := partition_covers hp s (hv s hsm)
      have := inv.noOverlap s hs hin u hu
      rw [this] at hov; cases hov
  · exact inv.hasDone s

/-- hence routing through the updated table is routing through the published partition -/
theorem C18_client_get_after_update (m ups : List Shard) (hp : Partition ups)
    (hinj : ∀ a ∈ ups, ∀ b ∈ ups, a.id = b.id → a = b)
    (hstable : ∀ x ∈ ups, ∀ s ∈ m, s.id = x.id → s = x)
    (hv : ∀ s ∈ m, Valid s) (hd : Disj m) (h : Nat) (hh : h ≤ MaxU32) :
    route (update m ups) h = route ups h ∧ (route ups h).isSome := by
  obtain ⟨s, hs, hc, hu⟩ := C18_route_unique ups hp h hh
  have hset := C18_client_update m ups hp hinj hstable hv hd
  have h1 : ups.find? (contains · h) = some s := find?_unique _ ups s hs hc hu
  have h2 : (update m ups).find? (contains · h) = some s :=
    find?_unique _ _ s ((hset s).2 hs) hc (fun y hy hy' => hu y ((hset y).1 hy) hy')
  simp [route, h1, h2]

/-! ### the coordinator's status under configuration changes -/

def allIds (st : ClusterStatus) : List Int := st.namespaces.flatMap (fun ns => ns.shards.map (·.id))

/-- a namespace is either being deleted as a whole or publishes a partition -/
def NsOk (ns : NsStatus) : Prop := (∀ s ∈ ns.shards, s.status = .deleting) ∨ Partition (published ns)

structure StatusInv (st : ClusterStatus) : Prop where
  below : ∀ i ∈ allIds st, i < st.gen
  unique : (allIds st).Nodup
  ns : ∀ n ∈ st.namespaces, NsOk n

def toMeta (ens : List Nat) (sh : Shard) : ShardMeta :=
  { id := sh.id, status := .unknown, ensemble := ens, min := sh.min, max := sh.max }

/-- what matters of a shard's metadata: id, range, status -/
def proj (m : ShardMeta) : Shard × ShardStatus := ({ id := m.id, min := m.min, max := m.max }, m.status)

/-- with a supplier that never fails every generated shard gets its metadata, in order -/
theorem fold_metas (sup : Supplier) (hs : ∀ nc st k, (sup nc st k).isSome) (cfg : ClusterConfig) (st : ClusterStatus) (nc : NsConfig)
    (shards : List Shard) (acc : List ShardMeta) (idx : Nat) :
    ((shards.foldl (fun (acc : List ShardMeta × Nat) sh =>
      match sup nc { st with serverIdx := acc.2 } (sh.id - st.gen).toNat with
      | none => acc
      | some ens =>
        (acc.1 ++ [{ id := sh.id, status := .unknown, ensemble := ens, min := sh.min, max := sh.max }],
         if cfg.servers = 0 then acc.2 else (acc.2 + nc.rf) % cfg.servers)) (acc, idx)).1.map proj) =
    acc.map proj ++ shards.map (fun sh => (sh, ShardStatus.unknown)) := by
  induction shards generalizing acc idx with
  | nil => simp
  | cons sh rest ih =>
    simp only [List.foldl]
    cases hsup : sup nc { st with serverIdx := idx } (sh.id - st.gen).toNat with
    | none => have := hs nc { st with serverIdx := idx } (sh.id - st.gen).toNat; rw [hsup] at this; cases this
    | some ens =>
      simp only [hsup]
      rw [ih]
      simp [proj]

/-- metadata list and generated shards agree position by position, all in status `unknown` -/
def Matches : List ShardMeta → List Shard → Prop
  | [], [] => True
  | m :: ms, sh :: shs => m.id = sh.id ∧ m.min = sh.min ∧ m.max = sh.max ∧ m.status = .unknown ∧ Matches ms shs
  | _, _ => False

theorem matches_append {a : List ShardMeta} {b : List Shard} {m : ShardMeta} {sh : Shard} (h : Matches a b)
    (hm : m.id = sh.id ∧ m.min = sh.min ∧ m.max = sh.max ∧ m.status = .unknown) : Matches (a ++ [m]) (b ++ [sh]) := by
  induction a generalizing b with
  | nil => cases b with
    | nil => exact ⟨hm.1, hm.2.1, hm.2.2.1, hm.2.2.2, trivial⟩
    | cons x xs => simp [Matches] at h
  | cons y ys ih => cases b with
    | nil => simp [Matches] at h
    | cons x xs =>
      obtain ⟨h1, h2, h3, h4, h5⟩ := h
      exact ⟨h1, h2, h3, h4, ih h5⟩

theorem fold_matches (sup : Supplier) (hs : ∀ nc st k, (sup nc st k).isSome) (cfg : ClusterConfig) (st : ClusterStatus) (nc : NsConfig)
    (shards : List Shard) (acc : List ShardMeta) (accS : List Shard) (idx : Nat) (hacc : Matches acc accS) :
    Matches (shards.foldl (fun (acc : List ShardMeta × Nat) sh =>
      match sup nc { st with serverIdx := acc.2 } (sh.id - st.gen).toNat with
      | none => acc
      | some ens =>
        (acc.1 ++ [{ id := sh.id, status := .unknown, ensemble := ens, min := sh.min, max := sh.max }],
         if cfg.servers = 0 then acc.2 else (acc.2 + nc.rf) % cfg.servers)) (acc, idx)).1 (accS ++ shards) := by
  induction shards generalizing acc accS idx with
  | nil => simpa using hacc
  | cons sh rest ih =>
    simp only [List.foldl]
    cases hsup : sup nc { st with serverIdx := idx } (sh.id - st.gen).toNat with
    | none => have := hs nc { st with serverIdx := idx } (sh.id - st.gen).toNat; rw [hsup] at this; cases this
    | some ens =>
      have := ih (acc ++ [{ id := sh.id, status := .unknown, ensemble := ens, min := sh.min, max := sh.max }]) (accS ++ [sh])
        (if cfg.servers = 0 then idx else (idx + nc.rf) % cfg.servers) (matches_append hacc ⟨rfl, rfl, rfl, rfl⟩)
      simpa using this

theorem matches_ids {a : List ShardMeta} {b : List Shard} (h : Matches a b) : a.map (·.id) = b.map (·.id) := by
  induction a generalizing b with
  | nil => cases b <;> simp [Matches] at h ⊢
  | cons y ys ih => cases b with
    | nil => simp [Matches] at h
    | cons x xs => obtain ⟨h1, _, _, _, h5⟩ := h; simp [h1, ih h5]

theorem matches_published {a : List ShardMeta} {b : List Shard} (h : Matches a b) :
    (a.filter (·.status ≠ .deleting)).map (fun s => ({ id := s.id, min := s.min, max := s.max } : Shard)) = b := by
  induction a generalizing b with
  | nil => cases b <;> simp [Matches] at h ⊢
  | cons y ys ih => cases b with
    | nil => simp [Matches] at h
    | cons x xs =>
      obtain ⟨h1, h2, h3, h4, h5⟩ := h
      have ih' := ih h5
      cases x
      simp_all [List.filter]

theorem allIds_append (st : ClusterStatus) (ns : NsStatus) :
    allIds { st with namespaces := st.namespaces ++ [ns] } = allIds st ++ ns.shards.map (·.id) := by
  simp [allIds]

/-- creating a namespace keeps the status invariant (supplier never fails, 1..65536 shards) -/
theorem newNamespace_inv (sup : Supplier) (hs : ∀ nc st k, (sup nc st k).isSome) (cfg : ClusterConfig)
    (st : ClusterStatus) (nc : NsConfig) (h1 : 1 ≤ nc.initialShardCount) (h2 : nc.initialShardCount ≤ 65536)
    (inv : StatusInv st) : StatusInv (newNamespace sup cfg st nc) ∧ st.gen ≤ (newNamespace sup cfg st nc).gen := by
  obtain ⟨shards, hgen, hpart, hids⟩ := C18_generate_partition st.gen nc.initialShardCount h1 h2
  unfold newNamespace
  rw [hgen]
  simp only
  have hm := fold_matches sup hs cfg st nc shards [] [] st.serverIdx trivial
  simp only [List.nil_append] at hm
  generalize (shards.foldl (fun (acc : List ShardMeta × Nat) sh =>
      match sup nc { st with serverIdx := acc.2 } (sh.id - st.gen).toNat with
      | none => acc
      | some ens =>
        (acc.1 ++ [{ id := sh.id, status := .unknown, ensemble := ens, min := sh.min, max := sh.max }],
         if cfg.servers = 0 then acc.2 else (acc.2 + nc.rf) % cfg.servers)) ([], st.serverIdx)) = res at hm ⊢
  obtain ⟨metas, idx⟩ := res
  simp only at hm ⊢
  have hnewids : metas.map (·.id) = (List.range nc.initialShardCount).map (fun (i : Nat) => st.gen + (i : Int)) := by
    rw [matches_ids hm, hids]
  refine ⟨⟨?_, ?_, ?_⟩, by show st.gen ≤ st.gen + (nc.initialShardCount : Int); omega⟩
  · intro i hi
    have : i ∈ allIds st ++ metas.map (·.id) := by
      have := allIds_append st { name := nc.name, shards := metas, rf := nc.rf }
      simp only [allIds] at this hi ⊢
      simpa using hi
    simp only [List.mem_append] at this
    rcases this with h | h
    · have := inv.below i h; simp; omega
    · rw [hnewids] at h
      simp at h
      obtain ⟨k, hk, rfl⟩ := h
      simp; omega
  · have : ∀ (g : Int) (i : Nat), allIds ⟨st.namespaces ++ [⟨nc.name, metas, nc.rf⟩], g, i⟩ =
        allIds st ++ metas.map (·.id) := by
      intro g i; simp [allIds]
    rw [this, hnewids, List.nodup_append]
    refine ⟨inv.unique, ?_, ?_⟩
    · exact List.Pairwise.map _ (fun a b (hab : a ≠ b) => by omega) List.nodup_range
    · intro a ha b hb
      simp at hb
      obtain ⟨k, _, rfl⟩ := hb
      have := inv.below a ha
      omega
  · intro n hn
    simp at hn
    rcases hn with hn | rfl
    · exact inv.ns n hn
    · right
      unfold published
      simp only
      rw [matches_published hm]
      exact hpart

def CfgOk (cfg : ClusterConfig) : Prop :=
  ∀ nc ∈ cfg.namespaces, 1 ≤ nc.initialShardCount ∧ nc.initialShardCount ≤ 65536

theorem fold_new_inv (sup : Supplier) (hs : ∀ nc st k, (sup nc st k).isSome) (cfg : ClusterConfig) (st0 : ClusterStatus)
    (l : List NsConfig) (hl : ∀ nc ∈ l, 1 ≤ nc.initialShardCount ∧ nc.initialShardCount ≤ 65536)
    (acc : ClusterStatus) (inv : StatusInv acc) :
    StatusInv (l.foldl (fun acc nc =>
      if st0.namespaces.any (·.name = nc.name) then acc else newNamespace sup cfg acc nc) acc) ∧
    acc.gen ≤ (l.foldl (fun acc nc =>
      if st0.namespaces.any (·.name = nc.name) then acc else newNamespace sup cfg acc nc) acc).gen := by
  induction l generalizing acc with
  | nil => exact ⟨inv, Int.le_refl _⟩
  | cons nc rest ih =>
    simp only [List.foldl]
    have hrest : ∀ nc ∈ rest, 1 ≤ nc.initialShardCount ∧ nc.initialShardCount ≤ 65536 :=
      fun x hx => hl x (by simp [hx])
    split
    · exact ih hrest acc inv
    · obtain ⟨h1, h2⟩ := hl nc (by simp)
      obtain ⟨inv', hg⟩ := newNamespace_inv sup hs cfg acc nc h1 h2 inv
      obtain ⟨i1, i2⟩ := ih hrest _ inv'
      exact ⟨i1, Int.le_trans hg i2⟩

theorem mark_inv (st : ClusterStatus) (p : NsStatus → Bool) (inv : StatusInv st) :
    StatusInv { st with namespaces := markDeleting p st.namespaces } := by
  have hids : allIds { st with namespaces := markDeleting p st.namespaces } = allIds st := by
    simp only [allIds, markDeleting, List.flatMap_map]
    congr 1
    funext ns
    split <;> simp [List.map_map, Function.comp_def]
  refine ⟨?_, ?_, ?_⟩
  · rw [hids]; exact inv.below
  · rw [hids]; exact inv.unique
  · intro n hn
    simp [markDeleting] at hn
    obtain ⟨ns, hns, rfl⟩ := hn
    split
    · left
      intro s hs
      simp at hs
      obtain ⟨_, _, rfl⟩ := hs
      rfl
    · exact inv.ns ns hns

/-- one configuration change keeps the invariant and never moves the id generator backwards -/
theorem applyClusterChanges_inv (sup : Supplier) (hs : ∀ nc st k, (sup nc st k).isSome) (cfg : ClusterConfig)
    (hc : CfgOk cfg) (st : ClusterStatus) (inv : StatusInv st) :
    StatusInv (applyClusterChanges sup cfg st) ∧ st.gen ≤ (applyClusterChanges sup cfg st).gen := by
  unfold applyClusterChanges
  obtain ⟨i1, i2⟩ := fold_new_inv sup hs cfg st cfg.namespaces hc st inv
  exact ⟨mark_inv _ _ i1, i2⟩

/-- **the status invariant over any sequence of configuration changes**: shard ids are unique and
    below the generator (hence never reused: the generator never decreases), and every namespace
    either is being deleted as a whole or publishes a partition of the hash space — provided the
    ensemble supplier does not fail (see known finding D-20 for what happens when it does) and shard
    counts are within 1..65536. -/
theorem C18_status_invariant (sup : Supplier) (hs : ∀ nc st k, (sup nc st k).isSome) (cfgs : List ClusterConfig)
    (hc : ∀ cfg ∈ cfgs, CfgOk cfg) (st : ClusterStatus) (inv : StatusInv st) :
    StatusInv (cfgs.foldl (fun st cfg => applyClusterChanges sup cfg st) st) ∧
    st.gen ≤ (cfgs.foldl (fun st cfg => applyClusterChanges sup cfg st) st).gen := by
  induction cfgs generalizing st with
  | nil => exact ⟨inv, Int.le_refl _⟩
  | cons cfg rest ih =>
    simp only [List.foldl]
    obtain ⟨i1, i2⟩ := applyClusterChanges_inv sup hs cfg (hc cfg (by simp)) st inv
    obtain ⟨j1, j2⟩ := ih (fun c hcm => hc c (by simp [hcm])) _ i1
    exact ⟨j1, Int.le_trans i2 j2⟩

theorem C18_initial_status_inv : StatusInv { namespaces := [], gen := 0, serverIdx := 0 } :=
  ⟨by simp [allIds], by simp [allIds], by simp⟩

/-- a supplier that fails leaves a hole: the namespace is stored without that shard and what is
    published is not a partition (fact `applyClusterChangesSkipsFailedShards`; defect D-20) -/
theorem C18_counterexample_failing_supplier :
    let sup : Supplier := fun _ st _ => if st.serverIdx = 0 then none else some [1]
    let st := applyClusterChanges sup { namespaces := [{ name := 1, initialShardCount := 2, rf := 1 }], servers := 2 }
      { namespaces := [], gen := 0, serverIdx := 1 }
    st.namespaces.map published = [[{ id := 0, min := 0, max := 2147483647 }]] := by decide

-- non-vacuity
example : ∃ l, generateShards 5 3 = some l ∧ Partition l := ⟨_, rfl, by decide⟩

end Oxia.C18

namespace Oxia.C18
/-- facts read from the source on every run: the published assignments are all shards that are not
    being deleted, and `GenerateShards` has the shape that `Shard.generateShards` models -/
theorem C18_on_tree : Facts.assignmentsPublishAllButDeleting = true ∧ Facts.generateShardsShape32 = true := by decide
end Oxia.C18
