import OxiaVerif.Props.C18

/-!
C18, shard ids: "shard ids are unique and never reused" - for **every** ensemble supplier, also one that fails for
some shards of a namespace and not for others (the real supplier looks at the cluster as it is at that moment), for
every configuration (any shard count), over any sequence of configuration changes.

`StatusInv` of `Props/C18.lean` needs a supplier that never fails, because a failing one leaves a hole in the hash
space (known finding D-20). The part about the ids does not: a skipped shard's id is simply never used, because the
id generator advances by the *configured* shard count, not by the number of shards created.
-/
namespace Oxia.C18
open Oxia.Shard

structure IdInv (st : ClusterStatus) : Prop where
  below : ∀ i ∈ allIds st, i < st.gen
  unique : (allIds st).Nodup

theorem generateShards_ids (base : Int) (n : Nat) (shards : List Shard) (h : generateShards base n = some shards) :
    shards.map (·.id) = (List.range n).map (fun (i : Nat) => base + (i : Int)) := by
  unfold generateShards at h
  split at h
  · cases h
  · simp only [Option.some.injEq] at h
    subst h
    simp [List.map_map, Function.comp_def]

/-- the shards that get their metadata are a sublist of the generated ones, whatever the supplier does -/
theorem fold_ids_sublist (sup : Supplier) (cfg : ClusterConfig) (st : ClusterStatus) (nc : NsConfig)
    (shards : List Shard) : ∀ (acc : List ShardMeta) (idx : Nat),
    ∃ sub, List.Sublist sub (shards.map (·.id)) ∧
      ((shards.foldl (fun (acc : List ShardMeta × Nat) sh =>
        match sup nc { st with serverIdx := acc.2 } (sh.id - st.gen).toNat with
        | none => acc
        | some ens =>
          (acc.1 ++ [{ id := sh.id, status := .unknown, ensemble := ens, min := sh.min, max := sh.max }],
           if cfg.servers = 0 then acc.2 else (acc.2 + nc.rf) % cfg.servers)) (acc, idx)).1.map (·.id)) = acc.map (·.id) ++ sub := by
  induction shards with
  | nil => intro acc idx; exact ⟨[], List.Sublist.refl _, by simp⟩
  | cons sh rest ih =>
    intro acc idx
    simp only [List.foldl, List.map_cons]
    cases hsup : sup nc { st with serverIdx := idx } (sh.id - st.gen).toNat with
    | none =>
      simp only
      obtain ⟨sub, h1, h2⟩ := ih acc idx
      exact ⟨sub, List.Sublist.cons _ h1, h2⟩
    | some ens =>
      simp only
      obtain ⟨sub, h1, h2⟩ := ih (acc ++ [{ id := sh.id, status := .unknown, ensemble := ens, min := sh.min, max := sh.max }])
        (if cfg.servers = 0 then idx else (idx + nc.rf) % cfg.servers)
      exact ⟨sh.id :: sub, List.Sublist.cons_cons _ h1, by rw [h2]; simp⟩

theorem newNamespace_idInv (sup : Supplier) (cfg : ClusterConfig) (st : ClusterStatus) (nc : NsConfig) (inv : IdInv st) :
    IdInv (newNamespace sup cfg st nc) ∧ st.gen ≤ (newNamespace sup cfg st nc).gen := by
  unfold newNamespace
  cases hgen : generateShards st.gen nc.initialShardCount with
  | none => exact ⟨inv, Int.le_refl _⟩
  | some shards =>
    simp only
    have hids := generateShards_ids st.gen nc.initialShardCount shards hgen
    obtain ⟨sub, hsub, hfold⟩ := fold_ids_sublist sup cfg st nc shards [] st.serverIdx
    simp only [List.map_nil, List.nil_append] at hfold
    generalize (shards.foldl (fun (acc : List ShardMeta × Nat) sh =>
        match sup nc { st with serverIdx := acc.2 } (sh.id - st.gen).toNat with
        | none => acc
        | some ens =>
          (acc.1 ++ [{ id := sh.id, status := .unknown, ensemble := ens, min := sh.min, max := sh.max }],
           if cfg.servers = 0 then acc.2 else (acc.2 + nc.rf) % cfg.servers)) ([], st.serverIdx)) = res at hfold ⊢
    obtain ⟨metas, idx⟩ := res
    simp only at hfold ⊢
    rw [hids] at hsub
    have hall : ∀ (g : Int) (i : Nat), allIds ⟨st.namespaces ++ [⟨nc.name, metas, nc.rf⟩], g, i⟩ = allIds st ++ sub := by
      intro g i; simp [allIds, hfold]
    have hsubmem : ∀ a ∈ sub, st.gen ≤ a ∧ a < st.gen + (nc.initialShardCount : Int) := by
      intro a ha
      have := hsub.subset ha
      simp at this
      obtain ⟨k, hk, rfl⟩ := this
      omega
    refine ⟨⟨?_, ?_⟩, by show st.gen ≤ st.gen + (nc.initialShardCount : Int); omega⟩
    · intro i hi
      rw [hall] at hi
      simp only [List.mem_append] at hi
      rcases hi with h | h
      · have := inv.below i h; show i < st.gen + (nc.initialShardCount : Int); omega
      · exact (hsubmem i h).2
    · rw [hall, List.nodup_append]
      refine ⟨inv.unique, ?_, ?_⟩
      · exact List.Nodup.sublist hsub (List.Pairwise.map _ (fun a b (hab : a ≠ b) => by omega) List.nodup_range)
      · intro a ha b hb
        have h1 := inv.below a ha
        have h2 := (hsubmem b hb).1
        omega

theorem allIds_mark (st : ClusterStatus) (p : NsStatus → Bool) :
    allIds { st with namespaces := markDeleting p st.namespaces } = allIds st := by
  unfold allIds markDeleting
  simp only [List.flatMap_map]
  congr 1
  funext ns
  by_cases h : p ns = true <;> simp [h, List.map_map, Function.comp_def]

theorem applyClusterChanges_idInv (sup : Supplier) (cfg : ClusterConfig) (st : ClusterStatus) (inv : IdInv st) :
    IdInv (applyClusterChanges sup cfg st) ∧ st.gen ≤ (applyClusterChanges sup cfg st).gen := by
  unfold applyClusterChanges
  simp only
  have hfold : ∀ (l : List NsConfig) (acc : ClusterStatus), IdInv acc →
      IdInv (l.foldl (fun acc nc => if st.namespaces.any (·.name = nc.name) then acc else newNamespace sup cfg acc nc) acc) ∧
      acc.gen ≤ (l.foldl (fun acc nc => if st.namespaces.any (·.name = nc.name) then acc else newNamespace sup cfg acc nc) acc).gen := by
    intro l
    induction l with
    | nil => intro acc h; exact ⟨h, Int.le_refl _⟩
    | cons nc rest ih =>
      intro acc h
      simp only [List.foldl]
      by_cases hex : st.namespaces.any (·.name = nc.name) = true
      · simp only [hex, if_true]; exact ih acc h
      · simp only [hex]
        obtain ⟨i1, i2⟩ := newNamespace_idInv sup cfg acc nc h
        obtain ⟨j1, j2⟩ := ih _ i1
        exact ⟨j1, Int.le_trans i2 j2⟩
  obtain ⟨i1, i2⟩ := hfold cfg.namespaces st inv
  refine ⟨⟨?_, ?_⟩, i2⟩
  · intro i hi
    rw [allIds_mark] at hi
    exact i1.below i hi
  · rw [allIds_mark]
    exact i1.unique

/-- **Shard ids are unique, below the generator, and the generator never goes back** - after any sequence of
    configuration changes, for every supplier (failing when and where it likes) and every configuration. Since an
    id is only ever handed out at the generator's value or above, no id is handed out twice. -/
theorem C18_shard_ids_unique_for_any_supplier (sup : Supplier) (cfgs : List ClusterConfig) (st : ClusterStatus) (inv : IdInv st) :
    IdInv (cfgs.foldl (fun st cfg => applyClusterChanges sup cfg st) st) ∧
    st.gen ≤ (cfgs.foldl (fun st cfg => applyClusterChanges sup cfg st) st).gen := by
  induction cfgs generalizing st with
  | nil => exact ⟨inv, Int.le_refl _⟩
  | cons cfg rest ih =>
    simp only [List.foldl]
    obtain ⟨i1, i2⟩ := applyClusterChanges_idInv sup cfg st inv
    obtain ⟨j1, j2⟩ := ih _ i1
    exact ⟨j1, Int.le_trans i2 j2⟩

theorem C18_empty_status_idInv : IdInv { namespaces := [], gen := 0, serverIdx := 0 } := ⟨by simp [allIds], by simp [allIds]⟩

/-- a supplier that fails for the second of three shards: ids 0 and 2 are used, the generator is at 3, the next
    namespace starts at 3 -/
theorem C18_partial_failure_demo :
    let sup : Supplier := fun _ _ k => if k = 1 then none else some [0]
    let st := applyClusterChanges sup { namespaces := [{ name := 1, initialShardCount := 3, rf := 1 }], servers := 2 }
      { namespaces := [], gen := 0, serverIdx := 0 }
    let st2 := applyClusterChanges sup { namespaces := [{ name := 1, initialShardCount := 3, rf := 1 }, { name := 2, initialShardCount := 2, rf := 1 }], servers := 2 } st
    allIds st = [0, 2] ∧ st.gen = 3 ∧ allIds st2 = [0, 2, 3] ∧ st2.gen = 5 := by decide

end Oxia.C18
